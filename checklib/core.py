"""Shared machinery of /verif/bin/check (DESIGN.md §3.6).

Every invocation:
  1. regenerates the Lean model parts that are translated from /repo (tie T1),
  2. builds the property's Lean modules (re-proving every theorem against the
     regenerated definitions) and audits the axioms they depend on,
  3. builds the Go harness against /repo's working tree (tag `verif`),
  4. runs the correspondence streams (tie T2) and the property-level search,
  5. writes /verif/evidence/<id>.json and exits 0 / 1.
"""
import fcntl
import hashlib
import json
import os
import re
import subprocess
import sys
import time

VERIF = "/verif"
REPO = "/repo"
LEAN = f"{VERIF}/lean"
WORK = f"{VERIF}/.work"
GEN = f"{LEAN}/MajoranaVerif/Gen"
REPLAYS = f"{VERIF}/replays"
EVID = f"{VERIF}/evidence"
ALLOWED_AXIOMS = {"propext", "Classical.choice", "Quot.sound"}
FORBIDDEN = re.compile(r"\bsorry\b|\badmit\b|^axiom |native_decide|bv_decide|implemented_by|unsafe |maxHeartbeats 0")

GOENV = dict(os.environ, GOFLAGS="-mod=mod", GOPROXY="off", GOSUMDB="off", GOTOOLCHAIN="local")


def sh(cmd, cwd=None, env=None, timeout=None, stdin=None):
    p = subprocess.run(cmd, cwd=cwd, env=env, timeout=timeout, stdin=stdin,
                       stdout=subprocess.PIPE, stderr=subprocess.STDOUT, text=True)
    return p.returncode, p.stdout


class Lock:
    """One build at a time: lake, the Go build and Gen/ are shared state."""

    def __enter__(self):
        os.makedirs(WORK, exist_ok=True)
        self.f = open(f"{WORK}/lock", "w")
        fcntl.flock(self.f, fcntl.LOCK_EX)
        return self

    def __exit__(self, *a):
        fcntl.flock(self.f, fcntl.LOCK_UN)
        self.f.close()


class Check:
    def __init__(self, pid, tier, seed):
        self.pid = pid
        self.tier = tier
        self.seed = seed
        self.t0 = time.time()
        self.violations = []       # (replay_path, no_failing_input)
        self.known = []            # KNOWN-FINDING lines
        self.broken = []           # names of obligations / correspondences that no longer check
        self.cov = {"obligations": 0, "discharged": 0, "checker_cmd": "", "trusted_base": [],
                    "evaluations": 0, "distinct_nontrivial": 0, "rule": "", "samples": [],
                    "traces_validated_against_impl": 0}
        self.assumptions = []
        self.notes = []
        os.makedirs(WORK, exist_ok=True)
        os.makedirs(REPLAYS, exist_ok=True)
        os.makedirs(EVID, exist_ok=True)

    # ---------------------------------------------------------------- tie T1
    def regenerate(self):
        """Delete and regenerate Gen/*.lean and facts.json from /repo. Returns None or an error text."""
        os.makedirs(f"{WORK}/bin", exist_ok=True)
        rc, out = sh(["go", "build", "-o", f"{WORK}/bin/extract", "./cmd/extract"], cwd=f"{VERIF}/go", env=GOENV)
        if rc != 0:
            raise SystemExit(f"internal error: cannot build the extractor:\n{out}")
        # regenerate into a scratch directory, then make Gen/ identical to it (files that are no
        # longer produced are deleted, changed ones replaced): same result as delete-and-rewrite,
        # without a window in which a concurrent build sees no Gen/ at all
        tmp = f"{WORK}/gen_tmp_{os.getpid()}"
        import shutil
        shutil.rmtree(tmp, ignore_errors=True)
        os.makedirs(tmp)
        os.makedirs(GEN, exist_ok=True)
        rc, out = sh([f"{WORK}/bin/extract", "-repo", REPO, "-out", tmp, "-facts", f"{WORK}/facts.json"], env=GOENV)
        if rc != 0:
            shutil.rmtree(tmp, ignore_errors=True)
            for f in os.listdir(GEN):
                if f.endswith(".lean"):
                    os.remove(os.path.join(GEN, f))   # no stale model may survive a broken tie
            return out.strip()
        fresh = set(os.listdir(tmp))
        for f in os.listdir(GEN):
            if f.endswith(".lean") and f not in fresh:
                os.remove(os.path.join(GEN, f))
        for f in fresh:
            new = open(os.path.join(tmp, f)).read()
            dst = os.path.join(GEN, f)
            if not os.path.exists(dst) or open(dst).read() != new:
                os.replace(os.path.join(tmp, f), dst)
        shutil.rmtree(tmp, ignore_errors=True)
        return None

    # ------------------------------------------------------------ Lean build
    def lake_build(self, targets):
        """Builds targets; returns (ok, output)."""
        rc, out = sh(["lake", "build"] + targets, cwd=LEAN, timeout=3000)
        return rc == 0, out

    def theorems_of(self, module):
        """(namespace-qualified theorem names, source) of a Props module."""
        path = f"{LEAN}/" + module.replace(".", "/") + ".lean"
        src = open(path).read()
        ns = module.replace("MajoranaVerif.", "")
        names = re.findall(r"^theorem\s+([A-Za-z0-9_'.]+)", src, flags=re.M)
        return [f"{ns}.{n}" for n in names], src, path

    def failing_theorems(self, module, build_out):
        """Map `file:line:col: error` lines of a failed build to the enclosing theorem names."""
        names, src, path = self.theorems_of(module)
        rel = module.replace(".", "/") + ".lean"
        lines = src.split("\n")
        bad = set()
        for m in re.finditer(re.escape(rel) + r":(\d+):\d+:\s*error", build_out):
            ln = int(m.group(1))
            cur = None
            for i in range(min(ln, len(lines))):
                mm = re.match(r"^(theorem|example|def|macro|lemma)\s+([A-Za-z0-9_'.]+)?", lines[i])
                if mm:
                    cur = mm.group(2) or f"example@{i+1}"
            bad.add(cur or f"line {ln}")
        return sorted(bad)

    def audit(self, modules):
        """#print axioms for every theorem of the given Props modules. Returns list of
        (theorem, axioms) and records obligations/discharged."""
        allnames = []
        for m in modules:
            names, src, path = self.theorems_of(m)
            allnames += names
            for i, line in enumerate(src.split("\n")):
                code = line.split("--")[0]
                if FORBIDDEN.search(code):
                    self.broken.append(f"{path}:{i+1}: forbidden construct: {line.strip()}")
        audit_path = f"{WORK}/Audit_{self.pid}.lean"
        with open(audit_path, "w") as f:
            for m in modules:
                f.write(f"import {m}\n")
            for n in allnames:
                f.write(f"#print axioms {n}\n")
        rc, out = sh(["lake", "env", "lean", audit_path], cwd=LEAN, timeout=1200)
        res = {}
        for m in re.finditer(r"'([^']+)' depends on axioms: \[([^\]]*)\]", out.replace("\n", " ")):
            res[m.group(1)] = [a.strip() for a in m.group(2).split(",") if a.strip()]
        for m in re.finditer(r"'([^']+)' does not depend on any axioms", out):
            res[m.group(1)] = []
        self.cov["obligations"] += len(allnames)
        for n in allnames:
            if n not in res:
                self.broken.append(f"theorem {n}: not checked (missing from the audit output)")
            elif set(res[n]) - ALLOWED_AXIOMS:
                self.broken.append(f"theorem {n}: depends on disallowed axioms {sorted(set(res[n]) - ALLOWED_AXIOMS)}")
            else:
                self.cov["discharged"] += 1
        self.cov["axioms_used"] = sorted({a for v in res.values() for a in v})
        return res

    def scan_sources(self, files):
        for path in files:
            for i, line in enumerate(open(path).read().split("\n")):
                code = line.split("--")[0]
                if FORBIDDEN.search(code):
                    self.broken.append(f"{path}:{i+1}: forbidden construct: {line.strip()}")

    def leanchecker(self, modules):
        rc, out = sh(["lake", "env", "leanchecker"] + modules, cwd=LEAN, timeout=3000)
        if rc != 0:
            self.broken.append("leanchecker rejected " + " ".join(modules) + ": " + out[-400:])
        return rc == 0

    # ------------------------------------------------------------- Go harness
    def build_harness(self):
        rc, out = sh(["go", "build", "-tags", "verif", "-o", f"{WORK}/bin/harness", "./cmd/harness"],
                     cwd=f"{VERIF}/go", env=GOENV, timeout=900)
        return rc == 0, out

    def run_stream(self, stream, extra_args=None, timeout=3000, driver=True, exe="driver"):
        """Runs the Go harness stream, then (driver=True) the Lean driver on its .in file.
        Returns (in_lines, go_lines, lean_lines)."""
        d = f"{WORK}/streams/{self.pid}"
        os.makedirs(d, exist_ok=True)
        for ext in ("in", "go", "lean"):
            try:
                os.remove(f"{d}/{stream}.{ext}")
            except FileNotFoundError:
                pass
        args = [f"{WORK}/bin/harness", "-out", d, "-seed", str(self.seed), "-tier", self.tier] + (extra_args or []) + [stream]
        rc, out = sh(args, env=dict(GOENV, GOMAXPROCS=str(os.cpu_count() or 4)), timeout=timeout)
        if rc != 0:
            raise RuntimeError(f"harness stream {stream} failed (rc={rc}): {out[-2000:]}")
        if not driver:
            return (open(f"{d}/{stream}.in").read().splitlines(), open(f"{d}/{stream}.go").read().splitlines(), [])
        if exe == "driver" and stream.startswith("cpu-"):
            # every line of a whole-CPU stream is an independent case (the driver keeps no state between `run` lines): the
            # input is cut into contiguous shards, one driver process per shard, outputs concatenated in order
            lines = open(f"{d}/{stream}.in").read().splitlines(keepends=True)
            n = max(1, min(os.cpu_count() or 4, 16, len(lines) // 8 or 1))
            size = (len(lines) + n - 1) // n
            procs = []
            for k in range(n):
                part = lines[k * size:(k + 1) * size]
                if not part:
                    continue
                with open(f"{d}/{stream}.in.{k}", "w") as f:
                    f.writelines(part)
                fin = open(f"{d}/{stream}.in.{k}")
                fout = open(f"{d}/{stream}.lean.{k}", "w")
                procs.append((k, fin, fout, subprocess.Popen([f"{LEAN}/.lake/build/bin/{exe}"], stdin=fin, stdout=fout, stderr=subprocess.PIPE, text=True)))
            errs = []
            for k, fin, fout, p in procs:
                try:
                    _, err = p.communicate(timeout=timeout)
                except subprocess.TimeoutExpired:
                    p.kill()
                    err = "timeout"
                fin.close()
                fout.close()
                if p.returncode != 0:
                    errs.append(err or f"exit {p.returncode}")
            with open(f"{d}/{stream}.lean", "w") as out:
                for k, _, _, _ in procs:
                    out.write(open(f"{d}/{stream}.lean.{k}").read())
                    os.remove(f"{d}/{stream}.lean.{k}")
                    os.remove(f"{d}/{stream}.in.{k}")
            if errs:
                raise RuntimeError(f"Lean driver failed on stream {stream}: {errs[0][-2000:]}")
        else:
            with open(f"{d}/{stream}.in") as fin, open(f"{d}/{stream}.lean", "w") as fout:
                p = subprocess.run([f"{LEAN}/.lake/build/bin/{exe}"], stdin=fin, stdout=fout, stderr=subprocess.PIPE, text=True, timeout=timeout)
            if p.returncode != 0:
                raise RuntimeError(f"Lean driver failed on stream {stream}: {p.stderr[-2000:]}")
        return (open(f"{d}/{stream}.in").read().splitlines(),
                open(f"{d}/{stream}.go").read().splitlines(),
                open(f"{d}/{stream}.lean").read().splitlines())

    # --------------------------------------------------------------- results
    def replay_file(self, payload):
        h = hashlib.sha1(json.dumps(payload, sort_keys=True).encode()).hexdigest()[:12]
        path = f"{REPLAYS}/{self.pid}-{h}.json"
        with open(path, "w") as f:
            json.dump(payload, f, indent=1)
        return path

    def violation(self, payload, no_input=False):
        payload = dict(payload, property=self.pid, tier=self.tier, seed=self.seed)
        path = self.replay_file(payload)
        self.violations.append((path, no_input))

    def finish(self, level="proof"):
        wall = time.time() - self.t0
        # a broken obligation / correspondence with no concrete failing input found
        if self.broken and not any(not n for _, n in self.violations):
            self.violation({"kind": "obligation-or-correspondence-no-longer-checks", "broken": self.broken[:50],
                            "note": "no concrete failing input was found by the search; the property is no longer shown to hold"},
                           no_input=True)
        for line in self.known:
            print(line)
        for path, no_input in self.violations:
            print(f"VIOLATION property={self.pid} replay={path}" + (" no-failing-input-found" if no_input else ""))
        cov = dict(self.cov)
        if not cov.get("rule"):
            cov["rule"] = "see explanation"
        cov["samples"] = cov["samples"][:8] or ["(no samples)"]
        cov["broken"] = self.broken[:50]
        if level == "proof" and cov.get("discharged", 0) < 1:
            # nothing discharged (a failing run): keep the counts under other names so the file
            # still validates through the schema's exploration-style fallback keys
            cov["obligations_total"] = cov.pop("obligations")
            cov["obligations_discharged"] = cov.pop("discharged")
            cov["evaluations"] = max(cov["evaluations"], 1)
            cov["distinct_nontrivial"] = max(cov["distinct_nontrivial"], 2)
        ev = {"property_id": self.pid, "tier": self.tier, "seed": self.seed, "level": level,
              "coverage": cov, "assumptions": self.assumptions, "wall_s": round(wall, 2),
              "violations": len(self.violations), "notes": self.notes}
        # a replay is not a check run: it must not overwrite the evidence of the last check
        with open(f"{WORK}/replay-evidence-{self.pid}.json" if getattr(self, "is_replay", False) else f"{EVID}/{self.pid}.json", "w") as f:
            json.dump(ev, f, indent=1)
        status = "VIOLATIONS" if self.violations else "ok"
        print(f"[{self.pid}] tier={self.tier} seed={self.seed} obligations={cov.get('obligations', cov.get('obligations_total'))} discharged={cov.get('discharged', 0)} "
              f"evaluations={cov['evaluations']} wall={wall:.1f}s -> {status}")
        sys.exit(1 if self.violations else 0)


TRUSTED_COMMON = [
    "Lean 4.33.0 kernel (thorough: re-checked with leanchecker)",
    "axioms allowed: propext, Classical.choice, Quot.sound — the audit rejects anything else (sorryAx, native_decide, bv_decide axioms, user axioms)",
    "verif/go/cmd/extract (Go->Lean translator) and lean/MajoranaVerif/Model/GoInt.lean (Go integer semantics) — cross-checked every run by executing the generated definitions against the real Go functions",
    "Go harness, Lean driver, line protocol and canonical rendering (verif/go/cmd/harness, lean/MajoranaVerif/Driver)",
    "lean/MajoranaVerif/Spec/* (ISA semantics and sequential machine): what the properties are taken to mean",
]

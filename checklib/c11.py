"""C11 — the assembler front end is total and resolves labels to the right instruction (DESIGN §4, C11).

Two independent judgements on every input of the c11 stream:

* correspondence (tie T2a): the Go parser's canonical output equals the Lean model's, line by line;
* the property-level oracle, on the GO output alone and with its own (Python) reading of the text:
  a panic is a violation; for accepted text the instruction count equals the number of instruction
  lines found by an independent three-line classifier, every label maps to 4 x (instruction lines
  before its last definition), instruction lines in canonical form decode to the named registers /
  decimal immediates, and a layout-edited copy of a text parses to exactly what the text parses to.
"""
import json
import os
import re
import subprocess
from collections import Counter, defaultdict

from .core import Lock, TRUSTED_COMMON, WORK, GOENV

MODS = ["MajoranaVerif.Props.C11"]
DRIVER = "driver_c11"

# ---------------------------------------------------------------- independent reading of the text

# unicode.IsSpace of Go 1.23 (White_Space property); the check compares this table with the running
# Go's (`tab` line of the stream) and with the model's.
GO_SPACE_CPS = [9, 10, 11, 12, 13, 32, 0x85, 0xA0, 0x1680] + list(range(0x2000, 0x200B)) + [0x2028, 0x2029, 0x202F, 0x205F, 0x3000]
GO_SPACES = "".join(chr(c) for c in GO_SPACE_CPS)
GO_LOWER_TO_ASCII = [(c, c + 32) for c in range(65, 91)] + [(0x130, 105), (0x212A, 107)]
EXPECTED_TAB = ("tab spaces=" + ",".join(str(c) for c in GO_SPACE_CPS) +
                " lower=" + ",".join(f"{a}:{b}" for a, b in GO_LOWER_TO_ASCII))


def go_trim(b: bytes) -> bytes:
    """strings.TrimSpace on a byte string that need not be UTF-8."""
    return b.decode("utf-8", "surrogateescape").strip(GO_SPACES).encode("utf-8", "surrogateescape")


def classify(raw: bytes):
    """('skip',) | ('label', name) | ('instr', trimmed line) — the three-line reading of the property."""
    t = go_trim(raw)
    if not t or t[:1] == b"#":
        return ("skip",)
    if b" " not in t and t.endswith(b":"):
        return ("label", t[:-1])
    return ("instr", t)


REGS = ["zero", "ra", "sp", "gp", "tp", "t0", "t1", "t2", "s0", "s1", "a0", "a1", "a2", "a3", "a4", "a5",
        "a6", "a7", "s2", "s3", "s4", "s5", "s6", "s7", "s8", "s9", "s10", "s11", "t3", "t4", "t5", "t6"]
REGNO = {n.encode(): i for i, n in enumerate(REGS)}
REGNO.update({b"$" + n.encode(): i for i, n in enumerate(REGS)})
# operand syntax -> Go struct field, per mnemonic (the assembler's role mapping; cf. Spec/Asm.lean)
R3 = ["rd", "rs1", "rs2"]
SHAPES = {}
for m in "add and div mul or rem sll slt sltu sra srl sub xor".split():
    SHAPES[m] = ("r:rd", "r:rs1", "r:rs2")
for m in "addi andi jalr ori slli slti srai srli xori".split():
    SHAPES[m] = ("r:rd", "r:rs", "i:imm")
for m in "auipc lui li".split():
    SHAPES[m] = ("r:rd", "i:imm")
for m in "beq bge bgeu ble blt bltu bne".split():
    SHAPES[m] = ("r:rs1", "r:rs2", "l:label")
for m in "beqz bnez".split():
    SHAPES[m] = ("r:rs", "l:label")
SHAPES["j"] = ("l:label",)
SHAPES["jal"] = ("r:rd", "l:label")
for m in "lb lh lw".split():
    SHAPES[m] = ("r:rd", "m:offset:rs")
for m in "sb sw".split():
    SHAPES[m] = ("r:rs", "m:offset:rd")
SHAPES["sh"] = ("r:rs", "i:offset", "r:rd")
SHAPES["mv"] = ("r:rd", "r:rs")
SHAPES["nop"] = ()
SHAPES["ret"] = ()
assert len(SHAPES) == 45
IMM = re.compile(rb"^[+-]?[0-9]+$")
CANON = re.compile(rb"^([a-z]+) +([^#]*?) *(#.*)?$", re.S)
MEMOP = re.compile(rb"^([+-]?[0-9]+)\(([$a-z0-9]+)\)$")


def imm_of(b: bytes):
    if not IMM.match(b):
        return None
    v = int(b)
    return v if -2 ** 31 <= v <= 2 ** 31 - 1 else None


def ref_decode(t: bytes):
    """Expected rendering of a trimmed instruction line in canonical form (lower-case ASCII mnemonic,
    one or more spaces, comma-separated operands with optional ASCII blanks around them, optional
    trailing comment), or None if the line is not in that form (then nothing is claimed here)."""
    m = CANON.match(t)
    if not m:
        return None
    mn = m.group(1).decode()
    if mn not in SHAPES or not SHAPES[mn]:
        return None
    ops = [o.strip(b" \t") for o in m.group(2).split(b",")]
    shape = SHAPES[mn]
    if len(ops) != len(shape):
        return None
    fields = {}
    for spec, o in zip(shape, ops):
        kind = spec.split(":")
        if kind[0] == "r":
            if o not in REGNO:
                return None
            fields[kind[1]] = str(REGNO[o])
        elif kind[0] == "i":
            v = imm_of(o)
            if v is None:
                if IMM.match(o):
                    return "!imm " + o.decode()   # a decimal immediate that no 32-bit field can hold
                return None
            fields[kind[1]] = str(v)
        elif kind[0] == "l":
            if not re.match(rb"^[A-Za-z0-9_.]+$", o):
                return None
            fields[kind[1]] = "x" + o.hex()
        else:
            mm = MEMOP.match(o)
            if mm and mm.group(2) in REGNO and IMM.match(mm.group(1)) and imm_of(mm.group(1)) is None:
                return "!imm " + mm.group(1).decode()
            if not mm or mm.group(2) not in REGNO or imm_of(mm.group(1)) is None:
                return None
            fields[kind[1]] = str(imm_of(mm.group(1)))
            fields[kind[2]] = str(REGNO[mm.group(2)])
    return " ".join([mn] + [f"{k}={fields[k]}" for k in sorted(fields)])


OKLINE = re.compile(r"^ok n=(\d+) instrs=\[(.*)\] labels=\[(.*)\]$")
STATS = Counter()   # how much the oracle actually decided


def oracle(text: bytes, go: str):
    """Property-level judgement of one Go result. Returns None or a description of the violation."""
    if go == "panic":
        return "risc.Parse panicked"
    if go.startswith("err"):
        return None
    m = OKLINE.match(go)
    if not m:
        return f"unreadable result line {go[:80]!r}"
    n = int(m.group(1))
    instrs = m.group(2).split(";") if m.group(2) else []
    labels = dict(x.split(":") for x in m.group(3).split(",")) if m.group(3) else {}
    if len(instrs) != n:
        return "n differs from the number of rendered instructions"
    kinds = [classify(l) for l in text.split(b"\n")]
    ilines = [k[1] for k in kinds if k[0] == "instr"]
    if n != len(ilines):
        return f"count: {n} instructions for {len(ilines)} instruction lines"
    want = {}
    seen = 0
    for k in kinds:
        if k[0] == "label":
            a = (4 * seen) & 0xFFFFFFFF
            want["x" + k[1].hex()] = str(a - (1 << 32) if a >= 1 << 31 else a)
        elif k[0] == "instr":
            seen += 1
    if labels != want:
        return f"labels: got {labels} want {want}"
    STATS["accepted_texts_judged"] += 1
    STATS["instruction_lines_counted"] += len(ilines)
    STATS["label_definitions_checked"] += sum(1 for k in kinds if k[0] == "label")
    for j, t in enumerate(ilines):
        exp = ref_decode(t)
        STATS["instruction_lines_decoded_independently" if exp is not None else "instruction_lines_not_canonical"] += 1
        if exp is not None and exp.startswith("!imm "):
            return f"operands: line {t!r} was accepted and decoded to {instrs[j]!r}, but its decimal immediate {exp[5:]} does not fit the 32-bit immediate: it cannot have been decoded to the number that was written"
        if exp is not None and exp != instrs[j]:
            return f"operands: line {t!r} decoded to {instrs[j]!r}, the named registers / decimal immediates give {exp!r}"
    return None


# ---------------------------------------------------------------- running texts through the real parser

def go_parse_many(texts, harness=None):
    """risc.Parse (real code, under recover) on each text -> canonical result lines."""
    d = f"{WORK}/streams/C11"
    os.makedirs(d, exist_ok=True)
    with open(f"{d}/c11-one.req", "w") as f:
        for t in texts:
            f.write("x" + t.hex() + "\n")
    p = subprocess.run([harness or f"{WORK}/bin/harness", "-out", d, "c11-one"], env=GOENV,
                       stdout=subprocess.PIPE, stderr=subprocess.STDOUT, text=True, timeout=600)
    if p.returncode != 0:
        raise RuntimeError("harness c11-one failed: " + p.stdout[-500:])
    return open(f"{d}/c11-one.go").read().splitlines()


def shrink(text: bytes, fails, harness=None, rounds=6):
    """Greedy line-, then byte-dropping while `fails(text, go_result)` stays true."""
    def still(cands):
        outs = go_parse_many(cands, harness)
        return [fails(c, o) for c, o in zip(cands, outs)]
    for _ in range(rounds):
        progress = False
        lines = text.split(b"\n")
        if len(lines) > 1:
            cands = [b"\n".join(lines[:i] + lines[i + 1:]) for i in range(len(lines))]
            for c, ok in zip(cands, still(cands)):
                if ok:
                    text, progress = c, True
                    break
        if not progress and len(text) <= 200:
            cands = [text[:i] + text[i + 1:] for i in range(len(text))]
            for c, ok in zip(cands, still(cands)):
                if ok:
                    text, progress = c, True
                    break
        if not progress:
            break
    return text


def parse_in(line):
    """`c11 <id> <kind> <ref> x<hex>` -> (id, kind, ref|None, bytes)"""
    _, i, kind, ref, h = line.split(" ")
    return int(i), kind, (None if ref == "-" else int(ref)), bytes.fromhex(h[1:])


def analyse(ck, ins, go, lean, harness=None):
    """All judgements on one run of the stream. Returns the distribution for the evidence."""
    dist = defaultdict(Counter)
    by_id = {}
    corr_bad, asm_bad, n_prog, n_pairs, n_oracle_ok, n_canon = [], [], 0, 0, 0, 0
    viol = {}      # class -> payload (first of its class, so distinct defects are all reported)
    if len(go) != len(ins) or len(lean) != len(ins):
        ck.broken.append(f"correspondence c11: {len(ins)} inputs, {len(go)} Go lines, {len(lean)} model lines")
        return {}
    for line, g, l in zip(ins, go, lean):
        if line == "tab":
            if g != EXPECTED_TAB:
                ck.broken.append("Go's unicode.IsSpace / unicode.ToLower tables differ from the ones the model and the oracle were written for: " + g[:300])
            if l != g:
                ck.broken.append("correspondence c11 (tables): the model's space / lower-case tables differ from Go's: go=" + g[:200] + " lean=" + l[:200])
            continue
        if line.startswith("asm "):
            if l != "asm-agree":
                asm_bad.append({"case": line[:400], "lean": l})
            continue
        i, kind, ref, text = parse_in(line)
        by_id[i] = (text, g)
        n_prog += 1
        dist[kind][g.split(" ")[0] if not g.startswith("err") else g] += 1
        # (1) correspondence
        if g != l:
            corr_bad.append({"id": i, "kind": kind, "text_hex": text.hex(), "text": text.decode("latin-1"), "go": g, "lean_model": l})
        # (2) property-level oracle on the Go output
        why = oracle(text, g)
        if why is None:
            n_oracle_ok += 1
        else:
            cls = why.split(":")[0]
            if cls not in viol or len(text) < len(bytes.fromhex(viol[cls]["text_hex"])):   # keep the shortest witness of each class
                viol[cls] = {"kind": "failing-input", "what": why, "mutation_kind": kind, "text_hex": text.hex(),
                             "text": text.decode("latin-1"), "go_result": g, "lean_model_result": l}
        # (3) layout-edit invariance, Go against Go
        if ref is not None:
            n_pairs += 1
            btext, bg = by_id[ref]
            if kind == "witness-bare-j-case":
                if bg != g:
                    ck.known.append("KNOWN-FINDING: property=C11 mnemonic case changes the result of a bare `j` line "
                                    "(\"j\" jumps to label \"j\", \"J\" to label \"J\": the line is handed to the switch as mnemonic and as operand text); "
                                    "Props.C11.not_Full_layout, report .work/reports/C11-defect-1.md")
                else:
                    ck.notes.append("the bare-`j` finding no longer reproduces on the Go code (Props.C11.not_Full_layout / the model need updating)")
            elif bg != g and ("layout" not in viol or len(text) < len(bytes.fromhex(viol["layout"]["text_hex"]))):
                viol["layout"] = {"kind": "failing-input", "what": f"layout: a layout edit ({kind}) changed the parse result",
                                  "base_text_hex": btext.hex(), "base_text": btext.decode("latin-1"), "base_go_result": bg,
                                  "text_hex": text.hex(), "text": text.decode("latin-1"), "go_result": g, "lean_model_result": l}
    # shrink and report
    for cls, p in viol.items():
        try:
            if cls == "layout":
                pass
            else:
                small = shrink(bytes.fromhex(p["text_hex"]), lambda t, o, c=cls: (oracle(t, o) or "").split(":")[0] == c, harness)
                if small.hex() != p["text_hex"]:
                    out = go_parse_many([small], harness)[0]
                    p["shrunk_text_hex"], p["shrunk_text"], p["shrunk_go_result"], p["shrunk_what"] = small.hex(), small.decode("latin-1"), out, oracle(small, out)
        except Exception as e:  # shrinking is best effort
            p["shrink_error"] = str(e)
        p["how_to_replay"] = "bin/check C11 --replay <this file>   (re-parses text_hex with the real risc.Parse under recover, and with the Lean model)"
        ck.violation(p)
    if corr_bad:
        ck.broken.append(f"correspondence c11 (Go risc.Parse vs Model.Parser.parse) differs on {len(corr_bad)} inputs; first: {json.dumps(corr_bad[0])}")
    if asm_bad:
        ck.broken.append(f"Model.Parser + Model.ofGen disagree with the reference assembler Spec.Asm on {len(asm_bad)} canonical texts; first: {json.dumps(asm_bad[0])}")
    ck.cov["evaluations"] += n_prog
    ck.cov["traces_validated_against_impl"] += n_prog
    ck.cov["distinct_nontrivial"] += len({t for t, _ in by_id.values()})
    tot = Counter()
    for k, c in dist.items():
        for o, v in c.items():
            tot[o.split(" ")[0]] += v
    return {"inputs": n_prog, "accepted": tot["ok"], "errors": tot["err"], "panics": tot["panic"],
            "layout_edit_pairs": n_pairs, "asm_agreement_cases": sum(1 for x in ins if x.startswith("asm ")),
            "oracle_silent_on": n_oracle_ok, "oracle_work": dict(STATS),
            "per_kind": {k: dict(c) for k, c in sorted(dist.items())}}


def run(ck):
    built = False
    with Lock():
        err = ck.regenerate()
        if err:
            ck.broken.append("tie T1: the translator no longer accepts the source (Gen.Instr is the parser model's output type): " + err)
        else:
            ok, out = ck.lake_build(MODS + [DRIVER])
            if not ok:
                bad = ck.failing_theorems(MODS[0], out)
                ck.broken.append("lake build failed; theorems/defs that no longer check: " + (", ".join(bad) or out[-800:]))
                ck.cov["obligations"] += len(ck.theorems_of(MODS[0])[0])
                okd, _ = ck.lake_build([DRIVER])
                built = okd
            else:
                built = True
                ck.audit(MODS)
                ck.scan_sources([f"/verif/lean/MajoranaVerif/Proofs/Parser.lean", f"/verif/lean/MajoranaVerif/Model/Parser.lean",
                                 f"/verif/lean/MajoranaVerif/Model/ParserRef.lean"])
                if ck.tier == "thorough":
                    ck.leanchecker(MODS + ["MajoranaVerif.Proofs.Parser", "MajoranaVerif.Model.Parser", "MajoranaVerif.Model.ParserRef"])
        okh, outh = ck.build_harness()
        if not okh:
            ck.broken.append("go build -tags verif of the harness against /repo failed: " + outh[-600:])
    ck.cov["checker_cmd"] = ("extract (regenerate Gen/*.lean from /repo) && lake build MajoranaVerif.Props.C11 driver_c11 && lake env lean Audit (#print axioms)"
                             + (" && lake env leanchecker" if ck.tier == "thorough" else ""))
    ck.cov["trusted_base"] = TRUSTED_COMMON + [
        "lean/MajoranaVerif/Model/Parser.lean: HAND-WRITTEN model of risc/parser.go (Parse, validateArgs, parseRegister, parseOffsetReg) over byte strings, "
        "with its byte-level reading of strings.TrimSpace / strings.ToLower / strconv.ParseInt; tied to the Go code by the c11 stream only (tie T2a), "
        "including a sweep of Go's unicode.IsSpace / unicode.ToLower over all code points",
        "lean/MajoranaVerif/Model/ParserRef.lean: the reference notions of the statements (three-line classifier, layout edits, canonical printer)",
        "checklib/c11.py: the independent Python reading of the property (TrimSpace table, line classifier, label addresses, canonical operand decoding)"]
    ck.cov["rule"] = ("obligations = theorems of Props/C11.lean, each over ALL byte strings / all layout edits (induction over the line list); "
                      "evaluations = texts given to the real risc.Parse under recover and to the model: the seven+ programs under res/, every mnemonic with every register in both spellings, "
                      "generated programs over all 45 mnemonics, 20 kinds of grammar-directed mutants, arbitrary byte strings, and layout-edited copies of all of these "
                      "(paired with the text they were derived from); each is compared with the model (correspondence) and judged by the Python oracle (property); "
                      "distinct_nontrivial = distinct texts")
    if okh and built:
        try:
            ins, go, lean = ck.run_stream("c11", exe=DRIVER)
            ck.cov["input_distribution"] = analyse(ck, ins, go, lean)
            k = [i for i, l in enumerate(ins) if l.startswith("c11 ")]
            ck.cov["samples"] += [{"in": ins[i][:300], "go": go[i][:300], "lean": lean[i][:300]} for i in (k[0], k[len(k) // 3], k[len(k) // 2], k[-1])]
        except Exception as e:
            ck.broken.append(f"correspondence c11 could not run: {e}")
    ck.assumptions = ["error messages are not modelled: an error is compared by its kind (args / reg / int / offset / unknown) only",
                      "labels are byte strings; in Gen.Instr and the label map they appear as Lean Strings through the injective embedding byte b -> U+00b (Model.Parser.latin1)",
                      "the model's label map is an association list; only find? is compared (Go maps are unordered)",
                      "texts longer than 2^29 instruction lines wrap the int32 program counter; the model wraps identically (BitVec 32)"]
    ck.finish("proof")


def replay(ck, path):
    payload = json.load(open(path))
    print("replay of", path)
    texts = [bytes.fromhex(payload[k]) for k in ("shrunk_text_hex", "text_hex", "base_text_hex") if k in payload]
    with Lock():
        ck.build_harness()
    outs = go_parse_many(texts)
    d = f"{WORK}/streams/C11"
    with open(f"{d}/c11-one.in") as fin:
        p = subprocess.run([f"/verif/lean/.lake/build/bin/{DRIVER}"], stdin=fin, stdout=subprocess.PIPE, text=True, timeout=600)
    model = p.stdout.splitlines()
    for t, o, m in zip(texts, outs, model + [""] * len(outs)):
        why = oracle(t, o)
        print(json.dumps({"text": t.decode("latin-1"), "go": o, "lean_model": m, "oracle": why}, indent=1))
        if why:
            ck.violation({"kind": "failing-input", "what": why, "text_hex": t.hex(), "text": t.decode("latin-1"), "go_result": o, "replayed_from": path})
    if "base_text_hex" in payload and len(outs) >= 2 and outs[-1] != outs[-2]:
        ck.violation({"kind": "failing-input", "what": "layout: edited and base text parse differently", "go_results": outs[-2:], "replayed_from": path})
    ck.cov["evaluations"] += len(texts)
    ck.cov["distinct_nontrivial"] += len(texts)
    ck.finish("proof")

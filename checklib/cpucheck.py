"""Engine of the whole-CPU checks (C01, C03, C04, C05, C07, C09, C10): every generated program runs
on the real code of the selected variants × parallelism (Go harness, worker processes, tick budget)
and on the Lean specification `Spec.run` (compiled driver); each configuration is compared with the
reference.  Divergences are classified by KNOWN_FINDINGS.json trigger predicates (computed from the
reference run, never from seeds): inside a listed trigger → counted under that finding; outside every
trigger → VIOLATION with the shrunk program as replay."""
import json
import os
from collections import Counter, defaultdict

from .core import Lock, TRUSTED_COMMON, VERIF
from . import cpu

INORDER = ["mvp1", "mvp2", "mvp3", "mvp4", "mvp5"]
SUPER = ["mvp6-0", "mvp6-1", "mvp6-2", "mvp6-3", "mvp7-0", "mvp7-1", "mvp8-0"]
RENAME = ["mvp6-3", "mvp7-0", "mvp7-1", "mvp8-0"]
WINDOW = 8   # in-flight depth of register-only code (queue of 10, two-wide buses); with a load in flight the window is unbounded


def load_findings():
    return json.load(open(f"{VERIF}/KNOWN_FINDINGS.json"))["findings"]


# trigger predicates, by the `trigger_id` field of a finding (the predicate itself is code; the
# finding's `trigger` text describes it). `f` = cpu.features(case, ref).
TRIGGERS = {
    # D21: no memory-dependence tracking — a program that has both loads and stores
    "ooo-mem": lambda v, f: v in SUPER and (f["loads"] > 0 or f["ld_text"]) and (f["stores"] > 0 or f["st_text"]) and
                            (os.environ.get("VERIF_OOOMEM_WIDE", "") == "1" or f["line_conflict"] or f["mem_unexec"]),
    # README (fixed in MVP-6.2): on 6.0/6.1 the shadow of a slow (load-fed) conditional branch commits
    "ooo-shadow": lambda v, f: v == "mvp6-1" and f["ld_text"] and f["branches"],
    # M60-defect-1: a flush of MVP-6.0 cancels an OLDER load still waiting in another execute unit
    "ooo-flushload": lambda v, f: v == "mvp6-0" and f["ld_text"] and f["branches"],
    # D29: two conditional branches in flight while loads keep the older one's neighbourhood busy: the younger
    # branch (e.g. a taken branch to the end label) takes effect although it is on the wrong path
    "ooo-2branch": lambda v, f: v in SUPER and v != "mvp6-0" and f["ld_text"] and f["cbr_text"] >= 2,
    # D26: a wrong-path instruction that raises a defined error fails the run (6.0; the renaming variants too)
    "ooo-spec-error": lambda v, f: v in SUPER and f["err_text"] and f["branches"],
    # MVP-6.2's transaction map holds ONE uncommitted write per register: a wrong-path write of a register replaces an older,
    # still uncommitted right-path write of it, and the rollback then drops both (the right-path value is lost)
    "ooo-txmap": lambda v, f: v == "mvp6-2" and f["ld_text"] and f["cbr_text"] >= 1 and f["txmap_risk"],
    # C12 only: speculative execution makes the cycle count depend on operand values through the cache footprint of
    # wrong-path loads (their addresses are computed from register values) - the README's Spectre demonstration
    "spec-timing": lambda v, f: v in SUPER and f["ld_text"] and f["branches"],
    # D19/D20/D30: renaming admits a second in-flight writer
    "ooo-rename": lambda v, f: v in RENAME and min(f["waw"], f["war"]) <= (WINDOW if f["loads"] == 0 else 10 ** 9),
}


def m60_digest(regs, mem):
    """FNV-1a (64 bit) of `<regs>;<mem hash>` as printed by the Go harness: what Driver/Run.lean prints for Model.Mvp60"""
    h = 14695981039346656037
    for b in (regs + ";" + mem).encode():
        h = ((h ^ b) * 1099511628211) & 0xFFFFFFFFFFFFFFFF
    return "%016x" % h


def classify(findings, prop, variant, f):
    for k in findings:
        t = k.get("trigger_id")
        if t in TRIGGERS and prop in k.get("properties", [k.get("property")]) and TRIGGERS[t](variant, f):
            return k["id"]
    return None


def run(ck, prop, stream, families_note, variants=None, judge=None, theorems=None, level_text="", extra=None):
    """variants: list of variant names judged by this property (None = all)."""
    findings = [k for k in load_findings() if prop in k.get("properties", [k.get("property")])]
    mods = theorems or []
    with Lock():
        err = ck.regenerate()
        if err:
            ck.broken.append("tie T1: the translator no longer accepts the source: " + err)
        okd, out = ck.lake_build(mods + ["driver"])
        if not okd:
            bad = []
            for m in mods:
                bad += ck.failing_theorems(m, out)
            ck.broken.append("lake build failed; no longer checks: " + (", ".join(bad) or out[-800:]))
            okd, _ = ck.lake_build(["driver"])
        elif mods:
            ck.audit(mods)
            if ck.tier == "thorough":
                ck.leanchecker(mods)
        okh, outh = ck.build_harness()
        if not okh:
            ck.broken.append("go build -tags verif of the harness against /repo failed: " + outh[-800:])
    ck.cov["checker_cmd"] = "extract && lake build " + " ".join(mods + ["driver"]) + " && #print axioms audit; harness " + stream + " | driver (Spec.run) | compare"
    ck.cov["trusted_base"] = TRUSTED_COMMON + [
        "lean/MajoranaVerif/Spec/Run.lean is the oracle: one instruction at a time in program order; ret or running past the last instruction ends the run",
        "lean/MajoranaVerif/Model/SeqMachine.lean, Mmu.lean, Mvp3.lean, Mvp4.lean, Mvp5.lean: hand-written cycle-accurate machine models of proc/mvp1..mvp5 and of the superscalar proc/mvp6-0, mvp6-1, mvp6-2 (Model/Mvp60.lean, Mvp60Fast.lean, Mvp61.lean, Mvp62.lean) (built from regenerated instruction semantics, latencies and constants); the theorems are about them; tied to the Go machines by exact agreement of status, cycle count and final state on every generated case (fields m1..m5 and m60pK/m61pK/m62pK of the driver output; the superscalar models are compared with the GO run, wrong results included)",
        "Go harness worker pool, tick budget (verif hook Context.VerifTick, K=8·MemoryAccess·(steps+64)) and wall-clock watchdog",
        "known-finding trigger predicates in checklib/cpucheck.py (decidable predicates of the reference run)"]
    if not (okd and okh):
        ck.finish("proof" if mods else "exploration")
        return
    # 1. pinned witnesses of the known findings first
    for k in findings:
        w = k.get("witness_case")
        if not w:
            if k.get("note_only"):
                ck.known.append(f"KNOWN-FINDING: property={prop} {k['id']}: {k['short']} [not exercised by any generated case; excuses nothing]")
            continue
        still = cpu.fails(w, k["witness_variant"], k["witness_par"])
        if still:
            ck.known.append(f"KNOWN-FINDING: property={prop} {k['id']}: {k['short']} [witness still fails on {k['witness_variant']}/{k['witness_par']}: {still}]")
        else:
            ck.notes.append(f"finding {k['id']}: pinned witness no longer fails")
    # 2. the stream
    os.environ["VERIF_TIER"] = ck.tier   # the driver evaluates Model.Mvp60 for parallelism 1..4 in the thorough tier, 1..2 otherwise
    if ck.tier == "thorough" and prop not in ("C03", "C04"):
        # the multi-core models (MVP-7.0/7.1/8) serialise every cache miss: on the memory-heavy streams they are evaluated
        # with two cores only (C03 and C04 evaluate them with 1..4 cores), so that the thorough tier stays within minutes
        for v in ("VERIF_M70", "VERIF_M71", "VERIF_M80"):
            os.environ.setdefault(v, "p2")
    ins, go, lean = ck.run_stream(stream)
    per = Counter()
    tie_bad = []
    tie_bad60 = []
    tie_bad61 = []
    tie_bad62 = []
    tie_bad63 = []
    tie_bad70 = []
    tie_bad71 = []
    maporder71 = [0, 0]
    tie_bad80 = []
    maporder80 = [0, 0]
    maporder70 = [0, 0]     # runs of the MVP-7.0 model, of which ended `maporder` (no verdict)
    maporder63 = [0, 0]     # runs of the MVP-6.3 model, of which ended `maporder` (no verdict)
    r60_bad, r60_n = [], [0]
    r60d_bad, r60d_n = [], [0]
    excused = Counter()
    claimed = Counter()
    bad = []
    stops = Counter()
    nontrivial = set()
    cyc = []
    for i in range(len(ins)):
        c = cpu.case_of(ins[i])
        ref = cpu.parse_ref(lean[i])
        meta, res = cpu.parse_go(go[i])
        stops[(c["family"], ref["stop"].split(":")[0])] += 1
        if meta.get("crash"):
            bad.append((c, ref, {"variant": "?", "par": 0}, "worker: " + " ".join(meta["crash"])))
            continue
        # tie of the Lean machine model (Model.Seq) to the Go machines MVP-1/MVP-2: status, cycles, final state
        for key, var in (("m1", "mvp1"), ("m2", "mvp2"), ("m3", "mvp3"), ("m4", "mvp4"), ("m5", "mvp5")):
            rr = [x for x in res if x["variant"] == var]
            if mods and key in ref and rr:
                h, cyc, _, same = ref[key].split(",")
                mstat = {"ret": "ok", "offend": "ok", "err": "err", "panic": "panic", "fuel": "hang"}[h]
                if rr[0]["status"] != mstat or (mstat == "ok" and int(cyc) != rr[0]["cycles"]) or \
                        (mstat == "ok" and same != "same" and not ref["stop"].startswith("notwf")):
                    tie_bad.append(f"case {c['id']} {var}: Go {rr[0]['status']} cycles={rr[0]['cycles']} vs model {ref[key]}")
        # tie of the Lean model of the superscalar MVP-6.0 (Model.Mvp60, eu = wu = K): status, cycles, ticks and the final
        # registers and memory of the GO RUN (not of the reference: the model must reproduce the wrong results too)
        # (same loop for Model.Mvp61 / mvp6-1: fields `m61pK`, and Model.Mvp62 / mvp6-2: fields `m62pK`, Model.Mvp63 / mvp6-3: fields `m63pK`, Model.Mvp70 / mvp7-0: fields `m70pK`, Model.Mvp71 / mvp7-1: fields `m71pK`, Model.Mvp80 / mvp8-0: fields `m80pK`;
        #  the MVP-6.3 model reports `maporder` where the Go result depends on map iteration order: such a run gets no verdict)
        for prefix, var, K in [(pv[0], pv[1], K) for pv in (("m60p", "mvp6-0"), ("m61p", "mvp6-1"), ("m62p", "mvp6-2"), ("m63p", "mvp6-3"), ("m70p", "mvp7-0"), ("m71p", "mvp7-1"), ("m80p", "mvp8-0")) for K in (1, 2, 3, 4)]:
            key = f"{prefix}{K}"
            rr = [x for x in res if x["variant"] == var and x["par"] == K]
            if mods and key in ref and rr:
                h, cyc, same, mticks, dig = ref[key].split(",")
                if prefix == "m63p":
                    maporder63[0] += 1
                    if h == "maporder":
                        maporder63[1] += 1
                        continue
                if prefix == "m70p":
                    maporder70[0] += 1
                    if h == "maporder":
                        maporder70[1] += 1
                        continue
                if prefix == "m71p":
                    maporder71[0] += 1
                    if h == "maporder":
                        maporder71[1] += 1
                        continue
                if prefix == "m80p":
                    maporder80[0] += 1
                    if h == "maporder":
                        maporder80[1] += 1
                        continue
                mstat = {"ret": "ok", "offend": "ok", "err": "err", "panic": "panic", "fuel": "hang"}[h]
                budget = meta.get("budget", 0)
                if mstat != "hang" and budget > 0 and int(mticks) > budget:
                    mstat = "hang"            # the model needs more ticks than the harness grants the Go machine
                elif mstat == "hang" and budget > int(mticks):
                    continue                  # the model's fuel (from the reference's step count) is below the Go budget: no verdict
                g = rr[0]
                gdig = m60_digest(g.get("regs", ""), g.get("mem", ""))
                if g["status"] != mstat or (mstat == "ok" and int(cyc) != g["cycles"]) or \
                        (mstat in ("ok", "err") and (int(mticks) != g["ticks"] or dig != gdig)):
                    {"m60p": tie_bad60, "m61p": tie_bad61, "m62p": tie_bad62, "m63p": tie_bad63, "m70p": tie_bad70, "m71p": tie_bad71, "m80p": tie_bad80}[prefix].append(f"case {c['id']} {var}/{K}: Go {g['status']} cycles={g['cycles']} ticks={g['ticks']} state={gdig} vs model {ref[key]}")
        # R60: a member of the class Model.Mvp60.RegOnly (field r60, first digit) whose reference run is well-formed must be run
        # CORRECTLY by the MVP-6.0 model at every evaluated parallelism (the statement Props.C01.Full_mvp60_regonly_correct)
        if mods and ref.get("r60", "00")[:1] == "1" and not ref["stop"].startswith("notwf"):
            for K in (1, 2, 3, 4):
                key = f"m60p{K}"
                if key not in ref:
                    continue
                h, _, same, _, _ = ref[key].split(",")
                want = "err" if ref["stop"].startswith("err") else ref["stop"]
                r60_n[0] += 1
                if h != want or (want != "err" and same != "same"):
                    r60_bad.append(f"case {c['id']} mvp6-0/{K}: reference {ref['stop']} vs model {ref[key]}")
        # R60d: the same for the class Model.Mvp60.StraightLineLdR (field r60, eighth digit: straight-line programs with loads, no
        # stores/branches/jumps/div/rem, `ret` anywhere; the seventh digit is its sub-class with `ret` only as the last instruction,
        # the sixth the one without `ret`) -- the statement Props.C05.mvp60_readonly_retany_correct, every evaluated parallelism
        if mods and ref.get("r60", "00000000")[7:8] == "1" and not ref["stop"].startswith("notwf"):
            for K in (1, 2, 3, 4):
                key = f"m60p{K}"
                if key not in ref:
                    continue
                h, _, same, _, _ = ref[key].split(",")
                want = "err" if ref["stop"].startswith("err") else ref["stop"]
                r60d_n[0] += 1
                if h != want or (want != "err" and same != "same"):
                    r60d_bad.append(f"case {c['id']} mvp6-0/{K}: reference {ref['stop']} vs model {ref[key]}")
        if ref["stop"].startswith("notwf"):
            continue
        f = cpu.features(c, ref)
        if ref["steps"] >= 2:
            nontrivial.add(c["prog"] + c["regs"])
        for r in res:
            if variants and r["variant"] not in variants:
                continue
            v = judge(ref, r, f, meta) if judge else cpu.verdict(ref, r)
            kf = classify(findings, prop, r["variant"], f)
            per[(r["variant"], "runs")] += 1
            if kf is None:
                claimed[r["variant"]] += 1
            if v in ("ok", "skip"):
                continue
            if kf:
                excused[(kf, r["variant"])] += 1
            else:
                bad.append((c, ref, r, v))
    ck.cov["evaluations"] += sum(n for (v, k), n in per.items())
    ck.cov["programs"] = len(ins)
    ck.cov["distinct_nontrivial"] += len(nontrivial)
    ck.cov["traces_validated_against_impl"] += ck.cov["evaluations"]
    fams = sorted({cpu.case_of(l)["family"] for l in ins})
    ck.cov["rule"] = (f"{families_note}; generator families actually drawn in this run: {', '.join(fams)}; every program runs on the real code of each selected variant x parallelism 1..4 and on Spec.run; "
                      "evaluations = (program, variant, parallelism) runs compared with the reference; distinct_nontrivial = distinct (program text, initial registers) whose reference run executes >= 2 instructions; "
                      "a divergence inside a KNOWN_FINDINGS trigger is counted under that finding, outside every trigger it is a violation")
    ck.cov["input_distribution"] = {"reference_stop_by_family": {f"{a}/{b}": n for (a, b), n in sorted(stops.items())},
                                    "runs_per_variant": {v: n for (v, k), n in sorted(per.items())},
                                    "runs_in_claimed_region_per_variant": dict(sorted(claimed.items())),
                                    "divergences_under_known_findings": {f"{a}@{b}": n for (a, b), n in sorted(excused.items())}}
    if ins:
        j = len(ins) // 2
        ck.cov["samples"] += [{"program": cpu.case_of(ins[j])["prog"], "reference": lean[j][:300], "go_first_config": go[j].split(" @@ ")[1][:300] if " @@ " in go[j] else go[j][:300]}]
    if tie_bad:
        ck.broken.append(f"correspondence Go MVP-1..MVP-5 vs the Lean machine models differs on {len(tie_bad)} cases; first: {tie_bad[0]}")
    if tie_bad60:
        ck.broken.append(f"correspondence Go MVP-6.0 vs the Lean machine model Model.Mvp60 differs on {len(tie_bad60)} runs; first: {tie_bad60[0]}")
    if tie_bad61:
        ck.broken.append(f"correspondence Go MVP-6.1 vs the Lean machine model Model.Mvp61 differs on {len(tie_bad61)} runs; first: {tie_bad61[0]}")
    if tie_bad62:
        ck.broken.append(f"correspondence Go MVP-6.2 vs the Lean machine model Model.Mvp62 differs on {len(tie_bad62)} runs; first: {tie_bad62[0]}")
    if tie_bad63:
        ck.broken.append(f"correspondence Go MVP-6.3 vs the Lean machine model Model.Mvp63 differs on {len(tie_bad63)} runs; first: {tie_bad63[0]}")
    if tie_bad70:
        ck.broken.append(f"correspondence Go MVP-7.0 vs the Lean machine model Model.Mvp70 differs on {len(tie_bad70)} runs; first: {tie_bad70[0]}")
    if tie_bad71:
        ck.broken.append(f"correspondence Go MVP-7.1 vs the Lean machine model Model.Mvp71 differs on {len(tie_bad71)} runs; first: {tie_bad71[0]}")
    if tie_bad80:
        ck.broken.append(f"correspondence Go MVP-8.0 vs the Lean machine model Model.Mvp80 differs on {len(tie_bad80)} runs; first: {tie_bad80[0]}")
    if maporder80[1]:
        ck.notes.append(f"M80: {maporder80[1]} of {maporder80[0]} runs of the MVP-8.0 model end as `maporder` (the Go result depends on map iteration order): no verdict")
    if maporder71[1]:
        ck.notes.append(f"M71: {maporder71[1]} of {maporder71[0]} runs of the MVP-7.1 model end as `maporder` (the Go result depends on map iteration order): no verdict")
    if maporder70[1]:
        ck.notes.append(f"M70: {maporder70[1]} of {maporder70[0]} runs of the MVP-7.0 model end as `maporder` (the Go result depends on map iteration order): no verdict")
    if maporder63[1]:
        ck.notes.append(f"M63: {maporder63[1]} of {maporder63[0]} runs of the MVP-6.3 model end as `maporder` (the Go result depends on map iteration order): no verdict")
    if r60_bad:
        ck.broken.append(f"R60: the MVP-6.0 model runs {len(r60_bad)} of {r60_n[0]} register-only (class RegOnly) runs differently from the reference; first: {r60_bad[0]}")
    elif r60_n[0]:
        ck.notes.append(f"R60: {r60_n[0]} runs of programs in the class RegOnly: the MVP-6.0 model agrees with the reference on all of them")
    if r60d_bad:
        ck.broken.append(f"R60d: the MVP-6.0 model runs {len(r60d_bad)} of {r60d_n[0]} straight-line-with-loads (class StraightLineLdR) runs differently from the reference; first: {r60d_bad[0]}")
    elif r60d_n[0]:
        ck.notes.append(f"R60d: {r60d_n[0]} runs of programs in the class StraightLineLdR: the MVP-6.0 model agrees with the reference on all of them")
    # 3. violations: one per (variant, verdict-kind), shrunk
    seen = set()
    for c, ref, r, v in bad:
        key = (r["variant"], v.split(":")[0])
        if key in seen or len(seen) >= 6:
            continue
        seen.add(key)
        case = cpu.case_dict(c)
        small = case
        try:
            if r["variant"] != "?":
                small, why = cpu.shrink(case, r["variant"], r["par"], budget=150)
                if not why:
                    small = case
        except Exception as e:  # shrinking is best-effort
            ck.notes.append(f"shrink failed: {e}")
        ck.violation({"kind": "failing-input", "variant": r["variant"], "parallelism": r["par"], "verdict": v,
                      "family": c["family"], "program": small["text"], "initial_registers": small["regs"], "memsize": small["memsize"],
                      "memory_hex": small["mem"] if len(small["mem"]) <= 4096 else "(see original_case)", "original_case_id": c["id"],
                      "reference": {k: ref.get(k) for k in ("stop", "steps", "regs", "mem")},
                      "observed": {k: r.get(k) for k in ("status", "detail", "cycles", "regs", "mem")},
                      "case": small,
                      "how_to_replay": f"bin/check {prop} --replay <this file>  (runs `case` on the real code of every variant and on Spec.run)"})
    ck.assumptions += ["well-formedness along the run (aligned in-bounds accesses, targets on instruction boundaries, < 250 instructions, termination within the fuel) is decided by Spec.run; programs outside it are skipped",
                       "the tick budget and the wall-clock watchdog decide `hang`"]
    if extra:
        extra(ck)
    ck.finish("proof" if mods else "exploration")


def replay(ck, path):
    payload = json.load(open(path))
    case = payload.get("case") or {"family": "replay", "text": payload["program"], "regs": payload.get("initial_registers", {}),
                                   "memsize": payload.get("memsize", 64), "mem": payload.get("memory_hex", "")}
    with Lock():
        ck.regenerate()
        ck.lake_build(["driver"])
        ck.build_harness()
    (ref, meta, rs), = cpu.run_cases([case])
    print("reference:", {k: ref.get(k) for k in ("stop", "steps", "regs")})
    n = 0
    findings = [k for k in load_findings() if ck.pid in k.get("properties", [k.get("property")])]
    f = cpu.features(case, ref) if not ref["stop"].startswith("notwf") else None
    for r in rs:
        v = cpu.verdict(ref, r)
        if v not in ("ok", "skip"):
            kf = classify(findings, ck.pid, r["variant"], f) if f else None
            if kf:
                print(f"  KNOWN-FINDING: property={ck.pid} {kf}: {r['variant']}/{r['par']}: {v}")
                continue
            n += 1
            print(f"  {r['variant']}/{r['par']}: {v}  regs differing (reg: (reference, observed)): {cpu.diff_regs(ref, r) if r['status'] == 'ok' else ''}")
    print(f"{n} configurations diverge from the reference outside every known finding")
    if n:
        ck.violation(dict(payload, kind="replay"))
    ck.cov["evaluations"] = len(rs)
    ck.cov["distinct_nontrivial"] = 2
    ck.finish("exploration")

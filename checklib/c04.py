"""C04 — whole-CPU differential against Spec.run (see cpucheck.py and DESIGN §4 C04)."""
from . import cpucheck

NOTE = {"c01": "families: all generators (alu, dep, dep-mem, mem, br, br-mem, shadow, shadow-reg, tail, pair, err); all 12 variants",
        "c03": "families: shadow (taken branches/jumps whose shadow holds register writes, stores, loads incl. out-of-range, jal, div by zero, undefined label, a second branch; fast and load-delayed conditions), shadow-reg, br, br-mem; variants MVP-4..8",
        "c04": "families: dep / dep-mem (2-4 registers: chains, fans, WAW, WAR, mixed-latency producers) and alu; variants MVP-4..8",
        "c05": "families: mem (2-16 KB memories, strides 4..256, re-reads after eviction, every line-relative first-touch offset), dep-mem, pair, tail; variants MVP-3..8",
        "c09": "families: tail (last instructions before ret / the end are cache-missing loads, stores to uncached lines, dependent chains), br-mem, dep-mem; variants MVP-4..8",
        "c10": "families: pair (store->load, load->store, store->store at distance 1..8 to the same byte/word/line through independent address registers), mem; variants MVP-4..8"}
VARS = {"c01": None,
        "c03": cpucheck.INORDER[3:] + cpucheck.SUPER, "c04": cpucheck.INORDER[3:] + cpucheck.SUPER,
        "c05": cpucheck.INORDER[2:] + cpucheck.SUPER, "c09": cpucheck.INORDER[3:] + cpucheck.SUPER,
        "c10": cpucheck.INORDER[3:] + cpucheck.SUPER}


def run(ck):
    cpucheck.run(ck, "C04", "cpu-c04", NOTE["c04"], variants=VARS["c04"],
                 theorems=["MajoranaVerif.Props.C04"])


def replay(ck, path):
    cpucheck.replay(ck, path)

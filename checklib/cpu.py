"""Shared analysis of the whole-CPU streams: parse the Go lines (one per case, per-config results
joined by ' @@ ') and the Lean reference lines, and compare each configuration with Spec.run."""
import binascii
import re
from collections import Counter, defaultdict


def parse_ref(line):
    # R id stop=.. steps=.. n=.. regs=.. mem=.. path=.. accs=..
    if not line.startswith("R ") or "stop=" not in line:
        return {"id": line.split()[1] if len(line.split()) > 1 else "?", "stop": "notwf:" + line}
    d = {"id": line.split()[1]}
    for tok in line.split()[2:]:
        if "=" in tok:
            k, v = tok.split("=", 1)
            d[k] = v
    d["steps"] = int(d.get("steps", 0))
    d["n"] = int(d.get("n", 0))
    return d


def parse_go(line):
    """Returns (budget dict, list of config results)."""
    res, meta = [], {}
    for part in line.split(" @@ "):
        t = part.split()
        if not t:
            continue
        if t[0] == "B":
            for tok in t[2:]:
                k, v = tok.split("=")
                meta[k] = int(v)
        elif t[0] == "V" and len(t) >= 5 and t[2] != "parse-error":
            r = {"variant": t[2], "par": int(t[3]), "status": t[4], "detail": t[5] if len(t) > 5 else "-"}
            for tok in t[6:]:
                if "=" in tok:
                    k, v = tok.split("=", 1)
                    r[k] = v
            r["cycles"] = int(r.get("cycles", 0))
            r["ticks"] = int(r.get("ticks", 0))
            res.append(r)
        elif t[0] == "V":
            meta["parse_error"] = " ".join(t[2:])
        elif t[0] == "N":
            meta.setdefault("nondet", []).append(part)
        elif t[0] == "X":
            meta.setdefault("crash", []).append(part)
    return meta, res


def case_of(in_line):
    d = {}
    secs = [s.strip() for s in in_line.split(" ; ")]
    d["id"] = secs[0].split()[1]
    for tok in secs[1].split():
        k, v = tok.split("=")
        d[k] = v
    d["regs"] = secs[2][len("regs="):]
    d["mem_hex"] = secs[3][len("mem="):]
    d["prog"] = binascii.unhexlify(secs[4][len("prog="):]).decode()
    return d


def verdict(ref, r):
    """How configuration result r relates to the reference: 'ok' or a short reason."""
    stop = ref["stop"]
    if stop.startswith("notwf"):
        return "skip"
    if stop.startswith("err"):
        if r["status"] == "err":
            return "ok"
        return "defined-error-not-reported:" + r["status"]
    if r["status"] != "ok":
        return "run-failed:" + r["status"] + ":" + r["detail"]
    if r["regs"] != ref["regs"]:
        return "registers-differ"
    if r["mem"] != ref["mem"]:
        return "memory-differs"
    return "ok"


def diff_regs(ref, r):
    a, b = ref["regs"].split(","), r["regs"].split(",")
    return {i: (a[i], b[i]) for i in range(32) if a[i] != b[i]}


# ---- explicit cases: replay and shrinking ----------------------------------------------
import json
import os
import subprocess


def run_cases(cases, variants=None, workdir=None):
    """cases: list of dicts {family,text,regs,memsize,mem}. Returns list of (ref, meta, results)."""
    workdir = workdir or f"/verif/.work/streams/shrink_{os.getpid()}"
    os.makedirs(workdir, exist_ok=True)
    path = os.path.join(workdir, f"cases_{os.getpid()}.json")
    json.dump(cases, open(path, "w"))
    env = dict(os.environ, VERIF_CASE_FILE=path, GOMAXPROCS="4")
    if variants:
        env["VERIF_VARIANTS"] = ",".join(variants)
    subprocess.run(["/verif/.work/bin/harness", "-out", workdir, "cpu-file"], env=env, check=True,
                   stdout=subprocess.DEVNULL, stderr=subprocess.DEVNULL, timeout=600)
    with open(os.path.join(workdir, "cpu-file.in")) as fin:
        out = subprocess.run(["/verif/lean/.lake/build/bin/driver"], stdin=fin, stdout=subprocess.PIPE, text=True, timeout=600).stdout
    go = open(os.path.join(workdir, "cpu-file.go")).read().splitlines()
    le = out.splitlines()
    res = []
    for g, l in zip(go, le):
        meta, rs = parse_go(g)
        res.append((parse_ref(l), meta, rs))
    return res


def case_dict(c):
    """from case_of() output to the cpu-file format"""
    regs = {}
    for tok in c["regs"].split(","):
        if tok:
            r, v = tok.split(":")
            regs[r] = int(v)
    return {"family": c.get("family", "?"), "text": c["prog"], "regs": regs, "memsize": int(c["memsize"]), "mem": c["mem_hex"]}


def fails(case, variant, par, reason_prefix=None):
    (ref, meta, rs), = run_cases([case], [variant])
    if ref["stop"].startswith("notwf"):
        return None
    for r in rs:
        if r["variant"] == variant and r["par"] == par:
            v = verdict(ref, r)
            if v not in ("ok", "skip") and (reason_prefix is None or v.startswith(reason_prefix)):
                return v
    if meta.get("crash"):
        return "crash"
    return None


def shrink(case, variant, par, budget=400):
    """Greedy line deletion (labels kept if still referenced), then register/memory simplification."""
    cur = dict(case)
    why = fails(cur, variant, par)
    if not why:
        return cur, None
    kind = why.split(":")[0]
    tries = 0
    changed = True
    while changed and tries < budget:
        changed = False
        lines = cur["text"].split("\n")
        i = 0
        while i < len(lines) and tries < budget:
            if not lines[i].strip():
                i += 1
                continue
            cand = lines[:i] + lines[i + 1:]
            text = "\n".join(cand)
            # a label still referenced must stay
            lab = lines[i].strip()
            if lab.endswith(":") and any((" " + lab[:-1]) in l or ("," + lab[:-1]) in l for l in cand):
                i += 1
                continue
            trial = dict(cur, text=text)
            tries += 1
            w = fails(trial, variant, par, kind)
            if w:
                cur, lines, changed = trial, cand, True
            else:
                i += 1
    # drop initial registers one at a time
    for r in list(cur["regs"]):
        if tries >= budget:
            break
        trial = dict(cur, regs={k: v for k, v in cur["regs"].items() if k != r})
        tries += 1
        if fails(trial, variant, par, kind):
            cur = trial
    return cur, fails(cur, variant, par)


# ---- static/dynamic program features for the known-finding triggers -------------------
REG_NAMES = ["zero", "ra", "sp", "gp", "tp", "t0", "t1", "t2", "s0", "s1", "a0", "a1", "a2", "a3", "a4", "a5",
             "a6", "a7", "s2", "s3", "s4", "s5", "s6", "s7", "s8", "s9", "s10", "s11", "t3", "t4", "t5", "t6"]
R3 = {"add", "sub", "and", "or", "xor", "sll", "srl", "sra", "slt", "sltu", "mul", "div", "rem"}
I3 = {"addi", "andi", "ori", "xori", "slti", "slli", "srli", "srai"}
BR2 = {"beq", "bne", "blt", "bge", "bltu", "bgeu", "ble"}


def decode(text):
    """canonical program text -> list of (mnemonic, writes, reads) per instruction (register numbers, x0 dropped)"""
    out = []
    for raw in text.split("\n"):
        l = raw.strip()
        if not l or l.startswith("#") or (l.endswith(":") and " " not in l):
            continue
        mn, _, rest = l.partition(" ")
        args = [a.strip() for a in rest.split(",")] if rest.strip() else []

        def reg(s):
            s = s.strip().lstrip("$")
            return REG_NAMES.index(s) if s in REG_NAMES else None

        w, r = [], []
        if mn in R3:
            w, r = [reg(args[0])], [reg(args[1]), reg(args[2])]
        elif mn in I3 or mn == "jalr":
            w, r = [reg(args[0])], [reg(args[1])]
        elif mn in ("lui", "auipc", "li", "jal"):
            w = [reg(args[0])]
        elif mn == "mv":
            w, r = [reg(args[0])], [reg(args[1])]
        elif mn in ("lb", "lh", "lw"):
            base = args[1][args[1].index("(") + 1:-1]
            w, r = [reg(args[0])], [reg(base)]
        elif mn in ("sb", "sw"):
            base = args[1][args[1].index("(") + 1:-1]
            r = [reg(args[0]), reg(base)]
        elif mn == "sh":
            r = [reg(args[0]), reg(args[2])]
        elif mn in BR2:
            r = [reg(args[0]), reg(args[1])]
        elif mn in ("beqz", "bnez"):
            r = [reg(args[0])]
        out.append((mn, [x for x in w if x], [x for x in r if x]))
    return out


def features(case, ref):
    """facts about the reference run that the known-finding triggers are predicates of"""
    text = case["prog"] if "prog" in case else case["text"]
    ins = decode(text)
    path = [int(x) for x in ref.get("path", "").split(",") if x != ""]
    accs = [a for a in ref.get("accs", "").split(",") if a]
    f = {"loads": sum(1 for a in accs if a[0] == "L"), "stores": sum(1 for a in accs if a[0] == "S")}
    f["st_text"] = any(m in ("sb", "sh", "sw") for m, _, _ in ins)
    f["ld_text"] = any(m in ("lb", "lh", "lw") for m, _, _ in ins)
    f["cbr_text"] = sum(1 for m, _, _ in ins if m in BR2 or m in ("beqz", "bnez"))
    f["err_text"] = ("nowhere" in text) or any(m in ("div", "rem") for m, _, _ in ins)
    f["branches"] = any(m in BR2 or m in ("beqz", "bnez", "j", "jal", "jalr") for m, _, _ in ins)
    f["cond_branches"] = sum(1 for i in path if i < len(ins) and (ins[i][0] in BR2 or ins[i][0] in ("beqz", "bnez")))
    # smallest dynamic distance between two writers of one register (WAW) and between a reader and a later writer (WAR)
    lastw, lastr = {}, {}
    waw = war = 10 ** 9
    for k, i in enumerate(path):
        if i >= len(ins):
            continue
        _, w, r = ins[i]
        for x in r:
            lastr[x] = k
        for x in w:
            if x in lastw:
                waw = min(waw, k - lastw[x])
            if x in lastr and lastr[x] != k:
                war = min(war, k - lastr[x])
            elif x in lastr and x in r and x in lastw:
                pass
            lastw[x] = k
    f["waw"], f["war"] = waw, war
    # some register is written by two different instructions of the text (one may be on a wrong path)
    wcount = {}
    for _, w, _ in ins:
        for x in set(w):
            wcount[x] = wcount.get(x, 0) + 1
    f["static_waw"] = any(n >= 2 for n in wcount.values())
    # MVP-6.2's one-slot-per-register transaction map: at a TAKEN conditional branch, a register written on the executed
    # path since the previous conditional branch (still uncommitted) and also by one of the instructions right behind
    # the branch in the text (its wrong path) loses the right-path value at the rollback
    CB = BR2 | {"beqz", "bnez"} if isinstance(BR2, (set, frozenset)) else set(BR2) | {"beqz", "bnez"}
    risk = False
    since = set()
    for k, i in enumerate(path):
        if i >= len(ins):
            continue
        m, w, _ = ins[i]
        if m in CB:
            # the last executed instruction: taken iff falling through would have executed another instruction
            taken = (path[k + 1] != i + 1) if k + 1 < len(path) else (i + 1 < len(ins))
            if taken:
                shadow = set()
                for j in range(i + 1, min(len(ins), i + 13)):
                    shadow |= set(ins[j][1])
                if since & shadow:
                    risk = True
            since = set()
        else:
            since |= set(w)
    f["txmap_risk"] = risk
    # same-line conflicts: a store and another access to one 64-byte line
    lines_st = {int(a[1:].split("w")[0]) // 64 for a in accs if a[0] == "S"}
    lines_all = [int(a[1:].split("w")[0]) // 64 for a in accs]
    f["line_conflict"] = any(lines_all.count(l) > 1 for l in lines_st) or len(accs) >= 3000   # the driver reports at most 3000 accesses
    lines_ld = {int(a[1:].split("w")[0]) // 64 for a in accs if a[0] == "L"}
    f["ls_line_conflict"] = bool(lines_st & lines_ld) or len(accs) >= 3000   # the driver reports at most 3000 accesses
    # a load/store instruction of the text that the reference run never executes can still run speculatively
    # (wrong path) at an address the reference does not know
    done = set(path)
    f["mem_unexec"] = any(m in ("sb", "sh", "sw", "lb", "lh", "lw") and k not in done for k, (m, _, _) in enumerate(ins))
    f["steps"] = ref.get("steps", 0)
    f["ends_with_ret"] = ref["stop"] == "ret"
    return f

"""C08 — runs are deterministic and isolated (DESIGN §4 C08).

What Lean carries: the order-independence lemmas for the map-range loops of risc/app.go
(Props/C15.lean: commit/rollback/initRAT/ratCommit/ratRollback/ratFlush give equivalent contexts for
any permutation of the entries), and `facts.json` tripwires: the inventory of `range`-over-map sites,
`go` statements and package-level mutable variables of the simulator, compared with the reviewed list
below (a new or changed site has no lemma/review => the obligation is open).
What Lean cannot exhibit (goroutine interleavings, another process) is checked dynamically and labelled:
every input runs 3x in one process (fresh parse, fresh parse, re-used parsed program), then on three
more machines concurrently (goroutines) next to a machine of another variant, then the used program object
and a fresh parse run on OTHER data; the whole stream runs again in a second process; outputs must be bit-identical."""
import json
import os
import re
import subprocess
from collections import Counter

from .core import Lock, TRUSTED_COMMON, WORK, REPO, VERIF
from . import cpu

MODS = ["MajoranaVerif.Props.C15"]
ORDER_LEMMAS = ["commit_order_irrelevant", "rollback_order_irrelevant", "initRAT_order_irrelevant",
                "ratCommit_order_irrelevant", "ratRollback_order_irrelevant", "ratFlush_order_irrelevant"]


def scan_sites():
    """range-over-map / go statement / package-level var inventory by a light source scan."""
    sites = Counter()
    for root, _, files in os.walk(REPO):
        if "/.git" in root:
            continue
        for fn in files:
            if not fn.endswith(".go") or fn.endswith("_test.go") or "verif_on" in fn:
                continue
            rel = os.path.relpath(os.path.join(root, fn), REPO)
            src = open(os.path.join(root, fn)).read()
            for m in re.finditer(r"^\s*go func\(|^\s*go \w", src, flags=re.M):
                sites[("go-statement", rel)] += 1
            for m in re.finditer(r"^var (\w+)\s*(=|\w)", src, flags=re.M):
                sites[("package-var:" + m.group(1), rel)] += 1
    return sites


REVIEWED = json.load(open(f"{VERIF}/checklib/c08_reviewed.json")) if os.path.exists(f"{VERIF}/checklib/c08_reviewed.json") else None


def run(ck):
    with Lock():
        err = ck.regenerate()
        if err:
            ck.broken.append("tie T1: the translator no longer accepts the source: " + err)
        ok, out = ck.lake_build(MODS + ["driver"])
        if not ok:
            ck.broken.append("lake build failed: " + (", ".join(ck.failing_theorems(MODS[0], out)) or out[-800:]))
            ok, _ = ck.lake_build(["driver"])
        else:
            res = ck.audit(MODS)
            names = {n.split(".")[-1] for n in res}
            for l in ORDER_LEMMAS:
                if l not in names:
                    ck.broken.append(f"order-independence lemma Props.C15.{l} is missing")
        okh, outh = ck.build_harness()
        if not okh:
            ck.broken.append("go build -tags verif of the harness against /repo failed: " + outh[-800:])
    ck.cov["checker_cmd"] = "extract && lake build MajoranaVerif.Props.C15 driver && audit; source inventory vs reviewed list; harness cpu-c08 (3 repeats per input) twice in separate processes | compare"
    ck.cov["trusted_base"] = TRUSTED_COMMON + ["goroutine interleavings, the race detector and cross-process isolation are outside what a Lean model can exhibit: checked dynamically (labelled partial)"]
    sites = scan_sites()
    inv = {f"{k[0]}@{k[1]}": n for k, n in sorted(sites.items())}
    ck.cov["hidden_state_inventory"] = inv
    if REVIEWED is not None and inv != REVIEWED:
        new = {k: v for k, v in inv.items() if REVIEWED.get(k) != v}
        gone = [k for k in REVIEWED if k not in inv]
        ck.broken.append(f"hidden-state inventory differs from the reviewed list (goroutines / package-level variables): new-or-changed={new} removed={gone}")
    if not (ok and okh):
        ck.finish("proof")
        return
    ins, go, lean = ck.run_stream("cpu-c08")
    # second process, same seed: outputs must be identical
    d = f"{WORK}/streams/{ck.pid}"
    first = open(f"{d}/cpu-c08.go").read()
    ins2, go2, _ = ck.run_stream("cpu-c08", driver=False)
    second = open(f"{d}/cpu-c08.go").read()
    n_runs = 0
    bad = []
    findings = [k for k in json.load(open(f"{VERIF}/KNOWN_FINDINGS.json"))["findings"] if "C08" in k.get("properties", [k.get("property")])]
    from . import cpucheck
    excused = Counter()
    for k in findings:
        if k.get("witness_case"):
            ck.known.append(f"KNOWN-FINDING: property=C08 {k['id']}: {k['short']}")
    for i in range(len(ins)):
        meta, res = cpu.parse_go(go[i])
        n_runs += len(res) * 9   # 3 repeats + 4 concurrent machines + fresh/re-used on other data
        ref = cpu.parse_ref(lean[i])
        if ref["stop"].startswith("notwf"):
            continue   # outside the supported subset: a Go panic may leave a map-order-dependent partial state
        c = cpu.case_of(ins[i])
        f = cpu.features(c, ref)
        for nd in meta.get("nondet", []):
            v = nd.split()[2]
            kf = cpucheck.classify(findings, "C08", v, f)
            if kf:
                excused[(kf, v)] += 1
                continue
            bad.append({"clause": "repeating a run in the same process (fresh or re-used parsed program) gives bit-identical results", "detail": nd[:400],
                        "case": cpu.case_dict(c)})
        if i < len(go2) and go[i] != go2[i]:
            a, b = go[i].split(" @@ "), go2[i].split(" @@ ")
            for x, y in zip(a, b):
                if x != y and x.split()[0] == "V":
                    v = x.split()[2]
                    kf = cpucheck.classify(findings, "C08", v, f)
                    if kf:
                        excused[(kf + "(cross-process)", v)] += 1
                    else:
                        bad.append({"clause": "repeating a run in another process gives bit-identical results", "detail": str((x, y))[:600], "case": cpu.case_dict(c)})
                        break
    ck.cov["divergences_under_known_findings"] = {f"{a}@{b}": n for (a, b), n in sorted(excused.items())}
    ck.cov["evaluations"] += n_runs + sum(len(cpu.parse_go(g)[1]) for g in go2)
    ck.cov["programs"] = len(ins)
    ck.cov["distinct_nontrivial"] += len({l.split(" ; ", 2)[2] for l in ins})
    ck.cov["traces_validated_against_impl"] = ck.cov["evaluations"]
    ck.cov["rule"] = ("obligations = order-independence theorems for the map-range loops of risc/app.go (Props/C15.lean) ; evaluations = runs compared for bit-identity of (status, cycles, registers, memory hash): "
                      "each (program, variant, parallelism 1..3) 3x in one process (the third on a parsed program already used by another machine), 3 more machines of the configuration and one of another variant CONCURRENTLY in goroutines, the used program object and a fresh parse on other data, and once more in a second process; distinct_nontrivial = distinct inputs")
    ck.cov["samples"] += [{"program": cpu.case_of(ins[0])["prog"], "first_config": go[0].split(" @@ ")[1][:200]}] if ins else []
    seen = set()
    for b in bad:
        if b["clause"] in seen:
            continue
        seen.add(b["clause"])
        ck.violation(dict(b, kind="failing-input", how_to_replay="run the program twice on the named variant (bin/check C01 --replay <this file> runs it on all variants)"))
    ck.assumptions = ["map iteration order and goroutine scheduling are sampled, not enumerated, by the dynamic part", "the order-independence lemmas cover risc/app.go only; the MSI and control-unit map loops are not modelled"]
    ck.finish("proof")


def replay(ck, path):
    from . import cpucheck
    cpucheck.replay(ck, path)

"""C06 — MSI coherence invariants hold at every cycle on the multi-core variants (DESIGN §4, C06).

Proof   : Props/C06.lean over the abstract protocol model Model/Msi.lean part (b): the inductive
          invariant `Proofs.Msi.Inv` (any number of cores/lines, every interleaving, every action but a
          flush of a busy controller), the property's clauses from it, and `MsiInv` of the model's
          snapshot — the SAME decidable predicate the monitor evaluates (Proofs/MsiSnapshot.lean).
Monitor : the Go harness (go/cmd/harness/c06.go) snapshots the REAL machines once per cycle through the
          verif hooks (`VerifSnapshot`, `VerifSetOnTick`, `NewVerifRig`), evaluates the clauses itself
          and renders each distinct snapshot as one line; the Lean driver evaluates `MsiInv` on the line
          (tie: both verdicts must agree) — a test, labelled so.
Refine  : the driver also replays every consecutive pair of snapshots through `Model.Msi.step`
          (decoded actions) and compares the model's projection with the new snapshot: the real code's
          behaviour is a behaviour of the model (on the sampled runs).
Streams : c06 (whole CPU, branch-free load/store programs, 3 variants × 1..4 cores), c06-rig (random
          requests on the controller rig), c06-exh-<i> (bounded exhaustive on the rig) — must hold;
          c06-flush / c06-rig-flush (pipeline / controller flushes) — classified against the flush
          findings (C06-defect-1/2): a violation is excused only if the replay shows that exactly this
          (core, line) was flushed between its L1 push and `post()`.
A violation = a snapshot of the real code violating a clause: replay = program / request schedule +
cycle + snapshot + clause, shrunk by dropping instructions / requests.
"""
import binascii
import json
import os
import re
import subprocess
import time
from collections import Counter
from concurrent.futures import ThreadPoolExecutor

from .core import Lock, TRUSTED_COMMON, WORK, VERIF, LEAN, GOENV, sh

MODS = ["MajoranaVerif.Props.C06"]
DRIVER_MODS = ["MajoranaVerif.Driver.MainC06", "MajoranaVerif.Driver.Util", "MajoranaVerif.Model.Msi", "MajoranaVerif.Model.GoInt", "MajoranaVerif.Model.L3"]
SOURCES = ["Model/Msi.lean", "Proofs/Msi.lean", "Proofs/MsiSnapshot.lean", "Driver/MainC06.lean", "Model/L3.lean", "Proofs/L3.lean"]
EXH_SHARDS = 16
HARNESS = f"{WORK}/bin/harness"   # (a scratch build when the check itself is being tested against mutants)
MUST_HOLD = ["c06", "c06-rig"] + [f"c06-exh-{i}" for i in range(EXH_SHARDS)]
FLUSH = ["c06-rig-flush", "c06-flush"]
HOOKS = ["/repo/proc/comp/verif_on.go", "/repo/proc/mvp7-0/verif_on.go", "/repo/proc/mvp7-1/verif_on.go",
         "/repo/proc/mvp8-0/verif_on.go", "/repo/risc/verif_on.go (VerifSetOnTick)"]

# pinned witnesses of the two flush findings (rig, deterministic): a read fill flushed between its L1
# push and post() (flush cycles scanned over the 3-cycle window), and a read of a Modified line flushed
# during its L1 access.
W_WINDOW = [{"kind": "rig", "variant": v, "cores": 1, "memsize": 1024, "ops": [
    {"core": 0, "kind": "r", "addr": 4, "width": 4, "delay": 0, "val": 0},
    {"core": 0, "kind": "f", "addr": 0, "width": 0, "delay": t, "val": 0}]}
    for v in ("mvp7-0", "mvp7-1", "mvp8-0") for t in (311, 312, 313, 314, 362, 363, 364, 412, 413, 414, 721, 722, 723)]
# the same on the whole CPU: a mispredicted branch (memory is zero, so `beqz` is taken) while the
# wrong-path load has pushed its line; 3 or 4 execute units
W_WINDOW_CPU = [{"kind": "cpu", "variant": v, "cores": n, "memsize": 1024, "regs": {}, "mem": "",
                 "text": "  lw t0, 0(s1)\n  beqz t0, l1\n  lw t1, 64(s1)\nl1:\n  addi a0, a0, 1\n"}
                for v in ("mvp7-0", "mvp7-1") for n in (3, 4)]
W_RDMOD = [{"kind": "rig", "variant": v, "cores": 1, "memsize": 1024, "ops": [
    {"core": 0, "kind": "w", "addr": 4, "width": 4, "delay": 0, "val": 7},
    {"core": 0, "kind": "r", "addr": 4, "width": 4, "delay": 0, "val": 0},
    {"core": 0, "kind": "f", "addr": 0, "width": 0, "delay": t, "val": 0}]}
    for v in ("mvp7-0", "mvp7-1", "mvp8-0") for t in range(312, 330)] + [
    {"kind": "rig", "variant": "mvp8-0", "cores": 1, "memsize": 1024, "ops": [
        {"core": 0, "kind": "w", "addr": 4, "width": 4, "delay": 0, "val": 7},
        {"core": 0, "kind": "r", "addr": 4, "width": 4, "delay": 0, "val": 0},
        {"core": 0, "kind": "f", "addr": 0, "width": 0, "delay": t, "val": 0}]} for t in range(360, 440)]


# ------------------------------------------------------------------------------------------------
# the driver executable
# ------------------------------------------------------------------------------------------------

def ensure_driver(ck):
    """(argv, cwd, kind). Preferred: the lean_exe target `driver_c06`; until the lakefile has it, the
    module objects are compiled by lake and linked with leanc; last resort: the interpreter."""
    exe = f"{LEAN}/.lake/build/bin/driver_c06"
    try:
        has_target = 'name = "driver_c06"' in open(f"{LEAN}/lakefile.toml").read()
    except OSError:
        has_target = False
    if has_target:
        ok, out = ck.lake_build(["driver_c06"])
        if ok and os.path.exists(exe):
            return [exe], None, "lean_exe"
        ck.notes.append("lake build driver_c06 failed: " + out[-300:])
    rc, out = sh(["lake", "build"] + [f"+{m}:o" for m in DRIVER_MODS], cwd=LEAN, timeout=1800)
    if rc == 0:
        objs = [f"{LEAN}/.lake/build/ir/" + m.replace(".", "/") + ".c.o.export" for m in DRIVER_MODS]
        os.makedirs(f"{WORK}/bin", exist_ok=True)
        dst = f"{WORK}/bin/driver_c06"
        rc, out = sh(["leanc", "-o", dst] + objs, cwd=LEAN, timeout=600)
        if rc == 0:
            return [dst], None, "leanc-linked (no lean_exe target driver_c06 in lakefile.toml yet)"
    ck.notes.append("could not compile the C06 driver (" + out[-200:].strip() + "); falling back to the interpreter on a prefix of each stream")
    return ["lake", "env", "lean", "--run", "MajoranaVerif/Driver/MainC06.lean"], LEAN, "interpreter"


def stream_dir(ck):
    # one directory per invocation: concurrent checks (other seeds) must not share stream files
    d = f"{WORK}/streams/{ck.pid}/seed{ck.seed}-{os.getpid()}"
    os.makedirs(d, exist_ok=True)
    return d


def cleanup(ck):
    """a clean run leaves nothing behind (the streams are tens of MB); a failing one keeps its files"""
    if not ck.violations and not ck.broken:
        import shutil
        shutil.rmtree(stream_dir(ck), ignore_errors=True)


def run_harness(ck, stream, env=None, timeout=900):
    d = stream_dir(ck)
    for ext in ("in", "go", "lean"):
        try:
            os.remove(f"{d}/{stream}.{ext}")
        except FileNotFoundError:
            pass
    rc, out = sh([HARNESS, "-out", d, "-seed", str(ck.seed), "-tier", ck.tier, stream],
                 env=dict(GOENV, **(env or {})), timeout=timeout)
    if rc != 0:
        raise RuntimeError(f"harness stream {stream} failed (rc={rc}): {out[-1500:]}")


def run_driver(ck, drv, stream, timeout=900):
    argv, cwd, kind = drv
    d = stream_dir(ck)
    src = f"{d}/{stream}.in"
    if kind == "interpreter":
        # the interpreter is two orders of magnitude slower: a prefix of whole runs only
        lines = open(src).read().splitlines()
        cut = min(len(lines), 1500)
        while cut < len(lines) and not lines[cut - 1].startswith(("E ", "X ", "T ")):
            cut += 1
        src = f"{d}/{stream}.prefix.in"
        with open(src, "w") as f:
            f.write("\n".join(lines[:cut]) + "\n")
    with open(src) as fin, open(f"{d}/{stream}.lean", "w") as fout:
        p = subprocess.run(argv, cwd=cwd, stdin=fin, stdout=fout, stderr=subprocess.PIPE, text=True, timeout=timeout)
    if p.returncode != 0:
        raise RuntimeError(f"Lean driver failed on stream {stream}: {p.stderr[-1500:]}")


def read_stream(ck, stream):
    d = stream_dir(ck)
    rd = lambda ext: open(f"{d}/{stream}.{ext}").read().splitlines()
    return rd("in"), rd("go"), rd("lean")


# ------------------------------------------------------------------------------------------------
# parsing
# ------------------------------------------------------------------------------------------------

def unz(data):
    """zero-run compressed hex -> plain hex"""
    out = []
    for tok in data.split("."):
        if tok.startswith("z"):
            out.append("00" * int(tok[1:]))
        else:
            out.append(tok)
    return "".join(out)


def parse_case(line):
    """K line -> the JSON case of stream c06-file (without variant / cores)"""
    t = line.split()
    kv = dict(x.split("=", 1) for x in t[2:] if "=" in x)
    if kv.get("kind") == "rig":
        ops = []
        for o in kv.get("ops", "").split(","):
            if not o:
                continue
            c, k, a, w, dl, v = o.split(":")
            ops.append({"core": int(c), "kind": k, "addr": int(a), "width": int(w), "delay": int(dl), "val": int(v)})
        return {"kind": "rig", "memsize": int(kv["memsize"]), "ops": ops}
    regs = {}
    for r in kv.get("regs", "").split(","):
        if r:
            k, v = r.split(":")
            regs[k] = int(v)
    return {"kind": "cpu", "family": kv.get("family"), "memsize": int(kv["memsize"]), "regs": regs,
            "mem": unz(kv.get("mem", "z0")), "text": binascii.unhexlify(kv.get("prog", "")).decode()}


def lean_verdict(l):
    return l.split(" ref=")[0].strip() if " ref=" in l else (l.split()[0] if l.startswith("end") else l.strip())


class Analysis:
    def __init__(self):
        self.lines = 0
        self.cycles = 0
        self.snapshots = 0
        self.runs = 0
        self.ref_ok = 0
        self.ref = Counter()
        self.status = Counter()
        self.by_variant = Counter()
        self.by_cores = Counter()
        self.kinds = Counter()
        self.families = Counter()
        self.clauses = Counter()
        self.excused = 0
        self.busyflush_runs = 0
        self.aux = Counter()
        self.tie_diff = []       # (stream, line number, in, go, lean)
        self.l3_tie = []         # MVP-8: Go's l3stale vs Lean's Model.L3.cleanB on the exported L3 differ: (stream, line number, in, go, lean)
        self.l3_bad = []         # MVP-8, must-hold streams: Model.L3.Clean fails on a real snapshot / run: (stream, line number, run, cycle, go, lean)
        self.l3_judged = 0
        self.rv_tie = []         # rig: Go's verdict on the values its reads returned vs Lean's (cur on the snapshot): (stream, line number, in, go, lean)
        self.rv_bad = []         # rig, must-hold streams: a read returned something else than the current value of its line
        self.rv_judged = 0
        self.ref_fail = []       # (stream, line number, run info, why)
        self.hard = []           # violating snapshots: dict(stream, case, run, cycle, line, go, lean, clause)
        self.unclassified = []   # flush streams: violating snapshots of runs whose refinement replay was lost before
        self.findings = []       # excused ones (flush findings), same dict
        self.samples = []
        self.exh_runs = 0


def analyse(an, stream, ins, go, lean, must_hold, complete_lean=True):
    case, run = None, None
    n = min(len(ins), len(go), len(lean)) if complete_lean else min(len(ins), len(go), len(lean))
    if len(go) != len(ins) or (complete_lean and len(lean) != len(ins)):
        an.tie_diff.append((stream, n + 1, "(length)", f"{len(go)} go lines for {len(ins)} inputs", f"{len(lean)} lean lines"))
    for i in range(n):
        l, g, m = ins[i], go[i], lean[i]
        an.lines += 1
        tag = l[:2]
        if tag == "K ":
            case = parse_case(l)
            an.kinds[case["kind"]] += 1
            if case.get("family"):
                an.families[case["family"]] += 1
            if m != "case":
                an.tie_diff.append((stream, i + 1, l[:200], g, m))
            continue
        if tag == "R ":
            kv = dict(x.split("=", 1) for x in l.split()[2:] if "=" in x)
            run = {"id": l.split()[1], "variant": kv.get("variant"), "cores": int(kv.get("cores", "0")), "case": case, "mem": int(kv.get("mem", "0") or 0)}
            an.runs += 1
            an.by_variant[run["variant"]] += 1
            an.by_cores[run["cores"]] += 1
            continue
        if tag == "E ":
            kv = dict(x.split("=", 1) for x in l.split()[2:] if "=" in x)
            st = kv.get("status", "?")
            an.status[st.split(":")[0] + (":" + st.split(":", 1)[1][:40] if ":" in st else "")] += 1
            for k in ("l3stale", "lockacct"):
                if int(kv.get(k, "0")) > 0:
                    an.aux[k + "_runs"] += 1
            if must_hold and int(kv.get("l3stale", "0")) > 0 and run and str(run.get("variant", "")).startswith("mvp8"):
                an.l3_bad.append((stream, i + 1, run, None, f"l3stale={kv.get('l3stale')} snapshots of the run", "-"))
            mm = re.search(r"busyflush=(\d+)", m)
            if mm and int(mm.group(1)) > 0:
                an.busyflush_runs += 1
            continue
        if tag == "X ":
            an.status["skipped:" + l.split()[2]] += 1
            continue
        if tag == "T ":
            mm = re.search(r"runs=(\d+) flagged=(\d+)", l)
            if mm:
                an.exh_runs += int(mm.group(1))
            continue
        if tag not in ("S ", "P "):
            an.tie_diff.append((stream, i + 1, l[:200], g, m))
            continue
        head = l.split(" ; ", 1)[0].split()
        cyc, rep = int(head[1]), int(head[2])
        an.snapshots += 1
        an.cycles += rep
        lv = lean_verdict(m)
        if lv != g:
            an.tie_diff.append((stream, i + 1, l[:300], g, m))
        rm2 = re.search(r" rvv=(\w+)", l) if tag == "S " else None
        if rm2 and m != "?":
            lm2 = re.search(r" rv=(\w+)", m)
            lr = lm2.group(1) if lm2 else "missing"
            an.rv_judged += l.split(" rv=", 1)[1].split(" ;", 1)[0].count(",") + 1
            if rm2.group(1) != lr:
                an.rv_tie.append((stream, i + 1, l[-300:], rm2.group(1), lr))
            if must_hold and (rm2.group(1) != "ok" or lr != "ok"):
                an.rv_bad.append((stream, i + 1, run, cyc, rm2.group(1), lr))
        gm = re.search(r" l3v=(\w+)", l) if tag == "S " else None
        if gm and m != "?":
            lm = re.search(r" l3clean=(\w+)", m)
            lc = lm.group(1) if lm else "missing"
            an.l3_judged += 1
            if (gm.group(1) == "stale") != (lc == "stale") or lc == "missing":
                an.l3_tie.append((stream, i + 1, l[:200], gm.group(1), lc))
            if must_hold and (gm.group(1) != "ok" or lc != "ok"):
                an.l3_bad.append((stream, i + 1, run, cyc, gm.group(1), lc))
        rm = re.search(r"ref=(\S+)", m)
        ref = rm.group(1) if rm else ("pm" if tag == "P " else "none")
        an.ref[ref.split(":")[0] + (":" + ref.split(":")[1] if ref.startswith(("fail", "skip")) and ":" in ref else "")] += 1
        if ref == "ok":
            an.ref_ok += 1
        elif ref.startswith("fail"):
            an.ref_fail.append((stream, i + 1, run, ref))
        bad = g != "ok" and g != "pm ok" or (lv not in ("ok", "pm ok"))
        if bad:
            clause = (g.split("viol ", 1)[1] if "viol " in g else lv.split("viol ", 1)[1] if "viol " in lv else "?")
            for c in clause.split(","):
                an.clauses[c] += 1
            rec = {"stream": stream, "case": case, "run": run, "cycle": cyc, "line": l, "go": g, "lean": m, "clause": clause,
                   "post_mortem": tag == "P "}
            excused = (not must_hold) and (
                ("hw=excused" in m and clause == "holds_iff_not_invalid") or
                (tag == "P " and clause == "counters_nonneg" and "cause=flush-rdHitM" in m))
            if excused:
                an.excused += 1
                if len(an.findings) < 50:
                    an.findings.append(rec)
            elif not must_hold and tag == "S " and ("ref=lost" in m or "ref=skip" in m) and run and run.get("mem") and \
                    any(int(a) >= run["mem"] for a in re.findall(r"[/,=](\d+):\d+:", l.split(" ; nl=")[0])):
                # a wrong-path access OUTSIDE the memory (a "wild" line has no next level and the replay stops at it): skipped, as in
                # the must-hold streams; C06 speaks of the lines of the memory
                an.wild_skipped = getattr(an, "wild_skipped", 0) + 1
            elif not must_hold and tag == "S " and ("ref=lost" in m or "ref=fail" in m or "ref=skip" in m):
                # the excuse needs the replay (which (core, line) was flushed in its window): without it the
                # snapshot cannot be classified; the lost refinement itself is reported
                an.unclassified.append(rec)
            else:
                an.hard.append(rec)
        elif len(an.samples) < 3 and tag == "S " and "st=" in l and ":2" in l.split(" ; ")[1] and rep > 1:
            an.samples.append({"in": l[:260] + ("…" if len(l) > 260 else ""), "go": g, "lean": m})


# ------------------------------------------------------------------------------------------------
# explicit cases: replay, witnesses, shrinking
# ------------------------------------------------------------------------------------------------

def run_cases(ck, drv, cases, tag="file"):
    """runs explicit cases on the real code (stream c06-file) and through the driver; returns per case
    the list of (in, go, lean) lines"""
    d = stream_dir(ck)
    path = f"{d}/c06-{tag}.json"
    with open(path, "w") as f:
        json.dump(cases, f)
    run_harness(ck, "c06-file", env={"VERIF_C06_FILE": path})
    have_lean = drv is not None and drv[2] != "interpreter"
    if have_lean:
        run_driver(ck, drv, "c06-file")
        ins, go, lean = read_stream(ck, "c06-file")
    else:
        ins = open(f"{d}/c06-file.in").read().splitlines()
        go = open(f"{d}/c06-file.go").read().splitlines()
        lean = ["?"] * len(ins)
    out, cur = [], None
    for l, g, m in zip(ins, go, lean):
        if l.startswith("K "):
            cur = []
            out.append(cur)
        if cur is not None:
            cur.append((l, g, m))
    while len(out) < len(cases):
        out.append([])
    return out


def case_violates(lines, clause):
    """first (in, go, lean) of a case's lines whose Go or Lean verdict violates `clause`
    (clause "ref=fail": whose refinement replay fails)"""
    if clause == "ref=fail":
        return next(((l, g, m) for l, g, m in lines if "ref=fail" in m), None)
    for l, g, m in lines:
        if l[:2] in ("S ", "P ") and (("viol" in g and clause in g) or ("viol" in m and clause in m.split(" ref=")[0])):
            return (l, g, m)
    return None


def shrink(ck, drv, case, clause, budget_s=25.0):
    t0 = time.time()
    cur = case

    def parts(c):
        if c["kind"] == "rig":
            return list(c["ops"])
        return c["text"].split("\n")

    def build(c, items):
        c2 = dict(c)
        if c["kind"] == "rig":
            c2["ops"] = items
        else:
            c2["text"] = "\n".join(items)
        return c2

    def removable(c, item):
        return True if c["kind"] == "rig" else bool(item.strip()) and not item.strip().endswith(":")

    chunk = max(len(parts(cur)) // 2, 1)
    while chunk >= 1 and time.time() - t0 < budget_s:
        items = parts(cur)
        cands = []
        i = 0
        while i < len(items):
            seg = items[i:i + chunk]
            if any(removable(cur, x) for x in seg):
                keep = items[:i] + [x for x in seg if not removable(cur, x)] + items[i + chunk:]
                cands.append(build(cur, keep))
            i += chunk
        cands = cands[:40]
        if not cands:
            break
        try:
            res = run_cases(ck, drv, cands, tag="shrink")
        except Exception:
            break
        hit = next((c for c, r in zip(cands, res) if case_violates(r, clause)), None)
        if hit is not None:
            cur = hit
            chunk = min(chunk, max(len(parts(cur)) // 2, 1))
        else:
            chunk //= 2
    return cur


def report(ck, drv, rec, unless_excused=False):
    """a violating snapshot of the real code -> shrunk replay file.  unless_excused: the snapshot could
    not be classified (its run's replay was lost); if the shrunk case is classifiable and excused by a
    flush finding, it is recorded as that finding instead."""
    case = dict(rec["case"] or {})
    if not case:
        ck.violation({"kind": "failing-input", "clause": rec["clause"], "snapshot": rec["line"], "go": rec["go"], "model": rec["lean"],
                      "stream": rec["stream"], "note": "the case description of this run was not found in the stream"})
        return
    case["variant"] = rec["run"]["variant"]
    case["cores"] = rec["run"]["cores"]
    clause = rec["clause"].split(",")[0]
    small = case
    first = (rec["line"], rec["go"], rec["lean"])
    try:
        again = run_cases(ck, drv, [case], tag="confirm")[0]
        hit = case_violates(again, clause)
        if hit:
            small = shrink(ck, drv, case, clause)
            res = run_cases(ck, drv, [small], tag="final")[0]
            first = case_violates(res, clause) or hit
    except Exception as e:  # the replay machinery must not hide the violation
        ck.notes.append(f"shrinking failed: {e}")
    if unless_excused and ("hw=excused" in first[2] or "cause=flush-rdHitM" in first[2]):
        ck.notes.append(f"an unclassifiable violating snapshot ({rec['clause']}, stream {rec['stream']}, variant {case['variant']}) shrinks to a case excused by a flush finding: "
                        + json.dumps(small.get("ops") or small.get("text"))[:300])
        return False
    head = first[0].split(" ; ", 1)[0].split()
    payload = {"kind": "failing-input", "what": "a per-cycle snapshot of the real machine violates a clause of the MSI invariant",
               "clause": rec["clause"], "variant": case["variant"], "cores": case["cores"], "machine": case["kind"],
               "cycle": int(head[1]), "post_mortem": head[0] == "P", "snapshot": first[0], "go_verdict": first[1], "model_verdict": first[2],
               "case": small, "stream": rec["stream"],
               "size_before_shrinking": len(case.get("ops") or case.get("text", "").split("\n")),
               "size_after_shrinking": len(small.get("ops") or small.get("text", "").split("\n")),
               "how_to_replay": "bin/check C06 --replay <this file>  (runs `case` on the real code with the per-cycle snapshot hook and evaluates the invariant)"}
    ck.violation(payload)


def report_ref(ck, drv, stream, lineno, run, case, why, ins_line):
    """the real code made a transition the abstract model cannot make (or the reverse): the theorems no
    longer cover the code. Not a violated clause by itself -> `no-failing-input-found`, but with the
    shrunk case and the first differing snapshot as replay."""
    case = dict(case or {})
    small, first = case, (ins_line, "", "ref=" + why)
    if case and run:
        case["variant"], case["cores"] = run["variant"], run["cores"]
        try:
            again = run_cases(ck, drv, [case], tag="confirm")[0]
            if case_violates(again, "ref=fail"):
                small = shrink(ck, drv, case, "ref=fail", budget_s=15.0)
                first = case_violates(run_cases(ck, drv, [small], tag="final")[0], "ref=fail") or first
        except Exception as e:
            ck.notes.append(f"shrinking failed: {e}")
    ck.violation({"kind": "refinement-failure", "what": "between two consecutive per-cycle snapshots the real code made a step that Model.Msi.step (the model the invariant is proved for) "
                  "cannot reproduce: the proof no longer covers the code; no snapshot violating a clause was found",
                  "difference": first[2].split("ref=")[-1], "snapshot": first[0], "variant": case.get("variant"), "cores": case.get("cores"),
                  "case": small, "stream": stream, "line": lineno,
                  "how_to_replay": "bin/check C06 --replay <this file>"}, no_input=True)


def known_entries():
    try:
        kf = json.load(open(f"{VERIF}/KNOWN_FINDINGS.json"))
    except Exception:
        return []
    return [f for f in kf.get("findings", []) if isinstance(f, dict) and f.get("property") == "C06"]


def replay_witnesses(ck, drv):
    """the pinned witnesses of the flush findings first (DESIGN §3.4)"""
    entries = json.dumps(known_entries()).lower()
    res = run_cases(ck, drv, W_WINDOW + W_RDMOD + W_WINDOW_CPU, tag="witness")
    win = [r for r in res[:len(W_WINDOW)] if case_violates(r, "holds_iff_not_invalid")]
    rdm = [r for r in res[len(W_WINDOW):len(W_WINDOW) + len(W_RDMOD)] if any(l.startswith("P ") and "counters_nonneg" in g for l, g, m in r)]
    wcpu = [r for r in res[len(W_WINDOW) + len(W_RDMOD):] if case_violates(r, "holds_iff_not_invalid")]
    variants = lambda rs: sorted({next(l for l, g, m in r if l.startswith("R ")).split("variant=")[1].split()[0] for r in rs})
    out = {"flush_window_whole_cpu (lw; beqz taken; wrong-path lw)": variants(wcpu)}
    for key, hits, text, word in (
        ("flush_window", win, "cacheController.flush() between the L1 push of a fill and post(): the line stays in L1 with state Invalid and no request in progress "
                              "(rig: one read of a line, flush 311–313 cycles later; whole CPU with 3–4 units: `lw t0,0(s1); beqz t0,l1; lw t1,64(s1); l1:` on zero memory; holds_iff_not_invalid)", "window"),
        ("flush_read_of_modified", rdm, "cacheController.flush() during a read of a line the core holds Modified: the write lock recorded in rlockSems is released with RUnlock -> "
                                        "read counter -1, panic(\"read is negative\"), write lock never released (rig: write, read, flush; counters_nonneg)", "modified")):
        out[key] = variants(hits)
        if hits:
            listed = "c06" in entries and word in entries
            line = f"property=C06 {text} [reproduces on {', '.join(variants(hits))}]"
            if listed:
                ck.known.append("KNOWN-FINDING: " + line)
            else:
                ck.known.append("UNLISTED-FINDING (not in KNOWN_FINDINGS.json; excused only in the flush streams, see .work/reports/C06-defect-*.md): " + line)
        else:
            ck.notes.append(f"finding {key}: the pinned witness no longer reproduces on this tree")
    return out


# ------------------------------------------------------------------------------------------------

def run(ck):
    built = False
    drv = None
    with Lock():
        err = ck.regenerate()
        if err:
            ck.notes.append("tie T1 (not used by C06): the translator does not accept the source: " + err[:300])
        ok, out = ck.lake_build(MODS)
        if not ok:
            bad = ck.failing_theorems(MODS[0], out)
            ck.broken.append("lake build failed; theorems/defs that no longer check: " + (", ".join(bad) or out[-800:]))
            ck.cov["obligations"] += len(ck.theorems_of(MODS[0])[0])
        else:
            built = True
            ck.audit(MODS)
            ck.scan_sources([f"{LEAN}/MajoranaVerif/{s}" for s in SOURCES])
            if ck.tier == "thorough":
                ck.leanchecker(MODS + ["MajoranaVerif.Proofs.Msi", "MajoranaVerif.Proofs.MsiSnapshot", "MajoranaVerif.Model.Msi"])
        drv = ensure_driver(ck)
        okh, outh = ck.build_harness()
        if not okh:
            ck.broken.append("go build -tags verif of the harness against /repo failed: " + outh[-600:])
    ck.cov["checker_cmd"] = ("lake build MajoranaVerif.Props.C06 && lake env lean Audit (#print axioms)"
                             + (" && lake env leanchecker" if ck.tier == "thorough" else "") + f"; driver: {drv[2] if drv else 'none'}")
    ck.cov["trusted_base"] = TRUSTED_COMMON + [
        "lean/MajoranaVerif/Model/Msi.lean part (b): HAND abstract model of proc/mvp7-0/{msi,cc}.go (= mvp7-1; = the L1 level of mvp8-0) — latencies abstracted, L1 capacity abstracted "
        "(any resident line may be the victim), whole-line contents; tied to the code by the per-cycle refinement replay of the driver on the sampled runs only",
        "the verif hooks that export the snapshot (" + ", ".join(HOOKS) + ") and the definition of 'transfer in progress' = the core's read/write coroutine is past its lock acquisition "
        "on that line (key of rlockSems/lockSems while the coroutine is not at its start); only 'resident although Invalid' is excused by it",
        "MVP-8: the shared L3 (fills, evictions, l3Lock, l3Write) is NOT modelled; 'next level' of an L1 line = the L3 sub-line if an L3 line covers it, else memory",
        "go/cmd/harness/c06.go c06Eval (Go-side evaluation of the clauses on the exported struct) and Model.Msi.MsiInv (Lean-side, on the rendered line): compared on every snapshot line"]
    ck.cov["rule"] = ("obligations = theorems of Props/C06.lean (invariant over ALL interleavings of the abstract model, any number of cores/lines); "
                      "evaluations = machine cycles at which the snapshot of the REAL code was taken and judged (the Go side fingerprints every cycle and evaluates each distinct snapshot; "
                      "identical consecutive snapshots are one line with a repeat count); distinct_nontrivial = distinct snapshot lines evaluated by BOTH Go and Lean (MsiInv) and compared; "
                      "traces_validated_against_impl = snapshot transitions replayed through Model.Msi.step with projection = next snapshot (ref=ok)")
    an = Analysis()
    t_streams = time.time()
    if okh and drv:
        witnesses = {}
        try:
            witnesses = replay_witnesses(ck, drv)
        except Exception as e:
            ck.broken.append(f"witness replay failed: {e}")
        streams = MUST_HOLD + FLUSH
        heavy = ["c06", "c06-flush"]          # these spawn one worker process per CPU themselves
        light = [s for s in streams if s not in heavy]
        errors = []

        def go_and_lean(s):
            try:
                run_harness(ck, s)
                run_driver(ck, drv, s)
            except Exception as e:
                errors.append(f"{s}: {e}")

        with ThreadPoolExecutor(max_workers=max(2, (os.cpu_count() or 4))) as ex:
            list(ex.map(go_and_lean, light))
        for s in heavy:
            go_and_lean(s)
        for e in errors:
            ck.broken.append("stream failed: " + e[:600])
        for s in streams:
            try:
                ins, go, lean = read_stream(ck, s)
            except OSError:
                continue
            nfail = len(an.ref_fail)
            analyse(an, s, ins, go, lean, must_hold=s in MUST_HOLD, complete_lean=drv[2] != "interpreter")
            for k in range(nfail, len(an.ref_fail)):   # keep the input line and the case of the failing run
                st, i, run, why = an.ref_fail[k]
                an.ref_fail[k] = (st, i, run, why, ins[i - 1])
            if s.startswith("c06-exh") and not an.tie_diff and not an.hard and not an.ref_fail:
                for ext in ("in", "go", "lean"):
                    try:
                        os.remove(f"{stream_dir(ck)}/{s}.{ext}")
                    except OSError:
                        pass
        ck.cov["evaluations"] = an.cycles
        ck.cov["distinct_nontrivial"] = an.snapshots
        ck.cov["traces_validated_against_impl"] = an.ref_ok
        ck.cov["samples"] = an.samples
        ck.cov["input_distribution"] = {
            "runs": an.runs, "runs_by_variant": dict(an.by_variant), "runs_by_cores": {str(k): v for k, v in an.by_cores.items()},
            "cases_by_machine": dict(an.kinds), "cpu_program_families": dict(an.families),
            "run_status (panic/hang/err runs are recorded and skipped: architectural result is not C06's concern)": dict(an.status),
            "exhaustive_rig_runs": an.exh_runs, "refinement": dict(an.ref),
            "violating_snapshots_by_clause (flush streams included)": dict(an.clauses),
            "excused_by_flush_finding": an.excused, "runs_with_busy_flush": an.busyflush_runs,
            "aux_observations (not clauses of C06)": dict(an.aux), "witnesses_reproduce_on": witnesses,
            "mvp8_snapshots_judged_by_Model.L3.cleanB (Go l3stale vs Lean, must agree and must hold)": an.l3_judged,
            "rig_read_values_judged (returned value = current value of the line on the snapshot; Go vs Lean, must agree and must hold)": an.rv_judged,
            "stream_seconds": round(time.time() - t_streams, 1)}
        ck.cov["exhaustive_note"] = ("rig, every assignment of <= k requests (read|write × line × start offset) to 2 and 3 cores on line sets {0},{0,64},{0,128 (MVP-8)}, "
                                "modulo line/time-shift symmetry: quick k=3 (≈ 4·10^4 runs), thorough k=4 (≈ 9.6·10^5 runs), offsets {0,2,310,313}; "
                                "every run judged by the Go side, every 5th (quick) / 97th (thorough) run also rendered and judged/replayed by Lean")
        # ---- verdicts
        seen = set()
        for rec in an.hard:
            key = (rec["clause"], rec["run"]["variant"] if rec["run"] else None, rec["stream"].split("-exh")[0])
            if key in seen:
                continue
            seen.add(key)
            report(ck, drv, rec)
            if len(seen) >= 3:
                break
        if an.tie_diff:
            s, i, l, g, m = an.tie_diff[0]
            ck.broken.append(f"tie (Go evaluation vs Lean MsiInv) differs on {len(an.tie_diff)} lines; first: stream {s} line {i}: go={g!r} lean={m!r} in={l!r}")
        if an.rv_tie:
            s, i, l, gv, lc = an.rv_tie[0]
            ck.broken.append(f"tie (Go vs Lean: the value a rig read returned vs the current value of its line on the snapshot) differs on {len(an.rv_tie)} snapshots; "
                             f"first: stream {s} line {i}: go={gv} lean={lc} in=…{l!r}")
        if an.rv_bad:
            s, i, run, cyc, gv, lc = an.rv_bad[0]
            ck.broken.append(f"correspondence (Props.C05.Msi.read_returns_cur on the real cache controllers): on {len(an.rv_bad)} snapshots of the must-hold rig streams a read "
                             f"returned something else than the current value of its line (the Modified holder's copy, else the next level); first: stream {s} line {i} "
                             f"variant={run['variant'] if run else '?'} cores={run['cores'] if run else '?'} cycle={cyc} go={gv} lean={lc}")
        if an.l3_tie:
            s, i, l, gv, lc = an.l3_tie[0]
            ck.broken.append(f"tie (Go l3stale vs Lean Model.L3.cleanB on the exported L3 of MVP-8) differs on {len(an.l3_tie)} snapshots; first: stream {s} line {i}: go={gv} lean={lc} in={l!r}")
        if an.l3_bad:
            s, i, run, cyc, gv, lc = an.l3_bad[0]
            ck.broken.append(f"correspondence (Model.L3.Clean on real snapshots) fails on {len(an.l3_bad)} snapshots/runs of the must-hold streams: on MVP-8 a resident L3 line "
                             f"that is not flagged in msi.l3Write differs from memory (`stale`), or a flag sits on an unaligned / non-resident address (`keys`) — the invariant of "
                             f"Model.L3 (Props.C06.l3_all_histories) does not describe the code; first: stream {s} line {i} variant={run['variant'] if run else '?'} "
                             f"cores={run['cores'] if run else '?'} cycle={cyc} go={gv} lean={lc}")
        if an.ref_fail:
            s, i, run, why, ins_line = an.ref_fail[0]
            report_ref(ck, drv, s, i, run, run["case"] if run else None, why, ins_line)
            ck.broken.append(f"refinement (real code vs Model.Msi.step) fails on {len(an.ref_fail)} runs; first: stream {s} line {i} "
                             f"variant={run['variant'] if run else '?'} cores={run['cores'] if run else '?'}: {why}")
        if an.unclassified:
            u0 = an.unclassified[0]
            msg = (f"flush streams: {len(an.unclassified)} violating snapshots in runs whose refinement replay had been lost before (cannot be classified against the flush findings); "
                   f"first: stream {u0['stream']} variant={u0['run']['variant']} cores={u0['run']['cores']} cycle={u0['cycle']} {u0['go']}")
            if an.ref_fail or an.hard:
                ck.notes.append(msg)
            else:
                ck.notes.append(msg)
                for u in an.unclassified[:3]:
                    if report(ck, drv, u, unless_excused=True) is not False:
                        break
        if an.findings:
            f0 = an.findings[0]
            ck.notes.append(f"flush streams: {an.excused} violating snapshots excused by the flush findings (the replay shows the (core, line) was flushed between push and post(), "
                            f"or the replayed model shows the negative counter is the RUnlock of a flushed read-of-Modified request); first: stream {f0['stream']} variant={f0['run']['variant']} cores={f0['run']['cores']} cycle={f0['cycle']} {f0['go']}")
        if an.snapshots == 0:
            ck.broken.append("no snapshot was evaluated")
    elif okh:
        ck.broken.append("no Lean driver available")
    ck.assumptions = [
        "whole-CPU must-hold stream: branch-free programs (no pipeline flush); with flushes the invariant is FALSE of the code (Props.C06.not_Full_C06_step, "
        "flush_read_of_modified_negative_counter; .work/reports/C06-defect-1.md, C06-defect-2.md) and is checked modulo exactly those two triggers",
        "snapshots are taken at Context.VerifTick, i.e. between cycles; after a Go panic only the lock counters of the post-mortem state are judged",
        "runs that panic, hang (tick budget), stall (protocol snapshot unchanged for 16 memory latencies) or touch wild addresses are recorded and skipped after their last snapshot (their cause is another property's concern)",
        "addresses inside a line and the 1 KB / 16-line geometry are taken from the code; |address| + 64 < 2^31"]
    if not built:
        ck.notes.append("Props/C06 did not build")
    cleanup(ck)
    ck.finish("proof")


def replay(ck, path):
    payload = json.load(open(path))
    case = payload.get("case")
    print("replay of", path)
    with Lock():
        okh, outh = ck.build_harness()
        drv = ensure_driver(ck) if okh else None
    if not okh or not case:
        print("cannot replay: " + (outh[-400:] if not okh else "no case in the file"))
        ck.finish("proof")
    clause = (payload.get("clause") or "").split(",")[0]
    lines = run_cases(ck, drv, [case], tag="replay")[0]
    bad = None
    for l, g, m in lines:
        if l[:2] in ("S ", "P ") and ("viol" in g or "viol" in m.split(" ref=")[0]):
            bad = bad or (l, g, m)
    for l, g, m in lines:
        if l[:2] in ("R ", "E ") or (bad and l == bad[0]):
            print("  " + l[:300] + ("…" if len(l) > 300 else ""), "->", g, "|", m)
    ck.cov["evaluations"] = sum(1 for l, _, _ in lines if l[:2] in ("S ", "P "))
    ck.cov["distinct_nontrivial"] = ck.cov["evaluations"]
    ck.cov["rule"] = "replay of one case"
    if bad:
        print("violating snapshot:", bad[1], "|", bad[2])
        ck.violation(dict(payload, replayed=True, snapshot=bad[0], go_verdict=bad[1], model_verdict=bad[2],
                          same_clause=bool(clause and clause in bad[1] + bad[2])))
    else:
        print("the invariant holds at every cycle of this case on this tree")
    import shutil
    shutil.rmtree(stream_dir(ck), ignore_errors=True)   # the replay file is self-contained
    ck.finish("proof")

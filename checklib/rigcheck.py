"""Memory-hierarchy level oracles for MVP-7.0 / 7.1 / 8 (stream c09-rig of go/cmd/harness/c09rig.go): request
schedules issued directly to the real cache controllers (verif rig: no pipeline, hence none of the known
pipeline findings in the way), run to quiescence, then the end-of-run write-back.
  C09 clause `final`: every byte written by exactly one core holds that core's last value in ctx.Memory after the
                      write-back, every unwritten byte its initial value.
  C10 clause `reads`: a read returns, for every byte only the reading core writes, that core's latest completed write.
Used as the `extra` step of cpucheck.run by c09.py / c10.py."""
from collections import Counter


def _run(ck, prop, field, clause):
    ins, go, _ = ck.run_stream("c09-rig", driver=False)
    c = Counter()
    bad = []
    for i, l in enumerate(go):
        for part in l.split(" ", 2)[2].split(" @@ "):
            kv = dict(x.split("=", 1) for x in part.split())
            st = kv["status"].split(":")[0]
            c[f"{kv['variant']}/{st}"] += 1
            ck.cov["evaluations"] += 1
            if st != "ok":
                bad.append((i, kv, f"the schedule ends in status {kv['status']}"))
            elif kv[field] not in ("ok", "skip"):
                bad.append((i, kv, f"{field}={kv[field]}"))
    ck.cov.setdefault("input_distribution", {})["rig_schedules_by_variant_and_status"] = dict(sorted(c.items()))
    ck.cov["rule"] = ck.cov.get("rule", "") + f"; plus {len(go)} request schedules x 3 variants on the cache-controller rig (c09-rig), clause: {clause}"
    seen = set()
    for i, kv, why in bad:
        if kv["variant"] in seen:
            continue
        seen.add(kv["variant"])
        ck.violation({"kind": "failing-input", "level": "cache-controller rig (no pipeline)", "variant": kv["variant"], "cores": kv["cores"], "verdict": why,
                      "clause": clause, "rig_case": ins[i], "observed": kv,
                      "how_to_replay": "ops are core:kind:addr:width:delay:value; go/cmd/harness/c09rig.go c09RunRig issues them to <variant>.NewVerifRig(cores, memsize) in core order each cycle, then Export()"})


def c09(ck):
    _run(ck, "C09", "final", "after the end-of-run write-back ctx.Memory holds every single-writer byte's last stored value")


def c10(ck):
    _run(ck, "C10", "reads", "a read returns the reading core's latest completed write for bytes only it writes")


def replay(ck, path, field):
    """Re-runs the rig case of a replay file on the real cache controllers of the three variants."""
    import json, os
    from .core import Lock, WORK
    payload = json.load(open(path))
    with Lock():
        ck.build_harness()
    d = f"{WORK}/streams/{ck.pid}"
    os.makedirs(d, exist_ok=True)
    f = f"{d}/rig-replay.txt"
    open(f, "w").write(payload["rig_case"] + "\n" + str(payload["cores"]) + "\n")
    import subprocess
    from .core import GOENV
    subprocess.run([f"{WORK}/bin/harness", "-out", d, "c09-rig-file"], env=dict(GOENV, VERIF_CASE_FILE=f), check=True)
    go = open(f"{d}/c09-rig-file.go").read().splitlines()
    n = 0
    for part in go[0].split(" ", 2)[2].split(" @@ "):
        kv = dict(x.split("=", 1) for x in part.split())
        bad = kv["status"] != "ok" or kv[field] not in ("ok", "skip")
        print(f"  {kv['variant']}/{kv['cores']} cores: status={kv['status']} reads={kv['reads']} final={kv['final']}" + ("   <-- violates" if bad else ""))
        n += bad
    if n:
        ck.violation(dict(payload, kind="replay"))
    ck.cov["evaluations"] = 3
    ck.cov["distinct_nontrivial"] = 2
    ck.finish("exploration")

"""C02 — each instruction has RV32IM semantics on all operand values (DESIGN §4, C02)."""
import json
from collections import Counter
from .core import Lock, TRUSTED_COMMON

MODS = ["MajoranaVerif.Props.C02"]


def compare(ck, ins, go, lean, limit=5):
    """go/lean have two lines per input: G (tie: Go vs regenerated Lean) and O/S (property: Go vs Spec)."""
    per_mn = Counter()
    tie_bad, prop_bad = [], []
    for i, line in enumerate(ins):
        g, o = go[2 * i], go[2 * i + 1]
        G, S = lean[2 * i], lean[2 * i + 1]
        text = line.split("text= ", 1)[1] if "text= " in line else "?"
        mn = text.split()[0] if text.split() else "?"
        per_mn[mn] += 1
        if g != G:
            tie_bad.append({"case": line, "go": g, "lean_generated": G})
        so = S.replace("S ", "O ", 1)
        roles_bad = so.endswith("roles=MISMATCH")
        so = so.replace(" roles=ok", "").replace(" roles=MISMATCH", "")
        if o != so or roles_bad:
            prop_bad.append({"case": line, "text": text, "go_outcome": o, "spec_outcome": S,
                             "how_to_replay": "bin/check C02 --replay <this file>  (re-runs the case on the real code and on Spec)"})
    return per_mn, tie_bad, prop_bad


def run(ck):
    err = None
    built = False
    with Lock():
        err = ck.regenerate()
        if err:
            ck.broken.append("tie T1: the translator no longer accepts the source: " + err)
        else:
            ok, out = ck.lake_build(MODS + ["driver"])
            if not ok:
                bad = ck.failing_theorems(MODS[0], out)
                ck.broken.append("lake build failed; theorems/defs that no longer check: " + (", ".join(bad) or out[-800:]))
                ck.cov["obligations"] += len(ck.theorems_of(MODS[0])[0])
                # the driver may still build (it does not import Props): try
                okd, _ = ck.lake_build(["driver"])
                built = okd
            else:
                built = True
                ck.audit(MODS)
                if ck.tier == "thorough":
                    ck.leanchecker(MODS + ["MajoranaVerif.Proofs.Opcodes", "MajoranaVerif.Gen.Opcodes"])
        okh, outh = ck.build_harness()
        if not okh:
            ck.broken.append("go build -tags verif of the harness against /repo failed: " + outh[-600:])
    ck.cov["checker_cmd"] = "extract (regenerate Gen/*.lean from /repo) && lake build MajoranaVerif.Props.C02 && lake env lean Audit (#print axioms)" + (" && lake env leanchecker" if ck.tier == "thorough" else "")
    ck.cov["trusted_base"] = TRUSTED_COMMON + [
        "lean/MajoranaVerif/Model/Roles.lean (ISA role of each Go struct field; cross-checked per case against Spec.Asm on the text the Go parser accepted)",
        "risc/opcodes.go Run/ReadRegisters/WriteRegisters/MemoryRead/MemoryWrite, registerRead and IsRegisterChange are REGENERATED into Lean; proc/comp/rat.go (used by registerRead) is hand-modelled (Model/Rat.lean, tied by C15's stream)"]
    ck.cov["rule"] = ("obligations = theorems of Props/C02.lean (one per instruction struct + conjunction + register sets + addresses + x0), each over ALL operand values; "
                      "evaluations = single-instruction cases run on the real code (risc.Parse of one line, then Run/ReadRegisters/WriteRegisters/MemoryRead/MemoryWrite) and compared with "
                      "(a) the regenerated Lean definitions and (b) Spec.exec: boundary lattice exhaustively over value pairs, every register-alias pattern, random values/registers/forward slots/undefined labels; "
                      "every case without forward slot additionally runs on a context with the rename table on (older write = the operand value, younger write = garbage, sequence id between them): outcome and addresses must equal the plain run's; distinct_nontrivial = distinct (instruction text, register values, forward, memory bytes, pc) tuples")
    if okh and built:
        ins, go, lean = ck.run_stream("c02")
        per_mn, tie_bad, prop_bad = compare(ck, ins, go, lean)
        ck.cov["evaluations"] += len(ins)
        ck.cov["traces_validated_against_impl"] += len(ins)
        ck.cov["distinct_nontrivial"] += len({l.split(" ; ", 1)[1] for l in ins})
        ck.cov["input_distribution"] = {"per_mnemonic": dict(per_mn),
                                        "go_errors": sum(1 for i in range(len(ins)) if go[2 * i + 1].split()[2:3] == ["err"]),
                                        "go_panics": sum(1 for i in range(len(ins)) if go[2 * i + 1].split()[2:3] == ["panic"]),
                                        "with_forward_slot": sum(1 for l in ins if "fwd=-" not in l)}
        ck.cov["samples"] += [{"in": ins[i], "go": go[2 * i:2 * i + 2], "lean": lean[2 * i:2 * i + 2]} for i in (0, len(ins) // 3, len(ins) - 1)]
        if tie_bad:
            ck.broken.append(f"correspondence c02 (Go vs regenerated Lean definitions) differs on {len(tie_bad)} cases; first: {json.dumps(tie_bad[0])}")
        # one violation per mnemonic (first failing case of each), so distinct defects are all reported
        seen = set()
        for b in prop_bad:
            mn = b["text"].split()[0]
            if mn in seen:
                continue
            seen.add(mn)
            ck.violation(dict(b, kind="failing-input", failing_cases_of_this_mnemonic=sum(1 for x in prop_bad if x["text"].split()[0] == mn)))
    elif okh:
        # the Lean side is not available (translator or proofs broken): still search for a concrete failing input with the
        # oracles that need the real code only (tagged reads, cleared forward slots)
        ins, go, _ = ck.run_stream("c02", driver=False)
        ck.cov["evaluations"] += len(ins)
        seen = set()
        for i, line in enumerate(ins):
            o = go[2 * i + 1]
            if "=DIFF" in o:
                text = line.split("text= ", 1)[1] if "text= " in line else "?"
                mn = text.split()[0] if text.split() else "?"
                if mn in seen:
                    continue
                seen.add(mn)
                ck.violation({"kind": "failing-input", "case": line, "text": text, "go_outcome": o,
                              "clause": "an operand read ignores a younger rename-table write / a cleared forward slot restores the plain behaviour"})
    ck.assumptions = ["loads receive exactly `width` bytes from the caller (every variant builds the slice from MemoryRead's addresses)",
                      "x0 reads 0 in the context (Props.C02.zero_reads_zero gives the condition)",
                      "error messages are not modelled: any non-nil error is `err`"]
    ck.finish("proof")


def replay(ck, path):
    payload = json.load(open(path))
    case = payload.get("case")
    print("replay of", path)
    print(json.dumps(payload, indent=1))
    ck.finish("proof")

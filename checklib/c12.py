"""C12 — cycle accounting follows the documented latency model (DESIGN §4 C12)."""
from collections import Counter
from .core import Lock, TRUSTED_COMMON
from . import cpu, cpucheck

MODS = ["MajoranaVerif.Props.C12"]
WIDTH = lambda v, par: 1 if v in ("mvp1", "mvp2", "mvp3", "mvp4", "mvp5") else par


REGWRITERS = cpu.R3 | cpu.I3 | {"jalr", "lui", "auipc", "li", "jal", "mv", "lb", "lh", "lw"}


def documented_mvp1_cycles(prog, ref):
    """independent oracle: the documented latency model evaluated on the reference path"""
    ins = cpu.decode(prog)
    path = [int(x) for x in ref.get("path", "").split(",") if x != ""]
    total = 0
    for i in path:
        if i >= len(ins):
            return None
        m = ins[i][0]
        load = m in ("lb", "lh", "lw")
        total += 309 + 1 + (309 if load else 0) + (50 if load else 1)
        total += 1 if m in REGWRITERS else (309 if m in ("sb", "sh", "sw") else 0)
    if ref["stop"] == "ret":
        total += 309 + 1 + 1   # the final ret: fetch, decode, execute; no write-back
    return total


def run(ck):
    with Lock():
        err = ck.regenerate()
        if err:
            ck.broken.append("tie T1: the translator no longer accepts the source: " + err)
        ok, out = ck.lake_build(MODS + ["driver"])
        if not ok:
            ck.broken.append("lake build failed; no longer checks: " + (", ".join(ck.failing_theorems(MODS[0], out)) or out[-800:]))
            ck.cov["obligations"] += len(ck.theorems_of(MODS[0])[0])
            ok, _ = ck.lake_build(["driver"])
        else:
            ck.audit(MODS)
            if ck.tier == "thorough":
                ck.leanchecker(MODS + ["MajoranaVerif.Proofs.SeqMachine", "MajoranaVerif.Model.SeqMachine", "MajoranaVerif.Proofs.CycleTrace", "MajoranaVerif.Proofs.CycleTraceMvp3"])
        okh, outh = ck.build_harness()
        if not okh:
            ck.broken.append("go build -tags verif of the harness against /repo failed: " + outh[-800:])
    ck.cov["checker_cmd"] = "extract && lake build MajoranaVerif.Props.C12 driver && #print axioms audit; harness cpu-c12 | driver (Spec.run + Model.Seq MVP-1/MVP-2) | compare"
    ck.cov["trusted_base"] = TRUSTED_COMMON + [
        "lean/MajoranaVerif/Model/SeqMachine.lean: hand-written cycle-accurate model of proc/mvp1 and proc/mvp2 (built from regenerated instruction semantics, latency table, Cycles() and package constants); tied by comparing status, cycle count and final state with the Go machines on every generated program",
        "lean/MajoranaVerif/Model/Mmu.lean, Mvp3.lean, Mvp4.lean, TimingTrace.lean: cycle-accurate models of proc/mvp3, proc/mvp4, proc/mvp5 (Model/Mvp5.lean) and the timing-trace cost functions, tied by exact cycle agreement on every case; MVP-6.0..8: no cycle-accurate Lean model; their clauses (positivity, instructions/width lower bound, value-independence) are checked dynamically only"]
    if not (ok and okh):
        ck.finish("proof")
        return
    findings = [k for k in cpucheck.load_findings() if "C12" in k.get("properties", [k.get("property")])]
    for k in findings:
        ck.known.append(f"KNOWN-FINDING: property=C12 {k['id']}: {k.get('c12_short') or k['short']}")
    ins, go, lean = ck.run_stream("cpu-c12")
    n_runs = 0
    tie_bad, prop_bad = [], []
    dist = Counter()
    twins = Counter()
    prev = None
    for i in range(len(ins)):
        c = cpu.case_of(ins[i])
        ref = cpu.parse_ref(lean[i])
        meta, res = cpu.parse_go(go[i])
        by = {(r["variant"], r["par"]): r for r in res}
        # (a) tie: Go MVP-1 … MVP-4 against the cycle-accurate Lean models (all cases, well-formed or not)
        for key, var in (("m1", "mvp1"), ("m2", "mvp2"), ("m3", "mvp3"), ("m4", "mvp4"), ("m5", "mvp5")):
            if key not in ref or (var, 0) not in by:
                continue
            h, cyc, steps, same = ref[key].split(",")
            r = by[(var, 0)]
            mstat = {"ret": "ok", "offend": "ok", "err": "err", "panic": "panic", "fuel": "hang"}[h]
            n_runs += 1
            if r["status"] != mstat or (mstat == "ok" and int(cyc) != r["cycles"]):
                tie_bad.append({"case": c["id"], "variant": var, "go": f"{r['status']} cycles={r['cycles']}", "model": ref[key], "program": c["prog"]})
            if mstat == "ok" and same != "same" and not ref["stop"].startswith("notwf"):
                tie_bad.append({"case": c["id"], "variant": var, "model_final_state_differs_from_Spec": ref[key], "program": c["prog"]})
        if ref["stop"].startswith("notwf") or ref["stop"].startswith("err"):
            prev = None
            continue
        dist[c["family"]] += 1
        # (b) property clauses on the Go outputs
        m1, m2 = by.get(("mvp1", 0)), by.get(("mvp2", 0))
        if m1 and m2 and m1["status"] == "ok" and m2["status"] == "ok" and m2["cycles"] > m1["cycles"]:
            prop_bad.append({"clause": "MVP-2 never slower than MVP-1", "case": c["id"], "program": c["prog"], "mvp1": m1["cycles"], "mvp2": m2["cycles"], "case_dict": cpu.case_dict(c)})
        if m1 and m1["status"] == "ok" and "m1" in ref and int(ref["m1"].split(",")[1]) != m1["cycles"]:
            prop_bad.append({"clause": "MVP-1 cycle count = sum of fetch+decode+memory-read+execute+write-back latencies (Props.C12.mvp1_exact evaluated on this run)",
                             "case": c["id"], "program": c["prog"], "go": m1["cycles"], "formula": ref["m1"], "case_dict": cpu.case_dict(c)})
        # the documented formula, computed independently of the Lean model from the reference path
        if m1 and m1["status"] == "ok" and ref.get("path") is not None and len(ref.get("path", "").split(",")) < 2999:
            exp = documented_mvp1_cycles(c["prog"], ref)
            if exp is not None and exp != m1["cycles"]:
                prop_bad.append({"clause": "MVP-1 cycle count = documented sum (fetch 309 + decode 1 + memory read 309 for loads + execute 50 for loads else 1 + write-back 1 for register results / 309 for stores)",
                                 "case": c["id"], "program": c["prog"], "go": m1["cycles"], "documented": exp, "case_dict": cpu.case_dict(c)})
        for r in res:
            if r["status"] != "ok":
                continue
            n_runs += 1
            if r["cycles"] <= 0 or r["cycles"] * WIDTH(r["variant"], r["par"]) < ref["steps"]:
                prop_bad.append({"clause": "cycles positive and >= executed instructions / issue width", "case": c["id"], "variant": r["variant"], "par": r["par"],
                                 "cycles": r["cycles"], "steps": ref["steps"], "program": c["prog"], "case_dict": cpu.case_dict(c)})
        # (c) value independence on twins with the same path and addresses
        if c["family"].endswith("-twin") and prev is not None:
            pc, pref, pby = prev
            if pref.get("path") == ref.get("path") and pref.get("accs") == ref.get("accs"):
                twins["same_path_and_addresses"] += 1
                for k, r in by.items():
                    q = pby.get(k)
                    if q and r["status"] == "ok" and q["status"] == "ok" and r["cycles"] != q["cycles"]:
                        kf = cpucheck.classify(findings, "C12", k[0], cpu.features(c, ref))
                        if kf:   # e.g. the renaming variants pick among in-flight writers in Go map order: timing is not even repeatable
                            twins[f"excused:{kf}@{k[0]}"] += 1
                            continue
                        prop_bad.append({"clause": "cycle count independent of operand values (same path, same addresses)", "variant": k[0], "par": k[1],
                                         "cycles_a": q["cycles"], "cycles_b": r["cycles"], "program": c["prog"], "regs_a": pc["regs"], "regs_b": c["regs"],
                                         "case_dict": cpu.case_dict(c)})
            else:
                twins["path_or_addresses_differ(skipped)"] += 1
        prev = (c, ref, by) if not c["family"].endswith("-twin") else None
    ck.cov["evaluations"] += n_runs
    ck.cov["programs"] = len(ins)
    ck.cov["distinct_nontrivial"] += len({l.split(" ; ", 2)[2] for l in ins})
    ck.cov["traces_validated_against_impl"] += n_runs
    ck.cov["rule"] = ("obligations = theorems of Props/C12.lean about the cycle-accurate model of MVP-1/MVP-2 (exact sum formula, MVP-2 <= MVP-1 with identical architectural run, instruction lower bound); "
                      "evaluations = (program, variant, parallelism) runs whose cycle count was examined: Go MVP-1/MVP-2 vs the Lean model (exact equality), MVP-2 <= MVP-1, positivity and steps/width bound on all 12 variants x parallelism 1..4, "
                      "value-independence on twin inputs (same program, other operand values and memory contents) whose reference path and address trace coincide; distinct_nontrivial = distinct (registers, memory, program) inputs")
    ck.cov["input_distribution"] = {"well_formed_cases_by_family": dict(dist), "twins": dict(twins)}
    if ins:
        ck.cov["samples"] += [{"program": cpu.case_of(ins[0])["prog"], "lean": lean[0][:200], "go_mvp1": go[0].split(" @@ ")[1][:120]}]
    if tie_bad:
        ck.broken.append(f"correspondence Go MVP-1/MVP-2 vs Model.Seq differs on {len(tie_bad)} runs; first: {tie_bad[0]}")
    seen = set()
    for b in prop_bad:
        key = (b["clause"], b.get("variant"))
        if key in seen or len(seen) >= 6:
            continue
        seen.add(key)
        ck.violation(dict(b, kind="failing-input", case=b.pop("case_dict"), how_to_replay="bin/check C01 --replay <this file> re-runs the program on all variants; compare the cycle counts"))
    ck.assumptions = ["Go `int` cycle counters are modelled as unbounded integers", "an `err` run returns 0 cycles in Go; the model keeps the accumulated count and the check compares 0"]
    ck.finish("proof")


def replay(ck, path):
    from . import cpucheck
    cpucheck.replay(ck, path)

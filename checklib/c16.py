"""C16 — word encoding is a little-endian bijection (DESIGN §4, C16)."""
from .core import Lock, TRUSTED_COMMON

MODS = ["MajoranaVerif.Props.C16"]


def run(ck):
    proof_ok = False
    with Lock():
        err = ck.regenerate()
        if err:
            ck.broken.append("tie T1: the translator no longer accepts the source: " + err)
        else:
            ok, out = ck.lake_build(MODS + ["driver"])
            if not ok:
                bad = ck.failing_theorems(MODS[0], out)
                ck.broken.append("lake build failed; theorems/defs that no longer check: " + (", ".join(bad) or out[-600:]))
                ck.cov["obligations"] += len(ck.theorems_of(MODS[0])[0])
            else:
                ck.audit(MODS)
                proof_ok = not ck.broken
                if ck.tier == "thorough":
                    ck.leanchecker(MODS + ["MajoranaVerif.Proofs.Bytes", "MajoranaVerif.Gen.Bytes", "MajoranaVerif.Gen.Opcodes"])
        okh, outh = ck.build_harness()
        if not okh:
            ck.broken.append("go build -tags verif of the harness against /repo failed: " + outh[-600:])
    ck.cov["checker_cmd"] = "extract (regenerate Gen/*.lean from /repo) && lake build MajoranaVerif.Props.C16 && lake env lean Audit (#print axioms)" + (" && lake env leanchecker" if ck.tier == "thorough" else "")
    ck.cov["trusted_base"] = TRUSTED_COMMON + ["common/bytes/bytes.go and the lw/sw bodies of risc/opcodes.go are REGENERATED into Lean, not hand-modelled"]
    ck.cov["rule"] = ("obligations = theorems of Props/C16.lean over the regenerated codec, each for ALL 2^32 values / byte quadruples; "
                      "evaluations = cases of the correspondence stream (Go function vs generated Lean definition: one-bit, byte-boundary, lattice and random values) "
                      "plus the Go-vs-encoding/binary oracle sample (thorough: all 2^32 values); distinct_nontrivial = distinct input values among them")
    if okh:
        # tie T2a: generated Lean definitions executed against the real functions
        if proof_ok or not err:
            try:
                ins, go, lean = ck.run_stream("c16")
                ck.cov["evaluations"] += len(ins)
                ck.cov["traces_validated_against_impl"] += len(ins)
                distinct = {l for l in ins}
                ck.cov["distinct_nontrivial"] += len(distinct)
                ck.cov["samples"] += [{"in": ins[i], "go": go[i], "lean": lean[i]} for i in (0, len(ins) // 2, len(ins) - 1)]
                for i, (g, l) in enumerate(zip(go, lean)):
                    if g != l:
                        ck.broken.append(f"correspondence c16 (Go vs regenerated Lean definition) differs at line {i+1}: in={ins[i]!r} go={g!r} lean={l!r}")
                        break
                if len(go) != len(lean):
                    ck.broken.append("correspondence c16: output lengths differ")
            except Exception as e:  # driver missing because the build failed, etc.
                ck.broken.append(f"correspondence c16 could not run: {e}")
        # property-level search (always on the sample; the full sweep in thorough or when something is broken)
        ins, go, _ = ck.run_stream("c16-oracle", driver=False)
        summ = [l for l in go if l.startswith("summary")]
        n = int(summ[0].split("checked=")[1].split()[0]) if summ else 0
        ck.cov["evaluations"] += n
        ck.cov["distinct_nontrivial"] += n
        cex = [l for l in go if l.startswith("counterexample")]
        if ck.tier == "thorough" or ck.broken:
            ins2, go2, _ = ck.run_stream("c16-sweep", driver=False, timeout=3000)
            ck.cov["evaluations"] += 1 << 32
            ck.cov["distinct_nontrivial"] += 1 << 32
            ck.cov["exhaustive"] = True
            ck.cov["samples"].append({"sweep": go2[0] if go2 else "?"})
            cex += [l for l in go2 if l.startswith("counterexample")]
        if cex:
            ck.violation({"kind": "failing-input", "what": "BytesFromLowBits/I32FromBytes disagree with little-endian encoding",
                          "counterexamples": cex[:10],
                          "how_to_replay": "go run a program calling bytes.BytesFromLowBits(n) / bytes.I32FromBytes on the value n below and compare with encoding/binary.LittleEndian"})
    ck.assumptions = ["Go `int` loop indices are modelled as unbounded Int (the loops are unrolled at translation time)",
                      "the correspondence stream validates translator + GoInt on the sampled values only; the theorems are about the generated definitions"]
    ck.finish("proof")

"""C15 — speculative register state commits and rolls back by program order (DESIGN §4, C15).

Tie T2a: the Go harness drives a real risc.Context / comp.RAT through whole histories (one
history per line), the compiled Lean driver runs Model.Context / Model.Rat / Gen.registerRead on
the same lines, the outputs must be identical (correspondence).

Property-level oracle (this file, independent of the Lean model): the reference is the list of
uncommitted writes (tag, reg, value); commit = youngest write, rollback(s) = youngest write with
tag < s, unchanged if none, read(t) = youngest write with tag <= t else the committed value.
Every divergence of the Go output from the reference is classified register by register with
the hypotheses of the theorems of Props/C15.lean (`TagMonotoneAt`, `WithinSlotsAt`,
`NoYoungerPending`): inside them it is a VIOLATION (replay = the history, shrunk by dropping
operations); outside them it is tallied (and excused as KNOWN-FINDING only if listed in
KNOWN_FINDINGS.json)."""
import json
import os
import re
import subprocess
from collections import Counter

from .core import Lock, TRUSTED_COMMON, GOENV, WORK, LEAN, VERIF, GEN

MODS = ["MajoranaVerif.Props.C15"]
MAP_OPS = {"reg", "tw", "commit", "rollback", "rd"}
RAT_OPS = {"reg", "init", "rw", "rcommit", "rrollback", "rflush", "rd"}


def s32(x):
    x &= 0xFFFFFFFF
    return x - (1 << 32) if x & 0x80000000 else x


def parse_regs(seg):
    """'R[5:1,6:2]' -> {5: 1, 6: 2}; None if the segment is not a register dump."""
    if not (seg.startswith("R[") and seg.endswith("]")):
        return None
    body = seg[2:-1]
    out = {}
    if body:
        for kv in body.split(","):
            k, v = kv.split(":")
            out[int(k)] = int(v)
    return out


def youngest(ws):
    """ws: list of (tag, reg, value) in arrival order -> the youngest (largest tag, later wins) or None."""
    best = None
    for w in ws:
        if best is None or best[0] <= w[0]:
            best = w
    return best


def mono(ws):
    return all(ws[i][0] <= ws[i + 1][0] for i in range(len(ws) - 1))


class Finding(dict):
    pass


def check_ctx_history(head, ops, outs, rat_len):
    """Reference run of one `h` line. Returns (findings, stats). A finding has
    kind in {'violation', 'outside'}; 'outside' carries the falsified hypothesis."""
    findings = []
    stats = Counter()
    rat = head.get("rat") == "1"
    allowed = RAT_OPS if rat else MAP_OPS
    for op in ops:
        if not op or op[0] not in allowed:
            stats["lines_mixed_mode_skipped"] += 1
            return findings, stats
        if any(not re.fullmatch(r"-?\d+", a) for a in op[1:]):
            stats["lines_mixed_mode_skipped"] += 1
            return findings, stats
        if op[0] in ("reg", "tw", "rw", "rd") and int(op[1]) == 0:
            stats["lines_mixed_mode_skipped"] += 1   # x0: forward slot default, not part of the reference
            return findings, stats
    slots = rat_len if rat else 1
    regs = {}          # expected ctx.Registers
    arch = {}          # rename table: committed view reg -> value (None = unknown after an excused divergence)
    pending = []       # uncommitted writes (tag, reg, value), arrival order

    def committed(r):
        return arch.get(r, 0) if rat else regs.get(r, 0)

    def add(kind, i, what, expected, observed, hyp=None, cat=None):
        findings.append(Finding(kind=kind, op_index=i, op=" ".join(ops[i]), what=what, expected=expected,
                                observed=observed, falsified_hypothesis=hyp, category=cat))

    def cmp_regs(i, seg, touched=()):
        """Compare the dumped ctx.Registers with the expected map; `touched` maps a register to
        (inside: bool, hyp, cat) for registers whose expectation rests on hypotheses."""
        got = parse_regs(seg)
        if got is None:
            add("violation", i, "operation did not return a register dump", "R[...]", seg)
            return
        for r in sorted(set(got) | set(regs)):
            e, g = regs.get(r), got.get(r)
            if e == g:
                continue
            inside, hyp, cat = touched.get(r, (True, None, None)) if touched else (True, None, None)
            if inside:
                add("violation", i, f"ctx.Registers[{r}]", e, g)
            else:
                add("outside", i, f"ctx.Registers[{r}]", e, g, hyp, cat)
            if g is None:
                regs.pop(r, None)
            else:
                regs[r] = g      # resynchronise so that one divergence is reported once

    for i, (op, seg) in enumerate(zip(ops, outs)):
        k = op[0]
        a = [int(x) for x in op[1:]]
        stats["op_" + k] += 1
        if k == "reg":
            regs[a[0]] = s32(a[1])
            cmp_regs(i, seg)
        elif k == "init":
            for r, v in regs.items():
                arch[r] = v
            cmp_regs(i, seg)
        elif k in ("tw", "rw"):
            pending.append((s32(a[2]), a[0], s32(a[1])))
            cmp_regs(i, seg)
        elif k in ("commit", "rcommit", "rollback", "rrollback"):
            is_rb = k in ("rollback", "rrollback")
            s = s32(a[0]) if is_rb else None
            touched = {}
            for r in sorted({w[1] for w in pending}):
                ws = [w for w in pending if w[1] == r]
                cand = [w for w in ws if w[0] < s] if is_rb else ws
                y = youngest(cand)
                m, within = mono(ws), len(ws) <= slots
                if is_rb and not cand:
                    inside, hyp, cat = True, None, None       # "unchanged if there is none": unconditional
                elif not m:
                    inside, hyp, cat = False, "TagMonotoneAt", "tag-order"
                elif is_rb and not within:
                    inside, hyp, cat = False, "WithinSlotsAt", "beyond-slots"
                else:
                    inside, hyp, cat = True, None, None
                stats["epoch_regs_inside" if inside else "epoch_regs_outside"] += 1
                if is_rb and not cand:
                    stats["rollback_regs_with_nothing_older"] += 1
                if len(ws) > slots:
                    stats["epoch_regs_beyond_slots"] += 1
                if rat:
                    if y is not None:
                        arch[r] = y[2] if inside else ("?", y[2], hyp, cat)
                else:
                    if y is not None:
                        regs[r] = y[2]
                    touched[r] = (inside, hyp, cat)
            pending = []
            stats["epochs_rollback" if is_rb else "epochs_commit"] += 1
            cmp_regs(i, seg, touched)
        elif k == "rflush":
            touched = {}
            for r, v in arch.items():
                if isinstance(v, tuple):
                    regs[r] = v[1]
                    touched[r] = (False, v[2], v[3])
                else:
                    regs[r] = v
            cmp_regs(i, seg, touched)
            # a committed value that rests on an excused epoch stays unknown (value and presence)
            # until the next commit / rollback inside the hypotheses or the next InitRAT defines it
        elif k == "rd":
            r, t = a[0], s32(a[1])
            m = re.fullmatch(r"v=(-?\d+)", seg)
            if not m:
                add("violation", i, "read did not return a value", "v=<n>", seg)
                continue
            got = int(m.group(1))
            ws = [w for w in pending if w[1] == r]
            base = committed(r)
            unknown = isinstance(base, tuple)
            vis = ws if t == 0 else [w for w in ws if w[0] <= t]
            y = youngest(vis)
            stats["reads_plain" if t == 0 else "reads_tagged"] += 1
            if unknown and y is None:
                # committed value rests on an excused epoch: learn it from a plain read
                # (the value only: whether the committed table has an entry shows at the next flush)
                if not ws:
                    if got != base[1]:
                        add("outside", i, f"committed value of register {r}", base[1], got, base[2], base[3])
                    arch[r] = ("?", got, base[2], base[3])
                continue
            exp = y[2] if y is not None else base
            if rat and t != 0 and not unknown:
                allowed_vals = {w[2] for w in vis} | {base}
                if got not in allowed_vals:
                    add("violation", i, f"read of register {r} with tag {t} returned a value that is neither an uncommitted write with tag <= {t} nor the committed value",
                        sorted(allowed_vals), got)
                    continue
            if got == exp:
                continue
            if not mono(ws):
                add("outside", i, f"read of register {r} tag {t}", exp, got, "TagMonotoneAt", "tag-order")
            elif not rat and t != 0 and any(w[0] > t for w in ws):
                add("outside", i, f"read of register {r} tag {t}", exp, got, "NoYoungerPending", "map-read-ignores-tag")
            elif rat and t != 0 and len(ws) > slots:
                add("outside", i, f"read of register {r} tag {t}", exp, got, "WithinSlotsAt", "beyond-slots")
            else:
                add("violation", i, f"read of register {r} with tag {t}", exp, got)
    return findings, stats


def check_ring_history(head, ops, outs):
    """Reference run of one `q` line (comp.RAT directly): per key the list of written values."""
    findings = []
    stats = Counter()
    try:
        L = int(head.get("L", "0"))
    except ValueError:
        return findings, stats
    if L <= 0:
        return findings, stats
    hist = {}

    def pred(kind, t):
        return (lambda v: v <= t) if kind == "le" else (lambda v: v < t)

    def first(k, p):
        for v in list(reversed(hist.get(k, [])))[:L]:
            if p(v):
                return v
        return None

    for i, (op, seg) in enumerate(zip(ops, outs)):
        stats["ring_" + (op[0] if op else "?")] += 1
        try:
            if op[0] == "write":
                hist.setdefault(int(op[1]), []).append(int(op[2]))
                if len(hist[int(op[1])]) > L:
                    stats["ring_writes_after_wrap"] += 1
                exp = "ok"
            elif op[0] == "read":
                h = hist.get(int(op[1]))
                exp = f"v={h[-1]} ex=1" if h else "v=0 ex=0"
            elif op[0] == "find" and op[2] in ("le", "lt"):
                v = first(int(op[1]), pred(op[2], int(op[3])))
                exp = f"v={v} ex=1" if v is not None else "v=0 ex=0"
            elif op[0] == "values" and len(op) == 1:
                exp = "[" + ",".join(f"{k}:{hist[k][-1]}" for k in sorted(hist)) + "]"
            elif op[0] == "findvalues" and op[1] in ("le", "lt"):
                p = pred(op[1], int(op[2]))
                exp = "[" + ",".join(f"{k}:{first(k, p)}" for k in sorted(hist) if first(k, p) is not None) + "]"
            else:
                exp = "bad-op"
        except (ValueError, IndexError):
            exp = "bad-op"
        if seg != exp:
            findings.append(Finding(kind="violation", op_index=i, op=" ".join(op), what=f"comp.RAT (length {L}) {op[0] if op else ''}",
                                    expected=exp, observed=seg, falsified_hypothesis=None, category=None))
    return findings, stats


def split_line(line):
    secs = [s.split() for s in line.split(";")]
    head = secs[0] if secs else []
    kv = dict(t.split("=", 1) for t in head[1:] if "=" in t)
    return (head[0] if head else ""), (head[1] if len(head) > 1 else ""), kv, secs[1:]


def oracle(line, go_out, rat_len):
    kind, cls, kv, ops = split_line(line)
    outs = go_out.split(" | ") if go_out else []
    if kind not in ("h", "q") or len(outs) != len(ops):
        return [], Counter()
    if kind == "h":
        if "rat" not in kv:
            return [], Counter()
        return check_ctx_history(kv, ops, outs, rat_len)
    return check_ring_history(kv, ops, outs)


def rat_length():
    try:
        m = re.search(r"def ratLength : Nat := (\d+)", open(f"{GEN}/Risc.lean").read())
        return int(m.group(1))
    except Exception:
        return 10


def go_replay(lines):
    """Runs history lines on the real code through the harness stream c15-replay."""
    d = f"{WORK}/streams/C15"
    os.makedirs(d, exist_ok=True)
    path = f"{d}/replay_{os.getpid()}.txt"
    with open(path, "w") as f:
        f.write("\n".join(lines) + "\n")
    env = dict(GOENV, VERIF_C15_REPLAY=path)
    p = subprocess.run([f"{WORK}/bin/harness", "-out", d, "c15-replay"], env=env, stdout=subprocess.PIPE,
                       stderr=subprocess.STDOUT, text=True, timeout=600)
    if p.returncode != 0:
        raise RuntimeError("c15-replay failed: " + p.stdout[-500:])
    out = open(f"{d}/c15-replay.go").read().splitlines()
    os.remove(path)
    return out


def shrink(line, rat_len, want, keep_value=False):
    """Drop operations while the history still yields a finding of kind `want` (with
    keep_value: one whose expected value is a concrete value, so that the replay shows a
    register changing from one value to another rather than merely appearing)."""
    head, _, rest = line.partition(" ; ")
    ops = rest.split(" ; ") if rest else []
    for _ in range(200):
        cands = [ops[:i] + ops[i + 1:] for i in range(len(ops))]
        cands = [c for c in cands if c]
        if not cands:
            break
        lines = [head + " ; " + " ; ".join(c) for c in cands]
        outs = go_replay(lines)
        nxt = None
        for c, l, o in zip(cands, lines, outs):
            fs, _ = oracle(l, o, rat_len)
            if any(f["kind"] == want and (not keep_value or f["expected"] is not None) for f in fs):
                nxt = c
                break
        if nxt is None:
            break
        ops = nxt
    return head + " ; " + " ; ".join(ops)


def known_findings():
    try:
        kf = json.load(open(f"{VERIF}/KNOWN_FINDINGS.json"))
    except Exception:
        return []
    return [f for f in kf.get("findings", []) if f.get("property") == "C15"]


def run(ck):
    built = False
    with Lock():
        err = ck.regenerate()
        if err:
            ck.broken.append("tie T1: the translator no longer accepts the source: " + err)
        else:
            ok, out = ck.lake_build(MODS + ["driver_c15"])
            if not ok:
                bad = ck.failing_theorems(MODS[0], out)
                if "Proofs/TxnRead.lean" in out:
                    bad.append("Proofs.TxnRead (the regenerated Gen.registerRead no longer has the proved read precedence: "
                               "rat_read_never_younger, rat_read_exact, overflow_plain_read, map_read_youngest, map_read_never_younger_partial, read_forward)")
                ck.broken.append("lake build failed; theorems/defs that no longer check: " + (", ".join(bad) or out[-800:]))
                ck.cov["obligations"] += len(ck.theorems_of(MODS[0])[0])
                okd, outd = ck.lake_build(["driver_c15"])   # the driver does not import Props
                built = okd
                if not okd:
                    ck.broken.append("driver_c15 does not build: " + outd[-600:])
            else:
                built = True
                ck.audit(MODS)
                ck.scan_sources([f"{LEAN}/MajoranaVerif/Proofs/Txn.lean", f"{LEAN}/MajoranaVerif/Proofs/TxnRead.lean",
                                 f"{LEAN}/MajoranaVerif/Model/Txn.lean", f"{LEAN}/MajoranaVerif/Model/Rat.lean"])
                if ck.tier == "thorough":
                    ck.leanchecker(MODS + ["MajoranaVerif.Proofs.Txn", "MajoranaVerif.Proofs.TxnRead", "MajoranaVerif.Model.Txn"])
        okh, outh = ck.build_harness()
        if not okh:
            ck.broken.append("go build -tags verif of the harness against /repo failed: " + outh[-600:])
    ck.cov["checker_cmd"] = ("extract (regenerate Gen/*.lean from /repo) && lake build MajoranaVerif.Props.C15 driver_c15 && lake env lean Audit (#print axioms)"
                             + (" && lake env leanchecker" if ck.tier == "thorough" else ""))
    ck.cov["trusted_base"] = TRUSTED_COMMON + [
        "lean/MajoranaVerif/Model/Rat.lean, Model/Txn.lean, Model/Ctx.lean: hand models of proc/comp/rat.go and of the Context methods of risc/app.go, tied to the real code by the lock-step streams c15 / c15-exh (T2a)",
        "risc/opcodes.go registerRead is REGENERATED (Gen.registerRead): the read theorems are re-proved against it on every run and the driver calls it for every `rd`",
        "checklib/c15.py reference (list of uncommitted writes) and its classification of divergences by the theorems' hypotheses",
        "Go map iteration order is not modelled: Props.C15.*_order_irrelevant prove it immaterial for every range-over-map loop of app.go"]
    ck.cov["rule"] = ("obligations = theorems of Props/C15.lean, each over ALL ring lengths L>=1, ALL clean contexts, ALL write sequences/registers/tags/values; "
                      "evaluations = operations executed on the real risc.Context / comp.RAT and compared (a) with the Lean model line by line and (b) with the reference semantics; "
                      "distinct_nontrivial = distinct histories; random stream: 50% inside the hypotheses, 20% outside (arbitrary tag orders, over-full tables, map reads below a pending tag), "
                      "10% mixed-mode/malformed, 20% direct comp.RAT for L=1..10; exhaustive stream: all write sequences up to the stated length over 2-3 registers, tags 1..3 in all orders, "
                      "every read tag 0..3, every terminal commit / rollback 1..4, and all ring histories for L=1..3")
    rat_len = rat_length()
    if okh and built:
        ops_total = 0
        classes = Counter()
        stats = Counter()
        outside = Counter()
        outside_samples = {}
        violations = []
        corr_bad = []
        distinct = set()
        for stream in ("c15", "c15-exh"):
            try:
                ins, go, lean = ck.run_stream(stream, exe="driver_c15")
            except Exception as e:
                ck.broken.append(f"correspondence {stream} could not run: {e}")
                continue
            if not (len(ins) == len(go) == len(lean)):
                ck.broken.append(f"correspondence {stream}: line counts differ (in={len(ins)} go={len(go)} lean={len(lean)})")
            for line, g, l in zip(ins, go, lean):
                nops = line.count(";")
                ops_total += nops
                distinct.add(hash(line))
                kind, cls, kv, _ = split_line(line)
                classes[(cls if kind == "h" else "ring" if kind == "q" else "malformed") + ("-exh" if stream == "c15-exh" and kind == "q" else "")] += 1
                if g != l and len(corr_bad) < 5:
                    corr_bad.append({"stream": stream, "history": line, "go": g, "lean_model": l})
                fs, st = oracle(line, g, rat_len)
                stats.update(st)
                for f in fs:
                    if f["kind"] == "violation":
                        violations.append((line, g, f))
                    else:
                        outside[f["category"]] += 1
                        outside_samples.setdefault(f["category"], {"history": line, "finding": dict(f)})
            if ins:
                ck.cov["samples"] += [{"in": ins[i], "go": go[i], "lean": lean[i]} for i in (5 if len(ins) > 5 else 0, len(ins) - 1)]
        ck.cov["evaluations"] += ops_total
        ck.cov["traces_validated_against_impl"] += len(distinct)
        ck.cov["distinct_nontrivial"] += len(distinct)
        ck.cov["input_distribution"] = {"histories_per_class": dict(classes), "ring_length_of_context": rat_len,
                                        "reference_stats": dict(stats),
                                        "divergences_outside_hypotheses": dict(outside)}
        ck.cov["outside_hypotheses_samples"] = outside_samples
        # known findings: only what KNOWN_FINDINGS.json lists is excused with a KNOWN-FINDING line
        listed = {}
        for f in known_findings():
            cat = f.get("category") or f.get("id", "")
            listed[cat] = f
            w = f.get("witness")
            if isinstance(w, str) and w.startswith("h "):
                try:
                    o = go_replay([w])[0]
                    fs, _ = oracle(w, o, rat_len)
                    if any(x["kind"] == "outside" for x in fs):
                        ck.known.append(f"KNOWN-FINDING: property=C15 {f.get('id')} {f.get('description', '')[:160]} (witness still diverges)")
                    elif any(x["kind"] == "violation" for x in fs):
                        violations.append((w, o, [x for x in fs if x["kind"] == "violation"][0]))
                    else:
                        ck.notes.append(f"known finding {f.get('id')}: the pinned witness no longer diverges")
                except Exception as e:
                    ck.notes.append(f"known finding {f.get('id')}: witness could not be replayed: {e}")
        for cat, n in outside.items():
            if cat not in listed:
                ck.notes.append(f"{n} divergences from the reference outside the proved hypotheses (category {cat}, not a recorded finding: "
                                "checked for model-vs-code correspondence only); sample in coverage.outside_hypotheses_samples")
        if corr_bad:
            ck.broken.append(f"correspondence c15 (Go vs Lean model) differs; first: {json.dumps(corr_bad[0])}")
            ck.cov["correspondence_differences"] = corr_bad
        # one violation per kind of failing observation, shrunk
        seen = set()
        seen_small = set()
        for line, g, f in violations:
            key = re.sub(r"\d+", "N", f["what"])[:60] + "|" + f["op"].split()[0]
            if key in seen:
                continue
            seen.add(key)
            try:
                small = shrink(line, rat_len, "violation", keep_value=f["expected"] is not None)
                so = go_replay([small])[0]
                sf = [x for x in oracle(small, so, rat_len)[0] if x["kind"] == "violation"]
            except Exception as e:
                small, so, sf = line, g, [f]
                ck.notes.append(f"shrinking failed: {e}")
            shape = re.sub(r"-?\d+", "N", re.sub(r"^h \w+", "h", small))
            if shape in seen_small:
                continue      # the same minimal history (up to the numbers) was already reported
            seen_small.add(shape)
            ck.violation({"kind": "failing-input", "history": small, "go_output": so,
                          "failing_observation": dict(sf[0]) if sf else dict(f),
                          "original_history": line,
                          "failing_histories_of_this_kind": sum(1 for _, _, x in violations if re.sub(r"\d+", "N", x["what"])[:60] + "|" + x["op"].split()[0] == key),
                          "hypotheses": "inside TagMonotoneAt / WithinSlotsAt / NoYoungerPending for the register concerned (or none needed)",
                          "how_to_replay": "bin/check C15 --replay <this file>   (re-runs `history` on the real risc.Context / comp.RAT and on the reference)"})
            if len(seen) >= 8:
                break
    ck.assumptions = ["tags are Go int32 compared signed; a read with tag 0 is a plain read (registerRead's convention)",
                      "architectural value in rename-table mode = committedRAT.Read (what registerRead falls back to and what RATFlush copies to Registers)",
                      "every rename table of a context has the regenerated length Gen.ratLength; the theorems hold for every length >= 1",
                      "read clause in MAP mode holds only when no uncommitted write to the register is younger than the reader (not_Full_C15_map_read_never_younger); "
                      "arbitrary tag orders keep the last written value (not_Full_C15_commit_any_order)"]
    ck.finish("proof")


def replay(ck, path):
    payload = json.load(open(path))
    line = payload.get("history")
    print("replay of", path)
    if not line:
        print(json.dumps(payload, indent=1))
        ck.finish("proof")
    with Lock():
        okh, outh = ck.build_harness()
    if not okh:
        print("harness does not build:", outh[-400:])
        ck.broken.append("harness build failed")
        ck.finish("proof")
    rat_len = rat_length()
    o = go_replay([line])[0]
    fs, _ = oracle(line, o, rat_len)
    print("history :", line)
    print("go      :", o)
    for f in fs:
        print(f"{f['kind']:9}: op #{f['op_index']} `{f['op']}` {f['what']}: expected {f['expected']} observed {f['observed']}"
              + (f" (outside {f['falsified_hypothesis']})" if f["falsified_hypothesis"] else ""))
    bad = [f for f in fs if f["kind"] == "violation"]
    if bad:
        ck.violation({"kind": "failing-input", "history": line, "go_output": o, "failing_observation": dict(bad[0]),
                      "how_to_replay": f"bin/check C15 --replay {path}"})
    else:
        print("no violation on the current tree")
    ck.cov["evaluations"] = line.count(";")
    ck.cov["distinct_nontrivial"] = 1
    ck.cov["rule"] = "replay of one history"
    ck.finish("proof")

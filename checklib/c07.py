"""C07 — every run terminates: no deadlock, livelock or panic; defined errors are errors (DESIGN §4 C07)."""
from . import cpucheck

K = 8
MEM = 309


def judge(ref, r, f, meta):
    stop = ref["stop"]
    if stop.startswith("err"):
        return "ok" if r["status"] == "err" else "defined-error-not-reported:" + r["status"]
    if r["status"] in ("hang", "panic"):
        return "run-failed:" + r["status"] + ":" + r["detail"]
    if r["status"] == "err":
        return "run-failed:err:error-on-a-program-whose-sequential-run-ends-normally"
    if r["cycles"] > K * MEM * (ref["steps"] + 64):
        return f"cycle-bound-exceeded:{r['cycles']}>{K}*{MEM}*({ref['steps']}+64)"
    return "ok"


def run(ck):
    cpucheck.run(ck, "C07", "cpu-c07",
                 "families: all generators, weighted towards err (division by zero through div/rem, taken branch/jump to an undefined label) and br; all 12 variants; "
                 "verdict: the run returns (no Go panic, no tick-budget or wall-clock hang), returns an error exactly when the sequential run reaches a defined error, "
                 "and its cycle count is at most 8 x MemoryAccess x (executed instructions + 64)", judge=judge,
                 theorems=["MajoranaVerif.Props.C07"])


def replay(ck, path):
    cpucheck.replay(ck, path)

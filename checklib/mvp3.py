"""Work package MVP3: the Lean modules behind the MVP-3 theorems (cycle-accurate model of proc/mvp3,
cache transparency C05, return completeness C09, and the MVP-3 extensions of C01/C07/C12).

`theorem_modules()` maps a property id to the modules whose theorems are built and axiom-audited by
`cpucheck.run(..., theorems=[...])`; with `theorems` set the check also evaluates the tie of the Lean
machine models to the Go machines (`m1`/`m2`/`m3` fields of the driver: status, cycle count, final
registers and memory of Model.Mvp3 vs proc/mvp3 on every case of the stream)."""

# lemma layers shared by all MVP-3 theorems (namespace = module path without the `MajoranaVerif.` prefix)
LEMMAS = ["MajoranaVerif.Proofs.Mmu",       # DWf / Coh / view: the L1D invariant, preserved by every mmu operation
          "MajoranaVerif.Proofs.Mvp3",      # step / run simulation of the cache-less machine, cycle bounds
          "MajoranaVerif.Proofs.Mvp3Spec",  # aligned in-bounds accesses never cross a line (hypothesis holds on Spec-wf runs)
          "MajoranaVerif.Proofs.Mvp3Cycles"]  # shape invariant and cycle bounds for every program (no hypothesis)


def theorem_modules():
    # Proofs.MsiCoherence (work package COH): coherence of the abstract MSI model, behind Props.C05.Msi.* / Props.C09.Msi.* / Props.C10.Msi.*
    return {"C05": LEMMAS + ["MajoranaVerif.Proofs.MsiCoherence", "MajoranaVerif.Props.C05"],
            "C09": LEMMAS + ["MajoranaVerif.Proofs.MsiCoherence", "MajoranaVerif.Props.C05", "MajoranaVerif.Props.C09"],
            # C01/C07/C12 already pass their own Props module; these are the extra lemma layers
            "C01": LEMMAS, "C07": LEMMAS, "C12": LEMMAS}


def main_theorems():
    """the headline theorems (for reports)"""
    return {"C05": ["Props.C05.mvp3_transparent", "Props.C05.mvp3_transparent_spec", "Props.C05.load_sees_flat",
                    "Props.C05.evict_preserves_view", "Props.C05.store_preserves_view", "Props.C05.flush_memory_eq_view",
                    "Props.C05.not_Full_transparent"],
            "C09": ["Props.C09.mvp3_return_completes", "Props.C09.mvp3_return_completes_spec", "Props.C09.mvp3_no_dirty_left"],
            "C01": ["Props.C01.mvp3_correct"], "C07": ["Props.C07.mvp3_terminates_bounded"], "C12": ["Props.C12.mvp3_lower_bound", "Props.C12.mvp3_upper_bound", "Props.C12.mvp3_constants"]}

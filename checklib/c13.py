"""C13 — the line cache behaves as an LRU cache of its reference model; the generic key-value LRU obeys
the same recency order (DESIGN §4, C13).

Three layers:
  * proof:   Props/C13.lean over Model/LineCache.lean and Model/KvLru.lean (all geometries, all histories);
  * tie T2a: the Go harness drives the real comp.LRUCache / cache.LRUCache, the Lean driver `driver_c13`
             executes the models on the same lines (streams c13, c13-exh, c13-kv), outputs must be identical;
  * oracle:  this file decides the PROPERTY on the Go outputs alone with an independent reference
             (byte -> value dict, resident lines with the time of their last Get hit or push, capacity), so a
             change of the Go code that breaks the property yields a failing history, shrunk by dropping
             operations and re-running the real code (stream c13-replay).
"""
import json
import os
import time
from collections import Counter

from .core import Lock, TRUSTED_COMMON, WORK

MODS = ["MajoranaVerif.Props.C13"]
EXE = "driver_c13"


# --------------------------------------------------------------------------- reference: line cache

def _data(s):
    return [] if s in ("-", "") else [int(x) for x in s.split(",")]


def _show(d):
    return ",".join(map(str, d)) if d else "-"


def _strip_alias(out):
    """`data 1,2 a=3` -> `data 1,2` ; `lines lo:hi:d:k|…` -> without the alias field."""
    if out.startswith("lines "):
        body = out[6:]
        if body == "-":
            return out
        return "lines " + "|".join(e.rsplit(":", 1)[0] for e in body.split("|"))
    i = out.find(" a=")
    return out if i < 0 else out[:i]


class RefCache:
    """What the history says.  `lines`: base -> [stamp, tag]; `mem`: address -> value for resident bytes."""

    def __init__(self, L, C):
        self.L, self.n = L, (C // L if L > 0 else 0)
        self.ok_geo = L > 0 and C % L == 0
        self.lines = {}
        self.mem = {}
        self.clock = 0
        self.serial = 0
        self.pending = None        # base of a victim announced by pushw and not yet evicted
        self.in_contract = True
        self.alias_writes = 0

    def cover(self, a):
        L = self.L
        for lo in self.lines:
            if lo <= a < lo + L:
                return lo
        return None

    def contents(self, lo):
        return [self.mem[lo + i] for i in range(self.L)]

    def order(self):
        return sorted(self.lines, key=lambda lo: -self.lines[lo][0])

    def lru(self):
        return min(self.lines, key=lambda lo: self.lines[lo][0])

    def drop(self, lo):
        del self.lines[lo]
        for i in range(self.L):
            del self.mem[lo + i]

    def show_lines(self, bases):
        if not bases:
            return "lines -"
        return "lines " + "|".join(f"{lo}:{lo + self.L}:{_show(self.contents(lo))}" for lo in bases)

    def step(self, line):
        """Returns (expected canonical output or None when the reference does not constrain it, clause)."""
        self.clock += 1
        f = line.split()
        op = f[0]
        L = self.L
        if op in ("push", "pushw"):
            lo, d = int(f[1]), _data(f[2])
            tag = self.serial
            self.serial += 1
            if len(d) != L or len(self.lines) > self.n or self.pending is not None or \
                    any(lo < b + L and b < lo + L for b in self.lines):
                self.in_contract = False      # overlap / wrong length / push while a victim is pending
                return None, "contract"
            self.lines[lo] = [self.clock, tag]
            for i, v in enumerate(d):
                self.mem[lo + i] = v
            if len(self.lines) <= self.n:
                return "none", "push_not_full"
            v = self.lru()
            if op == "push":
                exp = "data " + _show(self.contents(v))
                self.drop(v)
                return exp, "push_displaces_lru"
            self.pending = v
            return f"line {v} {v + L} {_show(self.contents(v))}", "push_displaces_lru"
        if op == "get":
            a = int(f[1])
            lo = self.cover(a)
            if lo is None:
                return "miss", "present_iff"
            self.lines[lo][0] = self.clock
            return f"hit {self.mem[a]}", "read_latest"
        if op == "getline":
            lo = self.cover(int(f[1]))
            return ("miss", "present_iff") if lo is None else ("data " + _show(self.contents(lo)), "read_latest")
        if op == "getsub":
            n, addrs = int(f[1]), _data(f[2])
            bases = self.order()[:min(len(self.lines), self.n)]
            if not bases:
                return "miss", "sub_line"
            if not addrs or n <= 0:
                self.in_contract = False
                return None, "contract"
            a0 = addrs[0]
            lo = next((b for b in bases if b <= a0 < b + L), None)
            if lo is None:
                return "miss", "sub_line"
            small = a0 - (abs(a0) % n) * (1 if a0 >= 0 else -1)
            if small < lo or small + n > lo + L:
                self.in_contract = False      # the sub-line leaves the line: Go panics or reads a neighbour-less range
                return None, "contract"
            return f"sub {small} {_show([self.mem[small + i] for i in range(n)])}", "sub_line"
        if op == "evict":
            lo = self.cover(int(f[1]))
            if lo is None:
                return "miss", "present_iff"
            exp = "data " + _show(self.contents(lo))
            self.drop(lo)
            if self.pending == lo:
                self.pending = None
            return exp, "capacity_restored"
        if op == "write":
            a, d = int(f[1]), _data(f[2])
            lo = self.cover(a)
            if lo is None:
                return "panic", "write_absent_panics"
            if a + len(d) > lo + L:
                self.in_contract = False      # runs past the line: Go panics half-way
                return None, "contract"
            for i, v in enumerate(d):
                self.mem[a + i] = v
            return "ok", "write"
        if op in ("existing", "lines") or op == "snap":
            bases = self.order()
            if len(bases) > self.n + (1 if self.pending is not None else 0):
                return "capacity exceeded in the reference (internal)", "capacity_restored"
            if op == "existing" or (op == "snap" and f[1] == "e"):
                bases = bases[:min(len(bases), self.n)]
            return self.show_lines(bases), "recency_order"
        if op == "mut":
            # the cache stores the caller's slice: a later store through it is a write to the line (aliasing)
            k, i, v = int(f[1]), int(f[2]), int(f[3])
            for lo, (_, tag) in self.lines.items():
                if tag == k:
                    if 0 <= i < L:
                        self.mem[lo + i] = v
                        self.alias_writes += 1
                    break
            return None, "alias"
        return None, "unconstrained"     # held, chk: aliasing observations, tied by the lock-step only


def sessions(ins, go):
    """Split a stream into sessions starting at `new` lines: lists of (in, go)."""
    cur = None
    for i, o in zip(ins, go):
        if i.startswith("new ") or i.startswith("kvnew "):
            if cur:
                yield cur
            cur = []
        if cur is not None:
            cur.append((i, o))
    if cur:
        yield cur


def oracle_cache(sess, stats=None):
    """First property violation of a line-cache session as a dict, or None."""
    head, out0 = sess[0]
    f = head.split()
    L, C = int(f[1]), int(f[2])
    ref = RefCache(L, C)
    if not ref.ok_geo:
        if out0 != "panic":
            return {"index": 0, "op": head, "observed": out0, "expected": "panic", "clause": "geometry"}
        return None
    if out0 != f"ok {ref.n}":
        return {"index": 0, "op": head, "observed": out0, "expected": f"ok {ref.n}", "clause": "geometry"}
    for idx in range(1, len(sess)):
        line, out = sess[idx]
        exp, clause = ref.step(line)
        if not ref.in_contract:
            if stats is not None:
                stats["left_contract"] += 1
            return None
        if stats is not None:
            stats[clause] += 1
        if exp is not None and _strip_alias(out) != exp:
            return {"index": idx, "op": line, "observed": out, "expected": exp, "clause": clause}
    if stats is not None:
        stats["alias_writes"] += ref.alias_writes
    return None


# --------------------------------------------------------------------------- reference: kv LRU

def oracle_kv(sess, stats=None):
    head, out0 = sess[0]
    cap = int(head.split()[1])
    vals, rec = {}, []          # rec: least recently touched first

    def state():
        return "order=" + (",".join(map(str, rec)) or "-") + " map=" + (",".join(f"{k}:{vals[k]}" for k in sorted(vals)) or "-")

    def touch(k):
        if k in rec:
            rec.remove(k)
        rec.append(k)

    if out0 != "ok " + state():
        return {"index": 0, "op": head, "observed": out0, "expected": "ok " + state(), "clause": "kv_new"}
    for idx in range(1, len(sess)):
        line, out = sess[idx]
        f = line.split()
        if f[0] == "kvput":
            k, v = int(f[1]), int(f[2])
            if cap == 0:
                return None       # Put on a zero-capacity LRU panics (order[0]): outside the property
            clause = "kv_put"
            if k not in vals and len(vals) == cap:
                victim = rec.pop(0)
                del vals[victim]
                clause = "kv_put_full_removes_lru"
            vals[k] = v
            touch(k)
            exp = "ok " + state()
        elif f[0] == "kvget":
            k = int(f[1])
            clause = "kv_get"
            if k in vals:
                touch(k)
                exp = f"hit {vals[k]} " + state()
            else:
                exp = "miss " + state()
        elif f[0] == "kvfind":
            ks = _data(f[1]) if len(f) > 1 else []
            clause = "kv_find"
            hit = next((k for k in rec if k in ks), None)
            if hit is None:
                exp = "miss " + state()
            else:
                touch(hit)
                exp = f"found {hit} " + state()
        else:
            continue
        if stats is not None:
            stats[clause] += 1
        if len(vals) > cap or sorted(rec) != sorted(vals):
            return {"index": idx, "op": line, "observed": "reference inconsistent", "expected": "", "clause": "internal"}
        if out != exp:
            return {"index": idx, "op": line, "observed": out, "expected": exp, "clause": clause}
    return None


def oracle(sess, stats=None):
    return oracle_kv(sess, stats) if sess[0][0].startswith("kvnew") else oracle_cache(sess, stats)


# --------------------------------------------------------------------------- replay / shrinking

def run_go(ck, histories):
    """Runs the given histories (lists of input lines, each starting with new/kvnew) on the real code."""
    d = f"{WORK}/streams/{ck.pid}"
    os.makedirs(d, exist_ok=True)
    with open(f"{d}/c13-replay.req", "w") as f:
        for h in histories:
            f.write("\n".join(h) + "\n")
    ins, go, _ = ck.run_stream("c13-replay", driver=False, timeout=600)
    return list(sessions(ins, go))


def shrink(ck, history, clause, budget_s=25):
    """Drop operations (never the `new` line) while the real code still violates the same clause."""
    t0 = time.time()
    best = history
    chunk = max(1, (len(best) - 1) // 2)
    while time.time() - t0 < budget_s:
        cands = []
        for s in range(1, len(best), chunk):
            c = best[:s] + best[s + chunk:]
            if len(c) >= 2:
                cands.append(c)
        progress = False
        if cands:
            for c, sess in zip(cands, run_go(ck, cands)):
                v = oracle(sess)
                if v and v["clause"] == clause:
                    best = c[:v["index"] + 1]
                    progress = True
                    break
        if not progress:
            if chunk == 1:
                break
            chunk = max(1, chunk // 2)
    return best


def report(ck, stream, sess, v, do_shrink=True):
    history = [i for i, _ in sess[:v["index"] + 1]]
    full_len = len(history)
    if do_shrink:
        try:
            history = shrink(ck, history, v["clause"])
            final = oracle(run_go(ck, [history])[0])
            if final:
                v = final
        except Exception as e:          # shrinking is best effort
            ck.notes.append(f"shrinking failed: {e}")
    ck.violation({"kind": "failing-input", "stream": stream, "clause": v["clause"],
                  "what": f"the real code violates clause `{v['clause']}` of C13 on this history (last operation)",
                  "history": history, "failing_op": v["op"], "observed": v["observed"], "expected_by_reference": v["expected"],
                  "unshrunk_length": full_len,
                  "how_to_replay": "bin/check C13 --replay <this file>  (runs `history` on the real comp.LRUCache / cache.LRUCache "
                                   "through the harness stream c13-replay and re-applies the reference)"})


# --------------------------------------------------------------------------- the check

def check_stream(ck, stream, stats, dist, have_driver):
    ins, go, lean = ck.run_stream(stream, exe=EXE, driver=have_driver)
    ck.cov["evaluations"] += len(ins)
    dist[stream] = dict(Counter(l.split(" ", 1)[0] for l in ins))
    if have_driver:
        ck.cov["traces_validated_against_impl"] += len(ins)
        if len(go) != len(lean):
            ck.broken.append(f"correspondence {stream}: output lengths differ (go {len(go)}, lean {len(lean)})")
    first_diff = None
    if have_driver:
        for i, (g, l) in enumerate(zip(go, lean)):
            if g != l:
                first_diff = i
                break
    # the property, decided on the Go outputs alone, on every session
    seen = set()
    nsess = 0
    distinct = set()
    for sess in sessions(ins, go):
        nsess += 1
        distinct.add(hash(tuple(i for i, _ in sess)))
        v = oracle(sess, stats)
        if v and v["clause"] not in seen and len(seen) < 4:
            seen.add(v["clause"])
            report(ck, stream, sess, v)
    ck.cov["distinct_nontrivial"] += len(distinct)
    stats["sessions"] += nsess
    if first_diff is not None:
        i = first_diff
        ck.broken.append(f"correspondence {stream} (Go vs Lean model) differs at line {i + 1}: in={ins[i][:200]!r} go={go[i][:300]!r} lean={lean[i][:300]!r}")
    if ins:
        m = len(ins) // 2
        ck.cov["samples"].append({"stream": stream, "in": ins[m][:160], "go": go[m][:200], **({"lean": lean[m][:200]} if have_driver else {})})
    return first_diff


def run(ck):
    built = False
    with Lock():
        ck.regenerate()        # Gen/ is not used by C13, but every check refreshes it (DESIGN §3.6)
        ok, out = ck.lake_build(MODS + [EXE])
        if not ok:
            bad = ck.failing_theorems(MODS[0], out)
            ck.broken.append("lake build failed; theorems/defs that no longer check: " + (", ".join(bad) or out[-800:]))
            ck.cov["obligations"] += len(ck.theorems_of(MODS[0])[0])
            built, _ = ck.lake_build([EXE])
        else:
            built = True
            ck.audit(MODS)
            ck.scan_sources([f"/verif/lean/MajoranaVerif/{p}" for p in
                             ("Model/LineCache.lean", "Model/KvLru.lean", "Proofs/LineCache.lean", "Proofs/KvLru.lean")
                             if os.path.exists(f"/verif/lean/MajoranaVerif/{p}")])
            if ck.tier == "thorough":
                ck.leanchecker(MODS)
        okh, outh = ck.build_harness()
        if not okh:
            ck.broken.append("go build -tags verif of the harness against /repo failed: " + outh[-600:])
    ck.cov["checker_cmd"] = "lake build MajoranaVerif.Props.C13 driver_c13 && lake env lean Audit (#print axioms)" + (" && lake env leanchecker" if ck.tier == "thorough" else "")
    ck.cov["trusted_base"] = [TRUSTED_COMMON[0], TRUSTED_COMMON[1], TRUSTED_COMMON[3],
                              "lean/MajoranaVerif/Model/LineCache.lean and Model/KvLru.lean: hand-written models of proc/comp/cache.go and common/cache/lru.go, tied to the real code by the lock-step streams c13, c13-exh, c13-kv on every run",
                              "the reference of Props/C13.lean (Ref.value / Ref.stamp / Ref.resident: functions of the history) is what the property is taken to mean; checklib/c13.py re-implements it independently (dict + stamps) and applies it to the Go outputs",
                              "slice aliasing (the cache keeps and returns the caller's []int8; ExistingLines()/Lines() share the backing array that EvictCacheLine shifts in place) is outside the value-semantic model; it is predicted by a small heap in Driver/MainC13.lean and exercised by the `mut`/`held`/`snap`/`chk` operations"]
    ck.cov["rule"] = ("obligations = theorems of Props/C13.lean, each over ALL geometries and ALL histories of the model; "
                      "evaluations = calls made on the real comp.LRUCache / cache.LRUCache by the harness (random sessions on (2,6) (4,4) (4,16) (64,1024) (128,4096) and random geometries; "
                      "all histories of a fixed length over a small alphabet on a 2-line cache; kv LRU capacities 0..4 keys 0..5 incl. all short histories), each compared with the Lean model's "
                      "output (lock-step) and with the independent reference of this check; distinct_nontrivial = distinct sessions (operation histories)")
    stats, dist = Counter(), {}
    if okh:
        for stream in ("c13", "c13-exh", "c13-kv"):
            try:
                check_stream(ck, stream, stats, dist, built)
            except Exception as e:
                ck.broken.append(f"stream {stream} could not run: {e}")
        if not built:
            ck.broken.append("the Lean driver driver_c13 could not be built: no lock-step comparison was made")
    ck.cov["input_distribution"] = {"ops_per_stream": dist, "reference_checks_per_clause": dict(stats)}
    if stats.get("alias_writes"):
        ck.notes.append(f"{stats['alias_writes']} stores through a slice previously handed to PushLine changed a resident line (aliasing; "
                        "treated as a write through the alias, see the C13 report)")
    ck.assumptions = ["addresses are modelled as unbounded Int: |address| + lineLength < 2^31 in every use (no int32 wrap-around)",
                      "contract of the callers: a pushed line does not overlap a resident line, carries lineLength bytes, and no line is pushed while a victim announced by "
                      "PushLineWithEvictionWarning is still resident; Write stays inside one resident line (Props.C13.overlap_counterexample shows read_latest fails without the first)",
                      "the cache stores and returns the caller's slices: mutation through a retained slice is a write to the line; a retained ExistingLines()/Lines() result is shifted in place by EvictCacheLine"]
    ck.finish("proof")


def replay(ck, path):
    payload = json.load(open(path))
    print("replay of", path)
    hist = payload.get("history")
    if not hist:
        print(json.dumps(payload, indent=1))
        ck.finish("proof")
    with Lock():
        okh, outh = ck.build_harness()
    if not okh:
        raise SystemExit("cannot build the harness: " + outh[-600:])
    sess = run_go(ck, [hist])[0]
    for i, o in sess:
        print(f"  {i[:120]:<60} -> {o[:200]}")
    v = oracle(sess)
    ck.cov["evaluations"] = len(sess)
    ck.cov["distinct_nontrivial"] = 2
    ck.cov["rule"] = "replay of one stored history on the real code, judged by the reference of checklib/c13.py"
    if v:
        print(f"still fails: clause {v['clause']}: op {v['op']!r} observed {v['observed']!r} expected {v['expected']!r}")
        report(ck, payload.get("stream", "c13-replay"), sess, v, do_shrink=False)
    else:
        print("the history no longer violates the property")
    ck.finish("proof")

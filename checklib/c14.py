"""C14 — pipeline buses deliver each item once, in order, a cycle later, within capacity (DESIGN §4, C14).

Proof: Props/C14.lean over the hand model Model/Bus.lean (all histories, all capacities).
Tie T2a: the Go harness drives the real comp.SimpleBus / BufferedBus / Queue / Broadcast through
their exported API (streams `c14`, `c14-exh-<i>`); the Lean driver executes `BusHist.step` /
`SBusHist.step` (the functions the theorems quantify over) on the same lines; outputs are diffed.
Property-level oracle (this file): an independent reference over plain id lists / multisets decides
conservation, exactly-once, fifo, latency, delivery, capacity and clean on the GO outputs, so a code
change that breaks the property yields a failing history (shrunk by dropping operations) as replay.
"""
import json
import os
import re
import time
from collections import Counter
from concurrent.futures import ThreadPoolExecutor

from .core import Lock, TRUSTED_COMMON, WORK, VERIF, LEAN, GOENV, sh

MODS = ["MajoranaVerif.Props.C14"]
EXE = "driver_c14"
SHARDS = 8
# the pinned witness of D27 (Revert is not "next delivered" when the queue is non-empty)
REVERT_WITNESS = ["bb new 2 2", "bb add 0 0", "bb add 1 0", "bb connect 1", "bb get", "bb revert 0 1", "bb get"]


# ------------------------------------------------------------------------------------------------
# oracle: reference semantics on the Go outputs
# ------------------------------------------------------------------------------------------------

def _state(s):
    d = dict(tok.split("=", 1) for tok in s.split())
    q = [int(x) for x in d["q"].split(",")] if d["q"] else []
    return q, int(d["pend"]), int(d["rem"]), d["ca"] == "1", d["cg"] == "1", d["e"] == "1", d["ex"] == "1"


class V(list):
    """violations of one history + statistics"""

    def __init__(self):
        super().__init__()
        self.revert_full_fail = 0   # Revert with a non-empty queue not delivered next (D27 region)
        self.revert_partial_ok = 0

    def bad(self, clause, i, lines, outs, why):
        self.append({"clause": clause, "at": i, "line": lines[i], "go": outs[i] if i < len(outs) else None, "why": why})


def oracle_bb(lines, outs):
    v = V()
    t = lines[0].split()
    ql, bl = int(t[2]), int(t[3])
    m = re.match(r"ok in=(-?\d+) out=(-?\d+) \| (.*)$", outs[0])
    if not m:
        v.bad("api", 0, lines, outs, "unexpected constructor output")
        return v
    if int(m.group(1)) != ql or int(m.group(2)) != bl:
        v.bad("capacity", 0, lines, outs, "InLength/OutLength do not report the configured lengths")
    q, pend, rem, ca, cg, e, ex = _state(m.group(3))
    if q or pend or rem != bl or not e:
        v.bad("clean", 0, lines, outs, "a new bus is not empty")
    inside = Counter()     # reference: multiset of ids the bus must hold
    anon = 0               # items removed by DeleteLast whose identity the reference cannot know
    stamp = {}             # id -> first cycle at which it may become visible
    order = []             # revert-free histories: the ids inside, in add order
    reverted = False       # a Revert happened (order clauses do not apply any more)
    fuzzy = False          # Revert and DeleteLast mixed: only counts are tracked
    polite = True
    pending_revert = None  # (x, queue_was_empty) until the next delivery
    for i in range(1, len(lines)):
        t = lines[i].split()[1:]
        out = outs[i] if i < len(outs) else "missing"
        if out == "bad-op":
            if t and t[0] in ("add", "tryadd", "revert", "dellast", "get", "pick", "connect", "clean") and _wellformed_bb(t):
                v.bad("api", i, lines, outs, "a well-formed operation was rejected")
            continue
        if out == "panic" or " | " not in out:
            v.bad("panic", i, lines, outs, "the bus panicked / no result")
            return v
        res, _, st = out.partition(" | ")
        try:
            q2, pend2, rem2, ca2, cg2, e2, ex2 = _state(st)
        except Exception:
            v.bad("api", i, lines, outs, "unparsable observers")
            return v
        rt = res.split()
        op = t[0]
        buflen, buflen2 = bl - rem, bl - rem2
        if op in ("add", "tryadd"):
            x, c = int(t[1]), int(t[2])
            accepted = True
            if op == "tryadd":
                accepted = rt[1:2] == ["1"]
                if accepted != ca:
                    v.bad("capacity", i, lines, outs, "a polite Add went through although CanAdd() said no (or the reverse)")
            else:
                polite = False
            if accepted:
                inside[x] += 1
                stamp[x] = c + 1
                order.append(x)
            pending_revert = None
        elif op == "revert":
            x, c = int(t[1]), int(t[2])
            stamp[x] = min(stamp[x], c) if inside[x] > 0 and x in stamp else c
            inside[x] += 1
            reverted, polite = True, False
            pending_revert = (x, len(q) == 0)
        elif op == "dellast":
            if buflen > 0:
                if reverted:
                    fuzzy = True
                    anon += 1
                elif order:
                    y = order.pop()
                    inside[y] -= 1
                    if y in q:
                        v.bad("conservation", i, lines, outs, "reference: DeleteLast with a non-empty buffer but every id is visible")
            pending_revert = None
        elif op in ("get", "pick"):
            found = rt[2:3] == ["1"]
            x = int(rt[1]) if len(rt) > 1 else 0
            if op == "get":
                cands = q[:1]
            else:
                mm, rr = int(t[1]), int(t[2])
                cands = [y for y in q if y % mm == rr][:1]
            if found != bool(cands):
                v.bad("once", i, lines, outs, "a visible matching item was not delivered" if cands else "delivered although nothing (matching) was visible")
            if found:
                if not fuzzy and inside[x] <= 0:
                    v.bad("once", i, lines, outs, f"id {x} delivered but it is not in the bus (delivered twice, or removed before)")
                elif x not in q:
                    v.bad("latency", i, lines, outs, f"id {x} delivered although it was not visible")
                if inside[x] > 0:
                    inside[x] -= 1
                elif fuzzy and anon > 0:
                    anon -= 1   # it was the one the reference believed deleted
                if not reverted:
                    if op == "get" and order and x != order[0]:
                        v.bad("fifo", i, lines, outs, f"Get delivered {x} but the oldest item in the bus is {order[0]}")
                    if op == "pick" and cands and x != cands[0]:
                        v.bad("fifo", i, lines, outs, f"Pick delivered {x} but the oldest visible match is {cands[0]}")
                    if x in order:
                        order.remove(x)
                if pending_revert:
                    px, was_empty = pending_revert
                    if op == "get":
                        if was_empty:
                            if x != px:
                                v.bad("revert_next", i, lines, outs, f"queue was empty at Revert({px}) yet the next delivered item is {x}")
                            else:
                                v.revert_partial_ok += 1
                        elif x != px:
                            v.revert_full_fail += 1
                    pending_revert = None
            elif not found and op == "pick":
                pending_revert = None
            if not found and x != 0:
                v.bad("api", i, lines, outs, "absent result is not the zero value")
        elif op == "connect":
            c = int(t[1])
            if not reverted and ql >= 0:
                room = 0 if pend == ql else max(ql - pend, 0)
                vis = set(q)
                buf = [y for y in order if y not in vis]
                k = 0
                while k < len(buf) and k < room and stamp[buf[k]] <= c:
                    k += 1
                if pend2 - pend < k:
                    v.bad("delivery", i, lines, outs, f"{k} buffered item(s) are due at cycle {c} and have room, only {pend2 - pend} became visible")
        elif op == "clean":
            inside.clear()
            anon = 0
            order = []
            fuzzy = False
            pending_revert = None
            if pend2 != 0 or rem2 != bl or not e2 or q2:
                v.bad("clean", i, lines, outs, "the bus is not empty after Clean")
        else:
            v.bad("api", i, lines, outs, "unknown operation accepted")
            return v
        # ---- after every operation
        newly = Counter(q2) - Counter(q)
        for y, cnt in newly.items():
            if op != "connect":
                v.bad("latency", i, lines, outs, f"id {y} became visible without a Connect")
            elif y not in stamp or stamp[y] > int(t[1]):
                v.bad("latency", i, lines, outs, f"id {y} (visible from cycle {stamp.get(y)}) became visible at Connect({t[1]})")
        if not fuzzy and (Counter(q2) - +inside):
            v.bad("conservation", i, lines, outs, f"visible ids {sorted((Counter(q2) - +inside).elements())} are not in the bus according to the reference")
        if sum((+inside).values()) - anon != pend2 + buflen2:
            v.bad("conservation", i, lines, outs, f"the bus holds {pend2}+{buflen2} items, the reference {sum((+inside).values()) - anon}")
        if not reverted and q2 != sorted(q2):
            v.bad("fifo", i, lines, outs, "the visible queue is not in add order")
        if not reverted and q2 != order[:len(q2)]:
            v.bad("fifo", i, lines, outs, f"the visible queue {q2} is not the oldest part {order[:len(q2)]} of what the bus holds")
        if ql >= 0 and pend2 > ql:
            v.bad("capacity", i, lines, outs, f"{pend2} visible items exceed queueLength={ql}")
        if polite and bl >= 0 and buflen2 > bl:
            v.bad("capacity", i, lines, outs, f"{buflen2} buffered items exceed bufferLength={bl} although every Add followed CanAdd()")
        if pend2 != len(q2) or cg2 != (pend2 != 0) or e2 != (pend2 == 0 and buflen2 == 0) or ca2 != (rem2 != 0) or ex2 != any(y % 2 == 1 for y in q2):
            v.bad("observers", i, lines, outs, "PendingRead/CanGet/IsEmpty/CanAdd/Exists disagree with each other")
        if len(v) > 20:
            return v
        q, pend, rem, ca, cg, e, ex = q2, pend2, rem2, ca2, cg2, e2, ex2
    return v


def _wellformed_bb(t):
    try:
        if t[0] in ("add", "tryadd", "revert"):
            return len(t) == 3 and all(re.fullmatch(r"-?\d+", x) for x in t[1:])
        if t[0] == "pick":
            return len(t) == 3 and int(t[1]) > 0
        if t[0] == "connect":
            return len(t) == 2 and re.fullmatch(r"-?\d+", t[1]) is not None
        return len(t) == 1
    except Exception:
        return False


def oracle_sb(lines, outs):
    v = V()
    pending = current = None
    delivered = set()
    for i in range(len(lines)):
        t = lines[i].split()[1:]
        out = outs[i] if i < len(outs) else "missing"
        if out == "bad-op":
            continue
        mm = re.match(r"ok(?: (-?\d+))?(?: (\d))? ?e=(\d) ca=(\d)$", out)
        if not mm:
            v.bad("panic", i, lines, outs, "the bus panicked / unparsable result")
            return v
        a, b, e, ca = mm.group(1), mm.group(2), mm.group(3) == "1", mm.group(4) == "1"
        op = t[0]
        if op == "new":
            pending = current = None
        elif op == "add":
            pending = int(t[1])
        elif op == "tryadd":
            accepted = a == "1"
            if accepted != (pending is None):
                v.bad("capacity", i, lines, outs, "CanAdd() does not report whether the pending slot is free")
            if accepted:
                pending = int(t[1])
        elif op == "get":
            x, found = int(a), b == "1"
            if found:
                if x in delivered:
                    v.bad("once", i, lines, outs, f"id {x} delivered twice")
                elif current is None and x == pending:
                    v.bad("latency", i, lines, outs, f"id {x} delivered by the first Get after its Add")
                elif x != current:
                    v.bad("fifo", i, lines, outs, f"delivered {x}, the reference expects {current}")
                delivered.add(x)
            else:
                if current is not None:
                    v.bad("delivery", i, lines, outs, f"id {current} was not delivered by the second Get after its Add")
                if x != 0:
                    v.bad("api", i, lines, outs, "absent result is not the zero value")
            current, pending = pending, None
        elif op in ("flush", "clean"):
            pending = current = None
            if not e:
                v.bad("clean", i, lines, outs, "the bus is not empty after Flush/Clean")
        if e != (pending is None and current is None) or ca != (pending is None):
            v.bad("observers", i, lines, outs, f"IsEmpty/CanAdd disagree with the reference latch (pending={pending}, current={current})")
        if len(v) > 20:
            return v
    return v


def oracle_q(lines, outs):
    v = V()
    ref, cap = [], 0
    for i in range(len(lines)):
        t = lines[i].split()[1:]
        out = outs[i] if i < len(outs) else "missing"
        if out == "bad-op":
            continue
        mm = re.match(r"ok(?: \[([\d,]*)\])? ?len=(-?\d+) full=(\d)$", out)
        if not mm:
            v.bad("panic", i, lines, outs, "the queue panicked / unparsable result")
            return v
        got = None if mm.group(1) is None else [int(x) for x in mm.group(1).split(",") if x]
        op = t[0]
        if op == "new":
            ref, cap = [], int(t[1])
        elif op == "push":
            ref.append(int(t[1]))
        elif op in ("iter", "iterrm"):
            if got != ref:
                v.bad("fifo", i, lines, outs, f"iteration gives {got}, pushed and not removed: {ref}")
            if op == "iterrm":
                ref = [y for y in ref if y % int(t[1]) != int(t[2])]
        elif op == "rm":
            ref = [y for y in ref if y != int(t[1])]
        if int(mm.group(2)) != len(ref) or (mm.group(3) == "1") != (len(ref) >= cap):
            v.bad("capacity", i, lines, outs, f"Length/IsFull disagree with the reference {ref} (capacity {cap})")
        if len(v) > 20:
            return v
    return v


def oracle_bc(lines, outs):
    v = V()
    ls = []
    for i in range(len(lines)):
        t = lines[i].split()[1:]
        out = outs[i] if i < len(outs) else "missing"
        if out == "bad-op":
            continue
        op = t[0]
        if op == "new":
            n = int(t[1])
            if (out == "panic") != (n < 0):
                v.bad("panic", i, lines, outs, "constructor")
            if n >= 0:
                ls = [[] for _ in range(n)]
        elif op == "notify":
            for l in ls:
                l.append([int(t[1]), False])
            if out != "ok":
                v.bad("panic", i, lines, outs, "Notify failed")
        elif op == "read":
            k = int(t[1])
            if not (0 <= k < len(ls)):
                if out != "panic":
                    v.bad("api", i, lines, outs, "Read of a listener that does not exist did not fail")
                continue
            ls[k] = [ev for ev in ls[k] if not ev[1]]
            exp = "ok [" + ",".join(str(ev[0]) for ev in ls[k]) + "]"
            if out != exp:
                v.bad("once", i, lines, outs, f"listener {k} must read {exp}")
        elif op == "commit":
            k, j = int(t[1]), int(t[2])
            if 0 <= k < len(ls) and 0 <= j < len(ls[k]):
                ls[k][j][1] = True
                if out != "ok":
                    v.bad("panic", i, lines, outs, "Commit failed")
            elif out != "panic":
                v.bad("api", i, lines, outs, "Commit through a stale index did not fail")
        if len(v) > 20:
            return v
    return v


PRIORITY = ["once", "fifo", "latency", "delivery", "capacity", "conservation", "clean", "revert_next", "panic", "observers", "api"]
ORACLES = {"bb": oracle_bb, "sb": oracle_sb, "q": oracle_q, "bc": oracle_bc}


NEW_ARITY = {"bb": 4, "sb": 2, "q": 3, "bc": 3}


def split_histories(ins):
    """[(start, end)) per history: a history starts at a well-formed `<comp> new …` line."""
    starts = []
    for i, l in enumerate(ins):
        t = l.split()
        if len(t) >= 2 and t[1] == "new" and NEW_ARITY.get(t[0]) == len(t) and all(re.fullmatch(r"-?\d+", x) for x in t[2:]):
            starts.append(i)
    out = []
    for a, b in zip(starts, starts[1:] + [len(ins)]):
        out.append((a, b))
    return out


def expand_compact(line):
    """a `bx`/`sx` line of the exhaustive stream as protocol lines"""
    t = line.split()
    if t[0] == "sx":
        res, n = ["sb new"], 0
        names = {"a": "add", "t": "tryadd", "g": "get", "f": "flush", "x": "clean"}
        for tok in t[1:]:
            res.append(f"sb {names[tok]}" + (f" {n}" if tok in "at" else ""))
            n += 1
        return res
    res, n = [f"bb new {t[1]} {t[2]}"], 0
    for tok in t[3:]:
        k, rest = tok[0], tok[1:]
        if k == "a":
            res.append(f"bb add {n} {rest}")
        elif k == "t":
            res.append(f"bb tryadd {n} {rest}")
        elif k == "r":
            res.append("bb revert " + rest.replace(":", " "))
        elif k == "d":
            res.append("bb dellast")
        elif k == "g":
            res.append("bb get")
        elif k == "p":
            res.append("bb pick " + rest.replace(":", " "))
        elif k == "c":
            res.append(f"bb connect {rest}")
        elif k == "x":
            res.append("bb clean")
        n += 1
    return res


def renumber(lines):
    """after dropping operations: ids are operation indices again (references follow)."""
    comp = lines[0].split()[0]
    out, n, ren = [lines[0]], 0, {}
    for l in lines[1:]:
        t = l.split()
        if comp in ("bb", "sb"):
            if t[1] in ("add", "tryadd"):
                ren[int(t[2])] = n
                t[2] = str(n)
            elif t[1] == "revert":
                t[2] = str(ren.get(int(t[2]), int(t[2])))
            n += 1
        elif comp == "q":
            if t[1] == "push":
                ren[int(t[2])] = n
                t[2] = str(n)
                n += 1
            elif t[1] == "rm":
                if int(t[2]) not in ren:
                    continue
                t[2] = str(ren[int(t[2])])
        out.append(" ".join(t))
    return out


# ------------------------------------------------------------------------------------------------
# running histories on the real code
# ------------------------------------------------------------------------------------------------

def run_lines(ck, lines, driver=False):
    d = f"{WORK}/streams/{ck.pid}"
    os.makedirs(d, exist_ok=True)
    with open(f"{d}/c14-replay.req", "w") as f:
        f.write("\n".join(lines) + "\n")
    ins, go, lean = ck.run_stream("c14-replay", driver=driver, exe=EXE)
    return go, lean


def run_shard(ck, stream):
    """harness + driver on one exhaustive shard; files are compared as bytes and only read into
    lines when they differ. Returns (number of lines, [(in, go, model)] differing, last sample)."""
    import subprocess
    d = f"{WORK}/streams/{ck.pid}"
    os.makedirs(d, exist_ok=True)
    for ext in ("in", "go", "lean"):
        try:
            os.remove(f"{d}/{stream}.{ext}")
        except FileNotFoundError:
            pass
    rc, out = sh([f"{WORK}/bin/harness", "-out", d, "-seed", str(ck.seed), "-tier", ck.tier, stream], env=GOENV, timeout=3000)
    if rc != 0:
        raise RuntimeError(f"harness stream {stream} failed (rc={rc}): {out[-1000:]}")
    with open(f"{d}/{stream}.in") as fin, open(f"{d}/{stream}.lean", "w") as fout:
        p = subprocess.run([f"{LEAN}/.lake/build/bin/{EXE}"], stdin=fin, stdout=fout, stderr=subprocess.PIPE, text=True, timeout=3000)
    if p.returncode != 0:
        raise RuntimeError(f"Lean driver failed on stream {stream}: {p.stderr[-1000:]}")
    n, same = 0, True
    with open(f"{d}/{stream}.go", "rb") as fg, open(f"{d}/{stream}.lean", "rb") as fl:
        while True:
            a, b = fg.read(1 << 22), fl.read(1 << 22)
            if a != b:
                same = False
                break
            if not a:
                break
            n += a.count(b"\n")
    sample = None
    if same:
        with open(f"{d}/{stream}.in", "rb") as f:
            f.seek(max(os.path.getsize(f"{d}/{stream}.in") - 400, 0))
            tail_in = f.read().decode().splitlines()
        with open(f"{d}/{stream}.go", "rb") as f:
            f.seek(max(os.path.getsize(f"{d}/{stream}.go") - 400, 0))
            tail_go = f.read().decode().splitlines()
        if tail_in and tail_go:
            sample = {"in": tail_in[-1], "go": tail_go[-1], "lean": tail_go[-1]}
        for ext in ("in", "go", "lean"):   # identical: nothing to look at, and the shards are large
            os.remove(f"{d}/{stream}.{ext}")
        return n, [], sample
    xin = open(f"{d}/{stream}.in").read().splitlines()
    xgo = open(f"{d}/{stream}.go").read().splitlines()
    xlean = open(f"{d}/{stream}.lean").read().splitlines()
    diff = [(xin[j], xgo[j], xlean[j]) for j in range(min(len(xgo), len(xlean), len(xin))) if xgo[j] != xlean[j]]
    if len(xgo) != len(xlean):
        diff.append(("(length)", str(len(xgo)), str(len(xlean))))
    return len(xin), diff, None


def fails(ck, cands, clause):
    """which candidate histories still violate `clause` on the real code (one harness run)"""
    flat = [l for c in cands for l in c]
    go, _ = run_lines(ck, flat)
    res, pos = [], 0
    for c in cands:
        outs = go[pos:pos + len(c)]
        pos += len(c)
        comp = c[0].split()[0]
        vs = ORACLES[comp](c, outs)
        res.append(any(x["clause"] == clause for x in vs) and "bad-op" not in outs)
    return res


def shrink(ck, lines, clause, budget_s=15.0):
    t0 = time.time()
    cur = list(lines)
    chunk = max((len(cur) - 1) // 2, 1)
    while chunk >= 1 and time.time() - t0 < budget_s:
        cands, i = [], 1
        while i < len(cur):
            cands.append(renumber(cur[:i] + cur[i + chunk:]))
            i += chunk
        cands = [c for c in cands if len(c) >= 1]
        ok = fails(ck, cands, clause) if cands else []
        hit = next((c for c, f in zip(cands, ok) if f), None)
        if hit is not None and len(hit) < len(cur):
            cur = hit
            chunk = min(chunk, max((len(cur) - 1) // 2, 1))
        else:
            chunk //= 2
    return cur


def report(ck, lines, stream, seed_note=""):
    """lines: one history that violates the property on the real code -> shrink, write the replay."""
    comp = lines[0].split()[0]
    go, _ = run_lines(ck, lines)
    vs = ORACLES[comp](lines, go)
    if not vs:
        return False
    # report the clause of the property proper before mere observer/API inconsistencies
    clause = min((x["clause"] for x in vs), key=lambda c: PRIORITY.index(c) if c in PRIORITY else len(PRIORITY))
    small = shrink(ck, lines, clause)
    go, lean = run_lines(ck, small, driver=os.path.exists(f"{VERIF}/lean/.lake/build/bin/{EXE}"))
    vs2 = ORACLES[comp](small, go) or vs
    first = next((x for x in vs2 if x["clause"] == clause), vs2[0])
    ck.violation({"kind": "failing-input", "component": {"bb": "BufferedBus", "sb": "SimpleBus", "q": "Queue", "bc": "Broadcast"}[comp],
                  "clause": clause, "why": first["why"], "failing_operation": first["line"], "go_result": first["go"],
                  "history": small, "go_outputs": go, "model_outputs": lean, "history_length_before_shrinking": len(lines),
                  "stream": stream, "how_to_replay": "bin/check C14 --replay <this file>  (re-runs `history` on the real code and applies the oracle)"})
    return True


# ------------------------------------------------------------------------------------------------

def race_check(ck):
    """thorough: the random stream once more under the Go race detector (Queue.Iterator's goroutine
    walks the list while the consumer removes received elements)."""
    d = f"{WORK}/streams/{ck.pid}/race"
    os.makedirs(d, exist_ok=True)
    with Lock():
        rc, out = sh(["go", "build", "-race", "-tags", "verif", "-o", f"{WORK}/bin/harness_race", "./cmd/harness"],
                     cwd=f"{VERIF}/go", env=GOENV, timeout=1800)
    if rc != 0:
        ck.notes.append("race detector: `go build -race` of the harness failed, not run: " + out[-300:])
        return
    rc, out = sh([f"{WORK}/bin/harness_race", "-out", d, "-seed", str(ck.seed), "-tier", "quick", "c14"], env=GOENV, timeout=1800)
    if "DATA RACE" in out or rc != 0:
        ck.violation({"kind": "data-race", "what": "the Go race detector fired (or the harness died) while driving comp.Queue/BufferedBus/Broadcast through stream c14",
                      "log": out[-3000:], "how_to_replay": f"cd /verif/go && go build -race -tags verif -o /tmp/h ./cmd/harness && /tmp/h -out /tmp/o -seed {ck.seed} c14"}, no_input=True)
    else:
        ck.notes.append("race detector: stream c14 re-run under `go build -race`: no data race reported")


def known_revert_finding():
    try:
        kf = json.load(open(f"{VERIF}/KNOWN_FINDINGS.json"))
    except Exception:
        return None
    for f in kf.get("findings", []):
        if isinstance(f, dict) and f.get("property") == "C14" and "revert" in (json.dumps(f)).lower():
            return f
    return None


def run(ck):
    built = False
    with Lock():
        err = ck.regenerate()
        if err:
            ck.notes.append("tie T1 (not used by C14): the translator does not accept the source: " + err[:300])
        ok, out = ck.lake_build(MODS + [EXE])
        if not ok:
            bad = ck.failing_theorems(MODS[0], out)
            ck.broken.append("lake build failed; theorems/defs that no longer check: " + (", ".join(bad) or out[-800:]))
            ck.cov["obligations"] += len(ck.theorems_of(MODS[0])[0])
            built, _ = ck.lake_build([EXE])
        else:
            built = True
            ck.audit(MODS)
            ck.scan_sources([f"{VERIF}/lean/MajoranaVerif/Model/Bus.lean", f"{VERIF}/lean/MajoranaVerif/Proofs/Bus.lean"])
            if ck.tier == "thorough":
                ck.leanchecker(MODS + ["MajoranaVerif.Proofs.Bus", "MajoranaVerif.Model.Bus"])
        okh, outh = ck.build_harness()
        if not okh:
            ck.broken.append("go build -tags verif of the harness against /repo failed: " + outh[-600:])
    ck.cov["checker_cmd"] = "lake build MajoranaVerif.Props.C14 driver_c14 && lake env lean Audit (#print axioms)" + (" && lake env leanchecker" if ck.tier == "thorough" else "")
    ck.cov["trusted_base"] = TRUSTED_COMMON + [
        "lean/MajoranaVerif/Model/Bus.lean: HAND model of proc/comp/bus.go, queue.go, broadcast.go and the history semantics (BusHist/SBusHist.step) — tied to the Go code by lock-step streams c14 / c14-exh through the exported API only",
        "checklib/c14.py oracle (reference over id multisets/lists) — independent of the Lean model; run on every Go output of stream c14",
        "Queue.Iterator's goroutine is outside the model (the harness drains the channel; removal only of received elements)"]
    ck.cov["rule"] = ("obligations = theorems of Props/C14.lean, each over ALL histories (List Op) and all capacities; "
                      "evaluations = operation lines executed on the real comp.* objects and compared with the model (random stream: one line per operation with all observers; "
                      "exhaustive stream: one line per history of length 1..k over a 9-symbol BufferedBus alphabet for capacities {1,2}x{1,2} and a 5-symbol SimpleBus alphabet, result of the last operation); "
                      "distinct_nontrivial = distinct input lines of the exhaustive stream + histories of the random stream")
    reported = False
    if okh:
        # ---- the pinned witness of the Revert finding first (DESIGN §3.4)
        go, _ = run_lines(ck, REVERT_WITNESS)
        still = len(go) == len(REVERT_WITNESS) and go[-1].startswith("ok 1 1")
        entry = known_revert_finding()
        if still and entry is not None:
            ck.known.append("KNOWN-FINDING: property=C14 BufferedBus.Revert(x) with a non-empty queue: the next Get delivers the queue head, not x "
                            "(add a; add b; connect; get->a; revert a; get->b) [dead API: no variant calls Revert]")
        elif still:
            ck.notes.append("Revert clause: the witness `add a; add b; connect; get; revert a; get -> b` still reproduces (Props.C14.not_Full_C14_revert_next); "
                            "no entry in KNOWN_FINDINGS.json, so the full clause is not part of the must-hold oracle (only revert_next_partial is)")
        else:
            ck.notes.append("Revert clause: the pinned witness no longer reproduces on this tree")
    if okh and built:
        # ---- random lock-step stream + oracle on every Go output
        ins, go, lean = ck.run_stream("c14", exe=EXE)
        ck.cov["evaluations"] += len(ins)
        ck.cov["traces_validated_against_impl"] += len(ins)
        hist = split_histories(ins)
        ck.cov["distinct_nontrivial"] += len(hist)
        dist = Counter(" ".join(l.split()[:2]) for l in ins)
        differing = [i for i in range(min(len(go), len(lean))) if go[i] != lean[i]]
        if len(go) != len(lean):
            differing.append(min(len(go), len(lean)))
        stats = Counter()
        viol = []
        for a, b in hist:
            comp = ins[a].split()[0]
            vs = ORACLES[comp](ins[a:b], go[a:b])
            stats["revert_with_nonempty_queue_not_next(D27)"] += vs.revert_full_fail
            stats["revert_with_empty_queue_next"] += vs.revert_partial_ok
            if vs:
                viol.append((a, b, vs))
        ck.cov["input_distribution"] = {"operations": dict(dist), "histories": len(hist),
                                        "polite_bb_histories": sum(1 for a, b in hist if ins[a].startswith("bb") and not any(l.split()[1] in ("add", "revert") for l in ins[a + 1:b])),
                                        "bb_histories": sum(1 for a, b in hist if ins[a].startswith("bb")),
                                        "capacity_pairs": len({tuple(ins[a].split()[2:4]) for a, b in hist if ins[a].startswith("bb")}),
                                        "go_panics": sum(1 for g in go if g == "panic"), **stats}
        ck.cov["samples"] += [{"in": ins[i], "go": go[i], "lean": lean[i] if i < len(lean) else None} for i in (1, len(ins) // 3, len(ins) // 2)]
        seen = set()
        for a, b, vs in viol:
            key = (ins[a].split()[0], min((x["clause"] for x in vs), key=lambda c: PRIORITY.index(c) if c in PRIORITY else 99))
            if key in seen:
                continue
            seen.add(key)
            reported |= report(ck, ins[a:b], "c14")
            if len(seen) >= 4:
                break
        if differing:
            i = differing[0]
            a, b = next(((a, b) for a, b in hist if a <= i < b), (i, i + 1))
            if not reported:
                reported |= report(ck, ins[a:b], "c14")
            ck.broken.append(f"correspondence c14 (Go vs model) differs on {len(differing)} lines; first at line {i+1}: in={ins[i]!r} go={go[i] if i < len(go) else None!r} model={lean[i] if i < len(lean) else None!r} (history starts at line {a+1})")

        # ---- bounded exhaustive, in parallel shards
        with ThreadPoolExecutor(max_workers=min(SHARDS, os.cpu_count() or 2)) as ex:
            results = list(ex.map(lambda i: run_shard(ck, f"c14-exh-{i}"), range(SHARDS)))
        nlines = sum(r[0] for r in results)
        exh_diff = [(si, a, b, c) for si, r in enumerate(results) for (a, b, c) in r[1]]
        ck.cov["evaluations"] += nlines
        ck.cov["traces_validated_against_impl"] += nlines
        ck.cov["distinct_nontrivial"] += nlines
        ck.cov["input_distribution"]["exhaustive_histories"] = nlines
        ck.cov["exhaustive_note"] = "all histories of length <= k over the stated alphabets (quick: k=6, k=7 for capacity 2x2, SimpleBus k=9; thorough: k=7 for 1x1,1x2,2x1,2x2,3x3 and k=6 for 1x3,3x1,4x4, SimpleBus k=10)"
        ck.cov["samples"] += [r[2] for r in results[:2] if r[2]]
        if exh_diff:
            # shortest differing histories first: decide the property on them
            exh_diff.sort(key=lambda d: len(d[1]))
            for si, line, g, l in exh_diff[:30]:
                if reported or line == "(length)":
                    break
                reported |= report(ck, expand_compact(line), f"c14-exh-{si}")
            si, line, g, l = exh_diff[0]
            ck.broken.append(f"correspondence c14-exh (Go vs model) differs on {len(exh_diff)} histories; shortest: in={line!r} go={g!r} model={l!r}")
        if ck.tier == "thorough":
            race_check(ck)
    elif okh:
        # no driver: still search for a failing input with the oracle alone
        ins, go, _ = ck.run_stream("c14", driver=False)
        for a, b in split_histories(ins):
            if ORACLES[ins[a].split()[0]](ins[a:b], go[a:b]):
                if report(ck, ins[a:b], "c14"):
                    break
    ck.assumptions = ["Go `int` cycles and lengths are modelled as unbounded Int (currentCycle+1 does not overflow)",
                      "Queue.Iterator: the consumer removes only elements it has received and does not Push while iterating (as every variant does); the goroutine/channel is not modelled"
                      + ("" if ck.tier != "thorough" else " (thorough: harness also built and run with -race)"),
                      "Revert/DeleteLast/Broadcast are not called by any processor variant; the revert_next clause is proved only under queue = [] (Props.C14.revert_next_partial), the full clause is refuted (not_Full_C14_revert_next)"]
    ck.finish("proof")


def replay(ck, path):
    payload = json.load(open(path))
    lines = payload.get("history") or []
    print("replay of", path)
    with Lock():
        okh, outh = ck.build_harness()
    if not okh or not lines:
        print("cannot replay: " + (outh[-400:] if not okh else "no history in the file"))
        ck.finish("proof")
    have_driver = os.path.exists(f"{VERIF}/lean/.lake/build/bin/{EXE}")
    go, lean = run_lines(ck, lines, driver=have_driver)
    for i, l in enumerate(lines):
        print(f"  {l:28s} go: {go[i] if i < len(go) else '?'}" + (f"    model: {lean[i]}" if have_driver and i < len(lean) and lean[i] != go[i] else ""))
    vs = ORACLES[lines[0].split()[0]](lines, go)
    ck.cov["evaluations"] = len(lines)
    ck.cov["distinct_nontrivial"] = len(lines)
    ck.cov["rule"] = "replay of one history"
    if vs:
        print("oracle:", json.dumps(vs[0]))
        ck.violation(dict(payload, replayed=True, go_outputs=go, why=vs[0]["why"], clause=vs[0]["clause"]))
    else:
        print("oracle: the history satisfies the property on this tree")
    ck.finish("proof")

l0:
  addi s0, s0, 1
  li t0, 4
  beq s0, t0, done
  andi t1, s0, 1
  beq t1, zero, b18
  beq zero, zero, c18
done:
  ret
  nop
  nop
  nop
  nop
  nop
  nop
  nop
  nop
  nop
  nop
  nop
  nop
b1:
  beq zero, zero, jj
b2:
  beq zero, zero, b1
b3:
  beq zero, zero, b2
b4:
  beq zero, zero, b3
b5:
  beq zero, zero, b4
b6:
  beq zero, zero, b5
b7:
  beq zero, zero, b6
b8:
  beq zero, zero, b7
b9:
  beq zero, zero, b8
b10:
  beq zero, zero, b9
b11:
  beq zero, zero, b10
b12:
  beq zero, zero, b11
b13:
  beq zero, zero, b12
b14:
  beq zero, zero, b13
b15:
  beq zero, zero, b14
b16:
  beq zero, zero, b15
b17:
  beq zero, zero, b16
b18:
  beq zero, zero, b17
  nop
  nop
  nop
  nop
  nop
  nop
  nop
  nop
  nop
  nop
  nop
  nop
  nop
  nop
  nop
  nop
  nop
  nop
  nop
  nop
c1:
  beq zero, zero, jj
c2:
  beq zero, zero, c1
c3:
  beq zero, zero, c2
c4:
  beq zero, zero, c3
c5:
  beq zero, zero, c4
c6:
  beq zero, zero, c5
c7:
  beq zero, zero, c6
c8:
  beq zero, zero, c7
c9:
  beq zero, zero, c8
c10:
  beq zero, zero, c9
c11:
  beq zero, zero, c10
c12:
  beq zero, zero, c11
c13:
  beq zero, zero, c12
c14:
  beq zero, zero, c13
c15:
  beq zero, zero, c14
c16:
  beq zero, zero, c15
c17:
  beq zero, zero, c16
c18:
  beq zero, zero, c17
  nop
  nop
  nop
  nop
  nop
  nop
  nop
  nop
  nop
  nop
  nop
  nop
  nop
  nop
  nop
  nop
  nop
  nop
  nop
  nop
jj:
  j l0

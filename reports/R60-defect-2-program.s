addi t2, t2, 0
lw t0, 0(zero)
lw t1, 64(zero)
lw t3, 128(zero)
lw t4, 192(zero)
ret
addi a0, zero, 1

package main

import (
	"fmt"
	"reflect"
	"sort"
	"strings"

	"github.com/teivah/majorana/risc"
	"verif/internal/hx"
)

func init() { streams["c02"] = c02Stream }

var regNames = []string{"zero", "ra", "sp", "gp", "tp", "t0", "t1", "t2", "s0", "s1", "a0", "a1", "a2", "a3", "a4", "a5",
	"a6", "a7", "s2", "s3", "s4", "s5", "s6", "s7", "s8", "s9", "s10", "s11", "t3", "t4", "t5", "t6"}

type shape int

const (
	shR     shape = iota // op rd, rs1, rs2
	shI                  // op rd, rs1, imm
	shU                  // op rd, imm
	shLoad               // op rd, off(base)
	shStore              // op src, off(base)
	shBr2                // op rs1, rs2, label
	shBr1                // op rs, label
	shJ                  // op label
	shJal                // op rd, label
	shMv                 // op rd, rs
	shNone               // op
)

var mnemonics = []struct {
	name string
	sh   shape
}{
	{"add", shR}, {"sub", shR}, {"and", shR}, {"or", shR}, {"xor", shR}, {"sll", shR}, {"srl", shR}, {"sra", shR},
	{"slt", shR}, {"sltu", shR}, {"mul", shR}, {"div", shR}, {"rem", shR},
	{"addi", shI}, {"andi", shI}, {"ori", shI}, {"xori", shI}, {"slti", shI}, {"slli", shI}, {"srli", shI}, {"srai", shI}, {"jalr", shI},
	{"lui", shU}, {"auipc", shU}, {"li", shU},
	{"lb", shLoad}, {"lh", shLoad}, {"lw", shLoad},
	{"sb", shStore}, {"sh", shStore}, {"sw", shStore},
	{"beq", shBr2}, {"bne", shBr2}, {"blt", shBr2}, {"bge", shBr2}, {"bltu", shBr2}, {"bgeu", shBr2}, {"ble", shBr2},
	{"beqz", shBr1}, {"bnez", shBr1},
	{"j", shJ}, {"jal", shJal}, {"mv", shMv}, {"nop", shNone}, {"ret", shNone},
}

// dump renders the parsed instruction struct as `op=<type> field=value …` using
// reflection on the unexported fields (no hook needed).
func dump(r risc.InstructionRunner) string {
	v := reflect.ValueOf(r).Elem()
	t := v.Type()
	parts := []string{"op=" + t.Name()}
	for i := 0; i < v.NumField(); i++ {
		f := v.Field(i)
		switch f.Kind() {
		case reflect.Uint64:
			parts = append(parts, fmt.Sprintf("%s=%d", t.Field(i).Name, f.Uint()))
		case reflect.Int32:
			parts = append(parts, fmt.Sprintf("%s=%d", t.Field(i).Name, f.Int()))
		case reflect.String:
			parts = append(parts, fmt.Sprintf("%s=%s", t.Field(i).Name, f.String()))
		case reflect.Struct:
			// forward slot: set separately through Forward()
		default:
			parts = append(parts, fmt.Sprintf("%s=?%s", t.Field(i).Name, f.Kind()))
		}
	}
	return strings.Join(parts, " ")
}

func regList(l []risc.RegisterType) string {
	s := make([]string, len(l))
	for i, r := range l {
		s[i] = fmt.Sprint(uint64(r))
	}
	return strings.Join(s, ",")
}

func regSetNoZero(l []risc.RegisterType) string {
	m := map[uint64]bool{}
	for _, r := range l {
		if r != risc.Zero {
			m[uint64(r)] = true
		}
	}
	ks := make([]int, 0, len(m))
	for k := range m {
		ks = append(ks, int(k))
	}
	sort.Ints(ks)
	s := make([]string, len(ks))
	for i, k := range ks {
		s[i] = fmt.Sprint(k)
	}
	return strings.Join(s, ",")
}

type c02Case struct {
	text   string
	regs   map[risc.RegisterType]int32
	fwd    *risc.Forward
	pc     int32
	seq    int32
	mem    []int8 // bytes handed to Run (for loads: exactly the width; see c02Run)
	labels map[string]int32
}

// c02Run executes one case on the real code and renders the G (tie) and O
// (property-level outcome) lines.
func c02Run(id int, c c02Case) (in string, out string) {
	app, err := risc.Parse(c.text)
	var regsS []string
	{
		ks := make([]int, 0)
		for k := range c.regs {
			ks = append(ks, int(k))
		}
		sort.Ints(ks)
		for _, k := range ks {
			regsS = append(regsS, fmt.Sprintf("%d:%d", k, c.regs[risc.RegisterType(k)]))
		}
	}
	var labS []string
	{
		ks := make([]string, 0)
		for k := range c.labels {
			ks = append(ks, k)
		}
		sort.Strings(ks)
		for _, k := range ks {
			labS = append(labS, fmt.Sprintf("%s:%d", k, c.labels[k]))
		}
	}
	memS := make([]string, len(c.mem))
	for i, b := range c.mem {
		memS[i] = fmt.Sprint(b)
	}
	fwdS := "fwd=-"
	if c.fwd != nil {
		fwdS = fmt.Sprintf("fwd=%d:%d", uint64(c.fwd.Register), c.fwd.Value)
	}
	if err != nil || len(app.Instructions) != 1 {
		in = fmt.Sprintf("c02 %d ; op=PARSEFAIL ; %s ; pc=%d seq=%d ; regs=%s ; mem=%s ; labels=%s ; text= %s",
			id, fwdS, c.pc, c.seq, strings.Join(regsS, ","), strings.Join(memS, ","), strings.Join(labS, ","), c.text)
		return in, fmt.Sprintf("G %d parse-failed\nO %d parse-failed", id, id)
	}
	r := app.Instructions[0]
	in = fmt.Sprintf("c02 %d ; %s ; %s ; pc=%d seq=%d ; regs=%s ; mem=%s ; labels=%s ; text= %s",
		id, dump(r), fwdS, c.pc, c.seq, strings.Join(regsS, ","), strings.Join(memS, ","), strings.Join(labS, ","), c.text)

	ctx := risc.NewContext(false, 16, false)
	for k, v := range c.regs {
		ctx.Registers[k] = v
	}
	if c.fwd != nil {
		r.Forward(*c.fwd)
	}
	before := map[risc.RegisterType]int32{}
	for k, v := range ctx.Registers {
		before[k] = v
	}
	var exe risc.Execution
	var rerr error
	panicked := false
	func() {
		defer func() {
			if rec := recover(); rec != nil {
				panicked = true
			}
		}()
		exe, rerr = r.Run(ctx, c.labels, c.pc, c.mem, c.seq)
	}()
	// direct writes = register-file changes made from inside Run
	var dw []string
	{
		ks := []int{}
		seen := map[int]bool{}
		for k := range ctx.Registers {
			if !seen[int(k)] {
				seen[int(k)] = true
				ks = append(ks, int(k))
			}
		}
		for k := range before {
			if !seen[int(k)] {
				seen[int(k)] = true
				ks = append(ks, int(k))
			}
		}
		sort.Ints(ks)
		for _, k := range ks {
			if ctx.Registers[risc.RegisterType(k)] != before[risc.RegisterType(k)] {
				dw = append(dw, fmt.Sprintf("%d:%d", k, ctx.Registers[risc.RegisterType(k)]))
			}
		}
		// restore for the address methods below
		for k := range ctx.Registers {
			delete(ctx.Registers, k)
		}
		for k, v := range before {
			ctx.Registers[k] = v
		}
	}
	var g, o string
	switch {
	case panicked:
		g, o = "panic", "panic"
	case rerr != nil:
		g, o = "err", "err"
	default:
		g = fmt.Sprintf("ok rc=%s reg=%d val=%d mc=%s mem=[%s] next=%d pcc=%s ret=%s dw=[%s]",
			hx.B(exe.RegisterChange), uint64(exe.Register), exe.RegisterValue, hx.B(exe.MemoryChange), hx.MemString(exe.MemoryChanges),
			exe.NextPc, hx.B(exe.PcChange), hx.B(exe.Return), strings.Join(dw, ","))
		reg := "-"
		if exe.RegisterChange && exe.Register != risc.Zero {
			reg = fmt.Sprintf("%d:%d", uint64(exe.Register), exe.RegisterValue)
		}
		mem := ""
		if exe.MemoryChange {
			mem = hx.MemString(exe.MemoryChanges)
		}
		next := "-"
		if exe.PcChange {
			next = fmt.Sprint(exe.NextPc)
		}
		o = fmt.Sprintf("ok reg=%s mem=[%s] next=%s ret=%s", reg, mem, next, hx.B(exe.Return))
		if len(dw) != 0 {
			o += " direct-register-writes=[" + strings.Join(dw, ",") + "]"
		}
	}
	mr := r.MemoryRead(ctx, c.seq)
	mw := r.MemoryWrite(ctx, c.seq)
	if !panicked && c.fwd == nil {
		o += c02TaggedRead(r, c, exe, rerr, mr, mw)
		o += c02ForwardCleared(r, c, exe, rerr)
	}
	gline := fmt.Sprintf("G %d %s | rr=[%s] wr=[%s] mr=[%s] mw=[%s] ty=Gen.InstructionType.%s", id, g,
		regList(r.ReadRegisters()), regList(r.WriteRegisters()), hx.Join32(mr), hx.Join32(mw), r.InstructionType().String())
	// store addresses the property speaks of = keys of MemoryChanges must be what MemoryWrite declares
	oline := fmt.Sprintf("O %d %s | rr=[%s] wr=[%s] la=[%s] sa=[%s]", id, o,
		regSetNoZero(r.ReadRegisters()), regSetNoZero(r.WriteRegisters()), hx.Join32(mr), hx.Join32(mw))
	return in, gline + "\n" + oline
}

func loadWidth(name string) int {
	switch name {
	case "lb":
		return 1
	case "lh":
		return 2
	case "lw":
		return 4
	}
	return 0
}

func c02Stream(dir string, seed int64, tier string) {
	o := hx.Open(dir, "c02")
	defer o.Close()
	r := hx.NewRand(seed)
	id := 0
	emit := func(c c02Case) {
		in, out := c02Run(id, c)
		o.Emit(in, out)
		id++
	}
	labels := map[string]int32{"L": 40, "end": 396, "back": 0}
	mkText := func(name string, sh shape, rd, rs1, rs2 int, imm int32, label string) string {
		switch sh {
		case shR:
			return fmt.Sprintf("%s %s, %s, %s", name, regNames[rd], regNames[rs1], regNames[rs2])
		case shI:
			return fmt.Sprintf("%s %s, %s, %d", name, regNames[rd], regNames[rs1], imm)
		case shU:
			return fmt.Sprintf("%s %s, %d", name, regNames[rd], imm)
		case shLoad:
			return fmt.Sprintf("%s %s, %d(%s)", name, regNames[rd], imm, regNames[rs1])
		case shStore:
			if name == "sh" { // the simulator's own three-operand syntax for sh
				return fmt.Sprintf("%s %s, %d, %s", name, regNames[rs2], imm, regNames[rs1])
			}
			return fmt.Sprintf("%s %s, %d(%s)", name, regNames[rs2], imm, regNames[rs1])
		case shBr2:
			return fmt.Sprintf("%s %s, %s, %s", name, regNames[rs1], regNames[rs2], label)
		case shBr1:
			return fmt.Sprintf("%s %s, %s", name, regNames[rs1], label)
		case shJ:
			return fmt.Sprintf("%s %s", name, label)
		case shJal:
			return fmt.Sprintf("%s %s, %s", name, regNames[rd], label)
		case shMv:
			return fmt.Sprintf("%s %s, %s", name, regNames[rd], regNames[rs1])
		}
		return name
	}
	// register-choice patterns: (rd, rs1, rs2); includes zero and every alias
	pats := [][3]int{{5, 6, 7}, {5, 5, 7}, {5, 6, 5}, {5, 6, 6}, {5, 5, 5}, {0, 6, 7}, {5, 0, 7}, {5, 6, 0}, {0, 0, 0}, {1, 6, 7}, {31, 30, 29}, {10, 1, 2}}
	one := func(name string, sh shape, p [3]int, a, b, imm int32, label string, fwd *risc.Forward) {
		regs := map[risc.RegisterType]int32{}
		// rs1 gets a, rs2 gets b; with rs1 == rs2 the later assignment (b) wins — same on both sides
		if p[1] != 0 {
			regs[risc.RegisterType(p[1])] = a
		}
		if p[2] != 0 {
			regs[risc.RegisterType(p[2])] = b
		}
		if p[0] != 0 && p[0] != p[1] && p[0] != p[2] {
			regs[risc.RegisterType(p[0])] = 0x5a5a5a5a // old destination value: must not leak
		}
		var mem []int8
		if w := loadWidth(name); w > 0 {
			for i := 0; i < w; i++ {
				mem = append(mem, int8(r.Intn(256)))
			}
			if r.Intn(3) == 0 { // sign-extension boundaries
				mem[w-1] = int8([]int{-128, -1, 127, 0}[r.Intn(4)])
			}
		}
		emit(c02Case{text: mkText(name, sh, p[0], p[1], p[2], imm, label), regs: regs, fwd: fwd,
			pc: int32(4 * r.Intn(100)), seq: 0, mem: mem, labels: labels})
	}
	// 1. boundary lattice, exhaustively over value pairs, canonical register pattern
	lat := hx.Lattice
	if tier != "thorough" {
		// quick: a sub-lattice for the pair product (the rest comes through the random part)
		lat = []int32{0, 1, -1, 2, 5, 31, 32, 33, 63, 64, 127, 128, 255, 256, 32767, 32768, 65535, 65536, -31, -32, -33, -128, -129, -32768, -32769, 0x7fffffff, -0x80000000, -0x7fffffff, 0x40000000, 0x12345678, -0x12345678, 0x0000ff80, 0x00008000}
	}
	for _, m := range mnemonics {
		switch m.sh {
		case shR, shBr2:
			for _, a := range lat {
				for _, b := range lat {
					one(m.name, m.sh, pats[0], a, b, 0, "L", nil)
				}
			}
		case shI, shLoad, shStore:
			for _, a := range lat {
				for _, b := range lat {
					// a = rs1/base value, b = immediate/offset; the stored value for stores is random
					one(m.name, m.sh, pats[0], a, hx.Pick32(r), b, "L", nil)
				}
			}
		case shU:
			for _, a := range lat {
				one(m.name, m.sh, pats[0], 0, 0, a, "L", nil)
			}
		case shBr1, shMv:
			for _, a := range lat {
				one(m.name, m.sh, pats[0], a, 0, 0, "L", nil)
			}
		default:
			one(m.name, m.sh, pats[0], 0, 0, 0, "L", nil)
		}
	}
	// 2. every register pattern (aliases, zero) on lattice values
	for _, m := range mnemonics {
		for _, p := range pats {
			for k := 0; k < 6; k++ {
				one(m.name, m.sh, p, hx.Pick32(r), hx.Pick32(r), hx.Pick32(r), []string{"L", "end", "back"}[r.Intn(3)], nil)
			}
		}
	}
	// 3. random: values, registers, forwarding slot, undefined labels
	n := 40000
	if tier == "thorough" {
		n = 600000
	}
	for i := 0; i < n; i++ {
		m := mnemonics[r.Intn(len(mnemonics))]
		p := [3]int{r.Intn(32), r.Intn(32), r.Intn(32)}
		if r.Intn(4) == 0 {
			p = pats[r.Intn(len(pats))]
		}
		label := []string{"L", "end", "back", "nowhere"}[r.Intn(4)]
		var fwd *risc.Forward
		if r.Intn(5) == 0 {
			// forward slot for a source (or unrelated) non-zero register
			reg := p[1+r.Intn(2)]
			if r.Intn(4) == 0 {
				reg = 1 + r.Intn(31)
			}
			if reg != 0 {
				fwd = &risc.Forward{Register: risc.RegisterType(reg), Value: hx.Pick32(r)}
			}
		}
		one(m.name, m.sh, p, hx.Pick32(r), hx.Pick32(r), hx.Pick32(r), label, fwd)
	}
}

// c02TaggedRead: the same instruction on a context with the rename table ON, run with a sequence id S: every
// register holds, in the table, an OLDER write (tag < S) of the plain context's value over a garbage committed value,
// and a YOUNGER write (tag > S) of another garbage value. Every operand read of every instruction must ignore the
// younger write, so outcome and addresses must equal the plain run's (C02 with C15's read rule). "" when equal.
func c02TaggedRead(r risc.InstructionRunner, c c02Case, exe risc.Execution, rerr error, mr, mw []int32) string {
	const S = 5000
	ctx := risc.NewContext(false, 16, true)
	for k := 0; k < 32; k++ {
		ctx.Registers[risc.RegisterType(k)] = int32(0x0badc0de) + int32(k)
	}
	ctx.Registers[risc.Zero] = 0
	ctx.InitRAT()
	for k := 1; k < 32; k++ {
		reg := risc.RegisterType(k)
		ctx.TransactionRATWrite(risc.Execution{RegisterChange: true, Register: reg, RegisterValue: c.regs[reg]}, S-1000+int32(k))
		ctx.TransactionRATWrite(risc.Execution{RegisterChange: true, Register: reg, RegisterValue: int32(0x7e57) * int32(k+3)}, S+4+int32(k))
	}
	var exe2 risc.Execution
	var err2 error
	panicked := false
	func() {
		defer func() {
			if rec := recover(); rec != nil {
				panicked = true
			}
		}()
		exe2, err2 = r.Run(ctx, c.labels, c.pc, c.mem, S)
	}()
	if panicked {
		return " tagged-read=DIFF:panic"
	}
	if (err2 != nil) != (rerr != nil) {
		return " tagged-read=DIFF:error-differs"
	}
	if rerr == nil && (exe2.RegisterChange != exe.RegisterChange || exe2.Register != exe.Register || exe2.RegisterValue != exe.RegisterValue ||
		exe2.MemoryChange != exe.MemoryChange || hx.MemString(exe2.MemoryChanges) != hx.MemString(exe.MemoryChanges) ||
		exe2.PcChange != exe.PcChange || exe2.NextPc != exe.NextPc || exe2.Return != exe.Return) {
		return fmt.Sprintf(" tagged-read=DIFF:value=%d,mem=[%s],next=%d", exe2.RegisterValue, hx.MemString(exe2.MemoryChanges), exe2.NextPc)
	}
	if hx.Join32(r.MemoryRead(ctx, S)) != hx.Join32(mr) || hx.Join32(r.MemoryWrite(ctx, S)) != hx.Join32(mw) {
		return " tagged-read=DIFF:addresses"
	}
	return ""
}

// c02ForwardCleared: the decode units clear an instruction's forward slot with Forward(Forward{}) before every use
// (the slot lives in the parsed program, which several machines may share). After "forward register X := garbage"
// followed by that clearing call, the instruction must behave exactly as if it had never been forwarded. "" when so.
func c02ForwardCleared(r risc.InstructionRunner, c c02Case, exe risc.Execution, rerr error) string {
	regs := r.ReadRegisters()
	if len(regs) == 0 {
		return ""
	}
	for _, reg := range regs {
		if reg == risc.Zero {
			continue
		}
		r.Forward(risc.Forward{Register: reg, Value: 0x0f0f0f0f})
		r.Forward(risc.Forward{})
	}
	ctx := risc.NewContext(false, 16, false)
	for k, v := range c.regs {
		ctx.Registers[k] = v
	}
	var exe2 risc.Execution
	var err2 error
	panicked := false
	func() {
		defer func() {
			if rec := recover(); rec != nil {
				panicked = true
			}
		}()
		exe2, err2 = r.Run(ctx, c.labels, c.pc, c.mem, c.seq)
	}()
	if panicked || (err2 != nil) != (rerr != nil) {
		return " forward-cleared=DIFF:status"
	}
	if rerr == nil && (exe2.RegisterChange != exe.RegisterChange || exe2.Register != exe.Register || exe2.RegisterValue != exe.RegisterValue ||
		hx.MemString(exe2.MemoryChanges) != hx.MemString(exe.MemoryChanges) || exe2.PcChange != exe.PcChange || exe2.NextPc != exe.NextPc) {
		return fmt.Sprintf(" forward-cleared=DIFF:value=%d,mem=[%s],next=%d", exe2.RegisterValue, hx.MemString(exe2.MemoryChanges), exe2.NextPc)
	}
	return ""
}

package main

// Stream c11 (property C11): risc.Parse on arbitrary byte strings, on valid programs (the
// seven programs under res/ and generated ones over all 45 mnemonics), on grammar-directed
// mutants of them, and on layout-edited copies of all of these (the edited text refers to
// the text it was derived from: both must parse to the same result).
//
//   .in  : `tab` | `c11 <id> <kind> <ref|-> x<hex of the text>` | `asm <id> x<hex>`
//   .go  : the table line | `panic` | `err <kind>` | `ok n=<count> instrs=[…] labels=[…]` | `asm-agree`
//
// Stream c11-one re-parses the texts listed (one x<hex> per line) in <dir>/c11-one.req:
// used by the check to shrink and to replay a failing input.

import (
	"bufio"
	"encoding/hex"
	"fmt"
	"math/rand"
	"os"
	"path/filepath"
	"reflect"
	"sort"
	"strings"
	"unicode"

	"github.com/teivah/majorana/risc"
	"verif/internal/hx"
)

func init() {
	streams["c11"] = c11Stream
	streams["c11-one"] = c11One
}

func c11Hex(s string) string { return "x" + hex.EncodeToString([]byte(s)) }

// c11Dump renders one parsed instruction: struct name, then the fields sorted by name
// (`forward` omitted), strings hex-encoded.
func c11Dump(r risc.InstructionRunner) string {
	v := reflect.ValueOf(r).Elem()
	t := v.Type()
	type kv struct{ k, v string }
	var fs []kv
	for i := 0; i < v.NumField(); i++ {
		f := v.Field(i)
		switch f.Kind() {
		case reflect.Uint64:
			fs = append(fs, kv{t.Field(i).Name, fmt.Sprint(f.Uint())})
		case reflect.Int32:
			fs = append(fs, kv{t.Field(i).Name, fmt.Sprint(f.Int())})
		case reflect.String:
			fs = append(fs, kv{t.Field(i).Name, c11Hex(f.String())})
		case reflect.Struct:
			// forward slot
		default:
			fs = append(fs, kv{t.Field(i).Name, "?" + f.Kind().String()})
		}
	}
	sort.Slice(fs, func(i, j int) bool { return fs[i].k < fs[j].k })
	parts := []string{t.Name()}
	for _, f := range fs {
		parts = append(parts, f.k+"="+f.v)
	}
	return strings.Join(parts, " ")
}

func c11ErrKind(err error) string {
	m := err.Error()
	switch {
	case strings.HasPrefix(m, "invalid instruction type:"):
		return "unknown"
	case strings.Contains(m, "invalid line: expected "):
		return "args"
	case strings.Contains(m, "invalid offset register: "):
		return "offset"
	case strings.Contains(m, "strconv.ParseInt: parsing "):
		return "int"
	case strings.Contains(m, "unknown register: "):
		return "reg"
	}
	return "other"
}

// c11Parse runs the real parser under recover and renders the result canonically.
func c11Parse(text string) (out string) {
	defer func() {
		if rec := recover(); rec != nil {
			out = "panic"
		}
	}()
	app, err := risc.Parse(text)
	if err != nil {
		return "err " + c11ErrKind(err)
	}
	ins := make([]string, len(app.Instructions))
	for i, r := range app.Instructions {
		ins[i] = c11Dump(r)
	}
	keys := make([]string, 0, len(app.Labels))
	for k := range app.Labels {
		keys = append(keys, k)
	}
	sort.Strings(keys)
	labs := make([]string, len(keys))
	for i, k := range keys {
		labs[i] = fmt.Sprintf("%s:%d", c11Hex(k), app.Labels[k])
	}
	return fmt.Sprintf("ok n=%d instrs=[%s] labels=[%s]", len(app.Instructions), strings.Join(ins, ";"), strings.Join(labs, ","))
}

// c11Tables: every code point Go's TrimSpace strips, and every code point whose lower case is
// an ASCII character different from itself (what ToLower can turn into a mnemonic letter).
func c11Tables() string {
	var sp, lo []string
	for r := rune(0); r <= unicode.MaxRune; r++ {
		if r >= 0xD800 && r < 0xE000 {
			continue
		}
		if unicode.IsSpace(r) {
			sp = append(sp, fmt.Sprint(int(r)))
		}
		if l := unicode.ToLower(r); l < 0x80 && l != r {
			lo = append(lo, fmt.Sprintf("%d:%d", int(r), int(l)))
		}
	}
	return "tab spaces=" + strings.Join(sp, ",") + " lower=" + strings.Join(lo, ",")
}

// ---------------------------------------------------------------- generated programs

type c11Line struct {
	kind    int // 0 blank, 1 comment, 2 label, 3 instruction
	indent  string
	mn      string
	sh      shape
	ops     []string
	label   string
	comment string // trailing comment of an instruction line / text of a comment line
}

func (l c11Line) render() string {
	switch l.kind {
	case 0:
		return l.indent
	case 1:
		return l.indent + "#" + l.comment
	case 2:
		return l.indent + l.label + ":"
	}
	s := l.indent + l.mn
	if len(l.ops) > 0 {
		s += " " + strings.Join(l.ops, ", ")
	}
	if l.comment != "" {
		s += " #" + l.comment
	}
	return s
}

var c11LabelPool = []string{"loop", "end", "main", "L0", "L1", "a_b", "x.y", "f", "1", "2", "strncpy", ".L3", "Z"}
var c11Comments = []string{" i++", " break if i >= n", "", " a0 = int a[]", " 8", " x, y", " (", " t0, t1", " ret", " # nested"}

func c11Imm(r *rand.Rand) string {
	switch r.Intn(8) {
	case 0:
		return fmt.Sprint(hx.Lattice[r.Intn(len(hx.Lattice))])
	case 1:
		return fmt.Sprint(int32(r.Uint32()))
	default:
		return fmt.Sprint(r.Intn(200) - 40)
	}
}

func c11Instr(r *rand.Rand, mi int) c11Line {
	m := mnemonics[mi]
	reg := func() string { return regNames[r.Intn(32)] }
	lab := func() string { return c11LabelPool[r.Intn(len(c11LabelPool))] }
	l := c11Line{kind: 3, mn: m.name, sh: m.sh}
	switch m.sh {
	case shR:
		l.ops = []string{reg(), reg(), reg()}
	case shI:
		l.ops = []string{reg(), reg(), c11Imm(r)}
	case shU:
		l.ops = []string{reg(), c11Imm(r)}
	case shLoad:
		l.ops = []string{reg(), c11Imm(r) + "(" + reg() + ")"}
	case shStore:
		if m.name == "sh" {
			l.ops = []string{reg(), c11Imm(r), reg()}
		} else {
			l.ops = []string{reg(), c11Imm(r) + "(" + reg() + ")"}
		}
	case shBr2:
		l.ops = []string{reg(), reg(), lab()}
	case shBr1:
		l.ops = []string{reg(), lab()}
	case shJ:
		l.ops = []string{lab()}
	case shJal:
		l.ops = []string{reg(), lab()}
	case shMv:
		l.ops = []string{reg(), reg()}
	}
	return l
}

// c11Program: a canonical program (lower-case mnemonics, one space, `, ` between operands,
// label / comment / blank lines, optional indentation by spaces, optional trailing comments).
func c11Program(r *rand.Rand, maxLines int) []c11Line {
	n := 1 + r.Intn(maxLines)
	indent := []string{"", "", "  ", "    "}[r.Intn(4)]
	var ls []c11Line
	for i := 0; i < n; i++ {
		switch k := r.Intn(20); {
		case k == 0:
			ls = append(ls, c11Line{kind: 0})
		case k == 1:
			ls = append(ls, c11Line{kind: 1, indent: indent, comment: c11Comments[r.Intn(len(c11Comments))]})
		case k <= 4:
			ls = append(ls, c11Line{kind: 2, label: c11LabelPool[r.Intn(len(c11LabelPool))]})
		default:
			l := c11Instr(r, r.Intn(len(mnemonics)))
			l.indent = indent
			if r.Intn(4) == 0 {
				l.comment = c11Comments[r.Intn(len(c11Comments))]
			}
			ls = append(ls, l)
		}
	}
	return ls
}

func c11Render(ls []c11Line, sep string, trailing bool) string {
	ss := make([]string, len(ls))
	for i, l := range ls {
		ss[i] = l.render()
	}
	s := strings.Join(ss, sep)
	if trailing {
		s += sep
	}
	return s
}

// ---------------------------------------------------------------- mutations

var c11MutKinds = []string{
	"trunc-operand", "stray-paren", "missing-paren", "tab-inside", "trailing-comment", "dup-label",
	"label-space", "huge-imm", "signed-imm", "odd-imm", "empty-operand", "dollar-reg", "nonascii-space",
	"nonascii-letter", "crlf", "newlines", "case-change", "byte-mutation", "bare-mnemonic", "extra-text",
}

var c11Spaces = []string{"\u00a0", "\u0085", "\u2003", "\u3000", "\u1680", "\u205f", "\u202f", "\u2028", "\u2029", "\u2000", "\u200a", "\u200b",
	"\xc2", "\xa0", "\xe2\x80", "\x80\x80", "\xe3\x80", "\x85", "\v", "\f", "\r", "\t", "\xc2\xa0\xc2", "\xe2\x80\xa0", "\xe2\x80\x8b", "\x1f", "\x00"}

func c11PickInstr(r *rand.Rand, ls []c11Line, pred func(c11Line) bool) int {
	var idx []int
	for i, l := range ls {
		if l.kind == 3 && (pred == nil || pred(l)) {
			idx = append(idx, i)
		}
	}
	if len(idx) == 0 {
		return -1
	}
	return idx[r.Intn(len(idx))]
}

func c11InsertAt(s string, pos int, ins string) string { return s[:pos] + ins + s[pos:] }

// c11Mutate applies one mutation of the given kind to a structured program and returns the text.
func c11Mutate(r *rand.Rand, kind string, ls []c11Line) string {
	ls = append([]c11Line(nil), ls...)
	for i := range ls {
		ls[i].ops = append([]string(nil), ls[i].ops...)
	}
	sep, trailing := "\n", r.Intn(2) == 0
	hasOps := func(l c11Line) bool { return len(l.ops) > 0 }
	isImmPos := func(l c11Line) int {
		switch l.sh {
		case shI:
			return 2
		case shU:
			return 1
		case shStore:
			if l.mn == "sh" {
				return 1
			}
		}
		return -1
	}
	hasImm := func(l c11Line) bool { return isImmPos(l) >= 0 || l.sh == shLoad || l.sh == shStore }
	setImm := func(l *c11Line, v string) {
		if p := isImmPos(*l); p >= 0 {
			l.ops[p] = v
			return
		}
		// off(reg)
		o := l.ops[1]
		l.ops[1] = v + o[strings.Index(o, "("):]
	}
	textMut := func(f func(line string) string, pred func(c11Line) bool) string {
		i := c11PickInstr(r, ls, pred)
		ss := make([]string, len(ls))
		for j, l := range ls {
			ss[j] = l.render()
			if j == i {
				ss[j] = f(ss[j])
			}
		}
		s := strings.Join(ss, sep)
		if trailing {
			s += sep
		}
		return s
	}
	switch kind {
	case "trunc-operand":
		switch r.Intn(3) {
		case 0: // drop the last operand
			if i := c11PickInstr(r, ls, hasOps); i >= 0 {
				ls[i].ops = ls[i].ops[:len(ls[i].ops)-1]
			}
		case 1: // cut characters off the end of a line
			return textMut(func(s string) string {
				if len(s) == 0 {
					return s
				}
				return s[:len(s)-1-r.Intn(min(len(s), 6))]
			}, nil)
		default: // cut the whole text at a random byte
			s := c11Render(ls, sep, trailing)
			if len(s) > 0 {
				s = s[:r.Intn(len(s))]
			}
			return s
		}
	case "stray-paren":
		return textMut(func(s string) string {
			return c11InsertAt(s, r.Intn(len(s)+1), []string{"(", ")", "()", "(("}[r.Intn(4)])
		}, nil)
	case "missing-paren":
		return textMut(func(s string) string {
			c := []string{"(", ")"}[r.Intn(2)]
			if k := strings.LastIndex(s, c); k >= 0 {
				return s[:k] + s[k+1:]
			}
			return s + c
		}, func(l c11Line) bool { return l.sh == shLoad || (l.sh == shStore && l.mn != "sh") })
	case "tab-inside":
		return textMut(func(s string) string {
			if k := strings.Index(s, " "); k >= 0 && r.Intn(2) == 0 {
				return s[:k] + "\t" + s[k+1:] // the mnemonic separator becomes a tab
			}
			return c11InsertAt(s, r.Intn(len(s)+1), "\t")
		}, nil)
	case "trailing-comment":
		i := r.Intn(len(ls))
		ss := make([]string, len(ls))
		for j, l := range ls {
			ss[j] = l.render()
			if j == i {
				ss[j] += []string{" # c", "#c", " #", "\t# c", " # a, b", " ## x"}[r.Intn(6)]
			}
		}
		s := strings.Join(ss, sep)
		if trailing {
			s += sep
		}
		return s
	case "dup-label":
		var labs []int
		for i, l := range ls {
			if l.kind == 2 {
				labs = append(labs, i)
			}
		}
		name := c11LabelPool[r.Intn(len(c11LabelPool))]
		if len(labs) > 0 {
			name = ls[labs[r.Intn(len(labs))]].label
		}
		for k := 1 + r.Intn(2); k > 0; k-- {
			p := r.Intn(len(ls) + 1)
			ls = append(ls[:p], append([]c11Line{{kind: 2, label: name}}, ls[p:]...)...)
		}
	case "label-space":
		p := r.Intn(len(ls) + 1)
		name := c11LabelPool[r.Intn(len(c11LabelPool))]
		raw := []string{name + " :", "my " + name + ":", " " + name + ": ", name + ": # c", name + ":x", name + ":" + name + ":", ":", "::", name + "\t:", "\t" + name + ":\t", name + ":#", name + " : " + name, "#" + name + ":"}[r.Intn(13)]
		ls = append(ls[:p], append([]c11Line{{kind: 1, indent: raw[:0], comment: ""}}, ls[p:]...)...)
		ss := make([]string, len(ls))
		for j, l := range ls {
			ss[j] = l.render()
		}
		ss[p] = raw
		s := strings.Join(ss, sep)
		if trailing {
			s += sep
		}
		return s
	case "huge-imm":
		if i := c11PickInstr(r, ls, hasImm); i >= 0 {
			setImm(&ls[i], []string{"2147483647", "2147483648", "-2147483648", "-2147483649", "4294967295", "4294967296", "99999999999999999999",
				"18446744073709551616", "-18446744073709551616", "9223372036854775807", "9223372036854775808", "00000000000000000000000000000000000007",
				"-00000000002147483648", "2147483647000", "123456789012"}[r.Intn(15)])
		}
	case "signed-imm":
		if i := c11PickInstr(r, ls, hasImm); i >= 0 {
			setImm(&ls[i], []string{"+5", "-0", "+0", "--1", "+-1", "+", "-", "-+3", "+2147483647", "+2147483648", "- 1", "5-", "-007"}[r.Intn(13)])
		}
	case "odd-imm":
		if i := c11PickInstr(r, ls, hasImm); i >= 0 {
			setImm(&ls[i], []string{"0x10", "1_000", "1e3", "\u0661\u0662", "1 0", "", "0b1", "0o7", "_1", "1_", "\u0661", "1.0", "ten", "0X1F", "\uff11", "1\x00"}[r.Intn(16)])
		}
	case "empty-operand":
		if i := c11PickInstr(r, ls, hasOps); i >= 0 {
			switch r.Intn(4) {
			case 0:
				ls[i].ops[r.Intn(len(ls[i].ops))] = ""
			case 1:
				ls[i].ops[r.Intn(len(ls[i].ops))] = " "
			case 2:
				ls[i].ops = append(ls[i].ops, "")
			default:
				ls[i].ops = append([]string{""}, ls[i].ops...)
			}
		}
	case "dollar-reg":
		if i := c11PickInstr(r, ls, func(l c11Line) bool { return len(l.ops) > 0 && l.sh != shJ }); i >= 0 {
			o := ls[i].ops[0]
			ls[i].ops[0] = []string{"$" + o, "$" + o, "$" + o, "$$" + o, "$", o + "$", "$" + strings.ToUpper(o), "x5", strings.ToUpper(o), "$ " + o, "%" + o}[r.Intn(11)]
			if (ls[i].sh == shLoad || (ls[i].sh == shStore && ls[i].mn != "sh")) && r.Intn(2) == 0 {
				ls[i].ops[1] = strings.Replace(ls[i].ops[1], "(", "($", 1)
			}
		}
	case "nonascii-space":
		sp := c11Spaces[r.Intn(len(c11Spaces))]
		return textMut(func(s string) string {
			switch r.Intn(5) {
			case 0:
				return sp + s
			case 1:
				return s + sp
			case 2: // around an operand separator
				if k := strings.Index(s, ","); k >= 0 {
					return s[:k] + sp + "," + sp + s[k+1:]
				}
				return s + sp
			case 3: // instead of the space after the mnemonic
				if k := strings.Index(s, " "); k >= 0 {
					return s[:k] + sp + s[k+1:]
				}
				return sp + s
			default:
				return c11InsertAt(s, r.Intn(len(s)+1), sp)
			}
		}, nil)
	case "nonascii-letter":
		return textMut(func(s string) string {
			rep := [][2]string{{"i", "\u0130"}, {"i", "\u0131"}, {"s", "\u017f"}, {"k", "\u212a"}, {"a", "\uff41"}, {"e", "\u00e9"}, {"i", "\xc4"}, {"i", "\xb0"},
				{"I", "\u0130"}, {"l", "\u0141"}, {"d", "\u00d0"}, {"i", "\u0130"}, {"r", "\u211b"}, {"b", "\u00df"}, {"j", "\u0408"}}[r.Intn(15)]
			t := strings.TrimLeft(s, " ")
			pre := s[:len(s)-len(t)]
			if r.Intn(3) == 0 {
				t = strings.ToUpper(t)
				rep[0] = strings.ToUpper(rep[0])
			}
			if k := strings.Index(t, rep[0]); k >= 0 {
				return pre + t[:k] + rep[1] + t[k+len(rep[0]):]
			}
			return pre + rep[1] + t
		}, nil)
	case "crlf":
		sep = []string{"\r\n", "\r\n", "\r", "\n\r"}[r.Intn(4)]
	case "newlines":
		s := c11Render(ls, sep, false)
		return []string{"", "\n", "\n\n\n"}[r.Intn(3)] + s + []string{"", "\n", "\n\n", "\n \n\t\n"}[r.Intn(4)]
	case "case-change":
		return textMut(func(s string) string {
			b := []byte(s)
			for k := range b {
				if r.Intn(3) == 0 {
					if 'a' <= b[k] && b[k] <= 'z' {
						b[k] -= 32
					} else if 'A' <= b[k] && b[k] <= 'Z' {
						b[k] += 32
					}
				}
			}
			return string(b)
		}, nil)
	case "byte-mutation":
		b := []byte(c11Render(ls, sep, trailing))
		alphabet := []byte(" \t\n#:,()$-+0123456789abijlnorstuvxz\r\x00\x80\xa0\xc2\xe2\xff")
		for k := 1 + r.Intn(3); k > 0 && len(b) > 0; k-- {
			p := r.Intn(len(b))
			switch r.Intn(3) {
			case 0:
				b = append(b[:p], b[p+1:]...)
			case 1:
				b[p] = alphabet[r.Intn(len(alphabet))]
			default:
				b = append(b[:p], append([]byte{alphabet[r.Intn(len(alphabet))]}, b[p:]...)...)
			}
		}
		return string(b)
	case "bare-mnemonic":
		p := r.Intn(len(ls) + 1)
		m := mnemonics[r.Intn(len(mnemonics))].name
		if r.Intn(3) == 0 {
			m = []string{"j", "nop", "ret", "J", "Nop", "RET"}[r.Intn(6)]
		}
		raw := []string{m, m + " ", " " + m, m + " #", m + "#", m + ":", m + ",", m + " ,"}[r.Intn(8)]
		ls = append(ls[:p], append([]c11Line{{kind: 1}}, ls[p:]...)...)
		ss := make([]string, len(ls))
		for j, l := range ls {
			ss[j] = l.render()
		}
		ss[p] = raw
		return strings.Join(ss, sep)
	case "extra-text":
		return textMut(func(s string) string {
			return s + []string{" extra", ", t0", " t0", ",", " ,", " :", ":", " 5", " (t0)"}[r.Intn(9)]
		}, nil)
	}
	return c11Render(ls, sep, trailing)
}

// ---------------------------------------------------------------- layout edits (property clause (e))

func c11IsLetter(b byte) bool { return ('a' <= b && b <= 'z') || ('A' <= b && b <= 'Z') }

// c11CaseSplit: line = pre ++ word ++ rest with pre ∈ {space,tab}*, word a non-empty run of
// ASCII letters, rest empty or starting with a space.
func c11CaseSplit(line string) (pre, word, rest string, ok bool) {
	i := 0
	for i < len(line) && (line[i] == ' ' || line[i] == '\t') {
		i++
	}
	j := i
	for j < len(line) && c11IsLetter(line[j]) {
		j++
	}
	if j == i || (j < len(line) && line[j] != ' ') {
		return "", "", "", false
	}
	return line[:i], line[i:j], line[j:], true
}

func c11Pad(r *rand.Rand) string {
	n := 1 + r.Intn(4)
	b := make([]byte, n)
	for i := range b {
		b[i] = " \t"[r.Intn(2)]
	}
	return string(b)
}

// c11Edit applies one layout edit to the text; returns the edited text and the edit's name, or
// ok=false if the drawn edit is not applicable at the drawn line.
func c11Edit(r *rand.Rand, text string, allowBareJ bool) (string, string, bool) {
	lines := strings.Split(text, "\n")
	switch r.Intn(6) {
	case 0:
		p := r.Intn(len(lines) + 1)
		blank := []string{"", " ", "\t", "  \t ", "\r", "\u00a0", " \u3000\t", "\v\f"}[r.Intn(8)]
		lines = append(lines[:p], append([]string{blank}, lines[p:]...)...)
		return strings.Join(lines, "\n"), "edit-blank", true
	case 1:
		p := r.Intn(len(lines) + 1)
		c := []string{"#", "# x", "  # add t0, t1, t2", "\t#l:", "#\xff", " # nop", "#:", "# a # b"}[r.Intn(8)]
		lines = append(lines[:p], append([]string{c}, lines[p:]...)...)
		return strings.Join(lines, "\n"), "edit-comment", true
	case 2:
		p := r.Intn(len(lines))
		lines[p] = c11Pad(r) + lines[p]
		return strings.Join(lines, "\n"), "edit-padl", true
	case 3:
		p := r.Intn(len(lines))
		lines[p] = lines[p] + c11Pad(r)
		return strings.Join(lines, "\n"), "edit-padr", true
	case 4:
		p := r.Intn(len(lines))
		if !strings.Contains(strings.TrimSpace(lines[p]), " ") {
			return "", "", false
		}
		lines[p] += " #" + []string{"", " c", " x, y", " (", "#", " \xc2", "\t"}[r.Intn(7)]
		return strings.Join(lines, "\n"), "edit-tcomment", true
	default:
		p := r.Intn(len(lines))
		pre, word, rest, ok := c11CaseSplit(lines[p])
		if !ok {
			return "", "", false
		}
		if !allowBareJ && strings.ToLower(word) == "j" && strings.TrimSpace(rest) == "" {
			return "", "", false // the recorded exception: a bare `j` takes its own spelling as the label
		}
		b := []byte(word)
		changed := false
		for k := range b {
			if r.Intn(2) == 0 {
				b[k] ^= 0x20
				changed = true
			}
		}
		if !changed {
			b[0] ^= 0x20
		}
		lines[p] = pre + string(b) + rest
		return strings.Join(lines, "\n"), "edit-case", true
	}
}

// ---------------------------------------------------------------- the stream

func c11RepoDir() string {
	if d := os.Getenv("VERIF_REPO"); d != "" {
		return d
	}
	return "/repo"
}

func c11Stream(dir string, seed int64, tier string) {
	o := hx.Open(dir, "c11")
	defer o.Close()
	r := hx.NewRand(seed)
	total := 200000
	if tier == "thorough" {
		total = 2000000
	}
	o.Emit("tab", c11Tables())

	id := 0
	emit := func(kind, ref, text string) int {
		o.Emit(fmt.Sprintf("c11 %d %s %s %s", id, kind, ref, c11Hex(text)), c11Parse(text))
		id++
		return id - 1
	}
	asm := func(text string) {
		// agreement of the model with the trusted reference assembler (decided on the Lean side)
		o.Emit(fmt.Sprintf("asm %d %s", id, c11Hex(text)), "asm-agree")
		id++
	}
	// 1–4 layout edits of a text already emitted under id `ref`
	edits := func(ref int, text string) {
		t, name, n := text, "", 0
		for k := 1 + r.Intn(3); k > 0; k-- {
			if e, nm, ok := c11Edit(r, t, false); ok {
				t, n = e, n+1
				if name == "" {
					name = nm
				} else if name != nm {
					name = "edit-multi"
				}
			}
		}
		if n > 0 {
			emit(name, fmt.Sprint(ref), t)
		}
	}

	// the pinned witness of the recorded exception (clause (e), mnemonic case, bare `j`)
	wj := emit("witness-bare-j", "-", "j")
	emit("witness-bare-j-case", fmt.Sprint(wj), "J")

	// the seven programs of the repository, their layout edits and mutants
	files, _ := filepath.Glob(c11RepoDir() + "/res/*.asm")
	sort.Strings(files)
	var res []string
	for _, f := range files {
		b, err := os.ReadFile(f)
		if err != nil {
			panic(err)
		}
		res = append(res, string(b))
		ref := emit("res", "-", string(b))
		asm(string(b))
		for k := 0; k < 40; k++ {
			edits(ref, string(b))
		}
	}
	if len(res) < 7 {
		panic(fmt.Sprintf("expected the programs under %s/res (at least seven), found %d", c11RepoDir(), len(res)))
	}
	// every mnemonic once, alone and with each register in each position (both spellings)
	for mi := range mnemonics {
		for k := 0; k < 34; k++ {
			l := c11Instr(r, mi)
			for p := range l.ops {
				if k < 32 && l.ops[p] != "" && isRegName(l.ops[p]) {
					l.ops[p] = regNames[(k+p)%32]
					if k%2 == 1 {
						l.ops[p] = "$" + l.ops[p]
					}
				}
			}
			ref := emit("valid-one", "-", l.render())
			if k%2 == 0 {
				asm(l.render())
			}
			edits(ref, l.render())
		}
	}

	for id < total {
		switch c := r.Intn(100); {
		case c < 14: // arbitrary bytes
			n := r.Intn(40)
			b := make([]byte, n)
			alphabet := []byte(" \t\n#:,()$-+0123456789abdeijlnoprstuvwxz\r\x00\x80\x85\xa0\xc2\xc4\xb0\xe2\xff")
			for i := range b {
				if r.Intn(4) == 0 {
					b[i] = byte(r.Intn(256))
				} else {
					b[i] = alphabet[r.Intn(len(alphabet))]
				}
			}
			ref := emit("bytes", "-", string(b))
			if r.Intn(3) == 0 {
				edits(ref, string(b))
			}
		case c < 40: // valid generated programs and their layout edits
			ls := c11Program(r, 14)
			t := c11Render(ls, "\n", r.Intn(2) == 0)
			ref := emit("valid", "-", t)
			if r.Intn(3) == 0 {
				asm(t)
			}
			edits(ref, t)
			if r.Intn(2) == 0 {
				edits(ref, t)
			}
		case c < 46: // mutants of the repository's programs (by text: byte mutations, cuts, line drops)
			t := res[r.Intn(len(res))]
			lines := strings.Split(t, "\n")
			switch r.Intn(4) {
			case 0:
				p := r.Intn(len(lines))
				lines = append(lines[:p], lines[p+1:]...)
				t = strings.Join(lines, "\n")
			case 1:
				t = t[:r.Intn(len(t))]
			case 2:
				p := r.Intn(len(lines))
				lines[p] = strings.ToUpper(lines[p])
				t = strings.Join(lines, "\r\n")
			default:
				b := []byte(t)
				p := r.Intn(len(b))
				b[p] = byte(r.Intn(256))
				t = string(b)
			}
			ref := emit("res-mutant", "-", t)
			if r.Intn(2) == 0 {
				edits(ref, t)
			}
		default: // grammar-directed mutants of generated programs
			ls := c11Program(r, 8)
			kind := c11MutKinds[r.Intn(len(c11MutKinds))]
			t := c11Mutate(r, kind, ls)
			ref := emit(kind, "-", t)
			if r.Intn(3) == 0 {
				edits(ref, t)
			}
		}
	}
}

func isRegName(s string) bool {
	for _, n := range regNames {
		if n == s {
			return true
		}
	}
	return false
}

// c11One: re-parse the texts of <dir>/c11-one.req (one x<hex> per line).
func c11One(dir string, seed int64, tier string) {
	f, err := os.Open(dir + "/c11-one.req")
	if err != nil {
		panic(err)
	}
	defer f.Close()
	o := hx.Open(dir, "c11-one")
	defer o.Close()
	sc := bufio.NewScanner(f)
	sc.Buffer(make([]byte, 1<<20), 1<<26)
	id := 0
	for sc.Scan() {
		h := strings.TrimSpace(sc.Text())
		if !strings.HasPrefix(h, "x") {
			continue
		}
		b, err := hex.DecodeString(h[1:])
		if err != nil {
			continue
		}
		o.Emit(fmt.Sprintf("c11 %d replay - %s", id, h), c11Parse(string(b)))
		id++
	}
}

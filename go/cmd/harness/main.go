// Command harness is the Go side of tie T2 (DESIGN §3.2): it calls the real
// teivah/majorana code in-process on generated cases, writes one input line per
// case to <stream>.in and what the Go code did to <stream>.go; bin/check pipes the
// .in file through the Lean driver and diffs.
package main

import (
	"flag"
	"fmt"
	"os"
	"strings"
)

type streamFn func(dir string, seed int64, tier string)

var streams = map[string]streamFn{}

func main() {
	dir := flag.String("out", "", "output directory")
	seed := flag.Int64("seed", 1, "PRNG seed")
	tier := flag.String("tier", "quick", "quick|thorough")
	cpuworker := flag.String("cpuworker", "", "internal: seed|lo|hi — run whole-CPU cases lo..hi-1 and print their lines")
	plan := flag.String("plan", "", "internal: plan of the whole-CPU stream")
	flag.Parse()
	if *cpuworker != "" {
		var seed int64
		var lo, hi, skip int
		fmt.Sscanf(strings.ReplaceAll(*cpuworker, "|", " "), "%d %d %d %d", &seed, &lo, &hi, &skip)
		cpuWorkerMain(seed, *plan, lo, hi, skip)
		return
	}
	if flag.NArg() != 1 || *dir == "" {
		fmt.Fprintln(os.Stderr, "usage: harness -out DIR [-seed N] [-tier quick|thorough] STREAM")
		os.Exit(2)
	}
	f, ok := streams[flag.Arg(0)]
	if !ok {
		fmt.Fprintln(os.Stderr, "unknown stream", flag.Arg(0))
		os.Exit(2)
	}
	f(*dir, *seed, *tier)
}

// Command harness is the Go side of tie T2 (DESIGN §3.2): it calls the real
// teivah/majorana code in-process on generated cases, writes one input line per
// case to <stream>.in and what the Go code did to <stream>.go; bin/check pipes the
// .in file through the Lean driver and diffs.
package main

import (
	"flag"
	"fmt"
	"os"
)

type streamFn func(dir string, seed int64, tier string)

var streams = map[string]streamFn{}

func main() {
	dir := flag.String("out", "", "output directory")
	seed := flag.Int64("seed", 1, "PRNG seed")
	tier := flag.String("tier", "quick", "quick|thorough")
	flag.Parse()
	if flag.NArg() != 1 || *dir == "" {
		fmt.Fprintln(os.Stderr, "usage: harness -out DIR [-seed N] [-tier quick|thorough] STREAM")
		os.Exit(2)
	}
	f, ok := streams[flag.Arg(0)]
	if !ok {
		fmt.Fprintln(os.Stderr, "unknown stream", flag.Arg(0))
		os.Exit(2)
	}
	f(*dir, *seed, *tier)
}

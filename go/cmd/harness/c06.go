package main

import (
	"bufio"
	"encoding/hex"
	"encoding/json"
	"fmt"
	"math/rand"
	"os"
	"os/exec"
	"runtime"
	"sort"
	"strconv"
	"strings"
	"sync"
	"time"

	"github.com/teivah/majorana/common/latency"
	"github.com/teivah/majorana/proc/comp"
	mvp7_0 "github.com/teivah/majorana/proc/mvp7-0"
	mvp7_1 "github.com/teivah/majorana/proc/mvp7-1"
	mvp8_0 "github.com/teivah/majorana/proc/mvp8-0"
	"github.com/teivah/majorana/risc"
	"verif/internal/hx"
)

// C06 — MSI coherence invariants at every cycle of MVP-7.0 / 7.1 / 8 (DESIGN §4, C06).
//
// Streams
//   c06          whole-CPU runs of the three variants with 1..4 cores on generated load/store
//                programs WITHOUT branches (no pipeline flush: the region where the invariant is
//                claimed), one snapshot per cycle through Context.VerifSetOnTick
//   c06-flush    the same on branchy programs (pipeline flushes reset cache-controller coroutines:
//                the region of the known flush-window finding); classified, not must-hold
//   c06-rig      random request streams issued directly to the cache controllers of a rig
//                (NewVerifRig: controllers + directory + memory, no pipeline), 1..4 cores
//   c06-exh-<i>  bounded exhaustive: every assignment of up to k read/write requests to 2–3
//                cores on 1–2 lines with start offsets from a small set (shard i of c06ExhShards)
//   c06-file     explicit cases from the JSON file named by VERIF_C06_FILE (replay, shrinking)
//   c06-worker   internal: whole-CPU cases lo..hi-1 in a watchdog-supervised child process
//
// Line protocol (one .in line ↔ one .go line)
//   K <case> kind=cpu family=<f> memsize=<n> regs=<r:v,..> mem=<zhex> prog=<hex>      → case
//   K <case> kind=rig memsize=<n> ops=<core>:<r|w|f>:<addr>:<width>:<delay>:<val>,..  → case
//   R <run> case=<case> variant=<v> cores=<n> lsz=<L1 line size> l1n=<L1 lines> l3=<L3 line size|0> mem=<bytes> → run
//   S <cycle> <rep> ; st=.. ; sem=.. ; cmd=.. ; c0=.. ; c1=.. ; nl=..                 → ok | viol <clauses>
//        a snapshot taken at the tick of cycle <cycle>, unchanged for <rep> consecutive cycles
//        st   core:base:state,…          (state 1 Shared, 2 Modified; Invalid entries are omitted)
//        sem  base:read:write,…
//        cmd  core:base:kind,…           (kind: the variant's requestType; 1 evict, 2 write-back)
//        cN   <act>/<rlocks>/<locks>/<l1>   act ∈ - r w rw; lock tables as base+base; l1 as base:size:data+… most recently used first
//        nl   base:data,…                next-level contents of every line base mentioned
//        data zero-run compressed hex: tokens separated by '.', `zN` = N zero bytes, else hex bytes
//   P <cycle> 1 ; …   post-mortem snapshot after a Go panic (mid-cycle: only the counters are judged) → pm ok | pm viol counters_nonneg
//   E <run> status=<ok|err|panic:..|hang|stall> cycles=<ticks> snaps=<distinct> [aux…]        → end
//
// The Go side evaluates the invariant on the exported struct (c06Eval); the Lean driver evaluates
// `Model.Msi.MsiInv` on the rendered line; checklib/c06.py compares the two answers line by line.

type c06Snapper interface {
	VerifSnapshot() comp.VerifMsiSnapshot
}

type c06Rig interface {
	Memory() []int8
	Snoop(core int)
	Read(core int, cycle int, addrs []int32) ([]int8, bool)
	Write(core int, cycle int, addrs []int32, data []int8) bool
	Flush(core int)
	Idle(core int) bool
	Export()
	Snapshot() comp.VerifMsiSnapshot
}

var c06Variants = []string{"mvp7-0", "mvp7-1", "mvp8-0"}

func c06MkRig(variant string, cores, mem int) c06Rig {
	switch variant {
	case "mvp7-0":
		return mvp7_0.NewVerifRig(cores, mem)
	case "mvp7-1":
		return mvp7_1.NewVerifRig(cores, mem)
	case "mvp8-0":
		return mvp8_0.NewVerifRig(cores, mem)
	}
	panic("unknown variant " + variant)
}

// ---- rendering ---------------------------------------------------------------------------------

func c06Data(d []int8) string {
	if len(d) == 0 {
		return "z0"
	}
	const hexd = "0123456789abcdef"
	var sb strings.Builder
	i := 0
	for i < len(d) {
		if i > 0 {
			sb.WriteByte('.')
		}
		j := i
		for j < len(d) && d[j] == 0 {
			j++
		}
		if j-i >= 3 {
			sb.WriteByte('z')
			sb.WriteString(strconv.Itoa(j - i))
			i = j
			continue
		}
		// literal bytes up to the next run of at least three zeros
		j = i
		for j < len(d) {
			if d[j] == 0 {
				k := j
				for k < len(d) && d[k] == 0 {
					k++
				}
				if k-j >= 3 {
					break
				}
				j = k
				continue
			}
			j++
		}
		for _, b := range d[i:j] {
			sb.WriteByte(hexd[uint8(b)>>4])
			sb.WriteByte(hexd[uint8(b)&15])
		}
		i = j
	}
	return sb.String()
}

func c06Join32(l []int32, sep string) string {
	s := make([]string, len(l))
	for i, v := range l {
		s[i] = strconv.Itoa(int(v))
	}
	return strings.Join(s, sep)
}

// c06Next: the contents of the next level for the L1 line at base: the L3 sub-line when an L3 line
// covers it (MVP-8), else memory (zero beyond the end, as fetchCacheLine pads).
func c06Next(s *comp.VerifMsiSnapshot, mem []int8, base int32) []int8 {
	n := s.L1LineSize
	for _, l := range s.L3 {
		if base >= l.Base && base < l.End {
			off := int(base - l.Base)
			out := make([]int8, n)
			for i := 0; i < n; i++ {
				if off+i < len(l.Data) {
					out[i] = l.Data[off+i]
				}
			}
			return out
		}
	}
	out := make([]int8, n)
	for i := 0; i < n; i++ {
		a := int(base) + i
		if a >= 0 && a < len(mem) {
			out[i] = mem[a]
		}
	}
	return out
}

// c06Cur (work package COH): the CURRENT VALUE of the line at `base` in a snapshot — the L1 copy of the
// core that holds it Modified, else the next level (Proofs.MsiCoherence.cur on the abstract model).
func c06Cur(s *comp.VerifMsiSnapshot, mem []int8, base int32) []int8 {
	for _, e := range s.States {
		if e.Addr == base && e.State == 2 && e.Core >= 0 && e.Core < len(s.Cores) {
			for _, l := range s.Cores[e.Core].L1 {
				if l.Base == base {
					return l.Data
				}
			}
		}
	}
	return c06Next(s, mem, base)
}

// c06RenderL3 (MVP-8 only; work package L3): the sections `l3=` and `l3d=` of a snapshot line —
// every L3 line, most recently used first, as base:size:flag:data:mem with flag d (msi.l3Write set
// for the line's base) or c, `mem` = the memory bytes of the line's range inside memory (`~` when
// they equal the line's bytes there), and the complete list of set l3Write flags. The Lean driver
// evaluates Model.L3.cleanB on it (answer `l3clean=`); the Go side's own verdict is `l3v=`.
func c06RenderL3(s *comp.VerifMsiSnapshot, mem []int8) string {
	if s.L3LineSize == 0 {
		return ""
	}
	dirty := map[int32]bool{}
	for _, a := range s.L3Dirty {
		dirty[a] = true
	}
	var sb strings.Builder
	sb.WriteString("l3=")
	for i, l := range s.L3 {
		if i > 0 {
			sb.WriteByte('+')
		}
		flag := "c"
		if dirty[l.Base] {
			flag = "d"
		}
		lo, hi := int(l.Base), int(l.Base)+len(l.Data)
		if hi > len(mem) {
			hi = len(mem)
		}
		m := "~"
		if lo < 0 || lo > hi {
			m = "z0"
		} else if !c06Eq(mem[lo:hi], l.Data[:hi-lo]) {
			m = c06Data(mem[lo:hi])
		}
		fmt.Fprintf(&sb, "%d:%d:%s:%s:%s", l.Base, l.End-l.Base, flag, c06Data(l.Data), m)
	}
	sb.WriteString(" ; l3d=")
	sb.WriteString(c06Join32(s.L3Dirty, "+"))
	return sb.String()
}

func c06Fill(c *comp.VerifMsiCore) []int32 {
	var f []int32
	if c.ReadActive {
		f = append(f, c.RLocks...)
	}
	if c.WriteActive {
		f = append(f, c.Locks...)
	}
	return f
}

// c06Render: the canonical body of a snapshot line (everything after "S <cycle> <rep> ; ").
func c06Render(s *comp.VerifMsiSnapshot, mem []int8) string {
	var sb strings.Builder
	bases := map[int32]bool{}
	sb.WriteString("st=")
	first := true
	for _, e := range s.States {
		if e.State == 0 {
			continue
		}
		if !first {
			sb.WriteByte(',')
		}
		first = false
		fmt.Fprintf(&sb, "%d:%d:%d", e.Core, e.Addr, e.State)
		bases[e.Addr] = true
	}
	sb.WriteString(" ; sem=")
	first = true
	for _, m := range s.Sems {
		if m.Read == 0 && m.Write == 0 {
			continue
		}
		if !first {
			sb.WriteByte(',')
		}
		first = false
		fmt.Fprintf(&sb, "%d:%d:%d", m.Addr, m.Read, m.Write)
		bases[m.Addr] = true
	}
	sb.WriteString(" ; cmd=")
	for i, c := range s.Cmds {
		if i > 0 {
			sb.WriteByte(',')
		}
		fmt.Fprintf(&sb, "%d:%d:%d", c.Core, c.Addr, c.Kind)
		if c.Kind <= 2 {
			bases[c.Addr] = true
		}
	}
	for i := range s.Cores {
		c := &s.Cores[i]
		act := ""
		if c.ReadActive {
			act += "r"
		}
		if c.WriteActive {
			act += "w"
		}
		if act == "" {
			act = "-"
		}
		fmt.Fprintf(&sb, " ; c%d=%s/%s/%s/", i, act, c06Join32(c.RLocks, "+"), c06Join32(c.Locks, "+"))
		for _, b := range c.RLocks {
			bases[b] = true
		}
		for _, b := range c.Locks {
			bases[b] = true
		}
		for j, l := range c.L1 { // most recently used first (the order of LRUCache.lines)
			if j > 0 {
				sb.WriteByte('+')
			}
			fmt.Fprintf(&sb, "%d:%d:%s", l.Base, l.End-l.Base, c06Data(l.Data))
			bases[l.Base] = true
		}
	}
	bl := make([]int32, 0, len(bases))
	for b := range bases {
		bl = append(bl, b)
	}
	sort.Slice(bl, func(i, j int) bool { return bl[i] < bl[j] })
	sb.WriteString(" ; nl=")
	for i, b := range bl {
		if i > 0 {
			sb.WriteByte(',')
		}
		fmt.Fprintf(&sb, "%d:%s", b, c06Data(c06Next(s, mem, b)))
	}
	return sb.String()
}

// ---- the invariant, evaluated on the exported struct -------------------------------------------

var c06Clauses = []string{"single_writer", "shared_equals_next_level", "holds_iff_not_invalid", "no_duplicate_lines", "aligned", "counters_nonneg", "sem_sane"}

func c06Eq(a, b []int8) bool {
	if len(a) != len(b) {
		return false
	}
	for i := range a {
		if a[i] != b[i] {
			return false
		}
	}
	return true
}

func c06Eval(s *comp.VerifMsiSnapshot, mem []int8) []string {
	bad := map[string]bool{}
	stateOf := map[[2]int32]int32{}
	for _, e := range s.States {
		stateOf[[2]int32{int32(e.Core), e.Addr}] = e.State
	}
	for _, e := range s.States {
		if e.State == 2 {
			for _, f := range s.States {
				if f.Addr == e.Addr && f.Core != e.Core && f.State != 0 {
					bad["single_writer"] = true
				}
			}
		}
		if e.State != 0 {
			held := false
			if e.Core >= 0 && e.Core < len(s.Cores) {
				for _, l := range s.Cores[e.Core].L1 {
					if l.Base == e.Addr {
						held = true
						if e.State == 1 && !c06Eq(l.Data, c06Next(s, mem, e.Addr)) {
							bad["shared_equals_next_level"] = true
						}
					}
				}
			}
			if !held {
				bad["holds_iff_not_invalid"] = true
			}
		}
	}
	for ci := range s.Cores {
		c := &s.Cores[ci]
		fill := c06Fill(c)
		for i, l := range c.L1 {
			if stateOf[[2]int32{int32(ci), l.Base}] == 0 {
				in := false
				for _, b := range fill {
					if b == l.Base {
						in = true
					}
				}
				if !in {
					bad["holds_iff_not_invalid"] = true
				}
			}
			sz := int32(s.L1LineSize)
			if sz <= 0 || l.Base%sz != 0 || l.End-l.Base != sz || len(l.Data) != int(sz) {
				bad["aligned"] = true
			}
			for _, m := range c.L1[i+1:] {
				if !(l.End <= m.Base || m.End <= l.Base) {
					bad["no_duplicate_lines"] = true
				}
			}
		}
	}
	for _, m := range s.Sems {
		if m.Read < 0 || m.Write < 0 {
			bad["counters_nonneg"] = true
		}
		if (m.Read > 0 && m.Write > 0) || m.Write > 1 {
			bad["sem_sane"] = true
		}
	}
	var res []string
	for _, c := range c06Clauses {
		if bad[c] {
			res = append(res, c)
		}
	}
	return res
}

// auxiliary observations (not clauses of C06; reported in the evidence):
//
//	l3stale: MVP-8 — an L3 line that is not marked written (l3Write) differs from memory
//	lockacct: the lock counters of a line differ from the number of lock-table entries of the cores
func c06Aux(s *comp.VerifMsiSnapshot, mem []int8) (l3stale bool, lockacct bool) {
	dirty := map[int32]bool{}
	for _, a := range s.L3Dirty {
		dirty[a] = true
	}
	for _, l := range s.L3 {
		if dirty[l.Base] {
			continue
		}
		for i, b := range l.Data {
			a := int(l.Base) + i
			if a < len(mem) && mem[a] != b {
				l3stale = true
			}
		}
	}
	cnt := map[int32]int{}
	for i := range s.Cores {
		for _, b := range s.Cores[i].RLocks {
			cnt[b]++
		}
		for _, b := range s.Cores[i].Locks {
			cnt[b]++
		}
	}
	for _, m := range s.Sems {
		if m.Read+m.Write != cnt[m.Addr] {
			lockacct = true
		}
		delete(cnt, m.Addr)
	}
	for _, n := range cnt {
		if n != 0 {
			lockacct = true
		}
	}
	return
}

// ---- one run: snapshots, dedupe, lines ----------------------------------------------------------

type c06Line struct{ in, out string }

// c06Hash: a fingerprint of everything c06Render shows (order of the L1 lines excluded), so that the
// per-cycle observer renders and judges a snapshot only when something changed.
func c06Hash(s *comp.VerifMsiSnapshot, mem []int8) uint64 {
	h := uint64(14695981039346656037)
	mix := func(x uint64) {
		h ^= x
		h *= 1099511628211
	}
	bytesH := func(d []int8) uint64 {
		g := uint64(14695981039346656037)
		for _, b := range d {
			g ^= uint64(uint8(b))
			g *= 1099511628211
		}
		return g
	}
	memH := func(base int32) uint64 {
		lo, hi := int(base), int(base)+s.L1LineSize
		if lo < 0 {
			lo = 0
		}
		if hi > len(mem) {
			hi = len(mem)
		}
		if lo >= hi {
			return 7
		}
		return bytesH(mem[lo:hi])
	}
	for _, e := range s.States {
		if e.State != 0 {
			mix(uint64(e.Core)<<40 ^ uint64(uint32(e.Addr))<<8 ^ uint64(e.State))
			mix(memH(e.Addr))
		}
	}
	mix(0xa1)
	for _, m := range s.Sems {
		if m.Read != 0 || m.Write != 0 {
			mix(uint64(uint32(m.Addr))<<24 ^ uint64(uint16(m.Read))<<8 ^ uint64(uint8(m.Write)))
		}
	}
	mix(0xa2)
	for _, c := range s.Cmds {
		mix(uint64(c.Core)<<40 ^ uint64(uint32(c.Addr))<<8 ^ uint64(c.Kind))
	}
	for i := range s.Cores {
		c := &s.Cores[i]
		mix(0xa3)
		if c.ReadActive {
			mix(1)
		}
		if c.WriteActive {
			mix(2)
		}
		for _, b := range c.RLocks {
			mix(uint64(uint32(b)) ^ 0x10000000000)
		}
		for _, b := range c.Locks {
			mix(uint64(uint32(b)) ^ 0x20000000000)
		}
		var sum uint64
		for _, l := range c.L1 {
			g := bytesH(l.Data) ^ uint64(uint32(l.Base))*0x9e3779b97f4a7c15 ^ uint64(uint32(l.End))<<17
			g *= 0xff51afd7ed558ccd
			sum += g ^ (memH(l.Base) * 31)
		}
		mix(sum)
	}
	mix(0xa4)
	for _, l := range s.L3 {
		mix(uint64(uint32(l.Base)))
		mix(bytesH(l.Data))
	}
	mix(0xa5)
	for _, a := range s.L3Dirty {
		mix(uint64(uint32(a)))
	}
	return h
}

type c06Run struct {
	lines    []c06Line
	prevHash uint64
	prev     string
	prevL3   string // the l3= / l3d= sections of prev ("" when the variant has no L3)
	lastL3   string // the sections last written to a line (a line that repeats them says l3=^)
	prevAux  string // Go's verdict on Model.L3.Clean for prev: ok | stale
	prevVals []string // rig: reads that completed while prev was the snapshot: core:addr:data (work package COH)
	prevValV string   // Go's verdict on them: every returned value is the current value of its line (ok | bad)
	prevOut  string
	prevAt   int
	rep      int
	distinct int
	cycles   int
	maxEmit  int
	viol     map[string]int // clause -> first cycle
	l3stale  int
	lockacct int
	flushes  int // cycles at which a request in progress disappeared without completing (approximation: see c06.py)
}

func newC06Run(maxEmit int) *c06Run { return &c06Run{maxEmit: maxEmit, viol: map[string]int{}} }

func (r *c06Run) flushPrev() {
	if r.prev == "" {
		return
	}
	if r.distinct <= r.maxEmit || r.prevOut != "ok" || r.prevAux == "stale" || r.prevValV == "bad" {
		body := r.prev
		if r.prevL3 != "" {
			if r.prevL3 == r.lastL3 {
				body += " ; l3=^"
			} else {
				body += " ; " + r.prevL3
				r.lastL3 = r.prevL3
			}
			body += " ; l3v=" + r.prevAux
		}
		if len(r.prevVals) > 0 {
			body += " ; rv=" + strings.Join(r.prevVals, ",") + " ; rvv=" + r.prevValV
		}
		r.lines = append(r.lines, c06Line{fmt.Sprintf("S %d %d ; %s", r.prevAt, r.rep, body), r.prevOut})
	}
	r.prev = ""
	r.prevVals, r.prevValV = nil, ""
}

// value (rig; work package COH): a read completed in this cycle and returned `data`. It is attached to the
// snapshot taken at the tick of the cycle (the pending S line), with Go's verdict: the returned bytes are the
// current value (c06Cur) of the line at that tick.
func (r *c06Run) value(core int, addr int32, data []int8, s *comp.VerifMsiSnapshot, mem []int8) {
	if r.prev == "" || len(data) == 0 || s.L1LineSize <= 0 || addr < 0 {
		return
	}
	lsz := int32(s.L1LineSize)
	base := addr - addr%lsz
	off := int(addr - base)
	if off+len(data) > int(lsz) {
		return
	}
	cur := c06Cur(s, mem, base)
	ok := off+len(data) <= len(cur) && c06Eq(cur[off:off+len(data)], data)
	r.prevVals = append(r.prevVals, fmt.Sprintf("%d:%d:%s", core, addr, c06Data(data)))
	if r.prevValV == "" {
		r.prevValV = "ok"
	}
	if !ok {
		r.prevValV = "bad"
	}
}

func (r *c06Run) observe(cycle int, s comp.VerifMsiSnapshot, mem []int8) {
	r.cycles++
	h := c06Hash(&s, mem)
	if r.prev != "" && h == r.prevHash {
		r.rep++
		return
	}
	r.prevHash = h
	body := c06Render(&s, mem)
	l3 := c06RenderL3(&s, mem)
	if body == r.prev && l3 == r.prevL3 {
		r.rep++
		return
	}
	r.flushPrev()
	bad := c06Eval(&s, mem)
	out := "ok"
	if len(bad) > 0 {
		out = "viol " + strings.Join(bad, ",")
		for _, c := range bad {
			if _, ok := r.viol[c]; !ok {
				r.viol[c] = cycle
			}
		}
	}
	a, b := c06Aux(&s, mem)
	aux := "ok"
	if a {
		r.l3stale++
		aux = "stale"
	}
	if b {
		r.lockacct++
	}
	r.prev, r.prevL3, r.prevAux, r.prevOut, r.prevAt, r.rep = body, l3, aux, out, cycle, 1
	r.distinct++
}

func (r *c06Run) postMortem(cycle int, s comp.VerifMsiSnapshot, mem []int8) {
	r.flushPrev()
	out := "pm ok"
	for _, m := range s.Sems {
		if m.Read < 0 || m.Write < 0 {
			out = "pm viol counters_nonneg"
			if _, ok := r.viol["counters_nonneg"]; !ok {
				r.viol["counters_nonneg"] = cycle
			}
		}
	}
	r.lines = append(r.lines, c06Line{fmt.Sprintf("P %d 1 ; %s", cycle, c06Render(&s, mem)), out})
}

func (r *c06Run) end(id int, status string) {
	r.flushPrev()
	r.lines = append(r.lines, c06Line{fmt.Sprintf("E %d status=%s cycles=%d snaps=%d l3stale=%d lockacct=%d", id, status, r.cycles, r.distinct, r.l3stale, r.lockacct), "end"})
}

// ---- whole-CPU runs ----------------------------------------------------------------------------

func c06Variant(name string) variant {
	for _, v := range variants {
		if v.name == name {
			return v
		}
	}
	panic("unknown variant " + name)
}

func c06CaseLine(id int, c cpuCase) string {
	ks := make([]int, 0, len(c.regs))
	for k := range c.regs {
		ks = append(ks, k)
	}
	sort.Ints(ks)
	rs := make([]string, len(ks))
	for i, k := range ks {
		rs[i] = fmt.Sprintf("%d:%d", k, c.regs[k])
	}
	return fmt.Sprintf("K %d kind=cpu family=%s memsize=%d regs=%s mem=%s prog=%s", id, c.family, c.memSize,
		strings.Join(rs, ","), c06Data(c.mem), hex.EncodeToString([]byte(c.text)))
}

// c06RunCPU runs one program on one configuration with the per-cycle snapshot callback.
func c06RunCPU(runID, caseID int, vname string, n int, c cpuCase, maxEmit int) []c06Line {
	v := c06Variant(vname)
	app, err := risc.Parse(c.text)
	hdr := c06Line{fmt.Sprintf("R %d case=%d variant=%s cores=%d lsz=64 l1n=16 l3=%d mem=%d", runID, caseID, vname, n, map[bool]int{true: 128, false: 0}[vname == "mvp8-0"], c.memSize), "run"}
	run := newC06Run(maxEmit)
	if err != nil {
		run.end(runID, "parse-error")
		return append([]c06Line{hdr}, run.lines...)
	}
	steps := refSteps(app, c, 100000)
	budget := 3 * int(latency.MemoryAccess) * (steps + 48) // tighter than tickK: a run over budget is only skipped
	m := v.mk(c.memSize, n)
	ctx := m.Context()
	copy(ctx.Memory, c.mem)
	for k, val := range c.regs {
		ctx.Registers[risc.RegisterType(k)] = val
	}
	snap := m.(c06Snapper)
	ctx.VerifSetBudget(budget)
	tick := 0
	ctx.VerifSetOnTick(func() {
		tick++
		run.observe(tick, snap.VerifSnapshot(), ctx.Memory)
		if run.rep > c06StallTicks {
			panic(c06Stall{})
		}
	})
	defer ctx.VerifRelease()
	status := "ok"
	func() {
		defer func() {
			if rec := recover(); rec != nil {
				if _, ok := rec.(risc.VerifBudgetExceeded); ok {
					status = "hang"
				} else if _, ok := rec.(c06Stall); ok {
					status = "stall"
				} else {
					d := strings.ReplaceAll(fmt.Sprint(rec), " ", "_")
					if len(d) > 60 {
						d = d[:60]
					}
					status = "panic:" + d
				}
			}
		}()
		if _, err := m.Run(app); err != nil {
			status = "err"
		}
	}()
	if strings.HasPrefix(status, "panic") {
		run.postMortem(tick, snap.VerifSnapshot(), ctx.Memory)
	}
	run.end(runID, status)
	return append([]c06Line{hdr}, run.lines...)
}

// a run whose protocol snapshot has not changed for this many consecutive ticks (16 memory latencies)
// is abandoned: it is a register-only stretch or a hung machine, either way nothing more to observe
// (only coverage is lost: the snapshots up to here have been judged)
const c06StallTicks = 16 * 309

type c06Stall struct{}

type c06Plan struct {
	name     string
	families []string
	n        int
	maxEmit  int
}

var c06Plans = map[string]c06Plan{
	"c06":       {"c06", []string{"mem", "pair", "dep-mem", "tail", "mem", "sweep"}, 96, 250},
	"c06-flush": {"c06-flush", []string{"br-mem", "shadow", "br-mem", "brsweep"}, 72, 120},
}

// c06GenCase: the shared families plus two of C06's own: `sweep` (more lines than L1 holds, so the
// extra-line eviction path runs, with re-reads and stores) and `brsweep` (the same under loops).
func c06GenCase(seed int64, plan c06Plan, i int) cpuCase {
	r := hx.NewRand(seed*1000003 + int64(i)*7919 + 606)
	fam := plan.families[i%len(plan.families)]
	switch fam {
	case "sweep", "brsweep":
		ms := 4096
		g := newGen(r, 3+r.Intn(3), ms)
		g.base = []int{9}
		var data []int
		for _, d := range g.data { // s1 is the address register and s10 the loop counter: never data registers
			if d != 9 && d != 26 {
				data = append(data, d)
			}
		}
		g.data = data
		g.emit("li s1, %d", r.Intn(8)*64)
		nl := 17 + r.Intn(6)
		var loop string
		if fam == "brsweep" {
			loop = g.label()
			g.emit("li s10, %d", 2+r.Intn(2))
			g.place(loop)
			g.emit("li s1, %d", r.Intn(8)*64)
		}
		for k := 0; k < nl && g.nInstr < 200; k++ {
			off := r.Intn(16) * 4
			if r.Intn(3) == 0 {
				g.emit("sw %s, %d(s1)", g.srcReg(), off)
			} else {
				g.emit("lw %s, %d(s1)", g.dstReg(), off)
			}
			if r.Intn(4) == 0 {
				g.emit("lw %s, %d(s1)", g.dstReg(), r.Intn(16)*4)
			}
			g.emit("addi s1, s1, 64")
		}
		// come back to the first lines (evicted by now)
		g.emit("li s1, %d", r.Intn(4)*64)
		for k := 0; k < 3; k++ {
			if r.Intn(2) == 0 {
				g.emit("sw %s, %d(s1)", g.srcReg(), r.Intn(16)*4)
			} else {
				g.emit("lw %s, %d(s1)", g.dstReg(), r.Intn(16)*4)
			}
			g.emit("addi s1, s1, 64")
		}
		if fam == "brsweep" {
			g.emit("addi s10, s10, -1")
			g.emit("bnez s10, %s", loop)
		}
		if r.Intn(2) == 0 {
			g.emit("ret")
		}
		return cpuCase{family: fam, text: g.text(), regs: initRegs(r, g), memSize: ms, mem: randMem(r, ms)}
	}
	return genCase(r, fam)
}

// c06CPUCase runs case i of the plan on every variant × 1..4 cores; returns the lines.
func c06CPUCase(seed int64, plan c06Plan, i int, emit func([]c06Line)) {
	c := c06GenCase(seed, plan, i)
	emit([]c06Line{{c06CaseLine(i, c), "case"}})
	k := 0
	for _, v := range c06Variants {
		for n := 1; n <= 4; n++ {
			emit(c06RunCPU(i*12+k, i, v, n, c, plan.maxEmit))
			k++
		}
	}
}

func c06WorkerMain(dir string, seed int64, tier string) {
	// VERIF_C06_WORKER = "<plan>|<n>|<lo>|<hi>"
	f := strings.Split(os.Getenv("VERIF_C06_WORKER"), "|")
	plan := c06Plans[f[0]]
	plan.n, _ = strconv.Atoi(f[1])
	lo, _ := strconv.Atoi(f[2])
	hi, _ := strconv.Atoi(f[3])
	w := bufio.NewWriterSize(os.Stdout, 1<<16)
	for i := lo; i < hi; i++ {
		fmt.Fprintf(w, "BEGIN %d\n", i)
		w.Flush()
		// one flush per run: the parent's watchdog measures the stall of a single run (runs are bounded by
		// their tick budget; only a loop without ticks or a blocked channel send stalls)
		c06CPUCase(seed, plan, i, func(lines []c06Line) {
			for _, l := range lines {
				fmt.Fprintf(w, "%s\t%s\n", l.in, l.out)
			}
			w.Flush()
		})
		fmt.Fprintf(w, "END %d\n", i)
		w.Flush()
	}
}

// c06RunRange: cases [lo,hi) in a child process; a case during which the child dies or stalls is
// recorded (status crash / hang) and the range continues after it.
func c06RunRange(seed int64, plan c06Plan, lo, hi int, perCase time.Duration) map[int][]c06Line {
	res := map[int][]c06Line{}
	self, _ := os.Executable()
	for lo < hi {
		cmd := exec.Command(self, "-out", "/dev/null", "-seed", strconv.FormatInt(seed, 10), "c06-worker")
		cmd.Env = append(os.Environ(), "GOMAXPROCS=2", "GOMEMLIMIT=1500MiB",
			fmt.Sprintf("VERIF_C06_WORKER=%s|%d|%d|%d", plan.name, plan.n, lo, hi))
		stdout, _ := cmd.StdoutPipe()
		if err := cmd.Start(); err != nil {
			panic(err)
		}
		lines := make(chan string, 4096)
		go func() {
			sc := bufio.NewScanner(stdout)
			sc.Buffer(make([]byte, 1<<20), 1<<26)
			for sc.Scan() {
				lines <- sc.Text()
			}
			close(lines)
		}()
		cur, done, stalled := -1, lo, false
		var buf []c06Line
	loop:
		for {
			select {
			case l, ok := <-lines:
				if !ok {
					break loop
				}
				switch {
				case strings.HasPrefix(l, "BEGIN "):
					cur, _ = strconv.Atoi(l[6:])
					buf = nil
				case strings.HasPrefix(l, "END "):
					res[cur] = buf
					done = cur + 1
					cur = -1
				default:
					if k := strings.IndexByte(l, '\t'); k >= 0 {
						buf = append(buf, c06Line{l[:k], l[k+1:]})
					}
				}
			case <-time.After(perCase):
				stalled = true
				cmd.Process.Kill()
				break loop
			}
		}
		cmd.Process.Kill()
		cmd.Wait()
		if done >= hi {
			break
		}
		bad := done
		if cur >= 0 {
			bad = cur
		}
		why := "crash"
		if stalled {
			why = "hang-watchdog"
		}
		// keep the complete runs of the broken case (up to the last E line), close it with a marker
		last := 0
		for j, l := range buf {
			if strings.HasPrefix(l.in, "E ") {
				last = j + 1
			}
		}
		if len(buf) == 0 {
			buf = []c06Line{{c06CaseLine(bad, c06GenCase(seed, plan, bad)), "case"}}
			last = 1
		}
		res[bad] = append(buf[:last:last], c06Line{fmt.Sprintf("X %d %s", bad, why), "skip"})
		lo = bad + 1
	}
	return res
}

func c06CPUStream(planName string) streamFn {
	return func(dir string, seed int64, tier string) {
		plan := c06Plans[planName]
		if tier == "thorough" {
			plan.n *= 8
		}
		if env := os.Getenv("VERIF_C06_N"); env != "" {
			plan.n, _ = strconv.Atoi(env)
		}
		o := hx.Open(dir, planName)
		defer o.Close()
		workers := runtime.NumCPU()
		chunk := (plan.n + workers*2 - 1) / (workers * 2)
		if chunk < 1 {
			chunk = 1
		}
		type job struct{ lo, hi int }
		jobs := make(chan job, 4096)
		all := map[int][]c06Line{}
		var mu sync.Mutex
		var wg sync.WaitGroup
		for w := 0; w < workers; w++ {
			wg.Add(1)
			go func() {
				defer wg.Done()
				for j := range jobs {
					r := c06RunRange(seed, plan, j.lo, j.hi, 20*time.Second)
					mu.Lock()
					for k, v := range r {
						all[k] = v
					}
					mu.Unlock()
				}
			}()
		}
		for lo := 0; lo < plan.n; lo += chunk {
			hi := lo + chunk
			if hi > plan.n {
				hi = plan.n
			}
			jobs <- job{lo, hi}
		}
		close(jobs)
		wg.Wait()
		for i := 0; i < plan.n; i++ {
			lines := all[i]
			if lines == nil {
				lines = []c06Line{{fmt.Sprintf("X %d crash-no-output", i), "skip"}}
			}
			for _, l := range lines {
				o.Emit(l.in, l.out)
			}
		}
	}
}

// ---- the rig -----------------------------------------------------------------------------------

// c06Op: a request issued directly to a cache controller. delay = cycles between the completion of
// the core's previous request (or cycle 0) and the first cycle at which this one is presented.
type c06Op struct {
	Core  int    `json:"core"`
	Kind  string `json:"kind"` // r | w | f (flush the core's controller at that time, no request)
	Addr  int32  `json:"addr"`
	Width int    `json:"width"`
	Delay int    `json:"delay"`
	Val   int32  `json:"val"`
}

type c06RigCase struct {
	MemSize int     `json:"memsize"`
	Ops     []c06Op `json:"ops"`
}

func c06RigCaseLine(id int, c c06RigCase) string {
	ops := make([]string, len(c.Ops))
	for i, o := range c.Ops {
		ops[i] = fmt.Sprintf("%d:%s:%d:%d:%d:%d", o.Core, o.Kind, o.Addr, o.Width, o.Delay, o.Val)
	}
	return fmt.Sprintf("K %d kind=rig memsize=%d ops=%s", id, c.MemSize, strings.Join(ops, ","))
}

func c06RigMemInit(mem []int8) {
	for i := 0; i+40 < len(mem); i += 64 {
		mem[i] = int8(i/64 + 1)
		mem[i+1] = 0x5a
		mem[i+40] = int8(-(i / 64) - 1)
	}
}

// c06RunRig executes a rig case: per cycle, a snapshot, then every core's snoop coroutine, then
// every core's request in core order (the order of CPU.Run).
func c06RunRig(runID, caseID int, vname string, cores int, c c06RigCase, maxEmit int, maxCycles int) []c06Line {
	hdr := c06Line{fmt.Sprintf("R %d case=%d variant=%s cores=%d lsz=64 l1n=16 l3=%d mem=%d", runID, caseID, vname, cores, map[bool]int{true: 128, false: 0}[vname == "mvp8-0"], c.MemSize), "run"}
	run := newC06Run(maxEmit)
	rig := c06MkRig(vname, cores, c.MemSize)
	mem := rig.Memory()
	c06RigMemInit(mem)
	queues := make([][]c06Op, cores)
	flushAt := map[int][]int{} // cycle -> cores whose controller is flushed at that cycle
	lastFlush := 0
	for _, o := range c.Ops {
		if o.Core < 0 || o.Core >= cores {
			continue
		}
		if o.Kind == "f" {
			// a flush is an asynchronous event at the absolute cycle `Delay`: the core's request in
			// progress (if any) is abandoned, as executeUnit.flush() does, then cc.flush() runs
			flushAt[o.Delay] = append(flushAt[o.Delay], o.Core)
			if o.Delay > lastFlush {
				lastFlush = o.Delay
			}
			continue
		}
		queues[o.Core] = append(queues[o.Core], o)
	}
	active := make([]bool, cores) // the head of the queue has been presented at least once
	ready := make([]int, cores)   // first cycle at which the head of the queue may be presented
	for k := range ready {
		if len(queues[k]) > 0 {
			ready[k] = 1 + queues[k][0].Delay
		}
	}
	status := "ok"
	cycle := 0
	func() {
		defer func() {
			if rec := recover(); rec != nil {
				d := strings.ReplaceAll(fmt.Sprint(rec), " ", "_")
				if len(d) > 60 {
					d = d[:60]
				}
				status = "panic:" + d
			}
		}()
		for {
			cycle++
			snap := rig.Snapshot()
			run.observe(cycle, snap, mem)
			busy := false
			for k := 0; k < cores; k++ {
				if len(queues[k]) > 0 || !rig.Idle(k) {
					busy = true
				}
			}
			if !busy && cycle > lastFlush {
				return
			}
			if cycle > maxCycles {
				status = "hang"
				return
			}
			for k := 0; k < cores; k++ {
				rig.Snoop(k)
			}
			for _, k := range flushAt[cycle] {
				if active[k] && len(queues[k]) > 0 {
					queues[k] = queues[k][1:]
					active[k] = false
					if len(queues[k]) > 0 {
						ready[k] = cycle + 1 + queues[k][0].Delay
					}
				}
				rig.Flush(k)
			}
			for k := 0; k < cores; k++ {
				if len(queues[k]) == 0 || cycle < ready[k] {
					continue
				}
				o := queues[k][0]
				done := false
				active[k] = true
				switch o.Kind {
				case "r":
					addrs := make([]int32, o.Width)
					for i := range addrs {
						addrs[i] = o.Addr + int32(i)
					}
					var got []int8
					got, done = rig.Read(k, cycle, addrs)
					if done {
						run.value(k, o.Addr, got, &snap, mem)
					}
				case "w":
					addrs := make([]int32, o.Width)
					data := make([]int8, o.Width)
					for i := range addrs {
						addrs[i] = o.Addr + int32(i)
						data[i] = int8(o.Val >> (8 * uint(i)))
					}
					done = rig.Write(k, cycle, addrs, data)
				default:
					done = true
				}
				if done {
					queues[k] = queues[k][1:]
					active[k] = false
					if len(queues[k]) > 0 {
						ready[k] = cycle + 1 + queues[k][0].Delay
					}
				}
			}
		}
	}()
	if strings.HasPrefix(status, "panic") {
		run.postMortem(cycle, rig.Snapshot(), mem)
	}
	run.end(runID, status)
	return append([]c06Line{hdr}, run.lines...)
}

var c06Delays = []int{0, 0, 0, 1, 2, 3, 4, 5, 7, 50, 150, 300, 306, 307, 308, 309, 310, 311, 312, 313, 314, 315, 320, 360, 620}

func c06RandRigCase(r *rand.Rand, cores int, withFlush bool) c06RigCase {
	var c c06RigCase
	c.MemSize = 4096
	if cores >= 2 && !withFlush && r.Intn(6) == 0 {
		// L3 capacity eviction (MVP-8: 32 lines of 128 bytes) of a line that one core wrote in ONE 64-byte half
		// and another core still holds Shared: the dirty L3 line must reach memory, else the Shared copy
		// differs from its next level. Core 0 writes, core 1 reads it back, the last core then sweeps over
		// 34-40 other 128-byte blocks.
		c.MemSize = 8192
		x := int32(r.Intn(8)*128 + r.Intn(2)*64 + r.Intn(16)*4)
		c.Ops = append(c.Ops, c06Op{Core: 0, Kind: "w", Addr: x, Width: 4, Delay: r.Intn(3), Val: int32(r.Uint32())})
		keepModified := r.Intn(2) == 0 // nobody else reads the line: core 0 still holds it Modified when its L3 line goes
		if !keepModified {
			c.Ops = append(c.Ops, c06Op{Core: 1, Kind: "r", Addr: x - x%4, Width: 4, Delay: 700 + r.Intn(40)})
		}
		sw := cores - 1 // the sweeping core must not be the one that keeps the Shared copy (core 1)
		if sw == 1 {
			sw = 0
		}
		n := 34 + r.Intn(7)
		for j := 0; j < n; j++ {
			d := r.Intn(3)
			if j == 0 {
				d = 1500 + r.Intn(100)
			}
			k := "r"
			if r.Intn(6) == 0 {
				k = "w"
			}
			c.Ops = append(c.Ops, c06Op{Core: sw, Kind: k, Addr: int32(1024 + j*128 + r.Intn(32)*4), Width: 4, Delay: d, Val: int32(r.Uint32())})
		}
		if keepModified {
			if sw == 0 {
				sw = 1
			}
			for i := range c.Ops {
				if i > 0 {
					c.Ops[i].Core = sw
				}
			}
			c.Ops = append(c.Ops, c06Op{Core: 0, Kind: "w", Addr: x, Width: 4, Delay: 14000 + r.Intn(50), Val: int32(r.Uint32())})
			return c
		}
		c.Ops = append(c.Ops, c06Op{Core: 0, Kind: "r", Addr: x - x%4, Width: 4, Delay: 100 + r.Intn(50)})
		return c
	}
	if cores >= 3 && !withFlush && r.Intn(5) == 0 {
		// a store to a line two other cores share, while the snoop of one sharer is busy writing back ANOTHER
		// line: the writer must wait for BOTH invalidations before it becomes Modified
		c.MemSize = 4096
		x := int32(r.Intn(8) * 64)
		y := x + 64*int32(1+r.Intn(6))
		j := func(n int) int { return r.Intn(n) }
		if r.Intn(2) == 0 {
			// the writer shares the line too (upgrade); the sharer whose snoop is busy holds the other line Modified
			d1 := 20 + j(20)
			c.Ops = append(c.Ops, c06Op{Core: 2, Kind: "w", Addr: y + int32(4*j(16)), Width: 4, Delay: 0, Val: int32(r.Uint32())})
			c.Ops = append(c.Ops, c06Op{Core: 2, Kind: "r", Addr: x + int32(4*j(16)), Width: 4, Delay: 10 + j(4)})
			c.Ops = append(c.Ops, c06Op{Core: 0, Kind: "r", Addr: x + int32(4*j(16)), Width: 4, Delay: 328 + j(6)})
			c.Ops = append(c.Ops, c06Op{Core: 1, Kind: "r", Addr: x + int32(4*j(16)), Width: 4, Delay: 328 + j(6)})
			c.Ops = append(c.Ops, c06Op{Core: 1, Kind: "r", Addr: y + int32(4*j(16)), Width: 4, Delay: d1})
			c.Ops = append(c.Ops, c06Op{Core: 0, Kind: "w", Addr: x + int32(4*j(16)), Width: 4, Delay: d1 + j(40), Val: int32(r.Uint32())})
			c.Ops = append(c.Ops, c06Op{Core: 2, Kind: "r", Addr: x, Width: 4, Delay: 700 + j(300)})
			c.Ops = append(c.Ops, c06Op{Core: 1, Kind: "r", Addr: x, Width: 4, Delay: 400 + j(300)})
			return c
		}
		c.Ops = append(c.Ops, c06Op{Core: 1, Kind: "r", Addr: x + int32(4*j(16)), Width: 4, Delay: j(3)})
		c.Ops = append(c.Ops, c06Op{Core: 2, Kind: "r", Addr: x + int32(4*j(16)), Width: 4, Delay: j(3)})
		c.Ops = append(c.Ops, c06Op{Core: 2, Kind: "w", Addr: y + int32(4*j(16)), Width: 4, Delay: 320 + j(20), Val: int32(r.Uint32())})
		t := 700 + j(40)
		c.Ops = append(c.Ops, c06Op{Core: 1, Kind: "r", Addr: y + int32(4*j(16)), Width: 4, Delay: t})
		c.Ops = append(c.Ops, c06Op{Core: 0, Kind: "w", Addr: x + int32(4*j(16)), Width: 4, Delay: t + 310 + []int{0, 1, 2, 3, 5, 10, 15, 20, 50, 150, 300, 305}[j(12)], Val: int32(r.Uint32())})
		c.Ops = append(c.Ops, c06Op{Core: 1, Kind: "r", Addr: x, Width: 4, Delay: 400 + j(300)})
		c.Ops = append(c.Ops, c06Op{Core: 2, Kind: "r", Addr: x, Width: 4, Delay: 400 + j(300)})
		return c
	}
	var lines []int32
	switch r.Intn(4) {
	case 0:
		lines = []int32{0}
	case 1:
		lines = []int32{0, 64}
	case 2:
		lines = []int32{64, 128, 192, 1024}
	default:
		for i := 0; i < 20; i++ { // more lines than L1 holds
			lines = append(lines, int32(i*64))
		}
	}
	sweep := len(lines) > 8
	for k := 0; k < cores; k++ {
		n := 1 + r.Intn(6)
		if sweep && k == 0 {
			n = 18 + r.Intn(6)
		}
		for j := 0; j < n; j++ {
			o := c06Op{Core: k, Width: []int{1, 2, 4}[r.Intn(3)], Delay: c06Delays[r.Intn(len(c06Delays))], Val: int32(r.Uint32())}
			if sweep && k == 0 && j < len(lines) {
				o.Addr = lines[j]
				o.Delay = r.Intn(3)
			} else {
				o.Addr = lines[r.Intn(len(lines))]
			}
			o.Addr += int32(r.Intn(64/o.Width) * o.Width)
			o.Kind = "r"
			if r.Intn(5) < 2 {
				o.Kind = "w"
			}
			if withFlush && r.Intn(5) == 0 {
				o.Kind = "f"
				o.Delay = 1 + r.Intn(3)*312 + []int{0, 1, 2, 3, 4, 5, 100, 305, 308, 309, 310, 311, 312, 313, 314}[r.Intn(15)]
			}
			c.Ops = append(c.Ops, o)
		}
	}
	return c
}

func c06RigStream(name string, withFlush bool) streamFn {
	return func(dir string, seed int64, tier string) {
		o := hx.Open(dir, name)
		defer o.Close()
		n := 240
		if withFlush {
			n = 120
		}
		if tier == "thorough" {
			n *= 10
		}
		if env := os.Getenv("VERIF_C06_RIG_N"); env != "" {
			n, _ = strconv.Atoi(env)
		}
		type res struct{ lines []c06Line }
		out := make([][]c06Line, n)
		var wg sync.WaitGroup
		sem := make(chan struct{}, runtime.NumCPU())
		for i := 0; i < n; i++ {
			wg.Add(1)
			sem <- struct{}{}
			go func(i int) {
				defer wg.Done()
				defer func() { <-sem }()
				r := hx.NewRand(seed*7777 + int64(i)*131 + 6)
				cores := 1 + r.Intn(4)
				c := c06RandRigCase(r, cores, withFlush)
				lines := []c06Line{{c06RigCaseLine(i, c), "case"}}
				for k, v := range c06Variants {
					lines = append(lines, c06RunRig(i*3+k, i, v, cores, c, 400, 60000)...)
				}
				out[i] = lines
			}(i)
		}
		wg.Wait()
		for _, lines := range out {
			for _, l := range lines {
				o.Emit(l.in, l.out)
			}
		}
	}
}

// ---- bounded exhaustive --------------------------------------------------------------------------

const c06ExhShards = 16

// c06ExhConfigs enumerates every assignment of 1..k requests to `cores` cores: each request is
// (read|write, line, start offset); a core's requests run in sequence. Requests of different cores are
// unordered, so a configuration is generated once: requests are listed in non-decreasing core order.
func c06ExhConfigs(cores int, lines []int32, delays []int, k int, f func(ops []c06Op)) {
	var ops []c06Op
	var rec func(minCore int)
	rec = func(minCore int) {
		if len(ops) > 0 {
			// time-shift symmetry: some core's first request starts at offset 0
			zero := false
			seen := map[int]bool{}
			for _, o := range ops {
				if !seen[o.Core] {
					seen[o.Core] = true
					if o.Delay == delays[0] {
						zero = true
					}
				}
			}
			if zero {
				f(ops)
			}
		}
		if len(ops) == k {
			return
		}
		for c := minCore; c < cores; c++ {
			for _, kind := range []string{"r", "w"} {
				for li, l := range lines {
					if len(ops) == 0 && li > 0 {
						continue // line symmetry: the first request is on the first line
					}
					for _, d := range delays {
						ops = append(ops, c06Op{Core: c, Kind: kind, Addr: l + 4, Width: 4, Delay: d, Val: int32(0x11223300 + len(ops)*17 + c)})
						rec(c)
						ops = ops[:len(ops)-1]
					}
				}
			}
		}
	}
	rec(0)
}

func c06ExhShard(shard int) streamFn {
	return func(dir string, seed int64, tier string) {
		name := fmt.Sprintf("c06-exh-%d", shard)
		o := hx.Open(dir, name)
		defer o.Close()
		k := 3
		delays := []int{0, 2, 310, 313}
		emitEvery := 5
		if tier == "thorough" {
			k = 4 // ≈ 9.6·10^5 runs over the 16 shards
			emitEvery = 97
		}
		if env := os.Getenv("VERIF_C06_EXH_K"); env != "" {
			k, _ = strconv.Atoi(env)
		}
		if env := os.Getenv("VERIF_C06_EXH_DELAYS"); env != "" {
			delays = nil
			for _, x := range strings.Split(env, ",") {
				d, _ := strconv.Atoi(x)
				delays = append(delays, d)
			}
		}
		idx := 0
		runs, viol := 0, 0
		for _, cores := range []int{2, 3} {
			for _, lines := range [][]int32{{0}, {0, 64}, {0, 128}} {
				c06ExhConfigs(cores, lines, delays, k, func(ops []c06Op) {
					idx++
					if idx%c06ExhShards != shard {
						return
					}
					// a configuration that uses fewer cores than `cores` is covered by the smaller rig,
					// except that the 2-core rig is the smallest: skip 3-core configs without core 2
					if cores == 3 && ops[len(ops)-1].Core < 2 {
						return
					}
					c := c06RigCase{MemSize: 1024, Ops: append([]c06Op(nil), ops...)}
					for vi, v := range c06Variants {
						if len(lines) == 2 && lines[1] == 128 && v != "mvp8-0" {
							continue // without an L3, lines {0,128} behave as lines {0,64}
						}
						lines := c06RunRig(idx*3+vi, idx, v, cores, c, 60, 4000)
						runs++
						bad := false
						for _, l := range lines {
							if strings.HasPrefix(l.out, "viol") || strings.HasPrefix(l.out, "pm viol") || (strings.HasPrefix(l.in, "E ") && !strings.Contains(l.in, "status=ok")) {
								bad = true
							}
						}
						if bad {
							viol++
						}
						if bad || (idx/c06ExhShards)%emitEvery == 0 {
							o.Emit(c06RigCaseLine(idx, c), "case")
							for _, l := range lines {
								o.Emit(l.in, l.out)
							}
						}
					}
				})
			}
		}
		o.Emit(fmt.Sprintf("T exhaustive shard=%d k=%d delays=%v runs=%d flagged=%d", shard, k, delays, runs, viol), "total")
	}
}

// ---- explicit cases (replay, shrinking) ----------------------------------------------------------

type c06FileCase struct {
	Kind    string           `json:"kind"` // cpu | rig
	Variant string           `json:"variant"`
	Cores   int              `json:"cores"`
	Text    string           `json:"text"`
	Regs    map[string]int32 `json:"regs"`
	MemSize int              `json:"memsize"`
	Mem     string           `json:"mem"` // hex
	Ops     []c06Op          `json:"ops"`
}

func c06FileStream(dir string, seed int64, tier string) {
	o := hx.Open(dir, "c06-file")
	defer o.Close()
	raw, err := os.ReadFile(os.Getenv("VERIF_C06_FILE"))
	if err != nil {
		panic(err)
	}
	var cases []c06FileCase
	if err := json.Unmarshal(raw, &cases); err != nil {
		panic(err)
	}
	for i, fc := range cases {
		var lines []c06Line
		if fc.Kind == "rig" {
			c := c06RigCase{MemSize: fc.MemSize, Ops: fc.Ops}
			lines = append([]c06Line{{c06RigCaseLine(i, c), "case"}}, c06RunRig(i, i, fc.Variant, fc.Cores, c, 100000, 60000)...)
		} else {
			c := cpuCase{family: "file", text: fc.Text, regs: map[int]int32{}, memSize: fc.MemSize}
			for k, v := range fc.Regs {
				n, _ := strconv.Atoi(k)
				c.regs[n] = v
			}
			mb, _ := hex.DecodeString(fc.Mem)
			c.mem = make([]int8, fc.MemSize)
			for j := 0; j < len(mb) && j < fc.MemSize; j++ {
				c.mem[j] = int8(mb[j])
			}
			done := make(chan []c06Line, 1)
			go func() {
				done <- append([]c06Line{{c06CaseLine(i, c), "case"}}, c06RunCPU(i, i, fc.Variant, fc.Cores, c, 100000)...)
			}()
			select {
			case lines = <-done:
			case <-time.After(30 * time.Second):
				lines = []c06Line{{fmt.Sprintf("X %d hang-watchdog", i), "skip"}}
				for _, l := range lines {
					o.Emit(l.in, l.out)
				}
				o.Close()
				os.Exit(0)
			}
		}
		for _, l := range lines {
			o.Emit(l.in, l.out)
		}
	}
}

func init() {
	streams["c06"] = c06CPUStream("c06")
	streams["c06-flush"] = c06CPUStream("c06-flush")
	streams["c06-worker"] = c06WorkerMain
	streams["c06-rig"] = c06RigStream("c06-rig", false)
	streams["c06-rig-flush"] = c06RigStream("c06-rig-flush", true)
	for i := 0; i < c06ExhShards; i++ {
		streams[fmt.Sprintf("c06-exh-%d", i)] = c06ExhShard(i)
	}
	streams["c06-file"] = c06FileStream
}

package main

// C15 — speculative register state commits and rolls back by program order.
//
// Every line is a whole history, executed on the REAL code:
//
//	h <class> rat=<0|1> ; <op> ; …   on a fresh risc.NewContext(false, 16, rat)
//	    reg r v        ctx.WriteRegister
//	    init           ctx.InitRAT
//	    tw r v t       ctx.TransactionWriteRegister     rw r v t   ctx.TransactionRATWrite
//	    commit | rollback s | rcommit | rrollback s | rflush
//	    rd r t         parse `mv t6, <r>`, Run(ctx, nil, 0, nil, t): what registerRead gave
//	    rdf r t fr fv  the same with Forward{fr, fv} set on the instruction
//	  answer per op:  R[reg:value,…] (ctx.Registers, sorted)  or  v=<value>
//
//	q L=<n> ; <op> ; …               on comp.NewRAT[int,int](n)
//	    write k v | read k | find k le|lt t | values | findvalues le|lt t
//
// Classes: must (histories built inside the proved hypotheses: per-register monotone
// tags, within the slots where the property needs it), outside (arbitrary tag orders,
// over-full tables, map reads below a pending tag), mixed (operations of both modes,
// forwards, x0, extreme values: model-vs-code correspondence only), exh (bounded
// exhaustive). The check (checklib/c15.py) recomputes the hypotheses itself.

import (
	"bufio"
	"fmt"
	"math/rand"
	"os"
	"sort"
	"strconv"
	"strings"

	"github.com/teivah/majorana/proc/comp"
	"github.com/teivah/majorana/risc"
	"verif/internal/hx"
)

func init() {
	streams["c15"] = c15Stream
	streams["c15-exh"] = c15Exh
	streams["c15-replay"] = c15Replay
}

var c15Readers = map[int]risc.InstructionRunner{}

func c15Reader(reg int) risc.InstructionRunner {
	if r, ok := c15Readers[reg]; ok {
		return r
	}
	if reg < 0 || reg >= len(regNames) {
		return nil
	}
	app, err := risc.Parse("mv t6, " + regNames[reg])
	if err != nil || len(app.Instructions) != 1 {
		return nil
	}
	c15Readers[reg] = app.Instructions[0]
	return app.Instructions[0]
}

func c15Regs(ctx *risc.Context) string {
	ks := make([]int, 0, len(ctx.Registers))
	for k := range ctx.Registers {
		ks = append(ks, int(k))
	}
	sort.Ints(ks)
	var sb strings.Builder
	sb.WriteString("R[")
	for i, k := range ks {
		if i > 0 {
			sb.WriteByte(',')
		}
		fmt.Fprintf(&sb, "%d:%d", k, ctx.Registers[risc.RegisterType(k)])
	}
	sb.WriteByte(']')
	return sb.String()
}

func c15Ints(f []string, n int) ([]int64, bool) {
	if len(f) != n+1 {
		return nil, false
	}
	out := make([]int64, n)
	for i := 0; i < n; i++ {
		v, err := strconv.ParseInt(f[i+1], 10, 64)
		if err != nil {
			return nil, false
		}
		out[i] = v
	}
	return out, true
}

func c15CtxOp(ctx *risc.Context, f []string) (out string) {
	defer func() {
		if r := recover(); r != nil {
			out = "panic"
		}
	}()
	if len(f) == 0 {
		return "bad-op"
	}
	exe := func(r, v int64) risc.Execution {
		return risc.Execution{RegisterChange: true, Register: risc.RegisterType(r), RegisterValue: int32(v)}
	}
	isReg := func(r int64) bool { return r >= 0 && r < 32 }
	switch f[0] {
	case "reg":
		if a, ok := c15Ints(f, 2); ok && isReg(a[0]) {
			ctx.WriteRegister(exe(a[0], a[1]))
			return c15Regs(ctx)
		}
	case "init":
		if len(f) == 1 {
			ctx.InitRAT()
			return c15Regs(ctx)
		}
	case "tw":
		if a, ok := c15Ints(f, 3); ok && isReg(a[0]) {
			ctx.TransactionWriteRegister(exe(a[0], a[1]), int32(a[2]))
			return c15Regs(ctx)
		}
	case "rw":
		if a, ok := c15Ints(f, 3); ok && isReg(a[0]) {
			ctx.TransactionRATWrite(exe(a[0], a[1]), int32(a[2]))
			return c15Regs(ctx)
		}
	case "commit":
		if len(f) == 1 {
			ctx.Commit()
			return c15Regs(ctx)
		}
	case "rollback":
		if a, ok := c15Ints(f, 1); ok {
			ctx.Rollback(int32(a[0]))
			return c15Regs(ctx)
		}
	case "rcommit":
		if len(f) == 1 {
			ctx.RATCommit()
			return c15Regs(ctx)
		}
	case "rrollback":
		if a, ok := c15Ints(f, 1); ok {
			ctx.RATRollback(int32(a[0]))
			return c15Regs(ctx)
		}
	case "rflush":
		if len(f) == 1 {
			ctx.RATFlush()
			return c15Regs(ctx)
		}
	case "rd", "rdf":
		n := 2
		if f[0] == "rdf" {
			n = 4
		}
		a, ok := c15Ints(f, n)
		if !ok {
			return "bad-op"
		}
		run := c15Reader(int(a[0]))
		if run == nil {
			return "bad-op"
		}
		fwd := risc.Forward{}
		if n == 4 && !isReg(a[2]) {
			return "bad-op"
		}
		if n == 4 {
			fwd = risc.Forward{Register: risc.RegisterType(a[2]), Value: int32(a[3])}
		}
		run.Forward(fwd)
		e, err := run.Run(ctx, nil, 0, nil, int32(a[1]))
		run.Forward(risc.Forward{})
		if err != nil {
			return "err"
		}
		return fmt.Sprintf("v=%d", e.RegisterValue)
	}
	return "bad-op"
}

func c15KV(m map[int]int) string {
	ks := make([]int, 0, len(m))
	for k := range m {
		ks = append(ks, k)
	}
	sort.Ints(ks)
	s := make([]string, len(ks))
	for i, k := range ks {
		s[i] = fmt.Sprintf("%d:%d", k, m[k])
	}
	return "[" + strings.Join(s, ",") + "]"
}

func c15Pred(kind string, t int) func(int) bool {
	switch kind {
	case "le":
		return func(v int) bool { return v <= t }
	case "lt":
		return func(v int) bool { return v < t }
	}
	return nil
}

func c15RatOp(r *comp.RAT[int, int], f []string) (out string) {
	defer func() {
		if rec := recover(); rec != nil {
			out = "panic"
		}
	}()
	if len(f) == 0 {
		return "bad-op"
	}
	b := func(x bool) string { return hx.B(x) }
	switch f[0] {
	case "write":
		if a, ok := c15Ints(f, 2); ok {
			r.Write(int(a[0]), int(a[1]))
			return "ok"
		}
	case "read":
		if a, ok := c15Ints(f, 1); ok {
			v, ex := r.Read(int(a[0]))
			return fmt.Sprintf("v=%d ex=%s", v, b(ex))
		}
	case "find":
		if len(f) == 4 {
			k, e1 := strconv.Atoi(f[1])
			t, e2 := strconv.Atoi(f[3])
			p := c15Pred(f[2], t)
			if e1 == nil && e2 == nil && p != nil {
				v, ex := r.Find(k, p)
				return fmt.Sprintf("v=%d ex=%s", v, b(ex))
			}
		}
	case "values":
		if len(f) == 1 {
			return c15KV(r.Values())
		}
	case "findvalues":
		if len(f) == 3 {
			t, e := strconv.Atoi(f[2])
			p := c15Pred(f[1], t)
			if e == nil && p != nil {
				return c15KV(r.FindValues(p))
			}
		}
	}
	return "bad-op"
}

// c15ExecLine runs one history line on the real code.
func c15ExecLine(line string) string {
	secs := strings.Split(line, ";")
	head := strings.Fields(secs[0])
	if len(head) == 0 {
		return "bad-op"
	}
	kv := map[string]string{}
	for _, t := range head[1:] {
		if i := strings.IndexByte(t, '='); i > 0 {
			kv[t[:i]] = t[i+1:]
		}
	}
	outs := make([]string, 0, len(secs)-1)
	switch head[0] {
	case "h":
		rat, ok := kv["rat"]
		if !ok {
			return "bad-op"
		}
		ctx := risc.NewContext(false, 16, rat == "1")
		for _, s := range secs[1:] {
			outs = append(outs, c15CtxOp(ctx, strings.Fields(s)))
		}
	case "q":
		l, err := strconv.Atoi(kv["L"])
		if err != nil || l <= 0 {
			return "bad-op"
		}
		r := comp.NewRAT[int, int](l)
		for _, s := range secs[1:] {
			outs = append(outs, c15RatOp(r, strings.Fields(s)))
		}
	default:
		return "bad-op"
	}
	return strings.Join(outs, " | ")
}

// ---------------------------------------------------------------- generators

type c15Gen struct {
	r   *rand.Rand
	ops []string
}

func (g *c15Gen) add(format string, a ...any) { g.ops = append(g.ops, fmt.Sprintf(format, a...)) }

func (g *c15Gen) line(class string, rat bool) string {
	return fmt.Sprintf("h %s rat=%s ; %s", class, hx.B(rat), strings.Join(g.ops, " ; "))
}

var c15Pool = []int{5, 6, 7}

func (g *c15Gen) prologue(rat bool, regs []int) {
	for _, r := range regs {
		if g.r.Intn(10) < 8 {
			g.add("reg %d %d", r, 100*r+g.r.Intn(90)+1)
		}
	}
	if rat && g.r.Intn(10) < 9 {
		g.add("init")
	}
}

// must: histories inside the hypotheses of the theorems (TagMonotonePerReg always;
// WithinSlots before a rollback; in map mode a tagged read is never older than a pending
// write to its register).
func c15Must(r *rand.Rand) string {
	g := &c15Gen{r: r}
	rat := r.Intn(2) == 1
	regs := c15Pool[:2+r.Intn(2)]
	g.prologue(rat, regs)
	slots := 1
	if rat {
		slots = 10
	}
	// per-register tag counters, unrelated between registers; some histories start negative
	// or near the int32 limits (tags are signed)
	base := int32(1 + r.Intn(5))
	switch r.Intn(12) {
	case 0:
		base = -40
	case 1:
		base = 0x7fffff00
	case 2:
		base = -0x80000000
	}
	tag := map[int]int32{}
	for _, x := range regs {
		tag[x] = base + int32(r.Intn(4))
	}
	val := int32(10)
	for ep, eps := 0, 1+r.Intn(4); ep < eps; ep++ {
		rollback := r.Intn(2) == 0
		count := map[int]int{}
		var tags []int32
		maxTag := map[int]int32{}
		pending := map[int]bool{}
		n := r.Intn(7)
		burst := -1
		if !rollback && r.Intn(6) == 0 {
			burst = regs[r.Intn(len(regs))]
			n += 11 + r.Intn(4)
		}
		for i := 0; i < n; i++ {
			x := regs[r.Intn(len(regs))]
			if burst >= 0 && r.Intn(4) != 0 {
				x = burst
			}
			if r.Intn(4) == 0 { // a read in between
				q := regs[r.Intn(len(regs))]
				t := int32(0)
				if r.Intn(3) != 0 {
					if rat {
						t = tag[q] + int32(r.Intn(5)) - 2
						if len(tags) > 0 && r.Intn(2) == 0 {
							t = tags[r.Intn(len(tags))] + int32(r.Intn(3)) - 1
						}
					} else if pending[q] {
						t = maxTag[q] + int32(r.Intn(3))
					} else {
						t = tag[q] + int32(r.Intn(5)) - 2
					}
				}
				g.add("rd %d %d", q, t)
				continue
			}
			if rollback && count[x] >= slots {
				continue
			}
			tag[x] += int32(r.Intn(3))
			val++
			v := val
			if r.Intn(12) == 0 {
				v = 0
			}
			if rat {
				g.add("rw %d %d %d", x, v, tag[x])
			} else {
				g.add("tw %d %d %d", x, v, tag[x])
			}
			count[x]++
			tags = append(tags, tag[x])
			maxTag[x] = tag[x]
			pending[x] = true
		}
		if rollback {
			s := base + int32(r.Intn(6))
			if len(tags) > 0 {
				s = tags[r.Intn(len(tags))] + int32(r.Intn(3)) - 1
			}
			if rat {
				g.add("rrollback %d", s)
			} else {
				g.add("rollback %d", s)
			}
		} else if rat {
			g.add("rcommit")
		} else {
			g.add("commit")
		}
		for _, x := range regs {
			g.add("rd %d 0", x)
		}
		if rat && r.Intn(3) == 0 {
			g.add("rflush")
		}
		for _, x := range regs { // the next epoch's tags are younger
			tag[x] += int32(r.Intn(2))
		}
	}
	if rat {
		g.add("rflush")
	}
	return g.line("must", rat)
}

// outside: arbitrary tag orders, over-full tables before a rollback, map reads below a
// pending tag. Operations of the history's own mode only.
func c15Outside(r *rand.Rand) string {
	g := &c15Gen{r: r}
	rat := r.Intn(2) == 1
	regs := c15Pool[:2+r.Intn(2)]
	g.prologue(rat, regs)
	val := int32(10)
	for ep, eps := 0, 1+r.Intn(3); ep < eps; ep++ {
		n := r.Intn(8)
		if rat && r.Intn(3) == 0 {
			n += 10 + r.Intn(8)
		}
		for i := 0; i < n; i++ {
			x := regs[r.Intn(len(regs))]
			t := int32(r.Intn(7))
			if r.Intn(10) == 0 {
				t = hx.Pick32(r)
			}
			if r.Intn(4) == 0 {
				g.add("rd %d %d", x, t)
				continue
			}
			val++
			if rat {
				g.add("rw %d %d %d", x, val, t)
			} else {
				g.add("tw %d %d %d", x, val, t)
			}
		}
		s := int32(r.Intn(8))
		switch {
		case r.Intn(2) == 0 && rat:
			g.add("rrollback %d", s)
		case rat:
			g.add("rcommit")
		case r.Intn(2) == 0:
			g.add("rollback %d", s)
		default:
			g.add("commit")
		}
		for _, x := range regs {
			g.add("rd %d 0", x)
		}
	}
	if rat {
		g.add("rflush")
	}
	return g.line("outside", rat)
}

// mixed: any operation in any mode, forwards, x0 and other registers, extreme values.
func c15Mixed(r *rand.Rand) string {
	g := &c15Gen{r: r}
	rat := r.Intn(2) == 1
	regs := []int{0, 5, 6, 7, 10, 31}
	pick := func() int { return regs[r.Intn(len(regs))] }
	for i, n := 0, 1+r.Intn(30); i < n; i++ {
		v, t := hx.Pick32(r), int32(r.Intn(9)-2)
		if r.Intn(5) == 0 {
			t = hx.Pick32(r)
		}
		switch r.Intn(14) {
		case 0:
			g.add("reg %d %d", pick(), v)
		case 1:
			g.add("init")
		case 2, 3:
			g.add("tw %d %d %d", pick(), v, t)
		case 4, 5:
			g.add("rw %d %d %d", pick(), v, t)
		case 6:
			g.add("commit")
		case 7:
			g.add("rollback %d", t)
		case 8:
			g.add("rcommit")
		case 9:
			g.add("rrollback %d", t)
		case 10:
			g.add("rflush")
		case 11, 12:
			g.add("rd %d %d", pick(), t)
		case 13:
			g.add("rdf %d %d %d %d", pick(), t, pick(), v)
		}
	}
	return g.line("mixed", rat)
}

// direct RAT history: L = 1..10, 2-3 keys, small values (they play the role of tags).
func c15Direct(r *rand.Rand) string {
	l := 1 + r.Intn(10)
	keys := 2 + r.Intn(2)
	var ops []string
	for i, n := 0, 1+r.Intn(40); i < n; i++ {
		k := 1 + r.Intn(keys)
		t := r.Intn(9) - 1
		kind := []string{"le", "lt"}[r.Intn(2)]
		switch r.Intn(10) {
		case 0, 1, 2, 3, 4:
			v := r.Intn(8)
			if r.Intn(10) == 0 {
				v = -1 - r.Intn(3)
			}
			ops = append(ops, fmt.Sprintf("write %d %d", k, v))
		case 5:
			ops = append(ops, fmt.Sprintf("read %d", k))
		case 6, 7:
			ops = append(ops, fmt.Sprintf("find %d %s %d", k, kind, t))
		case 8:
			ops = append(ops, "values")
		case 9:
			ops = append(ops, fmt.Sprintf("findvalues %s %d", kind, t))
		}
	}
	return fmt.Sprintf("q L=%d ; %s", l, strings.Join(ops, " ; "))
}

func c15Stream(dir string, seed int64, tier string) {
	o := hx.Open(dir, "c15")
	defer o.Close()
	r := hx.NewRand(seed)
	n := 6000
	if tier == "thorough" {
		n = 60000
	}
	emit := func(line string) { o.Emit(line, c15ExecLine(line)) }
	// malformed lines first: the driver must answer bad-op, the harness too
	for _, l := range []string{"h must ; commit", "h must rat=1 ; frob ; rd x 1 ; rd 99 1 ; tw 5 ; rollback", "q L=0 ; write 1 1", "q L=2 ; find 1 ge 3 ; findvalues le", "nonsense"} {
		emit(l)
	}
	for i := 0; i < n; i++ {
		switch {
		case i%10 < 5:
			emit(c15Must(r))
		case i%10 < 7:
			emit(c15Outside(r))
		case i%10 < 8:
			emit(c15Mixed(r))
		default:
			emit(c15Direct(r))
		}
	}
}

// c15Exh: bounded-exhaustive histories (a search aid and correspondence strengthening).
//   - context level, both modes: every sequence of up to k writes over the registers with
//     tags 1..3 IN ALL ORDERS, observed by reads of every register with every tag 0..3,
//     then each of commit / rollback 1..4, then plain reads and (rename table) a flush;
//   - ring level, L = 1..3: every sequence of up to k writes over 2 keys with values 1..3,
//     then every Read / Find / Values / FindValues observation.
func c15Exh(dir string, seed int64, tier string) {
	o := hx.Open(dir, "c15-exh")
	defer o.Close()
	emit := func(line string) { o.Emit(line, c15ExecLine(line)) }
	type cfg struct{ regs, maxLen int }
	cfgs := []cfg{{2, 4}, {3, 3}}
	ringLen := 5
	if tier == "thorough" {
		cfgs = []cfg{{2, 6}, {3, 5}}
		ringLen = 6
	}
	for _, c := range cfgs {
		regs := c15Pool[:c.regs]
		alpha := c.regs * 3
		for _, rat := range []bool{false, true} {
			for n := 0; n <= c.maxLen; n++ {
				total := 1
				for i := 0; i < n; i++ {
					total *= alpha
				}
				for code := 0; code < total; code++ {
					var pre []string
					for _, x := range regs {
						pre = append(pre, fmt.Sprintf("reg %d %d", x, 100*x))
					}
					if rat {
						pre = append(pre, "init")
					}
					cc := code
					for i := 0; i < n; i++ {
						a := cc % alpha
						cc /= alpha
						x, t := regs[a/3], 1+a%3
						if rat {
							pre = append(pre, fmt.Sprintf("rw %d %d %d", x, 11*(i+1), t))
						} else {
							pre = append(pre, fmt.Sprintf("tw %d %d %d", x, 11*(i+1), t))
						}
					}
					for _, x := range regs {
						for t := 0; t <= 3; t++ {
							pre = append(pre, fmt.Sprintf("rd %d %d", x, t))
						}
					}
					for term := 0; term <= 4; term++ {
						ops := append([]string{}, pre...)
						switch {
						case term == 0 && rat:
							ops = append(ops, "rcommit")
						case term == 0:
							ops = append(ops, "commit")
						case rat:
							ops = append(ops, fmt.Sprintf("rrollback %d", term))
						default:
							ops = append(ops, fmt.Sprintf("rollback %d", term))
						}
						for _, x := range regs {
							ops = append(ops, fmt.Sprintf("rd %d 0", x))
						}
						if rat {
							ops = append(ops, "rflush")
						}
						emit(fmt.Sprintf("h exh rat=%s ; %s", hx.B(rat), strings.Join(ops, " ; ")))
					}
				}
			}
		}
	}
	for l := 1; l <= 3; l++ {
		for n := 0; n <= ringLen; n++ {
			total := 1
			for i := 0; i < n; i++ {
				total *= 6
			}
			for code := 0; code < total; code++ {
				var ops []string
				cc := code
				for i := 0; i < n; i++ {
					a := cc % 6
					cc /= 6
					ops = append(ops, fmt.Sprintf("write %d %d", 1+a/3, 1+a%3))
				}
				for k := 1; k <= 2; k++ {
					ops = append(ops, fmt.Sprintf("read %d", k))
					for t := 1; t <= 3; t++ {
						ops = append(ops, fmt.Sprintf("find %d le %d", k, t), fmt.Sprintf("find %d lt %d", k, t))
					}
				}
				ops = append(ops, "values")
				for t := 1; t <= 4; t++ {
					ops = append(ops, fmt.Sprintf("findvalues lt %d", t))
				}
				ops = append(ops, "findvalues le 1")
				emit(fmt.Sprintf("q L=%d ; %s", l, strings.Join(ops, " ; ")))
			}
		}
	}
}

// c15Replay: executes the history lines of the file named by VERIF_C15_REPLAY (used by
// the check to shrink a failing history and by `bin/check C15 --replay`).
func c15Replay(dir string, seed int64, tier string) {
	o := hx.Open(dir, "c15-replay")
	defer o.Close()
	path := os.Getenv("VERIF_C15_REPLAY")
	f, err := os.Open(path)
	if err != nil {
		fmt.Fprintln(os.Stderr, "c15-replay: VERIF_C15_REPLAY:", err)
		os.Exit(2)
	}
	defer f.Close()
	sc := bufio.NewScanner(f)
	sc.Buffer(make([]byte, 1<<20), 1<<24)
	for sc.Scan() {
		line := strings.TrimSpace(sc.Text())
		if line == "" {
			continue
		}
		o.Emit(line, c15ExecLine(line))
	}
}

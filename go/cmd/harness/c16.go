package main

import (
	"encoding/binary"
	"fmt"
	"runtime"
	"sync"
	"sync/atomic"

	"github.com/teivah/majorana/common/bytes"
	"verif/internal/hx"
)

func init() {
	streams["c16"] = c16Stream
	streams["c16-sweep"] = c16Sweep
	streams["c16-oracle"] = c16Oracle
}

// c16Oracle: property-level search on a stratified sample: the real functions
// against encoding/binary little-endian, both directions. One line per failure.
func c16Oracle(dir string, seed int64, tier string) {
	o := hx.Open(dir, "c16-oracle")
	defer o.Close()
	r := hx.NewRand(seed)
	n, bad := 0, 0
	check := func(v int32) {
		n++
		defer func() {
			if rec := recover(); rec != nil {
				bad++
				o.Emit(fmt.Sprint(v), fmt.Sprintf("counterexample n=%d panic=%v", v, rec))
			}
		}()
		var buf [4]byte
		binary.LittleEndian.PutUint32(buf[:], uint32(v))
		b := bytes.BytesFromLowBits(v)
		j := bytes.I32FromBytes(int8(buf[0]), int8(buf[1]), int8(buf[2]), int8(buf[3]))
		if b[0] != int8(buf[0]) || b[1] != int8(buf[1]) || b[2] != int8(buf[2]) || b[3] != int8(buf[3]) || j != v ||
			bytes.I32FromBytes(b[0], b[1], b[2], b[3]) != v {
			if bad < 20 {
				o.Emit(fmt.Sprint(v), fmt.Sprintf("counterexample n=%d split=%v join_of_le_bytes=%d", v, b, j))
			}
			bad++
		}
	}
	for i := 0; i < 32; i++ {
		check(int32(1) << uint(i))
		check(^(int32(1) << uint(i)))
		for b := 0; b < 256; b++ {
			check(int32(uint32(b) << uint(i&^7)))
		}
	}
	for _, v := range hx.Lattice {
		check(v)
	}
	for i := 0; i < 1<<21; i++ {
		check(int32(r.Uint32()))
	}
	o.Emit("summary", fmt.Sprintf("summary checked=%d failed=%d", n, bad))
}

func c16Case(o *hx.Out, n int32) {
	func() {
		defer func() {
			if r := recover(); r != nil {
				o.Emit(fmt.Sprintf("c16 split %d", n), "panic")
			}
		}()
		b := bytes.BytesFromLowBits(n)
		o.Emit(fmt.Sprintf("c16 split %d", n), fmt.Sprintf("ok %d %d %d %d", b[0], b[1], b[2], b[3]))
	}()
	b0, b1, b2, b3 := int8(n), int8(n>>8), int8(n>>16), int8(n>>24)
	// a different quadruple than the split one: rotate
	func() {
		defer func() {
			if r := recover(); r != nil {
				o.Emit(fmt.Sprintf("c16 join %d %d %d %d", b1, b3, b0, b2), "panic")
			}
		}()
		v := bytes.I32FromBytes(b1, b3, b0, b2)
		o.Emit(fmt.Sprintf("c16 join %d %d %d %d", b1, b3, b0, b2), fmt.Sprintf("ok %d", v))
	}()
}

// c16Stream: stratified sample — all one-bit patterns, byte-boundary patterns,
// the lattice, and random values. Validates translator + GoInt on the codec.
func c16Stream(dir string, seed int64, tier string) {
	o := hx.Open(dir, "c16")
	defer o.Close()
	for i := 0; i < 32; i++ {
		c16Case(o, int32(1)<<uint(i))
		c16Case(o, ^(int32(1) << uint(i)))
		c16Case(o, int32(uint32(0xff)<<uint(i&^7)))
	}
	for _, v := range hx.Lattice {
		c16Case(o, v)
	}
	r := hx.NewRand(seed)
	n := 1 << 14
	if tier == "thorough" {
		n = 1 << 17
	}
	for i := 0; i < n; i++ {
		c16Case(o, int32(r.Uint32()))
	}
}

// c16Sweep: the failing-input search / thorough exploration the property's
// quantifier text names: ALL 2^32 values in both directions against
// encoding/binary little-endian, on all cores. Prints the first counterexample.
func c16Sweep(dir string, seed int64, tier string) {
	o := hx.Open(dir, "c16-sweep")
	defer o.Close()
	workers := runtime.NumCPU()
	var bad atomic.Int64
	bad.Store(-1)
	var wg sync.WaitGroup
	chunk := uint64(1<<32) / uint64(workers)
	for w := 0; w < workers; w++ {
		lo := uint64(w) * chunk
		hi := lo + chunk
		if w == workers-1 {
			hi = 1 << 32
		}
		wg.Add(1)
		go func() {
			defer wg.Done()
			defer func() {
				if r := recover(); r != nil {
					bad.CompareAndSwap(-1, int64(lo))
				}
			}()
			var buf [4]byte
			for u := lo; u < hi; u++ {
				n := int32(uint32(u))
				b := bytes.BytesFromLowBits(n)
				binary.LittleEndian.PutUint32(buf[:], uint32(n))
				if b[0] != int8(buf[0]) || b[1] != int8(buf[1]) || b[2] != int8(buf[2]) || b[3] != int8(buf[3]) ||
					bytes.I32FromBytes(b[0], b[1], b[2], b[3]) != n ||
					bytes.I32FromBytes(int8(buf[0]), int8(buf[1]), int8(buf[2]), int8(buf[3])) != n {
					bad.CompareAndSwap(-1, int64(u))
					return
				}
				if u&0xfffff == 0 && bad.Load() >= 0 {
					return
				}
			}
		}()
	}
	wg.Wait()
	if b := bad.Load(); b >= 0 {
		o.Emit("sweep", fmt.Sprintf("counterexample %d", int32(uint32(b))))
	} else {
		o.Emit("sweep", "all 4294967296 values agree")
	}
}

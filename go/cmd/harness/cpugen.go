package main

import (
	"fmt"
	"math/rand"
	"strings"

	"verif/internal/hx"
)

// Program generators shared by the whole-CPU properties (DESIGN §4, C01 "Generators").
// Every generated program is canonical text (Spec.Asm accepts it), has fewer than
// 250 instructions, and is built to terminate: forward branches, counted loops,
// computed jumps to known instruction boundaries. Whether it is well-formed along
// its run (aligned in-bounds accesses, no division by zero, …) is decided by the
// Lean specification (Spec.run), not assumed here.

type cpuCase struct {
	family  string
	text    string
	regs    map[int]int32 // initial register file
	memSize int
	mem     []int8 // initial memory image, len == memSize
}

type gen struct {
	r      *rand.Rand
	lines  []string
	nInstr int
	nLabel int
	// register pools
	data    []int // data registers used by this program
	base    []int // registers holding memory base addresses (set in the prologue)
	memSize int
}

var allData = []int{5, 6, 7, 28, 29, 30, 31, 10, 11, 12, 13, 14, 15, 16, 17, 8, 9, 18, 19}

func (g *gen) emit(format string, a ...any) {
	g.lines = append(g.lines, "  "+fmt.Sprintf(format, a...))
	g.nInstr++
}

func (g *gen) label() string {
	g.nLabel++
	return fmt.Sprintf("l%d", g.nLabel)
}

func (g *gen) place(l string) { g.lines = append(g.lines, l+":") }

func (g *gen) reg() string  { return regNames[g.data[g.r.Intn(len(g.data))]] }
func (g *gen) breg() string { return regNames[g.base[g.r.Intn(len(g.base))]] }
func (g *gen) srcReg() string {
	if g.r.Intn(12) == 0 {
		return "zero"
	}
	return g.reg()
}
func (g *gen) dstReg() string {
	if g.r.Intn(25) == 0 {
		return "zero"
	}
	return g.reg()
}

func (g *gen) imm() int32 { return hx.Pick32(g.r) }
func (g *gen) smallImm() int32 {
	return int32(g.r.Intn(41) - 20)
}

var aluR = []string{"add", "sub", "and", "or", "xor", "sll", "srl", "sra", "slt", "sltu", "mul"}
var aluI = []string{"addi", "andi", "ori", "xori", "slti", "slli", "srli", "srai"}
var br2 = []string{"beq", "bne", "blt", "bge", "bltu", "bgeu", "ble"}

// alu emits one register-only instruction.
func (g *gen) alu() {
	switch g.r.Intn(10) {
	case 0, 1, 2, 3:
		g.emit("%s %s, %s, %s", aluR[g.r.Intn(len(aluR))], g.dstReg(), g.srcReg(), g.srcReg())
	case 4, 5, 6:
		g.emit("%s %s, %s, %d", aluI[g.r.Intn(len(aluI))], g.dstReg(), g.srcReg(), g.imm())
	case 7:
		g.emit("li %s, %d", g.dstReg(), g.imm())
	case 8:
		g.emit("mv %s, %s", g.dstReg(), g.srcReg())
	default:
		switch g.r.Intn(4) {
		case 0:
			g.emit("lui %s, %d", g.dstReg(), g.imm())
		case 1:
			g.emit("auipc %s, %d", g.dstReg(), g.imm())
		case 2:
			g.emit("nop")
		default:
			// division with a divisor forced non-zero: ori d, s, 1
			d := g.reg()
			g.emit("ori %s, %s, 1", d, g.srcReg())
			g.emit("%s %s, %s, %s", []string{"div", "rem"}[g.r.Intn(2)], g.dstReg(), g.srcReg(), d)
		}
	}
}

// memOp emits an aligned in-bounds load or store through a base register.
// Bases are multiples of 64 with at least 256 bytes of room, offsets stay below 192.
func (g *gen) memOp(store bool, off int) {
	w := []int{1, 2, 4}[g.r.Intn(3)]
	if off < 0 {
		off = g.r.Intn(192/w) * w
	} else {
		off = off / w * w
	}
	b := g.breg()
	if store {
		mn := map[int]string{1: "sb", 2: "sh", 4: "sw"}[w]
		if w == 2 {
			g.emit("sh %s, %d, %s", g.srcReg(), off, b)
		} else {
			g.emit("%s %s, %d(%s)", mn, g.srcReg(), off, b)
		}
	} else {
		mn := map[int]string{1: "lb", 2: "lh", 4: "lw"}[w]
		g.emit("%s %s, %d(%s)", mn, g.dstReg(), off, b)
	}
}

func (g *gen) prologue(nBase int) {
	// base registers: s1..s4 (9, 18, 19, 20) hold line-relative or aligned addresses inside memory
	cands := []int{9, 20, 21, 22}
	g.base = cands[:nBase]
	room := g.memSize - 256
	for _, b := range g.base {
		a := 0
		if room > 0 {
			a = g.r.Intn(room/64+1) * 64
		}
		if g.r.Intn(3) == 0 {
			// first touch at a line-relative offset (word aligned)
			a += g.r.Intn(16) * 4
			if a+256 > g.memSize {
				a = g.memSize - 256
			}
		}
		g.emit("li %s, %d", regNames[b], a)
	}
}

func (g *gen) text() string { return strings.Join(g.lines, "\n") + "\n" }

func newGen(r *rand.Rand, nData int, memSize int) *gen {
	g := &gen{r: r, memSize: memSize}
	perm := r.Perm(len(allData))
	for i := 0; i < nData; i++ {
		g.data = append(g.data, allData[perm[i]])
	}
	return g
}

func randMem(r *rand.Rand, n int) []int8 {
	m := make([]int8, n)
	switch r.Intn(3) {
	case 0:
		for i := range m {
			m[i] = int8(r.Intn(256))
		}
	case 1:
		for i := range m {
			m[i] = int8(i*7 + 1)
		}
	default:
		for i := 0; i < n/8; i++ {
			m[r.Intn(n)] = int8(r.Intn(256))
		}
	}
	return m
}

func initRegs(r *rand.Rand, g *gen) map[int]int32 {
	regs := map[int]int32{}
	for _, d := range g.data {
		if r.Intn(4) != 0 {
			regs[d] = hx.Pick32(r)
		}
	}
	return regs
}

// ---- families ---------------------------------------------------------------

// G-alu: straight-line register-only code over many registers.
func genAlu(r *rand.Rand) cpuCase {
	g := newGen(r, 4+r.Intn(10), 64)
	n := 1 + r.Intn(40)
	for i := 0; i < n; i++ {
		g.alu()
	}
	if r.Intn(2) == 0 {
		g.emit("ret")
	}
	return cpuCase{family: "alu", text: g.text(), regs: initRegs(r, g), memSize: 64, mem: make([]int8, 64)}
}

// G-dep: few registers, so that chains, fans, WAW and WAR pairs are in flight together;
// producers of mixed latency (loads) when mem is true.
func genDep(r *rand.Rand, mem bool) cpuCase {
	ms := 512
	g := newGen(r, 2+r.Intn(3), ms)
	if mem {
		g.prologue(1)
	}
	n := 3 + r.Intn(30)
	for i := 0; i < n; i++ {
		if mem && r.Intn(4) == 0 {
			g.memOp(r.Intn(3) == 0, -1)
		} else if !mem && r.Intn(9) == 0 {
			// a conditional branch whose operands were written by the instructions right before it (RAW into a
			// branch): it skips one instruction or not, by data
			l := g.label()
			a, b := g.reg(), g.reg()
			g.emit("addi %s, %s, %d", b, g.srcReg(), g.smallImm())
			g.emit("%s %s, %s, %s", []string{"beq", "bne", "blt", "bge", "bltu", "bgeu"}[r.Intn(6)], a, b, l)
			g.alu()
			g.place(l)
		} else {
			g.alu()
		}
	}
	if r.Intn(2) == 0 {
		g.emit("ret")
	}
	fam := "dep"
	if mem {
		fam = "dep-mem"
	}
	return cpuCase{family: fam, text: g.text(), regs: initRegs(r, g), memSize: ms, mem: randMem(r, ms)}
}

// G-mem: loads/stores over a memory larger than every cache, strides, re-reads after eviction.
func genMem(r *rand.Rand) cpuCase {
	ms := []int{2048, 4096, 8192, 16384}[r.Intn(4)]
	g := newGen(r, 3+r.Intn(5), ms)
	g.prologue(1 + r.Intn(3))
	n := 10 + r.Intn(60)
	stride := []int{4, 64, 68, 128, 132, 256}[r.Intn(6)]
	for i := 0; i < n && g.nInstr < 230; i++ {
		switch r.Intn(10) {
		case 0:
			// move a base register by a stride (stays in range: wrap by re-loading)
			b := g.breg()
			g.emit("addi %s, %s, %d", b, b, stride)
			g.emit("andi %s, %s, %d", b, b, (ms/2-1)&^3)
		case 1, 2:
			g.alu()
		default:
			g.memOp(r.Intn(2) == 0, -1)
		}
	}
	if r.Intn(2) == 0 {
		g.emit("ret")
	}
	return cpuCase{family: "mem", text: g.text(), regs: initRegs(r, g), memSize: ms, mem: randMem(r, ms)}
}

// body emits a mixed block.
func (g *gen) body(n int, mem bool) {
	for i := 0; i < n && g.nInstr < 235; i++ {
		if mem && g.r.Intn(4) == 0 {
			g.memOp(g.r.Intn(2) == 0, -1)
		} else {
			g.alu()
		}
	}
}

// G-br: forward/backward branches with bounded loops, j/jal/jalr, branch to the end label.
func genBr(r *rand.Rand, mem bool) cpuCase {
	ms := 1024
	g := newGen(r, 3+r.Intn(6), ms)
	if mem {
		g.prologue(1 + r.Intn(2))
	}
	blocks := 1 + r.Intn(5)
	useEnd := false
	for b := 0; b < blocks && g.nInstr < 200; b++ {
		switch r.Intn(6) {
		case 0: // counted loop
			cnt := regNames[26+r.Intn(2)] // s10/s11
			l := g.label()
			g.emit("li %s, %d", cnt, 1+r.Intn(4))
			g.place(l)
			g.body(1+r.Intn(5), mem)
			g.emit("addi %s, %s, -1", cnt, cnt)
			g.emit("bnez %s, %s", cnt, l)
		case 1: // forward conditional branch over a block (two-register form)
			l := g.label()
			g.emit("%s %s, %s, %s", br2[r.Intn(len(br2))], g.srcReg(), g.srcReg(), l)
			g.body(1+r.Intn(4), mem)
			g.place(l)
		case 2: // beqz / bnez
			l := g.label()
			g.emit("%s %s, %s", []string{"beqz", "bnez"}[r.Intn(2)], g.srcReg(), l)
			g.body(1+r.Intn(4), mem)
			g.place(l)
		case 3: // unconditional forward jump (j / jal)
			l := g.label()
			if r.Intn(2) == 0 {
				g.emit("j %s", l)
			} else {
				g.emit("jal %s, %s", []string{"zero", "ra", g.reg()}[r.Intn(3)], l)
			}
			g.body(r.Intn(3), mem) // dead code
			g.place(l)
		case 4: // computed jump: li t, addr ; jalr rd, t, 0 — target = the instruction after the dead block
			t := g.reg()
			dead := r.Intn(3)
			target := 4 * (g.nInstr + 2 + dead*1)
			// dead instructions are single-instruction ALU ops so that the address is exact
			g.emit("li %s, %d", t, target)
			g.emit("jalr %s, %s, 0", []string{"zero", "ra", g.reg()}[r.Intn(3)], t)
			for i := 0; i < dead; i++ {
				g.emit("addi %s, %s, %d", g.dstReg(), g.srcReg(), g.smallImm())
			}
		default: // conditional branch to the end label
			useEnd = true
			g.emit("%s %s, %s, end", br2[r.Intn(len(br2))], g.srcReg(), g.srcReg())
			g.body(1+r.Intn(3), mem)
		}
	}
	g.body(r.Intn(4), mem)
	if r.Intn(2) == 0 {
		g.emit("ret")
	}
	if useEnd {
		g.place("end")
	}
	fam := "br"
	if mem {
		fam = "br-mem"
	}
	return cpuCase{family: fam, text: g.text(), regs: initRegs(r, g), memSize: ms, mem: randMem(r, ms)}
}

// G-shadow: taken branches and jumps whose shadow (the next 1–4 slots) holds register writes,
// stores, loads from any address (also out of range), jal, div by zero, an undefined label, a second
// branch; slow conditions (fed by a load) so the shadow gets far before the branch resolves.
func genShadow(r *rand.Rand) cpuCase { return genShadowK(r, false, false) }

// shadow-reg: the same, with register-only shadows (register writes, jal, a second branch) and
// fast or ALU-delayed conditions: no memory access, no instruction that can fail.
func genShadowK(r *rand.Rand, regOnly bool, retShadow bool) cpuCase {
	ms := 1024
	g := newGen(r, 3+r.Intn(4), ms)
	if !regOnly {
		g.prologue(1)
	}
	far := g.label() // placed before the final body: the target of wrong-path jumps that differ from the branch target
	n := 1 + r.Intn(3)
	for k := 0; k < n && g.nInstr < 200; k++ {
		g.body(r.Intn(3), false)
		l := g.label()
		c := g.reg()
		slow := r.Intn(2) == 0
		direct := false
		if retShadow {
			slow = true
		}
		if slow && regOnly {
			// a chain of multiplications delays the condition a little
			g.emit("mul %s, %s, %s", c, g.srcReg(), g.srcReg())
			g.emit("sub %s, %s, %s", c, c, c)
		} else if slow && !regOnly && r.Intn(3) != 0 {
			// the branch reads the loaded value itself (issued with forwarding right behind the load); taken or not by data
			g.emit("lw %s, %d(%s)", c, r.Intn(48)*4, g.breg())
			g.emit("%s %s, %s", []string{"bnez", "beqz", "bnez"}[r.Intn(3)], c, l)
			direct = true
		} else if slow {
			g.emit("lw %s, %d(%s)", c, r.Intn(48)*4, g.breg())
			g.emit("sub %s, %s, %s", c, c, c) // c = 0, but only known after the load
		} else {
			g.emit("li %s, 0", c)
		}
		switch sel := r.Intn(3); {
		case direct:
		case sel == 0:
			g.emit("beqz %s, %s", c, l)
		case sel == 1:
			g.emit("beq %s, zero, %s", c, l)
		default:
			if slow {
				g.emit("bge zero, %s, %s", c, l)
			} else {
				g.emit("j %s", l)
			}
		}
		// the shadow: never executed architecturally
		sh := 1 + r.Intn(4)
		if slow && !regOnly && !retShadow && r.Intn(2) == 0 {
			// a long-latency wrong-path instruction FOLLOWED by a wrong-path jump elsewhere: the jump proposes a flush
			// while the older branch is still unresolved and the wrong-path load is still in flight
			g.emit("lw %s, %d(%s)", g.reg(), r.Intn(48)*4, g.breg())
			g.emit("j %s", far)
			sh = r.Intn(2)
		}
		for i := 0; i < sh; i++ {
			pick := r.Intn(11)
			if regOnly {
				pick = []int{0, 1, 5, 8, 0, 1, 9}[r.Intn(7)]
			}
			if retShadow {
				// load-fed (slow) condition; the shadow holds only register writes and a `ret` that must not end the run
				pick = []int{0, 1, 9, 9}[r.Intn(4)]
			}
			switch pick {
			case 0:
				g.emit("li %s, %d", g.reg(), g.imm())
			case 1:
				g.emit("addi %s, %s, %d", g.reg(), g.srcReg(), 1+r.Intn(9))
			case 2:
				g.memOp(true, -1)
			case 3:
				g.memOp(false, -1)
			case 4:
				g.emit("lw %s, %d(zero)", g.reg(), (ms+4*r.Intn(1000))&^3) // out of range on the wrong path only
			case 5:
				g.emit("jal %s, %s", []string{"ra", g.reg()}[r.Intn(2)], l)
			case 6:
				g.emit("div %s, %s, zero", g.reg(), g.srcReg())
			case 7:
				g.emit("j nowhere")
			case 9:
				g.emit("ret")
			case 10:
				g.emit("j %s", far)
			default:
				g.emit("beqz zero, %s", l)
			}
		}
		g.place(l)
	}
	g.place(far)
	g.body(1+r.Intn(3), false)
	if r.Intn(2) == 0 {
		g.emit("ret")
	}
	fam := "shadow"
	if regOnly {
		fam = "shadow-reg"
	}
	if retShadow {
		fam = "shadow-ret"
	}
	return cpuCase{family: fam, text: g.text(), regs: initRegs(r, g), memSize: ms, mem: randMem(r, ms)}
}

// G-tail: the last instructions before ret / before the end are cache-missing loads, stores to
// uncached lines, dependent chains; reached by fall-through.
func genTail(r *rand.Rand) cpuCase {
	ms := 4096
	g := newGen(r, 3+r.Intn(4), ms)
	g.prologue(2)
	g.body(r.Intn(6), r.Intn(2) == 0)
	t := 1 + r.Intn(3)
	if r.Intn(4) == 0 {
		// a store that misses, a store that hits a cached line (it produces no write-back entry), then one last
		// register result, then the end: the result sits behind a busy write unit when the pipeline looks empty
		b := g.breg()
		g.emit("lw %s, %d(%s)", g.reg(), 192+r.Intn(16)*4, b) // cache the line of the second store
		g.body(r.Intn(2), false)
		g.emit("sw %s, %d(%s)", g.srcReg(), 1024+r.Intn(64)*4, b)
		g.emit("sw %s, %d(%s)", g.srcReg(), 192+r.Intn(16)*4, b)
		t = 1
	}
	for i := 0; i < t; i++ {
		switch r.Intn(4) {
		case 0:
			g.memOp(false, -1)
		case 1:
			g.memOp(true, -1)
		case 2:
			d := g.reg()
			g.emit("lw %s, %d(%s)", d, r.Intn(48)*4, g.breg())
			g.emit("addi %s, %s, %d", g.reg(), d, g.smallImm())
		default:
			g.alu()
		}
	}
	if r.Intn(2) == 0 {
		g.emit("ret")
	}
	return cpuCase{family: "tail", text: g.text(), regs: initRegs(r, g), memSize: ms, mem: randMem(r, ms)}
}

// G-pair: load/store pairs at distance 1..8 to the same byte / word / line through independent
// address registers (no register dependence between the two).
func genPair(r *rand.Rand) cpuCase {
	ms := 2048
	g := newGen(r, 4+r.Intn(4), ms)
	g.prologue(2)
	// make the two base registers point to the same line
	g.emit("mv %s, %s", regNames[g.base[1]], regNames[g.base[0]])
	g.body(r.Intn(3), false)
	pairs := 1 + r.Intn(3)
	for p := 0; p < pairs && g.nInstr < 200; p++ {
		off := r.Intn(48) * 4
		kind := r.Intn(3) // 0: store→load, 1: load→store, 2: store→store
		d := 1 + r.Intn(8)
		b0, b1 := regNames[g.base[0]], regNames[g.base[1]]
		first := func() {
			switch kind {
			case 0, 2:
				g.emit("sw %s, %d(%s)", g.srcReg(), off, b0)
			default:
				g.emit("lw %s, %d(%s)", g.dstReg(), off, b0)
			}
		}
		second := func() {
			delta := []int{0, 0, 0, 1, 2, 3, 4, 60}[r.Intn(8)]
			switch kind {
			case 0:
				if delta%4 == 0 {
					g.emit("lw %s, %d(%s)", g.dstReg(), off+delta, b1)
				} else {
					g.emit("lb %s, %d(%s)", g.dstReg(), off+delta, b1)
				}
			default:
				if delta%4 == 0 {
					g.emit("sw %s, %d(%s)", g.srcReg(), off+delta, b1)
				} else {
					g.emit("sb %s, %d(%s)", g.srcReg(), off+delta, b1)
				}
			}
		}
		first()
		for i := 1; i < d; i++ {
			g.emit("addi %s, %s, %d", g.dstReg(), g.srcReg(), g.smallImm())
		}
		second()
	}
	g.body(r.Intn(3), false)
	if r.Intn(2) == 0 {
		g.emit("ret")
	}
	return cpuCase{family: "pair", text: g.text(), regs: initRegs(r, g), memSize: ms, mem: randMem(r, ms)}
}

// G-err: programs that reach a defined error (division by zero, undefined label) on the
// architectural path.
func genErr(r *rand.Rand) cpuCase {
	ms := 256
	g := newGen(r, 3+r.Intn(4), ms)
	g.body(r.Intn(6), false)
	switch r.Intn(4) {
	case 0:
		g.emit("div %s, %s, zero", g.reg(), g.srcReg())
	case 1:
		z := g.reg()
		g.emit("sub %s, %s, %s", z, z, z)
		g.emit("rem %s, %s, %s", g.reg(), g.srcReg(), z)
	case 2:
		g.emit("j nowhere")
	default:
		g.emit("beq zero, zero, nowhere")
	}
	g.body(r.Intn(4), false)
	g.emit("ret")
	return cpuCase{family: "err", text: g.text(), regs: initRegs(r, g), memSize: ms, mem: make([]int8, ms)}
}

// G-evict: a store that HITS the data cache (its line was loaded first), then a counted loop that
// walks over more distinct lines than any first-level cache holds (stride 64 or 128, 20-70 lines), then
// the dirty line is read again: a dirty victim must have been written back (C05).
func genEvict(r *rand.Rand) cpuCase {
	if r.Intn(4) == 0 {
		return genEvictPartial(r)
	}
	ms := 16384
	g := newGen(r, 3+r.Intn(3), ms)
	g.base = []int{9, 20}
	a := r.Intn(32) * 64
	g.emit("li s1, %d", a)
	g.emit("li s4, %d", 4096+r.Intn(64)*64)
	off := r.Intn(16) * 4
	g.emit("lw %s, %d(s1)", g.reg(), off) // bring the line in
	n := 1 + r.Intn(3)
	for i := 0; i < n; i++ { // dirty it (hits)
		g.emit("%s %s, %d(s1)", []string{"sw", "sb"}[r.Intn(2)], g.srcReg(), r.Intn(16)*4)
	}
	stride := []int{64, 128, 192}[r.Intn(3)]
	lines := 18 + r.Intn(50)
	g.emit("li s10, %d", lines)
	l := g.label()
	g.place(l)
	g.emit("%s %s, %d(s4)", []string{"lw", "lb", "lh"}[r.Intn(3)], g.reg(), r.Intn(8)*4)
	if r.Intn(3) == 0 {
		g.emit("sw %s, %d(s4)", g.srcReg(), r.Intn(8)*4) // more dirty lines
	}
	g.emit("addi s4, s4, %d", stride)
	g.emit("andi s4, s4, %d", ms-1-63)
	g.emit("addi s10, s10, -1")
	g.emit("bnez s10, %s", l)
	g.emit("lw %s, %d(s1)", g.reg(), off) // read the (evicted) dirty line again
	g.body(r.Intn(3), false)
	if r.Intn(2) == 0 {
		g.emit("ret")
	}
	return cpuCase{family: "evict", text: g.text(), regs: initRegs(r, g), memSize: ms, mem: randMem(r, ms)}
}

// G-jumps: many DISTINCT unconditional jumps (more than a branch target buffer holds), some taken
// repeatedly inside a loop, with link registers that are read afterwards.
func genJumps(r *rand.Rand) cpuCase {
	ms := 256
	g := newGen(r, 3+r.Intn(4), ms)
	loop := r.Intn(2) == 0
	var top string
	if loop {
		g.emit("li s10, %d", 2+r.Intn(3))
		top = g.label()
		g.place(top)
	}
	k := 5 + r.Intn(6)
	for i := 0; i < k && g.nInstr < 200; i++ {
		l := g.label()
		switch r.Intn(3) {
		case 0:
			g.emit("j %s", l)
		case 1:
			rd := g.reg()
			g.emit("jal %s, %s", rd, l)
			g.body(r.Intn(2), false) // dead
			g.place(l)
			g.emit("addi %s, %s, %d", g.reg(), rd, g.smallImm()) // the link value is used
			continue
		default:
			t := g.reg()
			g.emit("li %s, %d", t, 4*(g.nInstr+2))
			g.emit("jalr %s, %s, 0", []string{"zero", g.reg()}[r.Intn(2)], t)
			g.body(r.Intn(2), false)
			continue
		}
		g.body(r.Intn(2), false) // dead code
		g.place(l)
		g.body(r.Intn(2), false)
	}
	if loop {
		g.emit("addi s10, s10, -1")
		g.emit("bnez s10, %s", top)
	}
	if r.Intn(2) == 0 {
		g.emit("ret")
	}
	return cpuCase{family: "jumps", text: g.text(), regs: initRegs(r, g), memSize: ms, mem: make([]int8, ms)}
}

// G-calls: a small function called from two or three sites with `jal ra, f` and returning with
// `jalr zero, ra, 0` (the same jalr sees different targets), optionally inside a counted loop.
func genCalls(r *rand.Rand) cpuCase {
	ms := 256
	g := newGen(r, 3+r.Intn(4), ms)
	f := g.label()
	done := g.label()
	sites := 2 + r.Intn(2)
	loop := r.Intn(2) == 0
	var top string
	if loop {
		g.emit("li s10, %d", 2+r.Intn(2))
		top = g.label()
		g.place(top)
	}
	f2 := g.label() // second entry point, directly at the return instruction
	for i := 0; i < sites; i++ {
		g.body(r.Intn(3), false)
		if r.Intn(3) == 0 {
			g.emit("jal ra, %s", f2) // the return's operand comes straight from this jal (forwarded)
		} else {
			g.emit("jal ra, %s", f)
		}
		g.body(1+r.Intn(2), false)
	}
	if loop {
		g.emit("addi s10, s10, -1")
		g.emit("bnez s10, %s", top)
	}
	g.emit("j %s", done)
	g.place(f)
	g.body(r.Intn(4), false)
	if r.Intn(2) == 0 {
		g.emit("mv %s, ra", g.reg())
	}
	g.place(f2)
	g.emit("jalr zero, ra, 0")
	g.place(done)
	g.body(r.Intn(3), false)
	if r.Intn(2) == 0 {
		g.emit("ret")
	}
	return cpuCase{family: "calls", text: g.text(), regs: initRegs(r, g), memSize: ms, mem: make([]int8, ms)}
}

// G-loops: a counted loop whose body is a short dependent chain over 2-3 registers (every R-type and
// I-type operation, `sub` and `mv` included), so that one instruction is executed several times, some
// times with and some times without a forwarded operand.
func genLoops(r *rand.Rand) cpuCase {
	ms := 256
	g := newGen(r, 2+r.Intn(2), ms)
	g.body(r.Intn(3), false)
	g.emit("li s10, %d", 2+r.Intn(5))
	top := g.label()
	g.place(top)
	n := 2 + r.Intn(5)
	for i := 0; i < n; i++ {
		switch r.Intn(4) {
		case 0:
			g.emit("sub %s, %s, %s", g.reg(), g.reg(), g.reg())
		case 1:
			g.emit("%s %s, %s, %s", aluR[r.Intn(len(aluR))], g.reg(), g.reg(), g.reg())
		case 2:
			g.emit("%s %s, %s, %d", aluI[r.Intn(len(aluI))], g.reg(), g.reg(), g.smallImm())
		default:
			g.emit("mv %s, %s", g.reg(), g.reg())
		}
	}
	if r.Intn(3) == 0 {
		g.emit("nop")
	}
	g.emit("addi s10, s10, -1")
	g.emit("bnez s10, %s", top)
	g.body(r.Intn(3), false)
	if r.Intn(2) == 0 {
		g.emit("ret")
	}
	return cpuCase{family: "loops", text: g.text(), regs: initRegs(r, g), memSize: ms, mem: make([]int8, ms)}
}

// G-dispatch: computed dispatch — the SAME jalr is reached once through a jump (its operand was written long
// before and is read from the register file) and once by fall-through (operand written in the previous cycle:
// forwarded), with different targets. Every register is written at most once per >= 12 executed instructions
// (fillers use distinct registers), so the program stays outside the renaming window of KF-ooo-rename.
func genDispatch(r *rand.Rand) cpuCase {
	ms := 64
	g := newGen(r, 16, ms)
	regs := append([]int{}, g.data...)
	nm := func(i int) string { return regNames[regs[i]] }
	t, x := nm(0), nm(1)
	pre := r.Intn(3)
	for i := 0; i < pre; i++ {
		g.emit("addi %s, zero, %d", nm(13+i), g.smallImm())
	}
	nf := 9 + r.Intn(3)
	s0 := g.nInstr
	pl, xl, l1 := g.label(), g.label(), g.label()
	g.emit("li %s, %d", t, 4*(s0+5))
	g.emit("j %s", xl)
	g.place(pl)
	g.emit("li %s, %d", t, 4*(s0+8+nf))
	g.place(xl)
	g.emit("jalr zero, %s, 0", t)
	g.emit("addi %s, zero, 99", nm(12))
	g.place(l1)
	g.emit("addi %s, %s, 1", x, x)
	for i := 0; i < nf; i++ {
		if r.Intn(2) == 0 {
			g.emit("addi %s, zero, %d", nm(2+i%10), g.smallImm())
		} else {
			g.emit("add %s, %s, %s", nm(2+i%10), x, t)
		}
	}
	g.emit("j %s", pl)
	g.emit("addi %s, zero, 98", nm(12))
	post := r.Intn(3)
	for i := 0; i < post; i++ {
		g.emit("add %s, %s, %s", nm(13+i), x, nm(2+i))
	}
	if r.Intn(2) == 0 {
		g.emit("ret")
	}
	return cpuCase{family: "dispatch", text: g.text(), regs: initRegs(r, g), memSize: ms, mem: make([]int8, ms)}
}

// G-stream: loads and stores that never share a 64-byte line (so no memory dependence exists between them):
// mode 0 keeps storing to one or two fixed lines (region [0,2048), possibly the upper half of a 128-byte block)
// while loads stream over 20-60 distinct lines of [4096,16384); mode 1 streams the stores and keeps loading one
// fixed line. Capacity evictions of clean and dirty lines from every cache level, the final write-back, and
// the last value stored to each byte are what the final memory image shows (C05/C06/C09).
func genStream(r *rand.Rand) cpuCase {
	ms := 16384
	g := newGen(r, 3+r.Intn(3), ms)
	g.base = []int{9, 20}
	fixed := r.Intn(32) * 64
	fixed2 := (fixed + 64*(1+r.Intn(8))) % 2048
	g.emit("li s1, %d", fixed)
	sbase := 4096 + r.Intn(16)*64
	g.emit("li s4, %d", sbase)
	stride := []int{64, 128, 192}[r.Intn(3)]
	n := 20 + r.Intn(41)
	if mx := (ms - 128 - sbase) / stride; n > mx {
		n = mx
	}
	mode := r.Intn(2)
	g.emit("li s10, %d", n)
	l := g.label()
	g.place(l)
	src := func() string {
		if r.Intn(2) == 0 {
			return "s10"
		}
		return g.srcReg()
	}
	st := func() string { return []string{"sw", "sb", "sh"}[r.Intn(3)] }
	ld := func() string { return []string{"lw", "lb", "lh"}[r.Intn(3)] }
	store := func(off int, base string) {
		if op := st(); op == "sh" { // the simulator's `sh` takes three operands
			g.emit("sh %s, %d, %s", src(), off, base)
		} else {
			g.emit("%s %s, %d(%s)", op, src(), off, base)
		}
	}
	if mode == 0 {
		store(r.Intn(16)*4, "s1")
		if r.Intn(3) == 0 {
			store(fixed2-fixed+r.Intn(16)*4, "s1")
		}
		g.emit("%s %s, %d(s4)", ld(), g.reg(), r.Intn(16)*4)
	} else {
		store(r.Intn(16)*4, "s4")
		g.emit("%s %s, %d(s1)", ld(), g.reg(), r.Intn(16)*4)
	}
	if r.Intn(3) == 0 {
		g.alu()
	}
	g.emit("addi s4, s4, %d", stride)
	g.emit("addi s10, s10, -1")
	g.emit("bnez s10, %s", l)
	g.body(r.Intn(3), false)
	if r.Intn(2) == 0 {
		g.emit("ret")
	}
	return cpuCase{family: "stream", text: g.text(), regs: initRegs(r, g), memSize: ms, mem: randMem(r, ms)}
}

// G-pingpong: control flow that leaves the instruction-fetch window on (nearly) every instruction: two blocks of
// k >= 18 jumps, A_i: j B_i and B_i: j A_{i+1} (the blocks are further apart than any fetch buffer / line is long),
// so every fetch is a non-sequential miss (C12: MVP-2 must still not be slower than MVP-1; C07/C01 as usual).
func genPingpong(r *rand.Rand) cpuCase {
	ms := 64
	g := newGen(r, 4, ms)
	k := 18 + r.Intn(8)
	a := make([]string, k+1)
	b := make([]string, k)
	for i := range a {
		a[i] = g.label()
	}
	for i := range b {
		b[i] = g.label()
	}
	if r.Intn(2) == 0 {
		g.alu()
	}
	for i := 0; i < k; i++ {
		g.place(a[i])
		g.emit("j %s", b[i])
	}
	for i := 0; i < k; i++ {
		g.place(b[i])
		if r.Intn(4) == 0 {
			g.emit("jal %s, %s", g.reg(), a[i+1])
		} else {
			g.emit("j %s", a[i+1])
		}
	}
	g.place(a[k])
	g.body(r.Intn(3), false)
	if r.Intn(2) == 0 {
		g.emit("ret")
	}
	return cpuCase{family: "pingpong", text: g.text(), regs: initRegs(r, g), memSize: ms, mem: make([]int8, ms)}
}

// the memory size is NOT a multiple of the line size: the last, partial line is loaded, stored to (hits), evicted
// by a walk over more lines than the first-level cache holds, and read again.
func genEvictPartial(r *rand.Rand) cpuCase {
	rem := 4 * (1 + r.Intn(15))
	nl := 17 + r.Intn(24)
	ms := 64*nl + rem
	g := newGen(r, 3+r.Intn(3), ms)
	g.base = []int{9, 20}
	g.emit("li s1, %d", 64*nl)
	g.emit("li s4, 0")
	off := 4 * r.Intn(rem/4)
	g.emit("lw %s, %d(s1)", g.reg(), off)
	for i := 0; i < 1+r.Intn(2); i++ {
		g.emit("%s %s, %d(s1)", []string{"sw", "sb"}[r.Intn(2)], g.srcReg(), 4*r.Intn(rem/4))
	}
	g.emit("li s10, %d", 17+r.Intn(nl-16)) // 17..nl lines from address 0: more than the 16 lines of a first-level cache
	l := g.label()
	g.place(l)
	g.emit("%s %s, %d(s4)", []string{"lw", "lb", "lh"}[r.Intn(3)], g.reg(), r.Intn(8)*4)
	g.emit("addi s4, s4, 64")
	g.emit("addi s10, s10, -1")
	g.emit("bnez s10, %s", l)
	g.emit("lw %s, %d(s1)", g.reg(), off)
	if r.Intn(2) == 0 {
		g.emit("ret")
	}
	return cpuCase{family: "evict", text: g.text(), regs: initRegs(r, g), memSize: ms, mem: randMem(r, ms)}
}

// G-resume: a conditional branch to an out-of-line block that jumps BACK to the instruction after the branch
// (`beqz c, slow ; resume: … ; ret ; slow: … ; j resume`), taken or not by data; register-only.
func genResume(r *rand.Rand) cpuCase {
	ms := 64
	g := newGen(r, 4+r.Intn(3), ms)
	n := 1 + r.Intn(3)
	type blk struct{ slow, resume string }
	var blks []blk
	g.body(r.Intn(3), false)
	for i := 0; i < n; i++ {
		b := blk{g.label(), g.label()}
		blks = append(blks, b)
		c := g.reg()
		switch r.Intn(3) {
		case 0:
			g.emit("beqz %s, %s", c, b.slow)
		case 1:
			g.emit("bnez %s, %s", c, b.slow)
		default:
			g.emit("%s %s, %s, %s", []string{"beq", "bne", "blt", "bge", "bltu", "bgeu"}[r.Intn(6)], c, g.reg(), b.slow)
		}
		g.place(b.resume)
		g.body(1+r.Intn(3), false)
	}
	g.emit("ret")
	for _, b := range blks {
		g.place(b.slow)
		g.body(1+r.Intn(2), false)
		g.emit("j %s", b.resume)
	}
	return cpuCase{family: "resume", text: g.text(), regs: initRegs(r, g), memSize: ms, mem: make([]int8, ms)}
}

func genCase(r *rand.Rand, family string) cpuCase {
	switch family {
	case "resume":
		return genResume(r)
	case "shadow-ret":
		return genShadowK(r, false, true)
	case "pingpong":
		return genPingpong(r)
	case "stream":
		return genStream(r)
	case "dispatch":
		return genDispatch(r)
	case "alu":
		return genAlu(r)
	case "dep":
		return genDep(r, false)
	case "dep-mem":
		return genDep(r, true)
	case "mem":
		return genMem(r)
	case "br":
		return genBr(r, false)
	case "br-mem":
		return genBr(r, true)
	case "shadow":
		return genShadow(r)
	case "shadow-reg":
		return genShadowK(r, true, false)
	case "tail":
		return genTail(r)
	case "pair":
		return genPair(r)
	case "err":
		return genErr(r)
	case "evict":
		return genEvict(r)
	case "jumps":
		return genJumps(r)
	case "calls":
		return genCalls(r)
	case "loops":
		return genLoops(r)
	}
	panic("unknown family " + family)
}

//go:build verif

package main

// Stream c09-rig: request schedules issued directly to the cache controllers of MVP-7.0 / 7.1 / 8 (the rig of
// the C06 hooks, no pipeline in front), run to quiescence, then the end-of-run write-back (`Export`, what the end
// of CPU.Run does). Decided here, on the real code:
//   final:  every byte that exactly ONE core writes holds that core's last written value in ctx.Memory after the
//           write-back; every byte nobody writes holds its initial value (C09: stores reach memory by the end)
//   reads:  a read returns, for every byte only the reading core writes, that core's latest completed write, else
//           the initial value (C10/C05 at the memory-hierarchy level: a load sees the latest preceding store)
// Bytes written by two cores are not judged (the order of racing writes is not defined by the schedule).

import (
	"fmt"
	"os"
	"runtime"
	"strconv"
	"strings"
	"sync"

	"verif/internal/hx"
)

func c09RunRig(vname string, cores int, c c06RigCase, maxCycles int) string {
	rig := c06MkRig(vname, cores, c.MemSize)
	mem := rig.Memory()
	c06RigMemInit(mem)
	init := append([]int8(nil), mem...)
	writers := map[int32]int{} // byte -> core, or -2 when several cores write it
	queues := make([][]c06Op, cores)
	for _, o := range c.Ops {
		if o.Core < 0 || o.Core >= cores || o.Kind == "f" {
			continue
		}
		queues[o.Core] = append(queues[o.Core], o)
		if o.Kind == "w" {
			for i := 0; i < o.Width; i++ {
				a := o.Addr + int32(i)
				if w, ok := writers[a]; ok && w != o.Core {
					writers[a] = -2
				} else if !ok {
					writers[a] = o.Core
				}
			}
		}
	}
	last := map[int32]int8{} // byte -> value of the latest COMPLETED write (single-writer bytes only matter)
	ready := make([]int, cores)
	for k := range ready {
		if len(queues[k]) > 0 {
			ready[k] = 1 + queues[k][0].Delay
		}
	}
	status := "ok"
	badReads := 0
	firstBad := ""
	nReads, nWrites := 0, 0
	cycle := 0
	func() {
		defer func() {
			if rec := recover(); rec != nil {
				d := strings.ReplaceAll(fmt.Sprint(rec), " ", "_")
				if len(d) > 60 {
					d = d[:60]
				}
				status = "panic:" + d
			}
		}()
		for {
			cycle++
			busy := false
			for k := 0; k < cores; k++ {
				if len(queues[k]) > 0 || !rig.Idle(k) {
					busy = true
				}
			}
			if !busy {
				return
			}
			if cycle > maxCycles {
				status = "hang"
				return
			}
			for k := 0; k < cores; k++ {
				rig.Snoop(k)
			}
			for k := 0; k < cores; k++ {
				if len(queues[k]) == 0 || cycle < ready[k] {
					continue
				}
				o := queues[k][0]
				done := false
				addrs := make([]int32, o.Width)
				for i := range addrs {
					addrs[i] = o.Addr + int32(i)
				}
				if o.Kind == "r" {
					var data []int8
					data, done = rig.Read(k, cycle, addrs)
					if done {
						nReads++
						for i, a := range addrs {
							w, written := writers[a]
							if written && w != k {
								continue
							}
							want := init[a]
							if v, ok := last[a]; ok {
								want = v
							}
							if i < len(data) && data[i] != want {
								badReads++
								if firstBad == "" {
									firstBad = fmt.Sprintf("core=%d_cycle=%d_addr=%d_got=%d_want=%d", k, cycle, a, data[i], want)
								}
							}
						}
					}
				} else {
					data := make([]int8, o.Width)
					for i := range data {
						data[i] = int8(o.Val >> (8 * uint(i)))
					}
					done = rig.Write(k, cycle, addrs, data)
					if done {
						nWrites++
						for i, a := range addrs {
							last[a] = data[i]
						}
					}
				}
				if done {
					queues[k] = queues[k][1:]
					if len(queues[k]) > 0 {
						ready[k] = cycle + 1 + queues[k][0].Delay
					}
				}
			}
		}
	}()
	final := "skip"
	if status == "ok" {
		func() {
			defer func() {
				if rec := recover(); rec != nil {
					status = "panic-in-writeback:" + strings.ReplaceAll(fmt.Sprint(rec), " ", "_")
				}
			}()
			rig.Export()
		}()
	}
	if status == "ok" {
		nbad := 0
		first := ""
		for a := range mem {
			w, written := writers[int32(a)]
			if written && w == -2 {
				continue
			}
			want := init[a]
			if v, ok := last[int32(a)]; ok {
				want = v
			}
			if mem[a] != want {
				nbad++
				if first == "" {
					first = fmt.Sprintf("addr=%d_got=%d_want=%d", a, mem[a], want)
				}
			}
		}
		final = "ok"
		if nbad > 0 {
			final = fmt.Sprintf("bad:%d:%s", nbad, first)
		}
	}
	reads := "ok"
	if badReads > 0 {
		reads = fmt.Sprintf("bad:%d:%s", badReads, firstBad)
	}
	return fmt.Sprintf("variant=%s cores=%d status=%s cycles=%d nreads=%d nwrites=%d reads=%s final=%s", vname, cores, status, cycle, nReads, nWrites, reads, final)
}

func c09RigStream(dir string, seed int64, tier string) {
	o := hx.Open(dir, "c09-rig")
	defer o.Close()
	n := 3000
	if tier == "thorough" {
		n *= 10
	}
	if env := os.Getenv("VERIF_C09_RIG_N"); env != "" {
		n, _ = strconv.Atoi(env)
	}
	out := make([][2]string, n)
	var wg sync.WaitGroup
	sem := make(chan struct{}, runtime.NumCPU())
	for i := 0; i < n; i++ {
		wg.Add(1)
		sem <- struct{}{}
		go func(i int) {
			defer wg.Done()
			defer func() { <-sem }()
			r := hx.NewRand(seed*9176 + int64(i)*173 + 9)
			cores := 1 + r.Intn(4)
			c := c06RandRigCase(r, cores, false)
			var rs []string
			for _, v := range c06Variants {
				rs = append(rs, c09RunRig(v, cores, c, 80000))
			}
			out[i] = [2]string{c06RigCaseLine(i, c), fmt.Sprintf("G %d ", i) + strings.Join(rs, " @@ ")}
		}(i)
	}
	wg.Wait()
	for _, l := range out {
		o.Emit(l[0], l[1])
	}
}

func init() {
	streams["c09-rig"] = c09RigStream
}

// c09-rig-file: replay of one rig case. VERIF_CASE_FILE names a text file: line 1 = the `K …` case line of the
// stream, line 2 = the number of cores.
func c09RigFileStream(dir string, seed int64, tier string) {
	o := hx.Open(dir, "c09-rig-file")
	defer o.Close()
	raw, err := os.ReadFile(os.Getenv("VERIF_CASE_FILE"))
	if err != nil {
		panic(err)
	}
	ls := strings.Split(strings.TrimSpace(string(raw)), "\n")
	cores, _ := strconv.Atoi(strings.TrimSpace(ls[1]))
	var c c06RigCase
	for _, f := range strings.Fields(ls[0]) {
		if strings.HasPrefix(f, "memsize=") {
			c.MemSize, _ = strconv.Atoi(f[8:])
		}
		if strings.HasPrefix(f, "ops=") {
			for _, op := range strings.Split(f[4:], ",") {
				p := strings.Split(op, ":")
				if len(p) != 6 {
					continue
				}
				n := func(s string) int { v, _ := strconv.Atoi(s); return v }
				c.Ops = append(c.Ops, c06Op{Core: n(p[0]), Kind: p[1], Addr: int32(n(p[2])), Width: n(p[3]), Delay: n(p[4]), Val: int32(n(p[5]))})
			}
		}
	}
	var rs []string
	for _, v := range c06Variants {
		rs = append(rs, c09RunRig(v, cores, c, 80000))
	}
	o.Emit(ls[0], "G 0 "+strings.Join(rs, " @@ "))
}

func init() {
	streams["c09-rig-file"] = c09RigFileStream
}

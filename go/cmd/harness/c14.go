package main

// C14 — pipeline buses (proc/comp/bus.go, queue.go, broadcast.go) driven through their
// exported API only. Line protocol: see lean/MajoranaVerif/Driver/MainC14.lean.
//
// Streams
//   c14        long seeded random histories: SimpleBus, BufferedBus (queueLength and
//              bufferLength drawn independently from 1..4; ~70 % of the histories have a
//              polite producer that only adds after CanAdd() == true, ~30 % arbitrary,
//              including Revert/DeleteLast and non-monotone cycles), Queue, Broadcast,
//              and a small malformed part (capacities 0/-1, negative cycles, out-of-range
//              listener ids, stale Commit closures).
//   c14-exh    every history of length k over a small alphabet, one history per line.
//   c14-replay executes the lines of <out>/c14-replay.req (replay files, shrinking).
//
// Items are ints: the id of an item is the index of the operation that puts it in,
// counted since the last `new` of that component.

import (
	"bufio"
	"container/list"
	"fmt"
	"math/rand"
	"os"
	"sort"
	"strconv"
	"strings"

	"github.com/teivah/majorana/proc/comp"
	"verif/internal/hx"
)

func init() {
	streams["c14"] = c14Stream
	streams["c14-exh"] = c14Exh
	for i := 0; i < c14Shards; i++ {
		name := fmt.Sprintf("c14-exh-%d", i)
		streams[name] = func(dir string, seed int64, tier string) { c14ExhShard(dir, name, tier, i) }
	}
	streams["c14-replay"] = c14Replay
}

type c14Commit struct {
	id, i int
}

type c14State struct {
	sb     *comp.SimpleBus[int]
	sbN    int
	bb     *comp.BufferedBus[int]
	bbN    int
	bbLast int // last id handed out by Get/Pick, -1 if none
	q      *comp.Queue[int]
	qN     int
	qSeen  map[int]*list.Element
	bc     *comp.Broadcast[int]
	bcHeld map[c14Commit]func()
}

func newC14State() *c14State {
	return &c14State{sb: &comp.SimpleBus[int]{}, bb: comp.NewBufferedBus[int](0, 0), bbLast: -1,
		q: comp.NewQueue[int](0), qSeen: map[int]*list.Element{}, bc: comp.NewBroadcast[int](0),
		bcHeld: map[c14Commit]func(){}}
}

func c14Ids(l []int) string {
	s := make([]string, len(l))
	for i, v := range l {
		s[i] = strconv.Itoa(v)
	}
	return strings.Join(s, ",")
}

func c14Int(s string) int {
	v, err := strconv.Atoi(s)
	if err != nil {
		return 0
	}
	return v
}

func (st *c14State) sbState() string {
	return "e=" + hx.B(st.sb.IsEmpty()) + " ca=" + hx.B(st.sb.CanAdd())
}

func (st *c14State) bbQueue() []int {
	var seen []int
	st.bb.Exists(func(t int) bool { seen = append(seen, t); return false })
	return seen
}

func c14Odd(t int) bool { return t%2 == 1 }

func (st *c14State) bbState() string {
	b := st.bb
	return fmt.Sprintf("q=%s pend=%d rem=%d ca=%s cg=%s e=%s ex=%s", c14Ids(st.bbQueue()), b.PendingRead(),
		b.RemainingToAdd(), hx.B(b.CanAdd()), hx.B(b.CanGet()), hx.B(b.IsEmpty()), hx.B(b.Exists(c14Odd)))
}

func (st *c14State) bbStateC() string {
	b := st.bb
	return fmt.Sprintf("%s/%d,%d/%s%s%s%s", c14Ids(st.bbQueue()), b.PendingRead(), b.RemainingToAdd(),
		hx.B(b.CanAdd()), hx.B(b.CanGet()), hx.B(b.IsEmpty()), hx.B(b.Exists(c14Odd)))
}

func c14Opt(t int, ok bool) string {
	if !ok {
		// the model renders "absent" as `0 0`: the zero value is part of the contract
		return fmt.Sprintf("%d 0", t)
	}
	return fmt.Sprintf("%d 1", t)
}

// sbOp / bbOp: one operation on the real bus; "" = malformed line.
func (st *c14State) sbOp(t []string) (out string) {
	defer func() {
		if r := recover(); r != nil {
			out = "panic"
		}
	}()
	switch {
	case len(t) == 2 && t[0] == "add":
		if c14Int(t[1]) != st.sbN {
			return ""
		}
		st.sbN++
		st.sb.Add(c14Int(t[1]))
		return "ok"
	case len(t) == 2 && t[0] == "tryadd":
		if c14Int(t[1]) != st.sbN {
			return ""
		}
		st.sbN++
		if st.sb.CanAdd() {
			st.sb.Add(c14Int(t[1]))
			return "ok 1"
		}
		return "ok 0"
	case len(t) == 1 && t[0] == "get":
		st.sbN++
		v, ok := st.sb.Get()
		return "ok " + c14Opt(v, ok)
	case len(t) == 1 && t[0] == "flush":
		st.sbN++
		st.sb.Flush()
		return "ok"
	case len(t) == 1 && t[0] == "clean":
		st.sbN++
		st.sb.Clean()
		return "ok"
	}
	return ""
}

func (st *c14State) bbOp(t []string) (out string) {
	defer func() {
		if r := recover(); r != nil {
			out = "panic"
		}
	}()
	switch {
	case len(t) == 3 && t[0] == "add":
		if c14Int(t[1]) != st.bbN {
			return ""
		}
		st.bbN++
		st.bb.Add(c14Int(t[1]), c14Int(t[2]))
		return "ok"
	case len(t) == 3 && t[0] == "tryadd":
		if c14Int(t[1]) != st.bbN {
			return ""
		}
		st.bbN++
		if st.bb.CanAdd() {
			st.bb.Add(c14Int(t[1]), c14Int(t[2]))
			return "ok 1"
		}
		return "ok 0"
	case len(t) == 3 && t[0] == "revert":
		st.bbN++
		st.bb.Revert(c14Int(t[1]), c14Int(t[2]))
		return "ok"
	case len(t) == 1 && t[0] == "dellast":
		st.bbN++
		st.bb.DeleteLast()
		return "ok"
	case len(t) == 1 && t[0] == "get":
		st.bbN++
		v, ok := st.bb.Get()
		if ok {
			st.bbLast = v
		}
		return "ok " + c14Opt(v, ok)
	case len(t) == 3 && t[0] == "pick":
		m, r := c14Int(t[1]), c14Int(t[2])
		if m <= 0 {
			return ""
		}
		st.bbN++
		v, ok := st.bb.Pick(func(x int) bool { return x%m == r })
		if ok {
			st.bbLast = v
		}
		return "ok " + c14Opt(v, ok)
	case len(t) == 2 && t[0] == "connect":
		st.bbN++
		st.bb.Connect(c14Int(t[1]))
		return "ok"
	case len(t) == 1 && t[0] == "clean":
		st.bbN++
		st.bb.Clean()
		return "ok"
	}
	return ""
}

func (st *c14State) qState() string {
	return fmt.Sprintf("len=%d full=%s", st.q.Length(), hx.B(st.q.IsFull()))
}

func (st *c14State) qOp(t []string) (out string) {
	defer func() {
		if r := recover(); r != nil {
			out = "panic"
		}
	}()
	switch {
	case len(t) == 2 && t[0] == "push":
		if c14Int(t[1]) != st.qN {
			return ""
		}
		st.qN++
		st.q.Push(c14Int(t[1]))
		return "ok " + st.qState()
	case len(t) == 1 && t[0] == "iter":
		var vs []int
		for e := range st.q.Iterator() {
			v := st.q.Value(e)
			st.qSeen[v] = e
			vs = append(vs, v)
		}
		return "ok [" + c14Ids(vs) + "] " + st.qState()
	case len(t) == 3 && t[0] == "iterrm":
		m, r := c14Int(t[1]), c14Int(t[2])
		if m <= 0 {
			return ""
		}
		var vs []int
		for e := range st.q.Iterator() {
			v := st.q.Value(e)
			st.qSeen[v] = e
			vs = append(vs, v)
			if v%m == r {
				st.q.Remove(e)
			}
		}
		return "ok [" + c14Ids(vs) + "] " + st.qState()
	case len(t) == 2 && t[0] == "rm":
		// only elements obtained from an earlier iteration can be named (possibly stale)
		e, ok := st.qSeen[c14Int(t[1])]
		if !ok {
			return ""
		}
		st.q.Remove(e)
		return "ok " + st.qState()
	case len(t) == 1 && t[0] == "len":
		return "ok " + st.qState()
	}
	return ""
}

func (st *c14State) bcOp(t []string) (out string) {
	defer func() {
		if r := recover(); r != nil {
			out = "panic"
		}
	}()
	switch {
	case len(t) == 2 && t[0] == "notify":
		st.bc.Notify(c14Int(t[1]))
		return "ok"
	case len(t) == 2 && t[0] == "read":
		id := c14Int(t[1])
		evs := st.bc.Read(id)
		vs := make([]int, len(evs))
		for i, e := range evs {
			vs[i] = e.Data
			st.bcHeld[c14Commit{id, i}] = e.Commit
		}
		return "ok [" + c14Ids(vs) + "]"
	case len(t) == 3 && t[0] == "commit":
		f, ok := st.bcHeld[c14Commit{c14Int(t[1]), c14Int(t[2])}]
		if !ok {
			return ""
		}
		f()
		return "ok"
	}
	return ""
}

// expand a compact token of the exhaustive stream (same table as the Lean driver)
func c14Expand(id int, t string) []string {
	rest := t[1:]
	switch t[0] {
	case 'a':
		return []string{"add", strconv.Itoa(id), rest}
	case 't':
		return []string{"tryadd", strconv.Itoa(id), rest}
	case 'r':
		return append([]string{"revert"}, strings.Split(rest, ":")...)
	case 'd':
		return []string{"dellast"}
	case 'g':
		return []string{"get"}
	case 'p':
		return append([]string{"pick"}, strings.Split(rest, ":")...)
	case 'c':
		return []string{"connect", rest}
	case 'x':
		return []string{"clean"}
	}
	return []string{"?"}
}

func c14SxExpand(id int, t string) []string {
	switch t {
	case "a":
		return []string{"add", strconv.Itoa(id)}
	case "t":
		return []string{"tryadd", strconv.Itoa(id)}
	case "g":
		return []string{"get"}
	case "f":
		return []string{"flush"}
	case "x":
		return []string{"clean"}
	}
	return []string{"?"}
}

// exec runs one protocol line on the real components.
func (st *c14State) exec(line string) (out string) {
	defer func() {
		if r := recover(); r != nil {
			out = "panic"
		}
	}()
	t := strings.Fields(line)
	if len(t) < 2 {
		return "bad-op"
	}
	switch t[0] {
	case "sb":
		if len(t) == 2 && t[1] == "new" {
			st.sb = &comp.SimpleBus[int]{}
			st.sbN = 0
			return "ok " + st.sbState()
		}
		r := st.sbOp(t[1:])
		if r == "" {
			return "bad-op"
		}
		if r == "panic" {
			return r
		}
		return r + " " + st.sbState()
	case "bb":
		if len(t) == 4 && t[1] == "new" {
			st.bb = comp.NewBufferedBus[int](c14Int(t[2]), c14Int(t[3]))
			st.bbN = 0
			st.bbLast = -1
			return fmt.Sprintf("ok in=%d out=%d | %s", st.bb.InLength(), st.bb.OutLength(), st.bbState())
		}
		r := st.bbOp(t[1:])
		if r == "" {
			return "bad-op"
		}
		if r == "panic" {
			return r
		}
		return r + " | " + st.bbState()
	case "bx":
		// a whole history; the answer is that of its LAST operation
		if len(t) < 4 {
			return "bad-op"
		}
		st.bb = comp.NewBufferedBus[int](c14Int(t[1]), c14Int(t[2]))
		st.bbN = 0
		st.bbLast = -1
		r := ""
		for _, tok := range t[3:] {
			r = st.bbOp(c14Expand(st.bbN, tok))
			if r == "" {
				return "bad-op"
			}
			if r == "panic" {
				return r
			}
		}
		return r + " " + st.bbStateC()
	case "sx":
		st.sb = &comp.SimpleBus[int]{}
		st.sbN = 0
		r := ""
		for _, tok := range t[1:] {
			r = st.sbOp(c14SxExpand(st.sbN, tok))
			if r == "" {
				return "bad-op"
			}
			if r == "panic" {
				return r
			}
		}
		return r + " " + st.sbState()
	case "q":
		if len(t) == 3 && t[1] == "new" {
			st.q = comp.NewQueue[int](c14Int(t[2]))
			st.qN = 0
			st.qSeen = map[int]*list.Element{}
			return "ok " + st.qState()
		}
		r := st.qOp(t[1:])
		if r == "" {
			return "bad-op"
		}
		return r
	case "bc":
		if len(t) == 3 && t[1] == "new" {
			st.bcHeld = map[c14Commit]func(){}
			st.bc = comp.NewBroadcast[int](c14Int(t[2]))
			return "ok"
		}
		r := st.bcOp(t[1:])
		if r == "" {
			return "bad-op"
		}
		return r
	}
	return "bad-op"
}

// ---------------------------------------------------------------- random histories

type c14Gen struct {
	o  *hx.Out
	st *c14State
	r  *rand.Rand
}

func (g *c14Gen) do(line string) string {
	out := g.st.exec(line)
	g.o.Emit(line, out)
	return out
}

func (g *c14Gen) bbHistory(ql, bl int, polite bool, n int, wild bool) {
	r := g.r
	g.do(fmt.Sprintf("bb new %d %d", ql, bl))
	cur := r.Intn(4)
	if wild {
		cur = r.Intn(7) - 3
	}
	for i := 0; i < n; i++ {
		id := g.st.bbN
		k := r.Intn(100)
		switch {
		case k < 30:
			if polite || r.Intn(2) == 0 {
				g.do(fmt.Sprintf("bb tryadd %d %d", id, cur))
			} else {
				g.do(fmt.Sprintf("bb add %d %d", id, cur))
			}
		case k < 44:
			g.do(fmt.Sprintf("bb connect %d", cur))
		case k < 60:
			cur++
			g.do(fmt.Sprintf("bb connect %d", cur))
		case k < 80:
			g.do("bb get")
		case k < 89:
			m := 1 + r.Intn(4)
			g.do(fmt.Sprintf("bb pick %d %d", m, r.Intn(m)))
		case k < 91:
			g.do("bb clean")
		case k < 93:
			cur++ // an idle cycle without Connect
		default:
			if polite {
				g.do("bb get")
				break
			}
			switch r.Intn(4) {
			case 0:
				x := g.st.bbLast
				if x < 0 || r.Intn(5) == 0 {
					x = r.Intn(id + 1)
				}
				g.do(fmt.Sprintf("bb revert %d %d", x, cur))
			case 1:
				g.do("bb dellast")
			case 2:
				// a cycle number out of sequence
				g.do(fmt.Sprintf("bb connect %d", cur+r.Intn(7)-3))
			default:
				g.do(fmt.Sprintf("bb add %d %d", id, cur+r.Intn(5)-2))
			}
		}
	}
}

func (g *c14Gen) sbHistory(polite bool, n int) {
	r := g.r
	g.do("sb new")
	for i := 0; i < n; i++ {
		id := g.st.sbN
		k := r.Intn(100)
		switch {
		case k < 42:
			if polite || r.Intn(2) == 0 {
				g.do(fmt.Sprintf("sb tryadd %d", id))
			} else {
				g.do(fmt.Sprintf("sb add %d", id))
			}
		case k < 94:
			g.do("sb get")
		case k < 97:
			g.do("sb flush")
		default:
			g.do("sb clean")
		}
	}
}

func (g *c14Gen) qHistory(capacity int, polite bool, n int) {
	r := g.r
	g.do(fmt.Sprintf("q new %d", capacity))
	for i := 0; i < n; i++ {
		k := r.Intn(100)
		switch {
		case k < 45:
			if polite && g.st.q.IsFull() {
				g.do("q len")
			} else {
				g.do(fmt.Sprintf("q push %d", g.st.qN))
			}
		case k < 60:
			g.do("q iter")
		case k < 85:
			m := 1 + r.Intn(4)
			g.do(fmt.Sprintf("q iterrm %d %d", m, r.Intn(m)))
		default:
			// an element seen by an earlier iteration, possibly already removed
			if len(g.st.qSeen) == 0 {
				g.do("q iter")
				break
			}
			v := r.Intn(g.st.qN + 1)
			if _, ok := g.st.qSeen[v]; ok {
				g.do(fmt.Sprintf("q rm %d", v))
			} else {
				g.do("q len")
			}
		}
	}
}

func (g *c14Gen) bcHistory(count int, n int, wild bool) {
	r := g.r
	if g.do(fmt.Sprintf("bc new %d", count)) != "ok" {
		return
	}
	v := 0
	for i := 0; i < n; i++ {
		k := r.Intn(100)
		switch {
		case k < 35:
			g.do(fmt.Sprintf("bc notify %d", v))
			v++
		case k < 65:
			id := 0
			if count > 0 {
				id = r.Intn(count)
			}
			if wild && r.Intn(6) == 0 || count <= 0 {
				if r.Intn(2) == 0 {
					id = count + r.Intn(2)
				} else {
					id = -1 - r.Intn(2)
				}
			}
			g.do(fmt.Sprintf("bc read %d", id))
		default:
			// any Commit closure we still hold (fresh or stale)
			if len(g.st.bcHeld) == 0 {
				g.do(fmt.Sprintf("bc notify %d", v))
				v++
				break
			}
			keys := make([]c14Commit, 0, len(g.st.bcHeld))
			for k := range g.st.bcHeld {
				keys = append(keys, k)
			}
			sort.Slice(keys, func(a, b int) bool {
				return keys[a].id < keys[b].id || (keys[a].id == keys[b].id && keys[a].i < keys[b].i)
			})
			best := keys[r.Intn(len(keys))]
			g.do(fmt.Sprintf("bc commit %d %d", best.id, best.i))
		}
	}
}

func c14Stream(dir string, seed int64, tier string) {
	o := hx.Open(dir, "c14")
	defer o.Close()
	g := &c14Gen{o: o, st: newC14State(), r: hx.NewRand(seed)}
	r := g.r
	scale := 1
	if tier == "thorough" {
		scale = 12
	}
	// every capacity pair at least once with each producer kind, then random ones
	for ql := 1; ql <= 4; ql++ {
		for bl := 1; bl <= 4; bl++ {
			g.bbHistory(ql, bl, true, 120, false)
			g.bbHistory(ql, bl, false, 120, false)
		}
	}
	for i := 0; i < 420*scale; i++ {
		g.bbHistory(1+r.Intn(4), 1+r.Intn(4), r.Intn(10) < 7, 30+r.Intn(220), false)
	}
	for i := 0; i < 150*scale; i++ {
		g.sbHistory(r.Intn(10) < 7, 20+r.Intn(150))
	}
	for i := 0; i < 120*scale; i++ {
		g.qHistory(1+r.Intn(4), r.Intn(10) < 7, 20+r.Intn(100))
	}
	for i := 0; i < 120*scale; i++ {
		g.bcHistory(1+r.Intn(4), 20+r.Intn(100), false)
	}
	// malformed part: degenerate capacities, wild cycles, out-of-range listeners, junk
	for i := 0; i < 40*scale; i++ {
		g.bbHistory(r.Intn(4)-1, r.Intn(4)-1, r.Intn(2) == 0, 20+r.Intn(60), true)
		g.qHistory(r.Intn(3)-1, r.Intn(2) == 0, 10+r.Intn(30))
		g.bcHistory(r.Intn(4)-1, 10+r.Intn(40), true)
	}
	for _, junk := range []string{"bb", "bb frobnicate", "bb add 0", "bb pick 0 0", "sb add", "q push", "zz top 1", "bb new 1"} {
		g.do(junk)
	}
}

// ------------------------------------------------------------- bounded exhaustive

const c14Shards = 8

// c14Exh: ALL histories of length 1..k, one history per line; the answer is the result of
// the LAST operation and the observable state after it (every proper prefix is a line of
// its own, so every operation of every history is compared).  BufferedBus alphabet (the
// cycle `cur` is part of the enumeration state): A add(cur) | T tryadd(cur) |
// C cur++;connect(cur) | K connect(cur) | G get | P pick(odd) | R revert(last delivered
// id, cur) | D dellast | X clean.  SimpleBus alphabet: a t g f x.
// The work is cut into c14Shards streams `c14-exh-<i>` so that bin/check can run them in
// parallel; `c14-exh` runs all shards into one file.
func c14ExhShard(dir, name string, tier string, shard int) {
	o := hx.Open(dir, name)
	defer o.Close()
	st := newC14State()
	// {queueLength, bufferLength, k}
	caps, ks := [][3]int{{1, 1, 6}, {1, 2, 6}, {2, 1, 6}, {2, 2, 7}}, 9
	if tier == "thorough" {
		ks = 10
		caps = [][3]int{{1, 1, 7}, {1, 2, 7}, {2, 1, 7}, {2, 2, 7}, {3, 3, 7}, {1, 3, 6}, {3, 1, 6}, {4, 4, 6}}
	}
	const alpha = "ATCKGPRDX"
	item := 0
	for _, c := range caps {
		k := c[2]
		seq := make([]byte, k)
		toks := make([]string, 0, k)
		// run executes seq[:d] on a fresh real bus; false if it is not a history of the alphabet
		run := func(d int) (string, bool) {
			st.bb = comp.NewBufferedBus[int](c[0], c[1])
			st.bbN, st.bbLast = 0, -1
			cur := 0
			toks = toks[:0]
			last := ""
			for _, s := range seq[:d] {
				var tok string
				switch s {
				case 'A':
					tok = "a" + strconv.Itoa(cur)
				case 'T':
					tok = "t" + strconv.Itoa(cur)
				case 'C':
					cur++
					tok = "c" + strconv.Itoa(cur)
				case 'K':
					tok = "c" + strconv.Itoa(cur)
				case 'G':
					tok = "g"
				case 'P':
					tok = "p2:1"
				case 'R':
					if st.bbLast < 0 {
						return "", false // nothing to revert yet
					}
					tok = "r" + strconv.Itoa(st.bbLast) + ":" + strconv.Itoa(cur)
				case 'D':
					tok = "d"
				case 'X':
					tok = "x"
				}
				last = st.bbOp(c14Expand(st.bbN, tok))
				toks = append(toks, tok)
				if last == "panic" || last == "" {
					return last, true
				}
			}
			return last + " " + st.bbStateC(), true
		}
		var rec func(d int)
		rec = func(d int) {
			if d > 0 {
				out, ok := run(d)
				if !ok {
					return // prune: extensions are not histories either
				}
				o.Emit("bx "+strconv.Itoa(c[0])+" "+strconv.Itoa(c[1])+" "+strings.Join(toks, " "), out)
			}
			if d == k {
				return
			}
			for i := 0; i < len(alpha); i++ {
				if d == 0 {
					item++
					if (item-1)%c14Shards != shard && shard >= 0 {
						continue
					}
				}
				seq[d] = alpha[i]
				rec(d + 1)
			}
		}
		rec(0)
	}
	const salpha = "atgfx"
	sseq := make([]string, ks)
	var srec func(d int)
	srec = func(d int) {
		if d > 0 {
			line := "sx " + strings.Join(sseq[:d], " ")
			o.Emit(line, st.exec(line))
		}
		if d == ks {
			return
		}
		for i := 0; i < len(salpha); i++ {
			if d == 0 {
				item++
				if (item-1)%c14Shards != shard && shard >= 0 {
					continue
				}
			}
			sseq[d] = salpha[i : i+1]
			srec(d + 1)
		}
	}
	srec(0)
}

func c14Exh(dir string, seed int64, tier string) { c14ExhShard(dir, "c14-exh", tier, -1) }

// ------------------------------------------------------------------------ replay

func c14Replay(dir string, seed int64, tier string) {
	f, err := os.Open(dir + "/c14-replay.req")
	if err != nil {
		fmt.Fprintln(os.Stderr, err)
		os.Exit(2)
	}
	defer f.Close()
	o := hx.Open(dir, "c14-replay")
	defer o.Close()
	st := newC14State()
	sc := bufio.NewScanner(f)
	sc.Buffer(make([]byte, 1<<20), 1<<26)
	for sc.Scan() {
		line := strings.TrimSpace(sc.Text())
		if line == "" {
			continue
		}
		o.Emit(line, st.exec(line))
	}
}

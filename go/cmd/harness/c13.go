package main

// C13 — the line cache (proc/comp/cache.go) and the key-value LRU
// (common/cache/lru.go) driven through long seeded histories, in lock-step with
// the Lean models Model/LineCache.lean and Model/KvLru.lean.
//
// Streams
//   c13        random histories on (lineLen,cacheLen) = (2,6) (4,4) (4,16) (64,1024) (128,4096) and random
//              geometries; "valid" sessions respect the contract of the cache (pushes do not overlap a
//              resident line, carry lineLen bytes, and wait for the pending victim to be evicted; writes stay
//              inside a resident line or hit no line at all), "malformed" sessions do anything.
//              Aliasing is exercised explicitly: `mut` changes a slice that was handed to PushLine earlier,
//              `held` re-reads such a slice (every []int8 the cache returns IS one of them: `a=<k>` names it),
//              `snap`/`chk` keep an ExistingLines()/Lines() result alive and re-read it later.
//   c13-exh    every history of a fixed length over a small alphabet on a 2-line cache of 2-byte lines and 4 bases
//   c13-kv     the generic LRU: capacities 0..4, keys 0..5, Put/Get/Find, with `order` and the key set read
//              by reflection after every call
//   c13-replay runs the sessions found in <out>/c13-replay.req (used by the check to shrink a failing history)

import (
	"bufio"
	"fmt"
	"math/rand"
	"os"
	"reflect"
	"sort"
	"strconv"
	"strings"
	"unsafe"

	"github.com/teivah/majorana/common/cache"
	"github.com/teivah/majorana/proc/comp"
	"verif/internal/hx"
)

func init() {
	streams["c13"] = c13Stream
	streams["c13-exh"] = c13Exh
	streams["c13-kv"] = c13Kv
	streams["c13-replay"] = c13Replay
}

type c13Sess struct {
	o      *hx.Out
	c      *comp.LRUCache
	L, n   int
	pushed [][]int8
	ptr    map[*int8]int
	snaps  [][]comp.Line
}

func c13Data(d []int8) string {
	if len(d) == 0 {
		return "-"
	}
	var sb strings.Builder
	for i, v := range d {
		if i > 0 {
			sb.WriteByte(',')
		}
		sb.WriteString(strconv.Itoa(int(v)))
	}
	return sb.String()
}

func c13Ints(d []int32) string {
	if len(d) == 0 {
		return "-"
	}
	return hx.Join32(d)
}

// alias names the pushed slice a returned slice is (same first element), -1 if none / empty.
func (s *c13Sess) alias(d []int8) int {
	if len(d) == 0 {
		return -1
	}
	if k, ok := s.ptr[unsafe.SliceData(d)]; ok {
		return k
	}
	return -1
}

func (s *c13Sess) line(l comp.Line) string {
	return fmt.Sprintf("%d:%d:%s:%d", l.Boundary[0], l.Boundary[1], c13Data(l.Data), s.alias(l.Data))
}

func (s *c13Sess) lines(ls []comp.Line) string {
	if len(ls) == 0 {
		return "lines -"
	}
	parts := make([]string, len(ls))
	for i, l := range ls {
		parts[i] = s.line(l)
	}
	return "lines " + strings.Join(parts, "|")
}

func (s *c13Sess) call(in string, f func() string) (res string) {
	func() {
		defer func() {
			if r := recover(); r != nil {
				res = "panic"
			}
		}()
		res = f()
	}()
	s.o.Emit(in, res)
	return res
}

func (s *c13Sess) doNew(L, C int, kind string) {
	s.pushed, s.ptr, s.snaps = nil, map[*int8]int{}, nil
	s.L, s.n, s.c = L, 0, nil
	s.call(fmt.Sprintf("new %d %d %s", L, C, kind), func() string {
		s.c = comp.NewLRUCache(L, C)
		s.n = C / L
		return fmt.Sprintf("ok %d", s.n)
	})
}

func (s *c13Sess) register(d []int8) {
	k := len(s.pushed)
	s.pushed = append(s.pushed, d)
	if len(d) > 0 {
		s.ptr[unsafe.SliceData(d)] = k
	}
}

// every slice handed to the cache is a fresh allocation owned by the harness
func (s *c13Sess) doPush(lo int32, d []int8) string {
	d = append(make([]int8, 0, len(d)+1), d...)
	s.register(d)
	return s.call(fmt.Sprintf("push %d %s", lo, c13Data(d)), func() string {
		ev := s.c.PushLine(comp.AlignedAddress(lo), d)
		if ev == nil {
			return "none"
		}
		return fmt.Sprintf("data %s a=%d", c13Data(ev), s.alias(ev))
	})
}

func (s *c13Sess) doPushWarn(lo int32, d []int8) (victim *comp.Line) {
	d = append(make([]int8, 0, len(d)+1), d...)
	s.register(d)
	s.call(fmt.Sprintf("pushw %d %s", lo, c13Data(d)), func() string {
		victim = s.c.PushLineWithEvictionWarning(comp.AlignedAddress(lo), d)
		if victim == nil {
			return "none"
		}
		return fmt.Sprintf("line %d %d %s a=%d", victim.Boundary[0], victim.Boundary[1], c13Data(victim.Data), s.alias(victim.Data))
	})
	return victim
}

func (s *c13Sess) doGet(a int32) string {
	return s.call(fmt.Sprintf("get %d", a), func() string {
		v, ok := s.c.Get(a)
		if !ok {
			return "miss"
		}
		return fmt.Sprintf("hit %d", v)
	})
}

func (s *c13Sess) doGetLine(a int32) string {
	return s.call(fmt.Sprintf("getline %d", a), func() string {
		d, ok := s.c.GetCacheLine(comp.AlignedAddress(a))
		if !ok {
			return "miss"
		}
		return fmt.Sprintf("data %s a=%d", c13Data(d), s.alias(d))
	})
}

func (s *c13Sess) doGetSub(addrs []int32, n int32) string {
	return s.call(fmt.Sprintf("getsub %d %s", n, c13Ints(addrs)), func() string {
		small, d, ok := s.c.GetSubCacheLine(addrs, n)
		if !ok {
			return "miss"
		}
		return fmt.Sprintf("sub %d %s", small, c13Data(d))
	})
}

func (s *c13Sess) doEvict(a int32) string {
	return s.call(fmt.Sprintf("evict %d", a), func() string {
		d, ok := s.c.EvictCacheLine(comp.AlignedAddress(a))
		if !ok {
			return "miss"
		}
		return fmt.Sprintf("data %s a=%d", c13Data(d), s.alias(d))
	})
}

func (s *c13Sess) doWrite(a int32, d []int8) string {
	return s.call(fmt.Sprintf("write %d %s", a, c13Data(d)), func() string {
		s.c.Write(a, d)
		return "ok"
	})
}

func (s *c13Sess) doExisting() string {
	return s.call("existing", func() string { return s.lines(s.c.ExistingLines()) })
}

func (s *c13Sess) doLines() string {
	return s.call("lines", func() string { return s.lines(s.c.Lines()) })
}

func (s *c13Sess) doMut(k, i int, v int8) string {
	return s.call(fmt.Sprintf("mut %d %d %d", k, i, v), func() string {
		s.pushed[k][i] = v
		return "ok"
	})
}

func (s *c13Sess) doHeld(k int) string {
	return s.call(fmt.Sprintf("held %d", k), func() string { return "data " + c13Data(s.pushed[k]) })
}

func (s *c13Sess) doSnap(existing bool) string {
	which := "l"
	if existing {
		which = "e"
	}
	return s.call("snap "+which, func() string {
		var ls []comp.Line
		if existing {
			ls = s.c.ExistingLines()
		} else {
			ls = s.c.Lines()
		}
		s.snaps = append(s.snaps, ls)
		return s.lines(ls)
	})
}

func (s *c13Sess) doChk(j int) string {
	return s.call(fmt.Sprintf("chk %d", j), func() string { return s.lines(s.snaps[j]) })
}

func c13Bytes(r *rand.Rand, n int) []int8 {
	d := make([]int8, n)
	for i := range d {
		d[i] = int8(r.Intn(256) - 128)
	}
	return d
}

// resident line bases, read without touching recency
func (s *c13Sess) resident() []comp.Line { return s.c.Lines() }

func (s *c13Sess) overlaps(lo int32) bool {
	for _, l := range s.c.Lines() {
		if lo < int32(l.Boundary[1]) && int32(l.Boundary[0]) < lo+int32(s.L) {
			return true
		}
	}
	return false
}

// one session that keeps the contract of the cache
func (s *c13Sess) validSession(r *rand.Rand, L, C, nops int) {
	s.doNew(L, C, "valid")
	n := C / L
	nb := n + 1 + r.Intn(3) // a few more bases than lines: evictions are frequent
	origin := int32(r.Intn(4)) * int32(L) * int32(r.Intn(3))
	base := func() int32 { return origin + int32(r.Intn(nb))*int32(L) }
	addr := func() int32 {
		if r.Intn(20) == 0 {
			return origin + int32(r.Intn((nb+2)*L)) - int32(L)
		}
		return base() + int32(r.Intn(L))
	}
	var pending *comp.Line
	evictPending := func() {
		if pending != nil {
			s.doEvict(int32(pending.Boundary[0]))
			pending = nil
		}
	}
	for i := 0; i < nops; i++ {
		if pending != nil && r.Intn(3) != 0 {
			evictPending()
			continue
		}
		switch x := r.Intn(100); {
		case x < 30:
			s.doGet(addr())
		case x < 48: // write inside a resident line (or, rarely, to an address no line contains)
			ls := s.resident()
			if len(ls) == 0 || r.Intn(15) == 0 {
				a := addr()
				if _, ok := s.c.GetCacheLine(comp.AlignedAddress(a)); ok {
					s.doWrite(a, c13Bytes(r, 1))
				} else {
					s.doWrite(a, c13Bytes(r, 1+r.Intn(4)))
				}
				continue
			}
			l := ls[r.Intn(len(ls))]
			off := r.Intn(L)
			maxLen := L - off
			k := 1 + r.Intn(min(maxLen, 8))
			if r.Intn(8) == 0 {
				k = r.Intn(maxLen + 1)
			}
			s.doWrite(int32(l.Boundary[0])+int32(off), c13Bytes(r, k))
		case x < 63:
			if pending != nil {
				evictPending()
				continue
			}
			lo := base()
			if s.overlaps(lo) {
				s.doGet(lo + int32(r.Intn(L)))
				continue
			}
			s.doPush(lo, c13Bytes(r, L))
		case x < 73:
			if pending != nil {
				evictPending()
				continue
			}
			lo := base()
			if s.overlaps(lo) {
				s.doGetLine(lo)
				continue
			}
			pending = s.doPushWarn(lo, c13Bytes(r, L))
		case x < 78:
			a := addr()
			if pending != nil && a >= int32(pending.Boundary[0]) && a < int32(pending.Boundary[1]) {
				pending = nil
			}
			s.doEvict(a)
		case x < 83:
			s.doGetLine(addr())
		case x < 87:
			sub := int32(L)
			for sub > 1 && r.Intn(2) == 0 {
				sub /= 2
			}
			if L%int(sub) != 0 {
				sub = int32(L)
			}
			a := addr()
			s.doGetSub([]int32{a, a + 1}, sub)
		case x < 90:
			if L > 16 && r.Intn(4) != 0 {
				s.doGet(addr())
			} else if r.Intn(2) == 0 {
				s.doExisting()
			} else {
				s.doLines()
			}
		case x < 94:
			if len(s.pushed) > 0 {
				k := len(s.pushed) - 1 - r.Intn(min(len(s.pushed), n+2))
				s.doMut(k, r.Intn(L), int8(r.Intn(256)-128))
			}
		case x < 97:
			if len(s.pushed) > 0 {
				s.doHeld(len(s.pushed) - 1 - r.Intn(min(len(s.pushed), n+3)))
			}
		default:
			if L > 16 && r.Intn(4) != 0 {
				s.doGetLine(addr())
			} else if len(s.snaps) == 0 || r.Intn(3) == 0 {
				s.doSnap(r.Intn(2) == 0)
			} else {
				s.doChk(len(s.snaps) - 1 - r.Intn(min(len(s.snaps), 3)))
			}
		}
	}
	evictPending()
	s.doLines()
}

// one session without any contract: overlapping and unaligned pushes, wrong data lengths, pushes while a
// victim is pending, writes past the end of a line, negative addresses, odd sub-line lengths
func (s *c13Sess) malformedSession(r *rand.Rand, L, C, nops int) {
	s.doNew(L, C, "malformed")
	if s.c == nil {
		return
	}
	n := C / L
	span := (n + 3) * L
	addr := func() int32 { return int32(r.Intn(span+2*L)) - int32(L) }
	dlen := func() int {
		switch r.Intn(6) {
		case 0:
			return r.Intn(L + 3)
		case 1:
			return 0
		}
		return L
	}
	for i := 0; i < nops; i++ {
		switch x := r.Intn(100); {
		case x < 22:
			s.doGet(addr())
		case x < 40:
			s.doWrite(addr(), c13Bytes(r, r.Intn(L+2)))
		case x < 55:
			lo := addr()
			if r.Intn(2) == 0 {
				lo = lo / int32(L) * int32(L)
			}
			s.doPush(lo, c13Bytes(r, dlen()))
		case x < 65:
			lo := addr()
			if r.Intn(2) == 0 {
				lo = lo / int32(L) * int32(L)
			}
			v := s.doPushWarn(lo, c13Bytes(r, dlen()))
			if v != nil && r.Intn(2) == 0 {
				s.doEvict(int32(v.Boundary[0]))
			}
		case x < 72:
			s.doEvict(addr())
		case x < 78:
			s.doGetLine(addr())
		case x < 86:
			var addrs []int32
			if r.Intn(10) != 0 {
				a := addr()
				addrs = []int32{a, a + 1}
			}
			s.doGetSub(addrs, int32(r.Intn(L+3))-1)
		case x < 89:
			s.doExisting()
		case x < 91:
			s.doLines()
		case x < 94:
			if len(s.pushed) > 0 {
				k := r.Intn(len(s.pushed))
				s.doMut(k, r.Intn(L+1), int8(r.Intn(256)-128))
			}
		case x < 96:
			if len(s.pushed) > 0 {
				s.doHeld(r.Intn(len(s.pushed)))
			}
		case x < 98:
			s.doSnap(r.Intn(2) == 0)
		default:
			if len(s.snaps) > 0 {
				s.doChk(r.Intn(len(s.snaps)))
			}
		}
	}
	s.doLines()
}

var c13Geos = [][2]int{{2, 6}, {4, 4}, {4, 16}, {64, 1024}, {128, 4096}}

func c13Stream(dir string, seed int64, tier string) {
	o := hx.Open(dir, "c13")
	defer o.Close()
	r := hx.NewRand(seed)
	s := &c13Sess{o: o}
	budget := 110000
	if tier == "thorough" {
		budget = 1500000
	}
	// bad geometries first
	for _, g := range [][2]int{{0, 4}, {4, 6}, {3, 7}, {4, 0}, {1, 3}} {
		s.doNew(g[0], g[1], "malformed")
		if s.c != nil {
			s.doPush(0, c13Bytes(r, g[0]))
			s.doPush(int32(g[0]), c13Bytes(r, g[0]))
			s.doGet(0)
			s.doLines()
		}
	}
	round := 0
	for o.N < budget {
		var L, C int
		if round%7 < 5 {
			g := c13Geos[round%7]
			L, C = g[0], g[1]
		} else {
			L = 1 + r.Intn(9)
			if r.Intn(3) == 0 {
				L = 1 << uint(r.Intn(6))
			}
			C = L * (1 + r.Intn(6))
		}
		nops := 150 + r.Intn(500)
		if L >= 64 {
			nops = 250 + r.Intn(400)
		}
		if round%5 == 4 {
			if L >= 64 {
				nops /= 3
			}
			s.malformedSession(r, L, C, nops)
		} else {
			s.validSession(r, L, C, nops)
		}
		round++
	}
}

// ---------------------------------------------------------------- exhaustive

// c13Exh: all histories of a fixed length over a small alphabet on NewLRUCache(2, 4) (2 lines of 2 bytes)
// and the bases 0,2,4,6.  A letter whose push would overlap a resident line is replaced by a read of that
// line, so every history keeps the contract; a pushw is followed by the eviction of its victim before the
// next letter.  Each history ends with a dump of the lines.
//
//	quick:    length 5 over 10 letters (push 0/2/4/6, pushw 4, get 1/3/5, evict 2, write 1)
//	thorough: length 6 over the same letters, then length 5 over 14 letters
//	          (push 0/2/4/6, pushw 0/6, get 1/3/5/7, evict 2/4, write 1/3)
type c13Letter struct {
	op string
	a  int32
}

var c13Small = []c13Letter{{"push", 0}, {"push", 2}, {"push", 4}, {"push", 6}, {"pushw", 4},
	{"get", 1}, {"get", 3}, {"get", 5}, {"evict", 2}, {"write", 1}}
var c13Wide = []c13Letter{{"push", 0}, {"push", 2}, {"push", 4}, {"push", 6}, {"pushw", 0}, {"pushw", 6},
	{"get", 1}, {"get", 3}, {"get", 5}, {"get", 7}, {"evict", 2}, {"evict", 4}, {"write", 1}, {"write", 3}}

func c13Exh(dir string, seed int64, tier string) {
	o := hx.Open(dir, "c13-exh")
	defer o.Close()
	s := &c13Sess{o: o}
	if tier == "thorough" {
		s.exhaust(c13Small, 6)
		s.exhaust(c13Wide, 5)
	} else {
		s.exhaust(c13Small, 5)
	}
}

func (s *c13Sess) exhaust(letters []c13Letter, length int) {
	const L, C = 2, 4
	idx := make([]int, length)
	val := int8(1)
	for {
		s.doNew(L, C, "valid")
		var pending *comp.Line
		for _, a := range idx {
			val++
			if val > 120 {
				val = 1
			}
			if pending != nil {
				s.doEvict(int32(pending.Boundary[0]))
				pending = nil
			}
			switch l := letters[a]; l.op {
			case "push":
				if s.overlaps(l.a) {
					s.doGet(l.a)
				} else {
					s.doPush(l.a, []int8{val, -val})
				}
			case "pushw":
				if s.overlaps(l.a) {
					s.doGetLine(l.a)
				} else {
					pending = s.doPushWarn(l.a, []int8{val, -val})
				}
			case "get":
				s.doGet(l.a)
			case "evict":
				s.doEvict(l.a)
			default:
				s.doWrite(l.a, []int8{val})
			}
		}
		if pending != nil {
			s.doExisting()
			s.doEvict(int32(pending.Boundary[0]))
		}
		s.doLines()
		// next word
		i := length - 1
		for i >= 0 {
			idx[i]++
			if idx[i] < len(letters) {
				break
			}
			idx[i] = 0
			i--
		}
		if i < 0 {
			break
		}
	}
}

// -------------------------------------------------------------------- replay

func c13ParseData(s string) []int8 {
	if s == "-" || s == "" {
		return []int8{}
	}
	parts := strings.Split(s, ",")
	d := make([]int8, len(parts))
	for i, p := range parts {
		v, _ := strconv.Atoi(p)
		d[i] = int8(v)
	}
	return d
}

func c13ParseInts(s string) []int32 {
	if s == "-" || s == "" {
		return nil
	}
	parts := strings.Split(s, ",")
	d := make([]int32, len(parts))
	for i, p := range parts {
		v, _ := strconv.Atoi(p)
		d[i] = int32(v)
	}
	return d
}

// c13Exec runs one input line of the c13 protocol on the real cache.
func (s *c13Sess) exec(line string) {
	f := strings.Fields(line)
	num := func(i int) int {
		if i < len(f) {
			v, _ := strconv.Atoi(f[i])
			return v
		}
		return 0
	}
	str := func(i int) string {
		if i < len(f) {
			return f[i]
		}
		return "-"
	}
	if len(f) == 0 {
		return
	}
	if f[0] != "new" && s.c == nil {
		s.o.Emit(line, "panic")
		return
	}
	switch f[0] {
	case "new":
		s.doNew(num(1), num(2), str(3))
	case "push":
		s.doPush(int32(num(1)), c13ParseData(str(2)))
	case "pushw":
		s.doPushWarn(int32(num(1)), c13ParseData(str(2)))
	case "get":
		s.doGet(int32(num(1)))
	case "getline":
		s.doGetLine(int32(num(1)))
	case "getsub":
		s.doGetSub(c13ParseInts(str(2)), int32(num(1)))
	case "evict":
		s.doEvict(int32(num(1)))
	case "write":
		s.doWrite(int32(num(1)), c13ParseData(str(2)))
	case "existing":
		s.doExisting()
	case "lines":
		s.doLines()
	case "mut":
		s.doMut(num(1), num(2), int8(num(3)))
	case "held":
		s.doHeld(num(1))
	case "snap":
		s.doSnap(str(1) == "e")
	case "chk":
		s.doChk(num(1))
	default:
		s.o.Emit(line, "bad-op")
	}
}

func c13Replay(dir string, seed int64, tier string) {
	o := hx.Open(dir, "c13-replay")
	defer o.Close()
	f, err := os.Open(dir + "/c13-replay.req")
	if err != nil {
		return
	}
	defer f.Close()
	s := &c13Sess{o: o}
	k := &c13KvSess{o: o}
	sc := bufio.NewScanner(f)
	sc.Buffer(make([]byte, 1<<20), 1<<26)
	for sc.Scan() {
		line := strings.TrimSpace(sc.Text())
		if line == "" {
			continue
		}
		if strings.HasPrefix(line, "kv") {
			k.exec(line)
		} else {
			s.exec(line)
		}
	}
}

// ------------------------------------------------------------------- kv LRU

type c13KvSess struct {
	o *hx.Out
	c *cache.LRUCache[int, int]
}

// state reads `order` and the key set of the map by reflection (read-only access to unexported fields)
func (k *c13KvSess) state() string {
	v := reflect.ValueOf(k.c).Elem()
	ord := v.FieldByName("order")
	os := make([]string, ord.Len())
	for i := range os {
		os[i] = strconv.FormatInt(ord.Index(i).Int(), 10)
	}
	m := v.FieldByName("cache")
	var keys []int
	it := m.MapRange()
	for it.Next() {
		keys = append(keys, int(it.Key().Int()))
	}
	sort.Ints(keys)
	ks := make([]string, len(keys))
	for i, x := range keys {
		ks[i] = fmt.Sprintf("%d:%d", x, m.MapIndex(reflect.ValueOf(x)).Int())
	}
	j := func(l []string) string {
		if len(l) == 0 {
			return "-"
		}
		return strings.Join(l, ",")
	}
	return "order=" + j(os) + " map=" + j(ks)
}

func (k *c13KvSess) call(in string, f func() string) {
	var res string
	func() {
		defer func() {
			if r := recover(); r != nil {
				res = "panic"
			}
		}()
		res = f()
	}()
	st := "order=? map=?"
	if k.c != nil {
		st = k.state()
	}
	k.o.Emit(in, res+" "+st)
}

func (k *c13KvSess) exec(line string) {
	f := strings.Fields(line)
	num := func(i int) int {
		if i < len(f) {
			v, _ := strconv.Atoi(f[i])
			return v
		}
		return 0
	}
	switch f[0] {
	case "kvnew":
		k.c = nil
		k.call(line, func() string {
			k.c = cache.NewLRUCache[int, int](num(1))
			return "ok"
		})
	case "kvput":
		k.call(line, func() string {
			k.c.Put(num(1), num(2))
			return "ok"
		})
	case "kvget":
		k.call(line, func() string {
			v, ok := k.c.Get(num(1))
			if !ok {
				return "miss"
			}
			return fmt.Sprintf("hit %d", v)
		})
	case "kvfind":
		keys := []int{}
		if len(f) > 1 {
			for _, x := range c13ParseInts(f[1]) {
				keys = append(keys, int(x))
			}
		}
		k.call(line, func() string {
			v, ok := k.c.Find(keys)
			if !ok {
				return "miss"
			}
			return fmt.Sprintf("found %d", v)
		})
	default:
		k.o.Emit(line, "bad-op")
	}
}

func c13Kv(dir string, seed int64, tier string) {
	o := hx.Open(dir, "c13-kv")
	defer o.Close()
	r := hx.NewRand(seed)
	k := &c13KvSess{o: o}
	// exhaustive: all histories of length 5 over put/get/find on 3 keys, capacity 2
	letters := []string{"kvput 0 %d", "kvput 1 %d", "kvput 2 %d", "kvget 0", "kvget 1", "kvget 2", "kvfind 0,1", "kvfind 2", "kvfind 1,2", "kvfind -"}
	length := 4
	if tier == "thorough" {
		length = 6
	}
	idx := make([]int, length)
	val := 0
	for {
		k.exec("kvnew 2")
		for _, a := range idx {
			val++
			l := letters[a]
			if strings.Contains(l, "%d") {
				l = fmt.Sprintf(l, val%100)
			}
			k.exec(l)
		}
		i := length - 1
		for i >= 0 {
			idx[i]++
			if idx[i] < len(letters) {
				break
			}
			idx[i] = 0
			i--
		}
		if i < 0 {
			break
		}
	}
	budget := o.N + 60000
	if tier == "thorough" {
		budget = o.N + 1000000
	}
	for o.N < budget {
		capa := 1 + r.Intn(4)
		if r.Intn(25) == 0 {
			capa = 0
		}
		k.exec(fmt.Sprintf("kvnew %d", capa))
		nops := 20 + r.Intn(200)
		for i := 0; i < nops; i++ {
			switch x := r.Intn(10); {
			case x < 4:
				k.exec(fmt.Sprintf("kvput %d %d", r.Intn(6), r.Intn(100)))
			case x < 7:
				k.exec(fmt.Sprintf("kvget %d", r.Intn(6)))
			default:
				var ks []int32
				for j := 0; j < 6; j++ {
					if r.Intn(3) == 0 {
						ks = append(ks, int32(j))
					}
				}
				r.Shuffle(len(ks), func(a, b int) { ks[a], ks[b] = ks[b], ks[a] })
				k.exec("kvfind " + c13Ints(ks))
			}
		}
	}
}

package main

import (
	"bytes"
	"bufio"
	"encoding/hex"
	"encoding/json"
	"fmt"
	"os"
	"os/exec"
	"runtime"
	"sort"
	"strconv"
	"strings"
	"sync"
	"time"

	"github.com/teivah/majorana/common/latency"
	mvp1 "github.com/teivah/majorana/proc/mvp1"
	mvp2 "github.com/teivah/majorana/proc/mvp2"
	mvp3 "github.com/teivah/majorana/proc/mvp3"
	mvp4 "github.com/teivah/majorana/proc/mvp4"
	mvp5 "github.com/teivah/majorana/proc/mvp5"
	mvp6_0 "github.com/teivah/majorana/proc/mvp6-0"
	mvp6_1 "github.com/teivah/majorana/proc/mvp6-1"
	mvp6_2 "github.com/teivah/majorana/proc/mvp6-2"
	mvp6_3 "github.com/teivah/majorana/proc/mvp6-3"
	mvp7_0 "github.com/teivah/majorana/proc/mvp7-0"
	mvp7_1 "github.com/teivah/majorana/proc/mvp7-1"
	mvp8_0 "github.com/teivah/majorana/proc/mvp8-0"
	"github.com/teivah/majorana/risc"
	"verif/internal/hx"
)

// Whole-CPU streams (C01, C03, C04, C05, C07, C08, C09, C10, C12): every generated
// program runs on every requested variant × parallelism on the REAL code, under a
// tick budget (verif hook Context.VerifTick), `recover`, and a wall-clock watchdog
// (cases run in worker processes, so a tight loop or a fatal runtime error cannot
// block or kill the check). The Lean driver runs Spec.run on the same inputs.

type vm interface {
	Run(app risc.Application) (int, error)
	Context() *risc.Context
}

type variant struct {
	name string
	par  []int // supported parallelism values (0 = not parameterised)
	mk   func(mem, n int) vm
}

var variants = []variant{
	{"mvp1", []int{0}, func(m, n int) vm { return mvp1.NewCPU(false, m) }},
	{"mvp2", []int{0}, func(m, n int) vm { return mvp2.NewCPU(false, m) }},
	{"mvp3", []int{0}, func(m, n int) vm { return mvp3.NewCPU(false, m) }},
	{"mvp4", []int{0}, func(m, n int) vm { return mvp4.NewCPU(false, m) }},
	{"mvp5", []int{0}, func(m, n int) vm { return mvp5.NewCPU(false, m) }},
	{"mvp6-0", []int{1, 2, 3, 4}, func(m, n int) vm { return mvp6_0.NewCPU(false, m, n, n) }},
	{"mvp6-1", []int{1, 2, 3, 4}, func(m, n int) vm { return mvp6_1.NewCPU(false, m, n, n) }},
	{"mvp6-2", []int{1, 2, 3, 4}, func(m, n int) vm { return mvp6_2.NewCPU(false, m, n, n) }},
	{"mvp6-3", []int{1, 2, 3, 4}, func(m, n int) vm { return mvp6_3.NewCPU(false, m, n, n) }},
	{"mvp7-0", []int{1, 2, 3, 4}, func(m, n int) vm { return mvp7_0.NewCPU(false, m, n) }},
	{"mvp7-1", []int{1, 2, 3, 4}, func(m, n int) vm { return mvp7_1.NewCPU(false, m, n) }},
	{"mvp8-0", []int{1, 2, 3, 4}, func(m, n int) vm { return mvp8_0.NewCPU(false, m, n) }},
}

const tickK = 8 // tick budget = tickK · MemoryAccess · (reference steps + 64)

func fnv64(b []int8) uint64 {
	h := uint64(14695981039346656037)
	for _, x := range b {
		h ^= uint64(uint8(x))
		h *= 1099511628211
	}
	return h
}

// refSteps: number of instructions the sequential execution performs (cap-limited), computed
// with the repository's own Run methods. Used ONLY to size the tick budget; the oracle
// for results is the Lean specification.
func refSteps(app risc.Application, c cpuCase, cap int) int {
	defer func() { recover() }()
	ctx := risc.NewContext(false, c.memSize, false)
	copy(ctx.Memory, c.mem)
	for k, v := range c.regs {
		ctx.Registers[risc.RegisterType(k)] = v
	}
	var pc int32
	n := 0
	for pc >= 0 && int(pc/4) < len(app.Instructions) && n < cap {
		r := app.Instructions[pc/4]
		var mem []int8
		for _, a := range r.MemoryRead(ctx, 0) {
			if a < 0 || int(a) >= len(ctx.Memory) {
				return n
			}
			mem = append(mem, ctx.Memory[a])
		}
		exe, err := r.Run(ctx, app.Labels, pc, mem, 0)
		n++
		if err != nil || exe.Return {
			return n
		}
		if exe.RegisterChange {
			ctx.WriteRegister(exe)
		}
		if exe.MemoryChange {
			for a := range exe.MemoryChanges {
				if a < 0 || int(a) >= len(ctx.Memory) {
					return n
				}
			}
			ctx.WriteMemory(exe)
		}
		if exe.PcChange {
			pc = exe.NextPc
		} else {
			pc += 4
		}
	}
	return n
}

type runResult struct {
	status string // ok | err | panic | hang
	detail string
	cycles int
	regs   [32]int32
	memH   uint64
	ticks  int
}

func runOne(v variant, n int, app risc.Application, c cpuCase, budget int) (res runResult) {
	m := v.mk(c.memSize, n)
	ctx := m.Context()
	copy(ctx.Memory, c.mem)
	for k, val := range c.regs {
		ctx.Registers[risc.RegisterType(k)] = val
	}
	ctx.VerifSetBudget(budget)
	defer ctx.VerifRelease()
	func() {
		defer func() {
			if rec := recover(); rec != nil {
				if _, ok := rec.(risc.VerifBudgetExceeded); ok {
					res.status = "hang"
					res.detail = "tick-budget"
				} else {
					res.status = "panic"
					res.detail = strings.ReplaceAll(fmt.Sprint(rec), " ", "_")
					if len(res.detail) > 80 {
						res.detail = res.detail[:80]
					}
				}
			}
		}()
		cycles, err := m.Run(app)
		res.cycles = cycles
		if err != nil {
			res.status = "err"
		} else {
			res.status = "ok"
		}
	}()
	res.ticks = ctx.VerifTicks()
	for i := 0; i < 32; i++ {
		res.regs[i] = ctx.Registers[risc.RegisterType(i)]
	}
	res.memH = fnv64(ctx.Memory)
	return res
}

func (r runResult) String() string {
	regs := make([]string, 32)
	for i, v := range r.regs {
		regs[i] = strconv.Itoa(int(v))
	}
	d := r.detail
	if d == "" {
		d = "-"
	}
	return fmt.Sprintf("%s %s cycles=%d ticks=%d regs=%s mem=%016x", r.status, d, r.cycles, r.ticks, strings.Join(regs, ","), r.memH)
}

type cpuPlan struct {
	families []string // family per case index (cycled)
	n        int
	variants []string // variant names to run ("" = all)
	pars     []int    // parallelism values to run (subset of 1..4)
	repeats  int      // runs per (case, variant, par) in one process (C08)
	pairs    bool     // case 2k+1 = case 2k with other operand values and memory contents (C12 value-independence)
}

func caseOf(seed int64, plan cpuPlan, i int) cpuCase {
	if plan.pairs && i%2 == 1 {
		c := caseOf(seed, plan, i-1)
		r := hx.NewRand(seed*1000003 + int64(i)*7919 + 17)
		regs := map[int]int32{}
		keys := make([]int, 0, len(c.regs))
		for k := range c.regs {
			keys = append(keys, k)
		}
		sort.Ints(keys) // map order must not reach the PRNG: parent and worker regenerate the same case
		for _, k := range keys {
			regs[k] = hx.Pick32(r)
		}
		// also give values to registers that were unset (0) in the first run
		for _, d := range allData {
			if _, ok := regs[d]; !ok && r.Intn(2) == 0 {
				regs[d] = hx.Pick32(r)
			}
		}
		c.regs = regs
		c.mem = randMem(r, c.memSize)
		if (i/2)%3 == 2 {
			// the "quiet" twin: every data register and every memory byte zero, so that stores write the value
			// memory already holds (a cost that depends on WHETHER a value changes something shows here)
			c.regs = map[int]int32{}
			c.mem = make([]int8, c.memSize)
		}
		c.family += "-twin"
		return c
	}
	r := hx.NewRand(seed*1000003 + int64(i)*7919 + 17)
	fi := i
	if plan.pairs {
		fi = i / 2
	}
	return genCase(r, plan.families[fi%len(plan.families)])
}

func inLine(id int, c cpuCase) string {
	ks := make([]int, 0, len(c.regs))
	for k := range c.regs {
		ks = append(ks, k)
	}
	sort.Ints(ks)
	rs := make([]string, len(ks))
	for i, k := range ks {
		rs[i] = fmt.Sprintf("%d:%d", k, c.regs[k])
	}
	mb := make([]byte, len(c.mem))
	for i, b := range c.mem {
		mb[i] = byte(b)
	}
	return fmt.Sprintf("run %d ; family=%s fuel=200000 memsize=%d ; regs=%s ; mem=%s ; prog=%s", id, c.family, c.memSize,
		strings.Join(rs, ","), hex.EncodeToString(mb), hex.EncodeToString([]byte(c.text)))
}

// runCase executes one case on every planned configuration; returns the Go-side lines.
// Configurations with index < skip are not run (the parent already has their lines); `progress`
// is told the index of the configuration about to run (so a stalled worker can be diagnosed).
func runCase(id int, c cpuCase, plan cpuPlan, skip int, progress func(cfg int, name string, par int)) []string {
	var out []string
	cfg := -1
	app, err := risc.Parse(c.text)
	if err != nil {
		return []string{fmt.Sprintf("V %d parse-error %s", id, strings.ReplaceAll(err.Error(), " ", "_"))}
	}
	steps := refSteps(app, c, 100000)
	budget := tickK * int(latency.MemoryAccess) * (steps + 64)
	if skip <= 0 {
		out = append(out, fmt.Sprintf("B %d gosteps=%d budget=%d", id, steps, budget))
	}
	for _, v := range variants {
		if len(plan.variants) > 0 {
			keep := false
			for _, n := range plan.variants {
				if n == v.name {
					keep = true
				}
			}
			if !keep {
				continue
			}
		}
		for _, n := range v.par {
			if n != 0 {
				keep := false
				for _, p := range plan.pars {
					if p == n {
						keep = true
					}
				}
				if !keep {
					continue
				}
			}
			cfg++
			if skip >= onlyCfgBase {
				if cfg != skip-onlyCfgBase {
					continue
				}
			} else if skip > 0 && cfg < skip {
				continue
			}
			if skip < 0 && cfg >= -skip {
				continue
			}
			if progress != nil {
				progress(cfg, v.name, n)
			}
			var first runResult
			for rep := 0; rep < plan.repeats; rep++ {
				// repeat 0 runs on `app` (parsed once per case and handed to every configuration in turn:
				// reuse of a parsed program by later machines); middle repeats parse afresh; the last
				// repeat re-uses `app` again after this configuration has already run it (C08)
				a := app
				if plan.repeats > 1 && rep != 0 && rep != plan.repeats-1 {
					a, _ = risc.Parse(c.text)
				}
				if plan.repeats == 1 {
					a, _ = risc.Parse(c.text)
				}
				res := runOne(v, n, a, c, budget)
				if rep == 0 {
					first = res
					out = append(out, fmt.Sprintf("V %d %s %d %s", id, v.name, n, res))
				} else if res.String() != first.String() {
					out = append(out, fmt.Sprintf("N %d %s %d repeat=%d %s", id, v.name, n, rep, res))
				}
			}
			if plan.repeats > 1 {
				// machines running CONCURRENTLY in the same process (goroutines): three fresh machines of this
				// configuration plus one of another variant, each on its own freshly parsed program
				conc := make([]runResult, 3)
				var wg sync.WaitGroup
				for gi := range conc {
					wg.Add(1)
					go func(gi int) {
						defer wg.Done()
						a, _ := risc.Parse(c.text)
						conc[gi] = runOne(v, n, a, c, budget)
					}(gi)
				}
				wg.Add(1)
				go func() {
					defer wg.Done()
					a, _ := risc.Parse(c.text)
					other := variants[(cfg+5)%len(variants)]
					runOne(other, other.par[len(other.par)-1], a, c, budget)
				}()
				wg.Wait()
				for _, res := range conc {
					if res.String() != first.String() {
						out = append(out, fmt.Sprintf("N %d %s %d repeat=concurrent %s", id, v.name, n, res))
						break
					}
				}
			}
			if plan.repeats > 1 {
				// isolation across DATA: the program object that has just been run on data D must behave on
				// other data D' exactly like a freshly parsed one (state left inside the parsed program —
				// forward slots — must not leak from one machine into the next)
				c2 := c
				c2.regs = map[int]int32{}
				r2 := hx.NewRand(int64(id)*31 + int64(n)*7 + 5)
				keys := make([]int, 0, len(c.regs))
				for k := range c.regs {
					keys = append(keys, k)
				}
				sort.Ints(keys)
				for _, k := range keys {
					c2.regs[k] = hx.Pick32(r2)
				}
				for _, d := range allData {
					if _, ok := c2.regs[d]; !ok && r2.Intn(2) == 0 {
						c2.regs[d] = hx.Pick32(r2)
					}
				}
				fresh, _ := risc.Parse(c.text)
				rf := runOne(v, n, fresh, c2, budget)
				rr := runOne(v, n, app, c2, budget)
				if rf.status == "ok" && rf.String() != rr.String() {
					out = append(out, fmt.Sprintf("N %d %s %d repeat=reuse-on-other-data %s", id, v.name, n, rr))
				}
			}
		}
	}
	return out
}

// ---- worker pool ------------------------------------------------------------

func cpuWorkerMain(seed int64, planS string, lo, hi, skip int) {
	plan := parsePlan(planS)
	w := bufio.NewWriterSize(os.Stdout, 1<<16)
	for i := lo; i < hi; i++ {
		c := caseOf(seed, plan, i)
		fmt.Fprintf(w, "BEGIN %d\n", i)
		w.Flush()
		sk := 0
		if i == lo {
			sk = skip
		}
		lines := runCase(i, c, plan, sk, func(cfg int, name string, par int) {
			fmt.Fprintf(w, "CFG %d %s %d\n", cfg, name, par)
			w.Flush()
		})
		for _, l := range lines {
			fmt.Fprintln(w, l)
		}
		fmt.Fprintf(w, "END %d\n", i)
		w.Flush()
	}
}

func planString(p cpuPlan) string {
	ps := make([]string, len(p.pars))
	for i, x := range p.pars {
		ps[i] = strconv.Itoa(x)
	}
	pr := "0"
	if p.pairs {
		pr = "1"
	}
	return fmt.Sprintf("%s|%d|%s|%s|%d|%s", strings.Join(p.families, ","), p.n, strings.Join(p.variants, ","), strings.Join(ps, ","), p.repeats, pr)
}

func parsePlan(s string) cpuPlan {
	f := strings.Split(s, "|")
	var p cpuPlan
	p.families = strings.Split(f[0], ",")
	p.n, _ = strconv.Atoi(f[1])
	if f[2] != "" {
		p.variants = strings.Split(f[2], ",")
	}
	for _, x := range strings.Split(f[3], ",") {
		if x != "" {
			v, _ := strconv.Atoi(x)
			p.pars = append(p.pars, v)
		}
	}
	p.repeats, _ = strconv.Atoi(f[4])
	p.pairs = len(f) > 5 && f[5] == "1"
	return p
}

// runRange runs cases [lo,hi) in a worker process with a watchdog; cases during which the worker
// died or stalled are reported as crash/hang lines and the range continues after them.
func runRange(seed int64, plan cpuPlan, lo, hi int, perCase time.Duration) map[int][]string {
	res := map[int][]string{}
	self, _ := os.Executable()
	skip := 0
	var carried []string // lines of the current case obtained before a stalled configuration
	for lo < hi {
		cmd := exec.Command(self, "-cpuworker", fmt.Sprintf("%d|%d|%d|%d", seed, lo, hi, skip), "-plan", planString(plan), "-out", "/dev/null", "cpuworker")
		cmd.Env = append(os.Environ(), "GOMAXPROCS=2", "GOMEMLIMIT=1500MiB")
		stdout, _ := cmd.StdoutPipe()
		cmd.Stderr = nil
		if err := cmd.Start(); err != nil {
			panic(err)
		}
		lines := make(chan string, 1024)
		go func() {
			sc := bufio.NewScanner(stdout)
			sc.Buffer(make([]byte, 1<<20), 1<<24)
			for sc.Scan() {
				lines <- sc.Text()
			}
			close(lines)
		}()
		cur := -1
		var buf []string
		done := lo
		stalled := false
		cfgIdx, cfgName, cfgPar := -1, "?", 0
	loop:
		for {
			select {
			case l, ok := <-lines:
				if !ok {
					break loop
				}
				switch {
				case strings.HasPrefix(l, "BEGIN "):
					cur, _ = strconv.Atoi(l[6:])
					buf = nil
					cfgIdx = -1
				case strings.HasPrefix(l, "CFG "):
					fmt.Sscanf(l, "CFG %d %s %d", &cfgIdx, &cfgName, &cfgPar)
				case strings.HasPrefix(l, "END "):
					res[cur] = append(carried, buf...)
					carried = nil
					skip = 0
					done = cur + 1
					cur = -1
				default:
					buf = append(buf, l)
				}
			case <-time.After(perCase):
				stalled = true
				cmd.Process.Kill()
				break loop
			}
		}
		cmd.Process.Kill()
		cmd.Wait()
		if done >= hi {
			break
		}
		// the worker died or stalled inside case `cur` at configuration cfgIdx: record that configuration
		// as hang/crash and resume the same case after it (lines printed only at the end of a case are lost,
		// so the case restarts at cfgIdx+1 and earlier configurations are re-run only if nothing was carried)
		bad := done
		if cur >= 0 {
			bad = cur
		}
		why := "panic worker-process-died"
		if stalled {
			why = "hang wall-clock-watchdog"
		}
		if cfgIdx >= 0 {
			status := strings.SplitN(why, " ", 2)
			// a wall-clock stall may only mean that the machine is overloaded (the tick budget is what decides hangs
			// deterministically): run this ONE configuration again, alone, with thirty times the time before believing it
			if again := runSingle(seed, plan, bad, cfgIdx, 30*perCase); stalled && again != "" {
				carried = append(carried, again)
			} else {
				carried = append(carried, fmt.Sprintf("V %d %s %d %s %s cycles=0 ticks=0 regs=%s mem=0000000000000000", bad, cfgName, cfgPar, status[0], status[1], strings.TrimSuffix(strings.Repeat("0,", 32), ",")))
			}
			// configurations before cfgIdx of this case are re-run by the next worker unless we skip them; their
			// lines were never printed (printed at END), so re-run from 0 but drop the stalled configuration:
			// simplest sound choice: mark it and continue with the NEXT configuration only
			skip = cfgIdx + 1
			lo = bad
			// earlier configurations' results are lost: re-run them in a separate quick worker
			if cfgIdx > 0 {
				pre := runPrefix(seed, plan, bad, cfgIdx, perCase)
				carried = append(pre, carried...)
			} else {
				carried = append([]string{fmt.Sprintf("B %d gosteps=0 budget=0", bad)}, carried...)
			}
		} else {
			res[bad] = append(buf, fmt.Sprintf("X %d %s", bad, why))
			carried = nil
			skip = 0
			lo = bad + 1
		}
	}
	return res
}

const onlyCfgBase = 1000000 // skip = onlyCfgBase + k: run configuration k only

// runSingle re-runs ONE configuration of one case in a fresh worker with a long time limit; "" if it does not finish.
func runSingle(seed int64, plan cpuPlan, id, cfg int, limit time.Duration) string {
	self, _ := os.Executable()
	cmd := exec.Command(self, "-cpuworker", fmt.Sprintf("%d|%d|%d|%d", seed, id, id+1, onlyCfgBase+cfg), "-plan", planString(plan), "-out", "/dev/null", "cpuworker")
	cmd.Env = append(os.Environ(), "GOMAXPROCS=2", "GOMEMLIMIT=1500MiB")
	var out bytes.Buffer
	cmd.Stdout = &out
	if err := cmd.Start(); err != nil {
		return ""
	}
	done := make(chan error, 1)
	go func() { done <- cmd.Wait() }()
	select {
	case <-done:
	case <-time.After(limit):
		cmd.Process.Kill()
		<-done
		return ""
	}
	for _, l := range strings.Split(out.String(), "\n") {
		if strings.HasPrefix(l, "V ") {
			return l
		}
	}
	return ""
}

// runPrefix re-runs configurations [0, upto) of one case (they completed before a later one stalled).
func runPrefix(seed int64, plan cpuPlan, id, upto int, perCase time.Duration) []string {
	self, _ := os.Executable()
	cmd := exec.Command(self, "-cpuworker", fmt.Sprintf("%d|%d|%d|%d", seed, id, id+1, -upto), "-plan", planString(plan), "-out", "/dev/null", "cpuworker")
	cmd.Env = append(os.Environ(), "GOMAXPROCS=2", "GOMEMLIMIT=1500MiB")
	out, err := cmd.Output()
	if err != nil {
		return []string{fmt.Sprintf("B %d gosteps=0 budget=0", id)}
	}
	var ls []string
	for _, l := range strings.Split(string(out), "\n") {
		if l == "" || strings.HasPrefix(l, "BEGIN") || strings.HasPrefix(l, "END") || strings.HasPrefix(l, "CFG") {
			continue
		}
		ls = append(ls, l)
	}
	return ls
}

func cpuStream(name string, plan cpuPlan) streamFn {
	return func(dir string, seed int64, tier string) {
		if tier == "thorough" {
			plan.n *= 8
		}
		if env := os.Getenv("VERIF_CPU_N"); env != "" {
			plan.n, _ = strconv.Atoi(env)
		}
		o := hx.Open(dir, name)
		defer o.Close()
		workers := runtime.NumCPU()
		chunk := (plan.n + workers*4 - 1) / (workers * 4)
		if chunk < 1 {
			chunk = 1
		}
		type job struct{ lo, hi int }
		jobs := make(chan job, 1024)
		results := make([]map[int][]string, 0)
		var mu sync.Mutex
		var wg sync.WaitGroup
		for w := 0; w < workers; w++ {
			wg.Add(1)
			go func() {
				defer wg.Done()
				for j := range jobs {
					r := runRange(seed, plan, j.lo, j.hi, 40*time.Second)
					mu.Lock()
					results = append(results, r)
					mu.Unlock()
				}
			}()
		}
		for lo := 0; lo < plan.n; lo += chunk {
			hi := lo + chunk
			if hi > plan.n {
				hi = plan.n
			}
			jobs <- job{lo, hi}
		}
		close(jobs)
		wg.Wait()
		all := map[int][]string{}
		for _, r := range results {
			for k, v := range r {
				all[k] = v
			}
		}
		for i := 0; i < plan.n; i++ {
			c := caseOf(seed, plan, i)
			lines := all[i]
			if lines == nil {
				lines = []string{fmt.Sprintf("X %d crash no-output", i)}
			}
			// one input line ↔ one Go line: join the per-variant lines with " @@ "
			o.Emit(inLine(i, c), strings.Join(lines, " @@ "))
		}
	}
}

var allFamilies = []string{"alu", "dep", "dep-mem", "mem", "br", "br-mem", "shadow", "shadow-reg", "tail", "pair", "err", "evict", "jumps", "calls", "loops", "dispatch", "stream", "pingpong", "resume", "shadow-ret"}

func init() {
	streams["cpuworker"] = func(dir string, seed int64, tier string) {}
	streams["cpu-all"] = cpuStream("cpu-all", cpuPlan{families: allFamilies, n: 600, pars: []int{1, 2, 3, 4}, repeats: 1})
	pipelined := []string{"mvp4", "mvp5", "mvp6-0", "mvp6-1", "mvp6-2", "mvp6-3", "mvp7-0", "mvp7-1", "mvp8-0"}
	cached := append([]string{"mvp3"}, pipelined...)
	all4 := []int{1, 2, 3, 4}
	streams["cpu-c01"] = cpuStream("cpu-c01", cpuPlan{families: allFamilies, n: 770, pars: all4, repeats: 1})
	streams["cpu-c03"] = cpuStream("cpu-c03", cpuPlan{families: []string{"shadow", "shadow-reg", "br", "shadow-reg", "br-mem", "shadow", "jumps", "calls", "resume", "shadow-ret"}, n: 800, variants: pipelined, pars: all4, repeats: 1})
	streams["cpu-c04"] = cpuStream("cpu-c04", cpuPlan{families: []string{"dep", "dep-mem", "alu", "dep", "jumps", "loops", "calls"}, n: 720, variants: pipelined, pars: all4, repeats: 1})
	streams["cpu-c05"] = cpuStream("cpu-c05", cpuPlan{families: []string{"mem", "evict", "dep-mem", "pair", "tail", "evict", "stream"}, n: 600, variants: cached, pars: all4, repeats: 1})
	streams["cpu-c07"] = cpuStream("cpu-c07", cpuPlan{families: append([]string{"err", "br", "err", "jumps"}, allFamilies...), n: 700, pars: all4, repeats: 1})
	streams["cpu-c09"] = cpuStream("cpu-c09", cpuPlan{families: []string{"tail", "br-mem", "tail", "dep-mem", "stream", "shadow-ret"}, n: 720, variants: pipelined, pars: all4, repeats: 1})
	streams["cpu-c10"] = cpuStream("cpu-c10", cpuPlan{families: []string{"pair", "mem", "pair", "stream"}, n: 600, variants: pipelined, pars: all4, repeats: 1})
	streams["cpu-c12"] = cpuStream("cpu-c12", cpuPlan{families: []string{"alu", "dep", "dep-mem", "mem", "br", "tail", "pair", "br-mem", "jumps", "pingpong", "evict", "stream"}, n: 880, pars: all4, repeats: 1, pairs: true})
	streams["cpu-c08"] = cpuStream("cpu-c08", cpuPlan{families: []string{"dep", "loops", "calls", "dep-mem", "mem", "br", "loops", "pair", "alu", "shadow-reg", "calls", "jumps", "dispatch"}, n: 364, pars: []int{1, 2, 3}, repeats: 3})
	streams["cpu-inorder"] = cpuStream("cpu-inorder", cpuPlan{families: allFamilies, n: 1500,
		variants: []string{"mvp1", "mvp2", "mvp3", "mvp4", "mvp5"}, pars: []int{1}, repeats: 1})
	streams["cpu-seq"] = cpuStream("cpu-seq", cpuPlan{families: []string{"alu", "dep", "dep-mem", "mem", "br", "br-mem", "tail", "pair", "err"}, n: 2000,
		variants: []string{"mvp1", "mvp2", "mvp3"}, pars: []int{1}, repeats: 1})
}

// cpu-file: run explicit cases (replay, shrinking). VERIF_CASE_FILE names a JSON file holding a list
// of {"family","text","regs":{"5":1},"memsize":N,"mem":"<hex>"}; every case runs on all variants.
type fileCase struct {
	Family  string           `json:"family"`
	Text    string           `json:"text"`
	Regs    map[string]int32 `json:"regs"`
	MemSize int              `json:"memsize"`
	Mem     string           `json:"mem"`
}

func cpuFileStream(dir string, seed int64, tier string) {
	o := hx.Open(dir, "cpu-file")
	defer o.Close()
	raw, err := os.ReadFile(os.Getenv("VERIF_CASE_FILE"))
	if err != nil {
		panic(err)
	}
	var cases []fileCase
	if err := json.Unmarshal(raw, &cases); err != nil {
		panic(err)
	}
	plan := cpuPlan{pars: []int{1, 2, 3, 4}, repeats: 1}
	if v := os.Getenv("VERIF_VARIANTS"); v != "" {
		plan.variants = strings.Split(v, ",")
	}
	for i, fc := range cases {
		c := cpuCase{family: fc.Family, text: fc.Text, regs: map[int]int32{}, memSize: fc.MemSize}
		for k, v := range fc.Regs {
			n, _ := strconv.Atoi(k)
			c.regs[n] = v
		}
		mb, _ := hex.DecodeString(fc.Mem)
		c.mem = make([]int8, fc.MemSize)
		for j := 0; j < len(mb) && j < fc.MemSize; j++ {
			c.mem[j] = int8(mb[j])
		}
		// in-process with a goroutine watchdog: a stuck case is reported, the process exits afterwards
		done := make(chan []string, 1)
		go func() { done <- runCase(i, c, plan, 0, nil) }()
		select {
		case lines := <-done:
			o.Emit(inLine(i, c), strings.Join(lines, " @@ "))
		case <-time.After(30 * time.Second):
			o.Emit(inLine(i, c), fmt.Sprintf("X %d hang wall-clock-watchdog", i))
			o.Close()
			os.Exit(0)
		}
	}
}

func init() { streams["cpu-file"] = cpuFileStream }

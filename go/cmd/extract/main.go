// Command extract is tie T1 of /verif/DESIGN.md: it reads the Go sources of
// teivah/majorana from the working tree (default /repo), type-checks them with
// go/types and emits Lean 4 definitions for the straight-line parts of the code
// (common/bytes, risc/risc.go tables, risc/opcodes.go instruction semantics,
// common/latency).  The generated files are deleted and rewritten on every run
// of every check, so the theorems in MajoranaVerif/Props are re-proved against
// what the code says now.
//
// The accepted Go subset is deliberately tiny (DESIGN.md Appendix B).  Anything
// outside it makes the translator stop with the source position: that is a
// broken tie, reported by bin/check — never silently skipped.
//
// Usage: extract -repo /repo -out /verif/lean/MajoranaVerif/Gen -facts facts.json
package main

import (
	"encoding/json"
	"flag"
	"fmt"
	"go/ast"
	"go/constant"
	"go/importer"
	"go/parser"
	"go/token"
	"go/types"
	"os"
	"path/filepath"
	"sort"
	"strings"
)

type failure struct {
	pos token.Position
	msg string
}

type pkgInfo struct {
	path  string
	fset  *token.FileSet
	files []*ast.File
	info  *types.Info
	pkg   *types.Package
}

func loadPkg(repo, rel, importPath string) *pkgInfo {
	fset := token.NewFileSet()
	dir := filepath.Join(repo, rel)
	pkgs, err := parser.ParseDir(fset, dir, func(fi os.FileInfo) bool {
		n := fi.Name()
		return !strings.HasSuffix(n, "_test.go") && !strings.Contains(n, "verif_on")
	}, parser.ParseComments)
	if err != nil {
		die("parse %s: %v", dir, err)
	}
	var files []*ast.File
	var names []string
	for _, p := range pkgs {
		for n := range p.Files {
			names = append(names, n)
		}
	}
	sort.Strings(names)
	for _, n := range names {
		for _, p := range pkgs {
			if f, ok := p.Files[n]; ok {
				files = append(files, f)
			}
		}
	}
	conf := types.Config{Importer: importer.ForCompiler(fset, "source", nil)}
	info := &types.Info{
		Types:      map[ast.Expr]types.TypeAndValue{},
		Defs:       map[*ast.Ident]types.Object{},
		Uses:       map[*ast.Ident]types.Object{},
		Selections: map[*ast.SelectorExpr]*types.Selection{},
	}
	pkg, err := conf.Check(importPath, fset, files, info)
	if err != nil {
		die("typecheck %s: %v", dir, err)
	}
	return &pkgInfo{path: importPath, fset: fset, files: files, info: info, pkg: pkg}
}

func die(format string, a ...any) {
	fmt.Fprintf(os.Stderr, "extract: "+format+"\n", a...)
	os.Exit(2)
}

// ---------------------------------------------------------------------------

type tr struct {
	p        *pkgInfo
	mayFail  map[string]bool // Lean function name -> returns M
	tmp      int
	ns       string            // Lean namespace of the file being generated
	funcName map[types.Object]string // Go func object -> Lean name
	// per function
	monadic      bool
	directWrites bool
	results      *types.Tuple
}

func (t *tr) fail(n ast.Node, format string, a ...any) {
	panic(failure{t.p.fset.Position(n.Pos()), fmt.Sprintf(format, a...)})
}

func (t *tr) fresh() string {
	t.tmp++
	return fmt.Sprintf("t_%d", t.tmp)
}

func width(b *types.Basic) (w int, signed bool, ok bool) {
	switch b.Kind() {
	case types.Int8:
		return 8, true, true
	case types.Uint8:
		return 8, false, true
	case types.Int16:
		return 16, true, true
	case types.Uint16:
		return 16, false, true
	case types.Int32:
		return 32, true, true
	case types.Uint32:
		return 32, false, true
	case types.Int64:
		return 64, true, true
	case types.Uint64, types.Uint, types.Uintptr:
		return 64, false, true
	}
	return 0, false, false
}

// isIntT: Go `int` is modelled as the unbounded Lean `Int` (cycle counters,
// loop indices); overflow of a 64-bit counter is outside the model (DESIGN §6).
func isIntT(ty types.Type) bool {
	b, ok := ty.Underlying().(*types.Basic)
	return ok && (b.Kind() == types.Int || b.Kind() == types.UntypedInt)
}

func (t *tr) leanType(n ast.Node, ty types.Type) string {
	switch x := ty.(type) {
	case *types.Named:
		name := x.Obj().Name()
		switch name {
		case "RegisterType":
			return "Reg"
		case "InstructionType":
			return "InstructionType"
		case "Execution", "Forward":
			return name
		case "transactionUnit":
			return "Model.transactionUnit"
		case "Context":
			return "Model.Context"
		case "error":
			return "Fault"
		}
		if _, ok := x.Underlying().(*types.Struct); ok {
			return "op_" + name
		}
		return t.leanType(n, x.Underlying())
	case *types.Pointer:
		return t.leanType(n, x.Elem())
	case *types.Basic:
		if x.Kind() == types.Bool || x.Kind() == types.UntypedBool {
			return "Bool"
		}
		if x.Kind() == types.String || x.Kind() == types.UntypedString {
			return "String"
		}
		if isIntT(x) {
			return "Int"
		}
		if w, _, ok := width(x); ok {
			return fmt.Sprintf("BitVec %d", w)
		}
	case *types.Slice:
		return "List (" + t.leanType(n, x.Elem()) + ")"
	case *types.Array:
		return fmt.Sprintf("Vector (%s) %d", t.leanType(n, x.Elem()), x.Len())
	case *types.Map:
		return "GoMap (" + t.leanType(n, x.Key()) + ") (" + t.leanType(n, x.Elem()) + ")"
	case *types.Tuple:
		var parts []string
		for i := 0; i < x.Len(); i++ {
			parts = append(parts, t.leanType(n, x.At(i).Type()))
		}
		return strings.Join(parts, " × ")
	}
	t.fail(n, "unsupported type %s", ty)
	return ""
}

func (t *tr) typeOf(e ast.Expr) types.Type {
	tv, ok := t.p.info.Types[e]
	if !ok {
		if id, ok := e.(*ast.Ident); ok {
			if o := t.p.info.Uses[id]; o != nil {
				return o.Type()
			}
			if o := t.p.info.Defs[id]; o != nil {
				return o.Type()
			}
		}
		t.fail(e, "no type for expression")
	}
	return tv.Type
}

func (t *tr) constOf(e ast.Expr) (constant.Value, bool) {
	tv, ok := t.p.info.Types[e]
	if ok && tv.Value != nil {
		return tv.Value, true
	}
	return nil, false
}

func (t *tr) litOfType(n ast.Node, v constant.Value, ty types.Type) string {
	switch v.Kind() {
	case constant.Bool:
		if constant.BoolVal(v) {
			return "true"
		}
		return "false"
	case constant.String:
		return fmt.Sprintf("%q", constant.StringVal(v))
	case constant.Int:
		if named, ok := ty.(*types.Named); ok {
			switch named.Obj().Name() {
			case "RegisterType":
				return fmt.Sprintf("(%s : Reg)", v.ExactString())
			}
		}
		if isIntT(ty) {
			if constant.Sign(v) < 0 {
				return "(" + v.ExactString() + " : Int)"
			}
			return "(" + v.ExactString() + " : Int)"
		}
		if b, ok := ty.Underlying().(*types.Basic); ok {
			if w, _, ok := width(b); ok {
				if constant.Sign(v) < 0 {
					return fmt.Sprintf("(BitVec.ofInt %d (%s))", w, v.ExactString())
				}
				return fmt.Sprintf("%s#%d", v.ExactString(), w)
			}
		}
	}
	t.fail(n, "unsupported constant %s of type %s", v, ty)
	return ""
}

type pre struct{ name, action string }

// zeroValue: Go's zero value of a type, spelled so that simp can compute with it.
func (t *tr) zeroValue(n ast.Node, ty types.Type) string {
	if _, named := ty.(*types.Named); !named {
		if b, ok := ty.Underlying().(*types.Basic); ok {
			if b.Kind() == types.Bool {
				return "false"
			}
			if isIntT(b) {
				return "(0 : Int)"
			}
			if w, _, ok := width(b); ok {
				return fmt.Sprintf("0#%d", w)
			}
		}
	}
	if nt, ok := ty.(*types.Named); ok && nt.Obj().Name() == "RegisterType" {
		return "(0 : Reg)"
	}
	return "default"
}

func lowerFirst(s string) string {
	if s == "" {
		return s
	}
	return strings.ToLower(s[:1]) + s[1:]
}

func isSignedT(ty types.Type) bool {
	if b, ok := ty.Underlying().(*types.Basic); ok {
		_, s, _ := width(b)
		return s
	}
	return false
}

// expr translates a Go expression to a Lean term. Partial operations are hoisted
// into `pres` (evaluated in order before the term), which requires t.monadic.
func (t *tr) expr(e ast.Expr, pres *[]pre) string {
	if v, ok := t.constOf(e); ok {
		// enum constants keep their names
		if id, ok := e.(*ast.Ident); ok {
			if c, ok := t.p.info.Uses[id].(*types.Const); ok {
				if n, ok := c.Type().(*types.Named); ok {
					switch n.Obj().Name() {
					case "InstructionType":
						return "InstructionType." + id.Name
					case "RegisterType":
						return "Reg." + id.Name
					}
				}
			}
		}
		if sel, ok := e.(*ast.SelectorExpr); ok {
			if c, ok := t.p.info.Uses[sel.Sel].(*types.Const); ok && c.Pkg() != nil && c.Pkg().Name() == "latency" {
				return "Gen.Latency." + sel.Sel.Name
			}
		}
		return t.litOfType(e, v, t.typeOf(e))
	}
	switch x := e.(type) {
	case *ast.ParenExpr:
		return "(" + t.expr(x.X, pres) + ")"
	case *ast.Ident:
		if x.Name == "nil" {
			return "[]"
		}
		if x.Name == "true" || x.Name == "false" {
			return x.Name
		}
		return leanIdent(x.Name)
	case *ast.SelectorExpr:
		// field access op.rd / ctx.Registers / v.value
		if sel, ok := t.p.info.Selections[x]; ok && sel.Kind() == types.FieldVal {
			return "(" + t.expr(x.X, pres) + ")." + x.Sel.Name
		}
		t.fail(e, "unsupported selector %s", x.Sel.Name)
	case *ast.UnaryExpr:
		switch x.Op {
		case token.NOT:
			return "(!" + t.expr(x.X, pres) + ")"
		case token.SUB:
			return "(-" + t.expr(x.X, pres) + ")"
		case token.XOR:
			return "(~~~" + t.expr(x.X, pres) + ")"
		}
		t.fail(e, "unsupported unary operator %s", x.Op)
	case *ast.BinaryExpr:
		return t.binary(x, pres)
	case *ast.CallExpr:
		return t.call(x, pres)
	case *ast.IndexExpr:
		xt := t.typeOf(x.X).Underlying()
		switch xt.(type) {
		case *types.Array:
			if v, ok := t.constOf(x.Index); ok {
				return fmt.Sprintf("(%s)[%s]", t.expr(x.X, pres), v.ExactString())
			}
			t.fail(e, "array index must be constant")
		case *types.Slice:
			idx := ""
			if v, ok := t.constOf(x.Index); ok {
				idx = v.ExactString()
			} else {
				idx = "(" + t.natOf(x.Index, pres) + ")"
			}
			return t.hoist(e, fmt.Sprintf("GoInt.index %s %s", atom(t.expr(x.X, pres)), idx), pres)
		case *types.Map:
			return fmt.Sprintf("(GoMap.get1 %s %s)", atom(t.expr(x.X, pres)), atom(t.expr(x.Index, pres)))
		}
		t.fail(e, "unsupported index expression on %s", xt)
	case *ast.CompositeLit:
		return t.composite(x, pres)
	case *ast.FuncLit:
		return t.funcLit(x)
	}
	t.fail(e, "unsupported expression %T", e)
	return ""
}

func atom(s string) string {
	if strings.ContainsAny(s, " \n") && !(strings.HasPrefix(s, "(") && balancedOuter(s)) {
		return "(" + s + ")"
	}
	return s
}

func balancedOuter(s string) bool {
	d := 0
	for i, c := range s {
		if c == '(' {
			d++
		} else if c == ')' {
			d--
			if d == 0 && i != len(s)-1 {
				return false
			}
		}
	}
	return d == 0
}

func leanIdent(n string) string {
	switch n {
	case "_":
		return "_"
	case "exists", "forall", "Type", "Prop", "Sort", "end", "from", "at", "using", "instance_", "set", "true_", "deriving", "extends", "import", "export", "universe", "example", "axiom", "abbrev", "macro", "syntax", "notation", "infix", "prefix", "postfix", "calc", "suffices", "obtain", "attribute", "unsafe", "partial", "noncomputable", "in", "then", "fun", "let", "have", "show", "do", "match", "with", "open", "def", "theorem", "instance", "where", "if", "else", "by", "section", "namespace", "variable", "structure", "class", "inductive", "mutual", "local", "private", "protected":
		return n + "_"
	}
	return n
}

func (t *tr) hoist(n ast.Node, action string, pres *[]pre) string {
	if pres == nil || !t.monadic {
		t.fail(n, "partial operation (%s) in a context translated as total", action)
	}
	name := t.fresh()
	*pres = append(*pres, pre{name, action})
	return name
}

// natOf: an integer-typed expression used as a Nat (slice index).
func (t *tr) natOf(e ast.Expr, pres *[]pre) string {
	ty := t.typeOf(e)
	s := t.expr(e, pres)
	if isIntT(ty) {
		return "Int.toNat " + atom(s)
	}
	return "BitVec.toNat " + atom(s)
}

func (t *tr) binary(x *ast.BinaryExpr, pres *[]pre) string {
	lt := t.typeOf(x.X)
	switch x.Op {
	case token.LAND, token.LOR:
		l := t.expr(x.X, pres)
		var rp []pre
		r := t.expr(x.Y, &rp)
		if len(rp) != 0 {
			t.fail(x, "partial operation on the right of a short-circuit operator")
		}
		if x.Op == token.LAND {
			return "(" + l + " && " + r + ")"
		}
		return "(" + l + " || " + r + ")"
	case token.SHL, token.SHR:
		l := t.expr(x.X, pres)
		ct := t.typeOf(x.Y)
		if isIntT(lt) {
			t.fail(x, "shift of an `int` value is outside the subset")
		}
		op := "shl"
		if x.Op == token.SHR {
			if isSignedT(lt) {
				op = "sshr"
			} else {
				op = "ushr"
			}
		}
		if cv, ok := t.constOf(x.Y); ok {
			// constant (necessarily non-negative) count
			return fmt.Sprintf("(GoInt.%sU %s %s#64)", op, atom(l), cv.ExactString())
		}
		c := t.expr(x.Y, pres)
		if isIntT(ct) {
			t.fail(x, "shift count of type `int` is outside the subset")
		}
		if isSignedT(ct) {
			return t.hoist(x, fmt.Sprintf("GoInt.%sS %s %s", op, atom(l), atom(c)), pres)
		}
		return fmt.Sprintf("(GoInt.%sU %s %s)", op, atom(l), atom(c))
	}
	l := t.expr(x.X, pres)
	r := t.expr(x.Y, pres)
	bt, isBasic := lt.Underlying().(*types.Basic)
	isStr := isBasic && (bt.Info()&types.IsString != 0)
	isBool := isBasic && (bt.Info()&types.IsBoolean != 0)
	switch x.Op {
	case token.EQL:
		return "(" + l + " == " + r + ")"
	case token.NEQ:
		return "(" + l + " != " + r + ")"
	}
	if isStr || isBool {
		t.fail(x, "unsupported operator %s on %s", x.Op, lt)
	}
	if isIntT(lt) {
		switch x.Op {
		case token.ADD:
			return "(" + l + " + " + r + ")"
		case token.SUB:
			return "(" + l + " - " + r + ")"
		case token.MUL:
			return "(" + l + " * " + r + ")"
		case token.LSS:
			return "(decide (" + l + " < " + r + "))"
		case token.LEQ:
			return "(decide (" + l + " ≤ " + r + "))"
		case token.GTR:
			return "(decide (" + l + " > " + r + "))"
		case token.GEQ:
			return "(decide (" + l + " ≥ " + r + "))"
		}
		t.fail(x, "unsupported operator %s on int", x.Op)
	}
	signed := isSignedT(lt)
	if _, isNamed := lt.(*types.Named); isNamed && !isBasic {
		t.fail(x, "unsupported operand type %s", lt)
	}
	switch x.Op {
	case token.ADD:
		return "(" + l + " + " + r + ")"
	case token.SUB:
		return "(" + l + " - " + r + ")"
	case token.MUL:
		return "(" + l + " * " + r + ")"
	case token.AND:
		return "(" + l + " &&& " + r + ")"
	case token.OR:
		return "(" + l + " ||| " + r + ")"
	case token.XOR:
		return "(" + l + " ^^^ " + r + ")"
	case token.AND_NOT:
		return "(" + l + " &&& ~~~" + r + ")"
	case token.QUO, token.REM:
		name := map[bool]map[token.Token]string{
			true:  {token.QUO: "sdiv", token.REM: "srem"},
			false: {token.QUO: "udiv", token.REM: "urem"},
		}[signed][x.Op]
		return t.hoist(x, fmt.Sprintf("GoInt.%s %s %s", name, atom(l), atom(r)), pres)
	case token.LSS, token.LEQ, token.GTR, token.GEQ:
		a, b := l, r
		if x.Op == token.GTR || x.Op == token.GEQ {
			a, b = r, l
		}
		strict := x.Op == token.LSS || x.Op == token.GTR
		fn := map[bool]map[bool]string{
			true:  {true: "BitVec.slt", false: "BitVec.sle"},
			false: {true: "BitVec.ult", false: "BitVec.ule"},
		}[signed][strict]
		return fmt.Sprintf("(%s %s %s)", fn, atom(a), atom(b))
	}
	t.fail(x, "unsupported binary operator %s", x.Op)
	return ""
}

func (t *tr) call(x *ast.CallExpr, pres *[]pre) string {
	// conversion?
	if tv, ok := t.p.info.Types[x.Fun]; ok && tv.IsType() {
		if len(x.Args) != 1 {
			t.fail(x, "bad conversion")
		}
		src := t.typeOf(x.Args[0])
		dst := tv.Type
		a := t.expr(x.Args[0], pres)
		sb, ok1 := src.Underlying().(*types.Basic)
		db, ok2 := dst.Underlying().(*types.Basic)
		if !ok1 || !ok2 {
			t.fail(x, "unsupported conversion %s -> %s", src, dst)
		}
		if _, ok := dst.(*types.Named); ok {
			t.fail(x, "conversion to named type %s is outside the subset", dst)
		}
		if _, ok := src.(*types.Named); ok {
			t.fail(x, "conversion from named type %s is outside the subset", src)
		}
		switch {
		case isIntT(src) && isIntT(dst):
			return a
		case isIntT(src):
			w, _, ok := width(db)
			if !ok {
				t.fail(x, "unsupported conversion target %s", dst)
			}
			return fmt.Sprintf("(BitVec.ofInt %d %s)", w, atom(a))
		case isIntT(dst):
			_, s, ok := width(sb)
			if !ok {
				t.fail(x, "unsupported conversion source %s", src)
			}
			if s {
				return fmt.Sprintf("(BitVec.toInt %s)", atom(a))
			}
			return fmt.Sprintf("(Int.ofNat (BitVec.toNat %s))", atom(a))
		default:
			_, s, ok := width(sb)
			w, _, ok2 := width(db)
			if !ok || !ok2 {
				t.fail(x, "unsupported conversion %s -> %s", src, dst)
			}
			st := "false"
			if s {
				st = "true"
			}
			return fmt.Sprintf("(GoInt.conv %s %d %s)", st, w, atom(a))
		}
	}
	var args []string
	for _, a := range x.Args {
		args = append(args, atom(t.expr(a, pres)))
	}
	switch f := x.Fun.(type) {
	case *ast.Ident:
		obj := t.p.info.Uses[f]
		if _, ok := obj.(*types.Builtin); ok {
			switch f.Name {
			case "len":
				return fmt.Sprintf("(Int.ofNat (List.length %s))", args[0])
			}
			t.fail(x, "unsupported builtin %s", f.Name)
		}
		name := f.Name
		s := name + " " + strings.Join(args, " ")
		if t.mayFail[name] {
			return t.hoist(x, s, pres)
		}
		return "(" + s + ")"
	case *ast.SelectorExpr:
		// package-qualified function
		if id, ok := f.X.(*ast.Ident); ok {
			if pn, ok := t.p.info.Uses[id].(*types.PkgName); ok {
				switch pn.Imported().Name() {
				case "bytes":
					name := "Gen.Bytes." + f.Sel.Name
					s := name + " " + strings.Join(args, " ")
					if t.mayFail[name] {
						return t.hoist(x, s, pres)
					}
					return "(" + s + ")"
				}
				t.fail(x, "call into package %s is outside the subset", pn.Imported().Name())
			}
		}
		// method call on an enum value of this package: ins.IsBranch()
		if n, ok := t.typeOf(f.X).(*types.Named); ok && n.Obj().Pkg() == t.p.pkg {
			if _, isBasic := n.Underlying().(*types.Basic); isBasic {
				name := n.Obj().Name() + "." + f.Sel.Name
				s := name + " " + atom(t.expr(f.X, pres)) + " " + strings.Join(args, " ")
				if t.mayFail[name] {
					return t.hoist(x, s, pres)
				}
				return "(" + s + ")"
			}
		}
		// method call on a modelled component (comp.RAT)
		recvT := t.typeOf(f.X)
		if p, ok := recvT.(*types.Pointer); ok {
			recvT = p.Elem()
		}
		if n, ok := recvT.(*types.Named); ok && n.Obj().Pkg() != nil && n.Obj().Pkg().Name() == "comp" && n.Obj().Name() == "RAT" {
			return fmt.Sprintf("(Model.Rat.%s %s %s)", lowerFirst(f.Sel.Name), atom(t.expr(f.X, pres)), strings.Join(args, " "))
		}
		t.fail(x, "unsupported method call %s", f.Sel.Name)
	}
	t.fail(x, "unsupported call")
	return ""
}

func (t *tr) composite(x *ast.CompositeLit, pres *[]pre) string {
	ty := t.typeOf(x)
	switch u := ty.Underlying().(type) {
	case *types.Struct:
		var fs []string
		for _, el := range x.Elts {
			kv, ok := el.(*ast.KeyValueExpr)
			if !ok {
				t.fail(el, "positional struct literal")
			}
			fs = append(fs, fmt.Sprintf("%s := %s", kv.Key.(*ast.Ident).Name, t.expr(kv.Value, pres)))
		}
		if n, ok := ty.(*types.Named); ok && n.Obj().Name() == "Execution" && t.directWrites {
			fs = append(fs, "DirectWrites := directWrites")
		}
		return "({ " + strings.Join(fs, ", ") + " } : " + t.leanType(x, ty) + ")"
	case *types.Slice:
		var es []string
		for _, el := range x.Elts {
			es = append(es, t.expr(el, pres))
		}
		return "([" + strings.Join(es, ", ") + "] : " + t.leanType(x, ty) + ")"
	case *types.Array:
		var es []string
		for _, el := range x.Elts {
			es = append(es, t.expr(el, pres))
		}
		if int64(len(es)) != u.Len() {
			t.fail(x, "array literal must list every element")
		}
		return "(#v[" + strings.Join(es, ", ") + "] : " + t.leanType(x, ty) + ")"
	case *types.Map:
		// association list in source order; WriteMemory-style consumers apply it
		// left to right (keys are pairwise distinct, see Props.C02.store_keys_distinct)
		var es []string
		for _, el := range x.Elts {
			kv := el.(*ast.KeyValueExpr)
			es = append(es, "("+t.expr(kv.Key, pres)+", "+t.expr(kv.Value, pres)+")")
		}
		return "([" + strings.Join(es, ", ") + "] : List (" + t.leanType(x, u.Key()) + " × " + t.leanType(x, u.Elem()) + "))"
	}
	t.fail(x, "unsupported composite literal of type %s", ty)
	return ""
}

func (t *tr) funcLit(x *ast.FuncLit) string {
	if len(x.Body.List) != 1 {
		t.fail(x, "function literal must be a single return")
	}
	ret, ok := x.Body.List[0].(*ast.ReturnStmt)
	if !ok || len(ret.Results) != 1 {
		t.fail(x, "function literal must be a single return")
	}
	var ps []string
	for _, f := range x.Type.Params.List {
		for _, n := range f.Names {
			ps = append(ps, "("+leanIdent(n.Name)+" : "+t.leanType(f, t.typeOf(f.Type))+")")
		}
	}
	return "(fun " + strings.Join(ps, " ") + " => " + t.expr(ret.Results[0], nil) + ")"
}

// ---------------------------------------------------------------------------
// statements

type cont func(ind string) string

func (t *tr) bindPres(ind string, pres []pre, body string) string {
	var sb strings.Builder
	for _, p := range pres {
		fmt.Fprintf(&sb, "%s(%s) >>= fun %s =>\n", ind, p.action, p.name)
	}
	sb.WriteString(body)
	return sb.String()
}

func isDebugIf(s *ast.IfStmt) bool {
	if sel, ok := s.Cond.(*ast.SelectorExpr); ok && sel.Sel.Name == "Debug" {
		return s.Else == nil && s.Init == nil
	}
	return false
}

func endsInReturn(b *ast.BlockStmt) bool {
	if len(b.List) == 0 {
		return false
	}
	switch s := b.List[len(b.List)-1].(type) {
	case *ast.ReturnStmt:
		return true
	case *ast.ExprStmt:
		if c, ok := s.X.(*ast.CallExpr); ok {
			if id, ok := c.Fun.(*ast.Ident); ok && id.Name == "panic" {
				return true
			}
		}
	case *ast.IfStmt:
		if s.Else == nil {
			return false
		}
		eb, ok := s.Else.(*ast.BlockStmt)
		return ok && endsInReturn(s.Body) && endsInReturn(eb)
	}
	return false
}

func containsReturn(n ast.Node) bool {
	found := false
	ast.Inspect(n, func(m ast.Node) bool {
		switch x := m.(type) {
		case *ast.ReturnStmt:
			found = true
		case *ast.FuncLit:
			return false
		case *ast.CallExpr:
			if id, ok := x.Fun.(*ast.Ident); ok && id.Name == "panic" {
				found = true
			}
		}
		return true
	})
	return found
}

// assignedOuter: identifiers assigned with `=`/`++`/op= inside n (not declared there).
func (t *tr) assignedOuter(n ast.Node) []string {
	declared := map[types.Object]bool{}
	ast.Inspect(n, func(m ast.Node) bool {
		if id, ok := m.(*ast.Ident); ok {
			if o := t.p.info.Defs[id]; o != nil {
				declared[o] = true
			}
		}
		return true
	})
	seen := map[string]bool{}
	var out []string
	add := func(e ast.Expr) {
		if id, ok := e.(*ast.Ident); ok && id.Name != "_" {
			o := t.p.info.Uses[id]
			if o != nil && !declared[o] && !seen[id.Name] {
				seen[id.Name] = true
				out = append(out, leanIdent(id.Name))
			}
		}
	}
	ast.Inspect(n, func(m ast.Node) bool {
		switch s := m.(type) {
		case *ast.AssignStmt:
			if s.Tok != token.DEFINE {
				for _, l := range s.Lhs {
					add(l)
				}
			}
		case *ast.IncDecStmt:
			add(s.X)
		case *ast.FuncLit:
			return false
		}
		return true
	})
	if t.directWrites {
		dw := false
		ast.Inspect(n, func(m ast.Node) bool {
			if s, ok := m.(*ast.AssignStmt); ok && t.isDirectWrite(s) {
				dw = true
			}
			return true
		})
		if dw {
			out = append(out, "directWrites")
		}
	}
	return out
}

func (t *tr) isDirectWrite(s *ast.AssignStmt) bool {
	if len(s.Lhs) != 1 || s.Tok != token.ASSIGN {
		return false
	}
	ix, ok := s.Lhs[0].(*ast.IndexExpr)
	if !ok {
		return false
	}
	sel, ok := ix.X.(*ast.SelectorExpr)
	return ok && sel.Sel.Name == "Registers"
}

func (t *tr) retPure(s string) string {
	if t.monadic {
		return "pure " + atom(s)
	}
	return s
}

// stmts translates a statement list followed by the continuation k.
func (t *tr) stmts(list []ast.Stmt, ind string, k cont) string {
	if len(list) == 0 {
		if k == nil {
			die("internal: fell off the end of a block without continuation")
		}
		return k(ind)
	}
	s := list[0]
	rest := func(ind string) string { return t.stmts(list[1:], ind, k) }
	switch x := s.(type) {
	case *ast.EmptyStmt:
		return rest(ind)
	case *ast.DeclStmt:
		gd := x.Decl.(*ast.GenDecl)
		var sb strings.Builder
		for _, sp := range gd.Specs {
			vs, ok := sp.(*ast.ValueSpec)
			if !ok {
				t.fail(x, "unsupported declaration")
			}
			for i, n := range vs.Names {
				ty := t.p.info.Defs[n].Type()
				if len(vs.Values) > i {
					var pres []pre
					v := t.expr(vs.Values[i], &pres)
					sb.WriteString(t.bindPres(ind, pres, ""))
					fmt.Fprintf(&sb, "%slet %s : %s := %s;\n", ind, leanIdent(n.Name), t.leanType(n, ty), v)
				} else {
					fmt.Fprintf(&sb, "%slet %s : %s := %s;\n", ind, leanIdent(n.Name), t.leanType(n, ty), t.zeroValue(n, ty))
				}
			}
		}
		return sb.String() + rest(ind)
	case *ast.ExprStmt:
		if c, ok := x.X.(*ast.CallExpr); ok {
			if id, ok := c.Fun.(*ast.Ident); ok && id.Name == "panic" {
				if !t.monadic {
					t.fail(x, "panic in a function translated as total")
				}
				return ind + "throw (Fault.panic \"explicit panic\")\n"
			}
			if sel, ok := c.Fun.(*ast.SelectorExpr); ok {
				if id, ok := sel.X.(*ast.Ident); ok && id.Name == "fmt" {
					return rest(ind) // printing is dropped
				}
			}
		}
		t.fail(x, "unsupported expression statement")
	case *ast.IncDecStmt:
		id, ok := x.X.(*ast.Ident)
		if !ok {
			t.fail(x, "unsupported ++/--")
		}
		ty := t.typeOf(x.X)
		one := t.litOfType(x, constant.MakeInt64(1), ty)
		op := "+"
		if x.Tok == token.DEC {
			op = "-"
		}
		return fmt.Sprintf("%slet %s := %s %s %s;\n", ind, leanIdent(id.Name), leanIdent(id.Name), op, one) + rest(ind)
	case *ast.AssignStmt:
		return t.assign(x, ind) + rest(ind)
	case *ast.ReturnStmt:
		return t.ret(x, ind)
	case *ast.IfStmt:
		if isDebugIf(x) {
			return rest(ind)
		}
		return t.ifStmt(x, ind, list[1:], k)
	case *ast.ForStmt:
		return t.forStmt(x, ind, rest)
	case *ast.SwitchStmt:
		return t.switchStmt(x, ind, list[1:], k)
	case *ast.BlockStmt:
		return t.stmts(append(append([]ast.Stmt{}, x.List...), list[1:]...), ind, k)
	}
	t.fail(s, "unsupported statement %T", s)
	return ""
}

func (t *tr) assign(x *ast.AssignStmt, ind string) string {
	var pres []pre
	if t.isDirectWrite(x) {
		ix := x.Lhs[0].(*ast.IndexExpr)
		k := t.expr(ix.Index, &pres)
		v := t.expr(x.Rhs[0], &pres)
		return t.bindPres(ind, pres, fmt.Sprintf("%slet directWrites := directWrites ++ [(%s, %s)];\n", ind, k, v))
	}
	var names []string
	for _, l := range x.Lhs {
		id, ok := l.(*ast.Ident)
		if !ok {
			t.fail(x, "assignment to a non-variable is outside the subset")
		}
		names = append(names, leanIdent(id.Name))
	}
	if x.Tok != token.DEFINE && x.Tok != token.ASSIGN {
		// op-assignment x op= e
		if len(x.Lhs) != 1 {
			t.fail(x, "bad op-assignment")
		}
		opTok := map[token.Token]token.Token{token.ADD_ASSIGN: token.ADD, token.SUB_ASSIGN: token.SUB, token.MUL_ASSIGN: token.MUL,
			token.AND_ASSIGN: token.AND, token.OR_ASSIGN: token.OR, token.XOR_ASSIGN: token.XOR}[x.Tok]
		if opTok == token.ILLEGAL {
			t.fail(x, "unsupported assignment operator %s", x.Tok)
		}
		be := &ast.BinaryExpr{X: x.Lhs[0], Op: opTok, Y: x.Rhs[0], OpPos: x.TokPos}
		t.p.info.Types[be] = t.p.info.Types[x.Lhs[0]]
		v := t.binary(be, &pres)
		return t.bindPres(ind, pres, fmt.Sprintf("%slet %s := %s;\n", ind, names[0], v))
	}
	if len(x.Lhs) == len(x.Rhs) {
		if len(x.Lhs) == 1 {
			v := t.expr(x.Rhs[0], &pres)
			return t.bindPres(ind, pres, fmt.Sprintf("%slet %s := %s;\n", ind, names[0], v))
		}
		var vs []string
		for _, r := range x.Rhs {
			vs = append(vs, t.expr(r, &pres))
		}
		return t.bindPres(ind, pres, fmt.Sprintf("%slet (%s) := (%s);\n", ind, strings.Join(names, ", "), strings.Join(vs, ", ")))
	}
	if len(x.Rhs) != 1 {
		t.fail(x, "unsupported assignment shape")
	}
	// v, ok := m[k]   |   a, b := f(...)
	if ix, ok := x.Rhs[0].(*ast.IndexExpr); ok {
		if _, isMap := t.typeOf(ix.X).Underlying().(*types.Map); isMap && len(x.Lhs) == 2 {
			m := t.expr(ix.X, &pres)
			k := t.expr(ix.Index, &pres)
			return t.bindPres(ind, pres, fmt.Sprintf("%slet (%s) := GoMap.get %s %s;\n", ind, strings.Join(names, ", "), atom(m), atom(k)))
		}
	}
	v := t.expr(x.Rhs[0], &pres)
	return t.bindPres(ind, pres, fmt.Sprintf("%slet (%s) := %s;\n", ind, strings.Join(names, ", "), v))
}

func (t *tr) ret(x *ast.ReturnStmt, ind string) string {
	var pres []pre
	n := t.results.Len()
	hasErr := n > 0 && t.results.At(n-1).Type().String() == "error"
	if hasErr {
		last := x.Results[len(x.Results)-1]
		if id, ok := last.(*ast.Ident); !ok || id.Name != "nil" {
			// any non-nil error value: the message is not modelled
			return ind + "throw (Fault.err \"error\")\n"
		}
		var vs []string
		for _, r := range x.Results[:len(x.Results)-1] {
			vs = append(vs, t.expr(r, &pres))
		}
		v := strings.Join(vs, ", ")
		if len(vs) > 1 {
			v = "(" + v + ")"
		}
		return t.bindPres(ind, pres, ind+"pure "+atom(v)+"\n")
	}
	var vs []string
	for _, r := range x.Results {
		vs = append(vs, t.expr(r, &pres))
	}
	v := strings.Join(vs, ", ")
	if len(vs) > 1 {
		v = "(" + v + ")"
	}
	return t.bindPres(ind, pres, ind+t.retPure(v)+"\n")
}

func (t *tr) ifStmt(x *ast.IfStmt, ind string, after []ast.Stmt, k cont) string {
	var pres []pre
	var sb strings.Builder
	if x.Init != nil {
		as, ok := x.Init.(*ast.AssignStmt)
		if !ok {
			t.fail(x, "unsupported if-initialiser")
		}
		sb.WriteString(t.assign(as, ind))
	}
	c := t.expr(x.Cond, &pres)
	var elseList []ast.Stmt
	hasElse := x.Else != nil
	if hasElse {
		switch e := x.Else.(type) {
		case *ast.BlockStmt:
			elseList = e.List
		case *ast.IfStmt:
			elseList = []ast.Stmt{e}
		}
	}
	in2 := ind + "  "
	if containsReturn(x.Body) || (hasElse && containsReturn(x.Else)) {
		// control-flow split: each branch is followed by the rest of the block
		restK := func(ind string) string { return t.stmts(after, ind, k) }
		thenS := t.stmts(x.Body.List, in2, restK)
		elseS := t.stmts(elseList, in2, restK)
		sb.WriteString(t.bindPres(ind, pres, fmt.Sprintf("%sif %s then (\n%s%s) else (\n%s%s)\n", ind, c, thenS, ind, elseS, ind)))
		return sb.String()
	}
	// join: only assignments inside; rebind the assigned outer variables
	vars := t.assignedOuter(x)
	if len(vars) == 0 {
		// no effect on modelled state
		sb.WriteString(t.stmts(after, ind, k))
		return sb.String()
	}
	tuple := strings.Join(vars, ", ")
	if len(vars) > 1 {
		tuple = "(" + tuple + ")"
	}
	endK := func(ind string) string { return ind + t.retPure(tuple) + "\n" }
	thenS := t.stmts(x.Body.List, in2, endK)
	elseS := t.stmts(elseList, in2, endK)
	ifE := fmt.Sprintf("(if %s then (\n%s%s) else (\n%s%s))", c, thenS, ind, elseS, ind)
	if t.monadic {
		sb.WriteString(t.bindPres(ind, pres, fmt.Sprintf("%s%s >>= fun %s =>\n", ind, ifE, tuple)))
	} else {
		sb.WriteString(fmt.Sprintf("%slet %s := %s;\n", ind, tuple, ifE))
	}
	sb.WriteString(t.stmts(after, ind, k))
	return sb.String()
}

// forStmt: only `for i := A; i < B; i++ { body }` with constant A, B and a body
// without return/break/continue — unrolled at translation time.
func (t *tr) forStmt(x *ast.ForStmt, ind string, rest cont) string {
	init, ok := x.Init.(*ast.AssignStmt)
	if !ok || init.Tok != token.DEFINE || len(init.Lhs) != 1 {
		t.fail(x, "for-loop initialiser outside the subset")
	}
	iv := init.Lhs[0].(*ast.Ident)
	a, ok := t.constOf(init.Rhs[0])
	if !ok {
		t.fail(x, "for-loop lower bound must be constant")
	}
	cond, ok := x.Cond.(*ast.BinaryExpr)
	if !ok || cond.Op != token.LSS {
		t.fail(x, "for-loop condition must be `i < B`")
	}
	if id, ok := cond.X.(*ast.Ident); !ok || id.Name != iv.Name {
		t.fail(x, "for-loop condition must test the loop variable")
	}
	b, ok := t.constOf(cond.Y)
	if !ok {
		t.fail(x, "for-loop upper bound must be constant")
	}
	post, ok := x.Post.(*ast.IncDecStmt)
	if !ok || post.Tok != token.INC {
		t.fail(x, "for-loop post statement must be i++")
	}
	if containsReturn(x.Body) {
		t.fail(x, "return inside a for-loop is outside the subset")
	}
	bad := false
	ast.Inspect(x.Body, func(n ast.Node) bool {
		if _, ok := n.(*ast.BranchStmt); ok {
			bad = true
		}
		return true
	})
	if bad {
		t.fail(x, "break/continue inside a for-loop is outside the subset")
	}
	for _, v := range t.assignedOuter(x.Body) {
		if v == leanIdent(iv.Name) {
			t.fail(x, "loop variable assigned in the body")
		}
	}
	lo, _ := constant.Int64Val(a)
	hi, _ := constant.Int64Val(b)
	if hi-lo > 256 {
		t.fail(x, "for-loop too long to unroll")
	}
	ty := t.leanType(iv, t.p.info.Defs[iv].Type())
	var gen func(i int64, ind string) string
	gen = func(i int64, ind string) string {
		if i >= hi {
			return rest(ind)
		}
		head := fmt.Sprintf("%slet %s : %s := %d;\n", ind, leanIdent(iv.Name), ty, i)
		return head + t.stmts(x.Body.List, ind, func(ind string) string { return gen(i+1, ind) })
	}
	return gen(lo, ind)
}

// switchStmt: `switch tag { case A, B: …return… ; default: … }` where every
// clause ends in return/panic, or falls to the statements after the switch.
func (t *tr) switchStmt(x *ast.SwitchStmt, ind string, after []ast.Stmt, k cont) string {
	if x.Init != nil || x.Tag == nil {
		t.fail(x, "unsupported switch form")
	}
	var pres []pre
	tag := t.expr(x.Tag, &pres)
	restK := func(ind string) string { return t.stmts(after, ind, k) }
	var def *ast.CaseClause
	var clauses []*ast.CaseClause
	for _, c := range x.Body.List {
		cc := c.(*ast.CaseClause)
		if cc.List == nil {
			def = cc
		} else {
			clauses = append(clauses, cc)
		}
		for _, s := range cc.Body {
			if b, ok := s.(*ast.BranchStmt); ok {
				t.fail(b, "fallthrough/break in switch is outside the subset")
			}
		}
		if !containsReturn(cc) && len(t.assignedOuter(cc)) > 0 {
			t.fail(cc, "switch clause that assigns without returning is outside the subset")
		}
	}
	var gen func(i int, ind string) string
	gen = func(i int, ind string) string {
		if i == len(clauses) {
			if def != nil {
				return t.stmts(def.Body, ind, restK)
			}
			return restK(ind)
		}
		cc := clauses[i]
		var conds []string
		for _, e := range cc.List {
			conds = append(conds, "("+tag+" == "+t.expr(e, nil)+")")
		}
		in2 := ind + "  "
		return fmt.Sprintf("%sif %s then (\n%s%s) else (\n%s%s)\n", ind, strings.Join(conds, " || "),
			t.stmts(cc.Body, in2, restK), ind, gen(i+1, in2), ind)
	}
	return t.bindPres(ind, pres, gen(0, ind))
}

// ---------------------------------------------------------------------------
// functions

// syntactic over-approximation of "may return a Fault"
func (t *tr) scanMayFail(fd *ast.FuncDecl, leanName func(*ast.CallExpr) string) bool {
	sig := t.p.info.Defs[fd.Name].Type().(*types.Signature)
	if n := sig.Results().Len(); n > 0 && sig.Results().At(n-1).Type().String() == "error" {
		return true
	}
	fails := false
	ast.Inspect(fd.Body, func(n ast.Node) bool {
		switch x := n.(type) {
		case *ast.IfStmt:
			if isDebugIf(x) {
				return false
			}
		case *ast.BinaryExpr:
			switch x.Op {
			case token.QUO, token.REM:
				if _, ok := t.constOf(x); !ok {
					fails = true
				}
			case token.SHL, token.SHR:
				if _, ok := t.constOf(x.Y); !ok && isSignedT(t.typeOf(x.Y)) {
					fails = true
				}
			}
		case *ast.IndexExpr:
			if _, ok := t.typeOf(x.X).Underlying().(*types.Slice); ok {
				fails = true
			}
		case *ast.CallExpr:
			if id, ok := x.Fun.(*ast.Ident); ok && id.Name == "panic" {
				fails = true
			}
			if nm := leanName(x); nm != "" && t.mayFail[nm] {
				fails = true
			}
		}
		return true
	})
	return fails
}

func (t *tr) calleeName(x *ast.CallExpr) string {
	switch f := x.Fun.(type) {
	case *ast.Ident:
		if _, ok := t.p.info.Uses[f].(*types.Func); ok {
			return f.Name
		}
	case *ast.SelectorExpr:
		if id, ok := f.X.(*ast.Ident); ok {
			if pn, ok := t.p.info.Uses[id].(*types.PkgName); ok && pn.Imported().Name() == "bytes" {
				return "Gen.Bytes." + f.Sel.Name
			}
		}
	}
	return ""
}

func (t *tr) funcDecl(fd *ast.FuncDecl, leanName string) string {
	sig := t.p.info.Defs[fd.Name].Type().(*types.Signature)
	t.results = sig.Results()
	t.monadic = t.mayFail[leanName]
	t.tmp = 0
	t.directWrites = false
	ast.Inspect(fd.Body, func(n ast.Node) bool {
		if s, ok := n.(*ast.AssignStmt); ok && t.isDirectWrite(s) {
			t.directWrites = true
		}
		return true
	})
	var params []string
	if fd.Recv != nil {
		f := fd.Recv.List[0]
		params = append(params, fmt.Sprintf("(%s : %s)", leanIdent(f.Names[0].Name), t.leanType(f, t.typeOf(f.Type))))
	}
	unnamed := 0
	for _, f := range fd.Type.Params.List {
		ty := t.leanType(f, t.typeOf(f.Type))
		for _, n := range f.Names {
			name := leanIdent(n.Name)
			if name == "_" {
				unnamed++
				name = fmt.Sprintf("_u%d", unnamed)
			}
			params = append(params, fmt.Sprintf("(%s : %s)", name, ty))
		}
	}
	var rts []string
	for i := 0; i < sig.Results().Len(); i++ {
		rt := sig.Results().At(i).Type()
		if rt.String() == "error" {
			continue
		}
		rts = append(rts, t.leanType(fd, rt))
	}
	rt := strings.Join(rts, " × ")
	if rt == "" {
		rt = "Unit"
	}
	if t.monadic {
		rt = "M (" + rt + ")"
	}
	body := ""
	if t.directWrites {
		body = "  let directWrites : List (Reg × Word) := [];\n"
	}
	body += t.stmts(fd.Body.List, "  ", nil)
	pos := t.p.fset.Position(fd.Pos())
	return fmt.Sprintf("/-- %s:%d -/\ndef %s %s : %s :=\n%s\n", filepath.Base(pos.Filename), pos.Line, leanName, strings.Join(params, " "), rt, body)
}

func recvName(fd *ast.FuncDecl) string {
	if fd.Recv == nil {
		return ""
	}
	switch x := fd.Recv.List[0].Type.(type) {
	case *ast.StarExpr:
		if id, ok := x.X.(*ast.Ident); ok {
			return id.Name
		}
	case *ast.Ident:
		return x.Name
	}
	return ""
}

const header = `/-
  GENERATED by verif/go/cmd/extract from %s — do not edit.
  Regenerated from /repo's working tree on every run of every check (tie T1).
-/
`

func catchFail(name string, f func()) (err *failure) {
	defer func() {
		if r := recover(); r != nil {
			if fl, ok := r.(failure); ok {
				err = &fl
				return
			}
			panic(r)
		}
	}()
	f()
	return nil
}

// ---------------------------------------------------------------------------

func genBytes(repo string) (string, map[string]bool) {
	p := loadPkg(repo, "common/bytes", "github.com/teivah/majorana/common/bytes")
	t := &tr{p: p, mayFail: map[string]bool{}}
	var fds []*ast.FuncDecl
	for _, f := range p.files {
		for _, d := range f.Decls {
			if fd, ok := d.(*ast.FuncDecl); ok && fd.Body != nil {
				fds = append(fds, fd)
			}
		}
	}
	// fixpoint of mayFail (local names are used unqualified inside the namespace,
	// but callers use Gen.Bytes.X: record both)
	for changed := true; changed; {
		changed = false
		for _, fd := range fds {
			if t.mayFail[fd.Name.Name] {
				continue
			}
			if t.scanMayFail(fd, t.calleeName) {
				t.mayFail[fd.Name.Name] = true
				t.mayFail["Gen.Bytes."+fd.Name.Name] = true
				changed = true
			}
		}
	}
	// emit callee-first
	emitted := map[string]bool{}
	var order []*ast.FuncDecl
	var visit func(fd *ast.FuncDecl)
	byName := map[string]*ast.FuncDecl{}
	for _, fd := range fds {
		byName[fd.Name.Name] = fd
	}
	visit = func(fd *ast.FuncDecl) {
		if emitted[fd.Name.Name] {
			return
		}
		emitted[fd.Name.Name] = true
		ast.Inspect(fd.Body, func(n ast.Node) bool {
			if c, ok := n.(*ast.CallExpr); ok {
				if id, ok := c.Fun.(*ast.Ident); ok {
					if g, ok := byName[id.Name]; ok {
						visit(g)
					}
				}
			}
			return true
		})
		order = append(order, fd)
	}
	for _, fd := range fds {
		visit(fd)
	}
	var sb strings.Builder
	fmt.Fprintf(&sb, header, "common/bytes/bytes.go")
	sb.WriteString("import MajoranaVerif.Model.GoInt\nopen GoInt\nset_option linter.unusedVariables false\n\nnamespace Gen.Bytes\n\n")
	for _, fd := range order {
		fd := fd
		if err := catchFail(fd.Name.Name, func() { sb.WriteString(t.funcDecl(fd, fd.Name.Name) + "\n") }); err != nil {
			die("%s: %s (in func %s)", err.pos, err.msg, fd.Name.Name)
		}
	}
	sb.WriteString("end Gen.Bytes\n")
	out := map[string]bool{}
	for k, v := range t.mayFail {
		if strings.HasPrefix(k, "Gen.Bytes.") {
			out[k] = v
		}
	}
	return sb.String(), out
}

func genLatency(repo string) string {
	p := loadPkg(repo, "common/latency", "github.com/teivah/majorana/common/latency")
	var sb strings.Builder
	fmt.Fprintf(&sb, header, "common/latency/latency.go")
	sb.WriteString("\nnamespace Gen.Latency\n\n")
	scope := p.pkg.Scope()
	for _, n := range scope.Names() {
		if c, ok := scope.Lookup(n).(*types.Const); ok {
			fmt.Fprintf(&sb, "def %s : Int := %s\n", n, c.Val().ExactString())
		}
	}
	sb.WriteString("\nend Gen.Latency\n")
	return sb.String()
}

// genConsts: the integer constants of the sequential machines' packages (decode cost, cache geometry).
func genConsts(repo string) string {
	var sb strings.Builder
	fmt.Fprintf(&sb, header, "proc/mvp1 … proc/mvp8-0 (package-level integer constants)")
	sb.WriteString("\nnamespace Gen.Consts\n\n")
	for _, v := range []string{"mvp1", "mvp2", "mvp3", "mvp4", "mvp5", "mvp6-0", "mvp6-1", "mvp6-2", "mvp6-3", "mvp7-0", "mvp7-1", "mvp8-0"} {
		p := loadPkg(repo, "proc/"+v, "github.com/teivah/majorana/proc/"+v)
		scope := p.pkg.Scope()
		fmt.Fprintf(&sb, "namespace %s\n", strings.ReplaceAll(v, "-", "_"))
		for _, n := range scope.Names() {
			if c, ok := scope.Lookup(n).(*types.Const); ok && c.Val().Kind() == constant.Int {
				fmt.Fprintf(&sb, "def %s : Int := %s\n", n, c.Val().ExactString())
			}
		}
		fmt.Fprintf(&sb, "end %s\n\n", strings.ReplaceAll(v, "-", "_"))
	}
	sb.WriteString("end Gen.Consts\n")
	return sb.String()
}

var opMethods = []string{"Run", "InstructionType", "ReadRegisters", "WriteRegisters", "MemoryRead", "MemoryWrite"}

func genRisc(repo string, bytesFail map[string]bool) (riscOut, opsOut string, facts map[string]any) {
	p := loadPkg(repo, "risc", "github.com/teivah/majorana/risc")
	t := &tr{p: p, mayFail: map[string]bool{}}
	for k, v := range bytesFail {
		t.mayFail[k] = v
	}
	facts = map[string]any{}

	// --- enums -------------------------------------------------------------
	enumConsts := map[string][]string{}
	scope := p.pkg.Scope()
	type cv struct {
		name string
		val  int64
	}
	tmp := map[string][]cv{}
	for _, n := range scope.Names() {
		if c, ok := scope.Lookup(n).(*types.Const); ok {
			if nt, ok := c.Type().(*types.Named); ok {
				v, _ := constant.Int64Val(c.Val())
				tmp[nt.Obj().Name()] = append(tmp[nt.Obj().Name()], cv{n, v})
			}
		}
	}
	for ty, l := range tmp {
		sort.Slice(l, func(i, j int) bool { return l[i].val < l[j].val })
		for i, c := range l {
			if int64(i) != c.val {
				die("enum %s is not a dense iota block at %s", ty, c.name)
			}
			enumConsts[ty] = append(enumConsts[ty], c.name)
		}
	}
	facts["registers"] = enumConsts["RegisterType"]
	facts["instruction_types"] = enumConsts["InstructionType"]

	var rs strings.Builder
	fmt.Fprintf(&rs, header, "risc/risc.go, risc/app.go (ratLength)")
	rs.WriteString("import MajoranaVerif.Model.GoInt\nimport MajoranaVerif.Model.Ctx\nimport MajoranaVerif.Gen.Latency\nopen GoInt\nset_option linter.unusedVariables false\n\nnamespace Gen\n\n")
	rs.WriteString("namespace Reg\n")
	for i, n := range enumConsts["RegisterType"] {
		fmt.Fprintf(&rs, "def %s : Reg := %d\n", n, i)
	}
	rs.WriteString("end Reg\n\n")
	rs.WriteString("inductive InstructionType where\n")
	for _, n := range enumConsts["InstructionType"] {
		fmt.Fprintf(&rs, "  | %s\n", n)
	}
	rs.WriteString("  deriving DecidableEq, Repr, Inhabited\n\n")
	rs.WriteString("def InstructionType.all : List InstructionType := [" )
	for i, n := range enumConsts["InstructionType"] {
		if i > 0 {
			rs.WriteString(", ")
		}
		rs.WriteString("." + n)
	}
	rs.WriteString("]\n\n")
	if c, ok := scope.Lookup("ratLength").(*types.Const); ok {
		fmt.Fprintf(&rs, "def ratLength : Nat := %s\n\n", c.Val().ExactString())
	}

	// --- functions of risc.go ---------------------------------------------
	var riscFuncs, opFuncs, forwardBodies []*ast.FuncDecl
	structs := []*ast.TypeSpec{}
	for _, f := range p.files {
		base := filepath.Base(p.fset.Position(f.Pos()).Filename)
		for _, d := range f.Decls {
			switch x := d.(type) {
			case *ast.FuncDecl:
				if x.Body == nil {
					continue
				}
				if base == "risc.go" {
					if x.Name.Name == "String" || x.Name.Name == "Stringer" {
						continue
					}
					riscFuncs = append(riscFuncs, x)
				}
				if base == "opcodes.go" {
					if x.Recv == nil {
						if x.Name.Name == "registerRead" {
							opFuncs = append(opFuncs, x)
						} else {
							die("%s: unexpected free function %s in opcodes.go (outside the subset)", p.fset.Position(x.Pos()), x.Name.Name)
						}
						continue
					}
					keep := false
					for _, m := range opMethods {
						if x.Name.Name == m {
							keep = true
						}
					}
					if keep {
						opFuncs = append(opFuncs, x)
					} else if x.Name.Name != "Forward" {
						die("%s: unexpected method %s in opcodes.go (outside the subset)", p.fset.Position(x.Pos()), x.Name.Name)
					} else {
						// `Forward` is not translated: the generated `setForward` ASSUMES "a struct with a forward field stores
						// the argument, the others ignore it". Check exactly that shape here: the body is empty, or the single
						// statement `<recv>.forward = <param>`.
						okShape := len(x.Body.List) == 0
						if len(x.Body.List) == 1 && len(x.Type.Params.List) == 1 && len(x.Type.Params.List[0].Names) == 1 && len(x.Recv.List[0].Names) == 1 {
							if as, ok := x.Body.List[0].(*ast.AssignStmt); ok && as.Tok == token.ASSIGN && len(as.Lhs) == 1 && len(as.Rhs) == 1 {
								sel, ok1 := as.Lhs[0].(*ast.SelectorExpr)
								rhs, ok2 := as.Rhs[0].(*ast.Ident)
								if ok1 && ok2 && sel.Sel.Name == "forward" && rhs.Name == x.Type.Params.List[0].Names[0].Name {
									if rv, ok := sel.X.(*ast.Ident); ok && rv.Name == x.Recv.List[0].Names[0].Name {
										okShape = true
									}
								}
							}
						}
						if !okShape {
							die("%s: method Forward is not `op.forward = forward` / empty (outside the subset: setForward assumes it)", p.fset.Position(x.Pos()))
						}
						forwardBodies = append(forwardBodies, x)
					}
				}
			case *ast.GenDecl:
				if base == "opcodes.go" && x.Tok == token.TYPE {
					for _, sp := range x.Specs {
						ts := sp.(*ast.TypeSpec)
						if _, ok := ts.Type.(*ast.StructType); ok {
							structs = append(structs, ts)
						}
					}
				}
			}
		}
	}
	lname := func(fd *ast.FuncDecl) string {
		if r := recvName(fd); r != "" {
			if _, isEnum := enumConsts[r]; isEnum {
				return r + "." + fd.Name.Name
			}
			return "op_" + r + "." + fd.Name.Name
		}
		return fd.Name.Name
	}
	callee := func(x *ast.CallExpr) string {
		if n := t.calleeName(x); n != "" {
			return n
		}
		return ""
	}
	all := append(append([]*ast.FuncDecl{}, riscFuncs...), opFuncs...)
	for changed := true; changed; {
		changed = false
		for _, fd := range all {
			n := lname(fd)
			if !t.mayFail[n] && t.scanMayFail(fd, callee) {
				t.mayFail[n] = true
				changed = true
			}
		}
	}
	// methods on enums are called as ins.IsX(): extend call() via a small hook
	for _, fd := range riscFuncs {
		fd := fd
		if err := catchFail(lname(fd), func() { rs.WriteString(t.funcDeclEnum(fd, lname(fd)) + "\n") }); err != nil {
			die("%s: %s (in %s)", err.pos, err.msg, lname(fd))
		}
	}
	rs.WriteString("end Gen\n")

	// --- opcodes.go ----------------------------------------------------------
	var os_ strings.Builder
	fmt.Fprintf(&os_, header, "risc/opcodes.go")
	os_.WriteString("import MajoranaVerif.Model.GoInt\nimport MajoranaVerif.Model.Ctx\nimport MajoranaVerif.Model.Rat\nimport MajoranaVerif.Gen.Bytes\nimport MajoranaVerif.Gen.Risc\nopen GoInt\nset_option linter.unusedVariables false\n\nnamespace Gen\n\n")
	os_.WriteString("/-- risc.Forward -/\nstructure Forward where\n  Register : Reg := 0\n  Value : Word := 0\n  deriving Repr, Inhabited, DecidableEq\n\n")
	// Execution struct from app.go
	exeObj := scope.Lookup("Execution").Type().Underlying().(*types.Struct)
	os_.WriteString("/-- risc.Execution (plus the ghost field `DirectWrites`: writes an instruction makes to\n`ctx.Registers` from inside `Run`, bypassing the write-back path) -/\nstructure Execution where\n")
	var exeFields []string
	for i := 0; i < exeObj.NumFields(); i++ {
		f := exeObj.Field(i)
		ty := ""
		if _, isMap := f.Type().(*types.Map); isMap {
			mt := f.Type().(*types.Map)
			ty = "List (" + t.leanType(nil, mt.Key()) + " × " + t.leanType(nil, mt.Elem()) + ")"
		} else {
			ty = t.leanType(nil, f.Type())
		}
		zv := t.zeroValue(nil, f.Type())
		if strings.HasPrefix(ty, "List ") {
			zv = "[]"
		}
		fmt.Fprintf(&os_, "  %s : %s := %s\n", f.Name(), ty, zv)
		exeFields = append(exeFields, f.Name())
	}
	os_.WriteString("  DirectWrites : List (Reg × Word) := []\n  deriving Repr, Inhabited, DecidableEq\n\n")
	facts["execution_fields"] = exeFields

	var opNames []string
	opFields := map[string][][2]string{}
	for _, ts := range structs {
		name := ts.Name.Name
		if name == "InstructionRunnerPc" || name == "Forward" {
			continue
		}
		st := p.info.Defs[ts.Name].Type().Underlying().(*types.Struct)
		opNames = append(opNames, name)
		fmt.Fprintf(&os_, "structure op_%s where\n", name)
		for i := 0; i < st.NumFields(); i++ {
			f := st.Field(i)
			zv := t.zeroValue(ts, f.Type())
			if b, ok := f.Type().Underlying().(*types.Basic); ok && b.Kind() == types.String {
				zv = "\"\""
			}
			fmt.Fprintf(&os_, "  %s : %s := %s\n", f.Name(), t.leanType(ts, f.Type()), zv)
			opFields[name] = append(opFields[name], [2]string{f.Name(), t.leanType(ts, f.Type())})
		}
		os_.WriteString("  deriving Repr, Inhabited, DecidableEq\n\n")
	}
	facts["opcodes"] = opNames
	facts["opcode_fields"] = opFields

	have := map[string]map[string]bool{}
	for _, fd := range opFuncs {
		fd := fd
		n := lname(fd)
		if r := recvName(fd); r != "" {
			if have[r] == nil {
				have[r] = map[string]bool{}
			}
			have[r][fd.Name.Name] = true
		}
		if err := catchFail(n, func() { os_.WriteString(t.funcDecl(fd, n) + "\n") }); err != nil {
			die("%s: %s (in %s)", err.pos, err.msg, n)
		}
	}
	for _, o := range opNames {
		for _, m := range opMethods {
			if !have[o][m] {
				die("opcodes.go: struct %s lacks method %s", o, m)
			}
		}
	}
	// sum type + dispatchers
	os_.WriteString("/-- one constructor per instruction struct of opcodes.go -/\ninductive Instr where\n")
	for _, o := range opNames {
		fmt.Fprintf(&os_, "  | %s (op : op_%s)\n", o+"_", o)
	}
	os_.WriteString("  deriving Repr, Inhabited, DecidableEq\n\nnamespace Instr\n\n")
	lift := func(m string, o string, call string) string {
		return call
	}
	_ = lift
	disp := func(method, params, args, rt string, monadicAll bool) {
		fmt.Fprintf(&os_, "def %s (i : Instr) %s : %s :=\n  match i with\n", lowerFirst(method), params, rt)
		for _, o := range opNames {
			call := fmt.Sprintf("op_%s.%s op %s", o, method, args)
			if monadicAll && !t.mayFail["op_"+o+"."+method] {
				call = "pure (" + call + ")"
			}
			fmt.Fprintf(&os_, "  | .%s_ op => %s\n", o, call)
		}
		os_.WriteString("\n")
	}
	disp("Run", "(ctx : Model.Context) (labels : GoMap String Word) (pc : Word) (memory : List Byte) (sequenceID : Word)", "ctx labels pc memory sequenceID", "M Execution", true)
	disp("InstructionType", "", "", "InstructionType", false)
	disp("ReadRegisters", "", "", "List Reg", false)
	disp("WriteRegisters", "", "", "List Reg", false)
	anyMR, anyMW := false, false
	for _, o := range opNames {
		anyMR = anyMR || t.mayFail["op_"+o+".MemoryRead"]
		anyMW = anyMW || t.mayFail["op_"+o+".MemoryWrite"]
	}
	if anyMR || anyMW {
		die("MemoryRead/MemoryWrite contain partial operations: outside the subset")
	}
	disp("MemoryRead", "(ctx : Model.Context) (sequenceID : Word)", "ctx sequenceID", "List Word", false)
	disp("MemoryWrite", "(ctx : Model.Context) (sequenceID : Word)", "ctx sequenceID", "List Word", false)
	// Forward setter
	os_.WriteString("/-- `Forward(f)`: every struct with a `forward` field stores it; the others ignore it -/\ndef setForward (i : Instr) (f : Forward) : Instr :=\n  match i with\n")
	var noFwd []string
	for _, o := range opNames {
		has := false
		for _, f := range opFields[o] {
			if f[0] == "forward" {
				has = true
			}
		}
		if has {
			fmt.Fprintf(&os_, "  | .%s_ op => .%s_ { op with forward := f }\n", o, o)
		} else {
			fmt.Fprintf(&os_, "  | .%s_ op => .%s_ op\n", o, o)
			noFwd = append(noFwd, o)
		}
	}
	facts["opcodes_without_forward_field"] = noFwd
	facts["forward_methods_checked"] = len(forwardBodies)
	// ofDump: rebuild an instruction from the field dump the Go harness prints (fmt %+v)
	os_.WriteString("\n/-- rebuild an instruction from `name` and its `field=value` dump (driver use only) -/\ndef ofDump (name : String) (get : String → Option String) (fwd : Forward) : Option Instr :=\n")
	os_.WriteString("  let reg (f : String) : Option Reg := (get f).bind String.toNat?\n  let word (f : String) : Option Word := ((get f).bind String.toInt?).map (BitVec.ofInt 32)\n  let str (f : String) : Option String := get f\n")
	for i, o := range opNames {
		kw := "if"
		if i > 0 {
			kw = "else if"
		}
		fmt.Fprintf(&os_, "  %s name == %q then do\n", kw, o)
		var inits []string
		for _, f := range opFields[o] {
			switch f[1] {
			case "Reg":
				fmt.Fprintf(&os_, "    let f_%s ← reg %q\n", f[0], f[0])
			case "BitVec 32":
				fmt.Fprintf(&os_, "    let f_%s ← word %q\n", f[0], f[0])
			case "String":
				fmt.Fprintf(&os_, "    let f_%s ← str %q\n", f[0], f[0])
			case "Forward":
				fmt.Fprintf(&os_, "    let f_%s := fwd\n", f[0])
			default:
				die("opcodes.go: field %s.%s has type %s, which the dump reader does not know", o, f[0], f[1])
			}
			inits = append(inits, fmt.Sprintf("%s := f_%s", f[0], f[0]))
		}
		fmt.Fprintf(&os_, "    pure (.%s_ { %s })\n", o, strings.Join(inits, ", "))
	}
	os_.WriteString("  else none\n")
	os_.WriteString("\nend Instr\nend Gen\n")
	monadicRuns := []string{}
	for _, o := range opNames {
		if t.mayFail["op_"+o+".Run"] {
			monadicRuns = append(monadicRuns, o)
		}
	}
	facts["monadic_runs"] = monadicRuns
	return rs.String(), os_.String(), facts
}

// funcDeclEnum: like funcDecl, but the receiver of methods on enums is a value.
func (t *tr) funcDeclEnum(fd *ast.FuncDecl, leanName string) string {
	return t.funcDecl(fd, leanName)
}

func main() {
	repo := flag.String("repo", "/repo", "repository root")
	out := flag.String("out", "", "output directory for generated Lean files")
	factsPath := flag.String("facts", "", "where to write facts.json")
	flag.Parse()
	if *out == "" {
		die("-out required")
	}
	if err := os.Chdir(*repo); err != nil {
		die("%v", err)
	}
	if err := os.MkdirAll(*out, 0o755); err != nil {
		die("%v", err)
	}
	for _, f := range []string{"Bytes.lean", "Latency.lean", "Risc.lean", "Opcodes.lean", "Consts.lean"} {
		os.Remove(filepath.Join(*out, f))
	}
	bytesSrc, bytesFail := genBytes(*repo)
	write(filepath.Join(*out, "Bytes.lean"), bytesSrc)
	write(filepath.Join(*out, "Latency.lean"), genLatency(*repo))
	write(filepath.Join(*out, "Consts.lean"), genConsts(*repo))
	rs, ops, facts := genRisc(*repo, bytesFail)
	write(filepath.Join(*out, "Risc.lean"), rs)
	write(filepath.Join(*out, "Opcodes.lean"), ops)
	if *factsPath != "" {
		b, _ := json.MarshalIndent(facts, "", " ")
		write(*factsPath, string(b)+"\n")
	}
}

func write(path, s string) {
	if err := os.WriteFile(path, []byte(s), 0o644); err != nil {
		die("%v", err)
	}
}

// Package hx holds what every correspondence stream of the Go harness shares: the
// seeded PRNG, the boundary lattice of 32-bit values, line writers and the
// canonical rendering that the Lean driver reproduces byte for byte.
package hx

import (
	"bufio"
	"fmt"
	"math/rand"
	"os"
	"sort"
	"strings"
)

// Lattice is the boundary lattice of DESIGN §4 (C02): every power-of-two edge that
// matters for shifts, sign extension, byte/half boundaries and wrap-around.
var Lattice = []int32{
	0, 1, -1, 2, -2, 3, 4, 5, 7, 8, 15, 16, 17, 30, 31, 32, 33, 34, 63, 64, 65,
	127, 128, 129, 255, 256, 257, 1000, 32767, 32768, 32769, 65535, 65536, 65537,
	-31, -32, -33, -64, -127, -128, -129, -255, -256, -32767, -32768, -32769, -65536,
	0x7fffffff, -0x80000000, -0x7fffffff, 0x7ffffffe, 0x40000000, -0x40000000,
	0x00ff00ff, -0x00ff0100, 0x12345678, -0x12345678, 0x7fff8000, 0x0000ff80, 0x00008000,
}

type Out struct {
	In, Go *bufio.Writer
	fi, fg *os.File
	N      int
}

func Open(dir, name string) *Out {
	if err := os.MkdirAll(dir, 0o755); err != nil {
		panic(err)
	}
	fi, err := os.Create(dir + "/" + name + ".in")
	if err != nil {
		panic(err)
	}
	fg, err := os.Create(dir + "/" + name + ".go")
	if err != nil {
		panic(err)
	}
	return &Out{In: bufio.NewWriterSize(fi, 1<<20), Go: bufio.NewWriterSize(fg, 1<<20), fi: fi, fg: fg}
}

func (o *Out) Close() {
	o.In.Flush()
	o.Go.Flush()
	o.fi.Close()
	o.fg.Close()
}

// Emit writes one input line and the Go side's answer (which may be several lines).
func (o *Out) Emit(in string, goOut string) {
	o.In.WriteString(in)
	o.In.WriteByte('\n')
	o.Go.WriteString(goOut)
	o.Go.WriteByte('\n')
	o.N++
}

func NewRand(seed int64) *rand.Rand { return rand.New(rand.NewSource(seed)) }

// Pick32 draws a 32-bit value: mostly lattice points and their neighbours, some uniform.
func Pick32(r *rand.Rand) int32 {
	switch r.Intn(10) {
	case 0, 1, 2, 3, 4:
		return Lattice[r.Intn(len(Lattice))]
	case 5:
		return Lattice[r.Intn(len(Lattice))] + int32(r.Intn(5)-2)
	case 6:
		return int32(r.Intn(64) - 16)
	default:
		return int32(r.Uint32())
	}
}

func B(b bool) string {
	if b {
		return "1"
	}
	return "0"
}

// MemString renders a map of byte stores sorted by (signed) address.
func MemString(m map[int32]int8) string {
	keys := make([]int32, 0, len(m))
	for k := range m {
		keys = append(keys, k)
	}
	sort.Slice(keys, func(i, j int) bool { return keys[i] < keys[j] })
	var sb strings.Builder
	for i, k := range keys {
		if i > 0 {
			sb.WriteByte(',')
		}
		fmt.Fprintf(&sb, "%d:%d", k, m[k])
	}
	return sb.String()
}

func Join32(l []int32) string {
	s := make([]string, len(l))
	for i, v := range l {
		s[i] = fmt.Sprint(v)
	}
	return strings.Join(s, ",")
}

#!/usr/bin/env python3
"""tools/seeded_matrix.py [ids…] — for every CONFIRMED seeded change (seeded/<id>/confirm.json), run the checks of its
own property and of the related properties against it (quick tier; ids in THOROUGH also thorough) in an isolated copy
(tools/iso), and write seeded/<id>/meta.json (description from the sub-agent, the lead's confirmation, the verdict of each
check). Then regenerate the table of DESIGN.md §9 between the markers <!-- SEEDED-TABLE --> … <!-- /SEEDED-TABLE -->."""
import json, os, subprocess, sys

IN = "/verif/.work/seeded_in"
OUT = "/verif/seeded"
EXTRA = {"C01-1": ["C15"], "C01-2": ["C05"], "C12-1": ["C07"], "C12-2": [], "C12-3": [], "C03-1": ["C01"], "C03-2": ["C15"], "C09-2": ["C01"],
         "C04-1": ["C03"], "C05-2": ["C01"], "C10-2": ["C02"], "C07-2": ["C15"], "C10-1": ["C05"], "C05-1": ["C09"],
         "C01-I1": ["C09"], "C01-I2": ["C02", "C04"], "C05-I2": ["C10"], "C09-K1": ["C14"], "C10-K2": ["C05"], "C04-J2": ["C03"],
         "C06-M2": ["C13"], "C15-N2": ["C02"], "C12-L2": ["C05"], "C04-J1": ["C01"]}
THOROUGH = {"C08-2": ["C08"], "C03-J2": ["C03"], "C10-K1": ["C10"], "C10-1": ["C10"], "C05-1": ["C05"], "C03-1": ["C03"]}


def main():
    if sys.argv[1:] == ["--table"]:
        return table()
    ids = sys.argv[1:] or sorted(x for x in os.listdir(OUT) if os.path.exists(f"{OUT}/{x}/confirm.json"))
    for id_ in ids:
        if not os.path.exists(f"{OUT}/{id_}/confirm.json"):
            print(id_, "not confirmed, skipped")
            continue
        checks = [id_[:3]] + EXTRA.get(id_, [])
        res = {}
        tmp = f"/tmp/seeded_matrix_{id_}.json"
        for tier, cs in (("quick", checks), ("thorough", THOROUGH.get(id_, []))):
            if not cs:
                continue
            if os.path.exists(tmp):
                os.remove(tmp)
            subprocess.run(["/verif/tools/iso", f"SEEDED_OUT={tmp} TIER={tier} tools/seeded_try.py .work/seeded_in/{id_} {' '.join(cs)}"],
                           capture_output=True, text=True)
            if os.path.exists(tmp):
                for c, r in json.load(open(tmp)).items():
                    res[f"{c}/{tier}"] = {"caught": r["exit"] == 1 and bool(r["violations"]), "exit": r["exit"], "wall_s": r["wall_s"],
                                          "violation_lines": [v.split("replay=")[0] + "replay=…" + (" no-failing-input-found" if "no-failing-input-found" in v else "") for v in r["violations"][:3]]}
                os.remove(tmp)
        meta = json.load(open(f"{IN}/{id_}/meta.json")) if os.path.exists(f"{IN}/{id_}/meta.json") else {}
        conf = json.load(open(f"{OUT}/{id_}/confirm.json"))
        keep = {k: meta.get(k) for k in ("property", "files_changed", "function", "what_it_breaks", "needs_to_manifest", "why_the_suite_cannot_see_it") if meta.get(k)}
        keep.update({"id": id_, "origin": "independent sub-agent given only the property text and a scratch worktree of /repo",
                     "confirmed_by_lead": {"repo_head": conf["repo_head"], "steps": conf["steps"], "confirmed": conf["confirmed"]},
                     "checks": res, "caught_by": sorted(k for k, v in res.items() if v["caught"])})
        json.dump(keep, open(f"{OUT}/{id_}/meta.json", "w"), indent=1)
        print(id_, {k: ("CAUGHT" if v["caught"] else "missed") for k, v in res.items()}, flush=True)


def table():
    rows = ["| id | file | what it needs to manifest (short) | caught by (quick tier unless noted) | missed by |", "|---|---|---|---|---|"]
    for id_ in sorted(os.listdir(OUT)):
        p = f"{OUT}/{id_}/meta.json"
        if not os.path.exists(p):
            continue
        m = json.load(open(p))
        need = (m.get("needs_to_manifest") or "")[:160].replace("|", "/").replace("\n", " ")
        rows.append(f"| {id_} | {', '.join(m.get('files_changed', []))} | {need}… | {', '.join(m['caught_by']) or '—'} | {', '.join(k for k, v in m['checks'].items() if not v['caught']) or '—'} |")
    p = "/verif/DESIGN.md"
    s = open(p).read()
    a, b = "<!-- SEEDED-TABLE -->", "<!-- /SEEDED-TABLE -->"
    if a in s and b in s:
        s = s[:s.index(a) + len(a)] + "\n" + "\n".join(rows) + "\n" + s[s.index(b):]
        open(p, "w").write(s)


main()

#!/usr/bin/env python3
"""Writes /verif/MANIFEST.json from the tables below (kept in one place so that it stays valid)."""
import json

checks = {}

checks["C16"] = dict(category="proof", design="§4 C16",
    text="Theorems (Props/C16.lean) over the Lean definitions REGENERATED from common/bytes/bytes.go and the lw/sw bodies of risc/opcodes.go on every run: split;join = id for all 2^32 words, join;split = id for all 2^32 byte quadruples, byte i = bits 8i..8i+7, neither direction can panic, sw then lw returns the stored value. The quantifier is closed by proof, not by enumeration; a change to the Go source changes the generated definitions and re-opens the proofs.",
    note="Trusted: Lean kernel (+leanchecker in thorough), axioms propext/Classical.choice/Quot.sound only, the Go->Lean translator and Model/GoInt (validated every run by running the generated definitions against the real functions), harness/driver. Search when a proof or the tie breaks: Go functions vs encoding/binary on a stratified sample, and all 2^32 values in thorough (or whenever something is broken).",
    technique="Lean 4 proof over a model regenerated from the Go source (translator), bit-extensionality; correspondence stream + exhaustive 2^32 Go sweep as search")

checks["C02"] = dict(category="proof", design="§4 C02",
    text="One theorem per instruction struct of risc/opcodes.go (45) plus their conjunction, over Lean definitions REGENERATED from the Go bodies on every run: for every context, forward slot, operand value, register choice (x0 and aliases included), immediate and label map, the Go Run body yields exactly the outcome of the RV32IM specification Spec.exec (a Go error iff division by zero / undefined label; never a panic; no direct register-file write); ReadRegisters/WriteRegisters equal the ISA read/write sets modulo x0; MemoryRead/MemoryWrite equal the accessed byte addresses; x0 ignores writes and reads 0.",
    note="Trusted: as C16, plus Spec/Exec.lean (the RV32IM reading: div-by-zero and undefined label are errors, ret halts), Model/Roles.lean (ISA role of each Go field, cross-checked per case against the text the Go parser accepted), Model/Rat.lean for the rename-table reads inside registerRead (tied by C15). Search: every generated single-instruction case is run on the real code (risc.Parse + Run + the four declaration methods) and compared with both the generated definitions (tie) and Spec.exec (property); a difference is reported with the instruction text and operand values as replay.",
    technique="Lean 4 proof over a model regenerated from the Go source (translator); differential Go vs Lean spec on boundary lattice + random as correspondence and search")

checks["C11"] = dict(category="proof", design="§4 C11",
    text="17 theorems (Props/C11.lean) over a hand-written byte-level Lean model of risc.Parse (Go TrimSpace/ToLower tables, first-space split, label test, comment cut, ParseInt, parseOffsetReg), for ALL byte strings: parsing never panics; for accepted text the instruction count equals the number of instruction lines of an independent classifier, a label maps to 4 x the number of instruction lines before its last definition, instruction j depends only on line j, registers are decoded by name (both spellings) and immediates by decimal value with sign and range, the canonical printing of every well-formed instruction/program parses back to it, and the listed layout edits (blank/comment lines, indentation, trailing comments, mnemonic case) do not change the result — except the re-spelling of a bare `j` line (proved counterexample, recorded finding C11-bare-j).",
    note="Trusted: Lean kernel, standard axioms, the hand model Model/Parser.lean (+ParserRef.lean notions), tied to risc/parser.go on every run by ~1.9e5 texts (res/*.asm, all mnemonics x registers x spellings, 20 grammar-directed mutation kinds, arbitrary bytes, layout-edit pairs) compared output-for-output, Go's unicode tables swept against the model's; an independent Python reading of the text judges Go's output. Agreement with Spec.Asm on canonical text is an executable check, not a theorem.",
    technique="Lean 4 proof by induction over the line list on a hand model; lock-step correspondence + independent oracle + grammar-directed mutation stream as tie and search")

checks["C13"] = dict(category="proof", design="§4 C13",
    text="24 theorems (Props/C13.lean) over a hand-written Lean model that keeps the Go representation (MRU-first line list; LRU-first key order), for ALL geometries (line length >= 1, any number of lines) and ALL operation histories within the type's non-overlap contract (an explicit decidable hypothesis, with a proved counterexample when it is dropped): a read returns the last write since the line's insertion, presence = coverage by a resident line, PushLine displaces the least-recently-used line AND reports that line's contents, capacity is restored after the reported victim is removed (both push APIs), sub-line extraction, and the same recency laws for the key-value LRU (put on a full map removes the least recently touched key; get/find/put move to most-recent; Find returns the least recent member).",
    note="Trusted: Lean kernel, the three standard axioms, the hand model Model/LineCache.lean + Model/KvLru.lean (tied to proc/comp/cache.go and common/cache/lru.go by the lock-step correspondence stream on every run: geometries (2,6),(4,4),(4,16),(64,1024),(128,4096) and random ones, slice-aliasing probes, bounded-exhaustive short histories), the independent Python reference that judges the Go outputs (byte->value map + recency stamps), harness/driver. int32 address overflow is outside the model.",
    technique="Lean 4 proof (invariant + refinement to a history-defined reference) on a hand model; lock-step correspondence Go vs model + independent reference oracle as tie and search")

checks["C14"] = dict(category="proof", design="§4 C14",
    text="31 theorems (Props/C14.lean) over hand-written Lean models of SimpleBus, BufferedBus, Queue and Broadcast, for ALL capacities and ALL operation histories (items carry the index of their Add as unique id): conservation (added = returned + inside + cleaned, as multisets; at most one delivery per id), FIFO for Get and order-preservation under Pick, latency (an item added in cycle c is not delivered before a Connect(c') with c' >= c+1; SimpleBus: not before the second Get), capacity under polite producers, Clean/Flush empties and forgets. The clause `a reverted item is the next one delivered` is FALSE of the code when the visible queue is non-empty: kept as Full_C14_revert_next with a proved refutation and a proved partial version (queue empty) — recorded known finding KF-C14-revert (dead API).",
    note="Trusted: Lean kernel, the three standard axioms, the hand model Model/Bus.lean (tied to proc/comp/bus.go, queue.go, broadcast.go by the lock-step stream on every run: capacities 1..4 x 1..4, ~70% polite producers, plus bounded-exhaustive histories up to length 6-9), the independent Python oracle on id lists, harness/driver. Not modelled: the goroutine/channel inside Queue.Iterator (thorough runs the stream under -race), Go int overflow of cycle+1.",
    technique="Lean 4 proof by induction over operation histories on a hand model; lock-step correspondence + bounded-exhaustive histories + independent oracle as tie and search")

checks["C15"] = dict(category="proof", design="§4 C15",
    text="45 theorems (Props/C15.lean) over hand models of the Context transaction/rename operations (Model/Txn.lean) and of comp.RAT (Model/Rat.lean), with the read precedence taken from the REGENERATED Gen.registerRead, for ALL ring lengths and ALL write histories: commit publishes the youngest write (also beyond the slots), rollback(s) publishes the youngest write older than s and leaves the register UNCHANGED if there is none, a tagged read never returns a younger write (rename table), plain reads return the youngest value beyond the slots, whole-history refinement across epochs, and order-independence of the six map-range loops. With non-monotone tag order per register the code keeps the last written value: proved counterexamples + partial theorems (findings C15-tag-order, C15-map-read-ignores-tag).",
    note="Trusted: Lean kernel, standard axioms, hand models Model/Txn.lean and Model/Rat.lean tied to risc/app.go and proc/comp/rat.go by the lock-step stream (real risc.Context driven through its exported methods, reads observed through a parsed `mv` run with a tag; comp.RAT directly for L=1..10; bounded-exhaustive short histories over all tag orders); a Python reference (list of uncommitted writes) judges the Go outputs and classifies divergences by the theorems' hypotheses.",
    technique="Lean 4 proof (refinement to the list of uncommitted writes) on hand models + regenerated read precedence; lock-step correspondence + bounded-exhaustive histories as tie and search")

checks["C12"] = dict(category="proof", design="§4 C12",
    text="Theorems (Props/C12.lean) about Model.Seq, the cycle-accurate Lean model of proc/mvp1 and proc/mvp2 built from REGENERATED instruction semantics, latency constants, Cycles() and package constants: MVP-1's cycle count is exactly the sum over executed instructions of fetch+decode+optional memory read+execute+write-back; MVP-2 ends every run exactly like MVP-1 (same halt, same final state, same instruction count) and is never slower; the count is at least the number of executed instructions (hence positive). For MVP-3..8 the clauses (positivity, instructions/width bound, value-independence) are checked dynamically only (partial).",
    note="Trusted: as C02 plus Model/SeqMachine.lean (hand-written loop structure), tied on every run: Go MVP-1/MVP-2 cycle counts must equal the model's exactly on every generated program (well-formed or not), and the model's final state must equal Spec.run's. Dynamic part: all 12 variants x parallelism 1..4, twin inputs (same program, other operand values and memory contents) with identical reference path and address trace must take the same number of cycles.",
    technique="Lean 4 proof (induction over the run, comparison of fetch policies) on a hand model built from regenerated parts; exact cycle correspondence with the Go machines; differential + twin inputs for the other variants")

checks["C08"] = dict(category="proof", design="§4 C08",
    text="What Lean carries: the order-independence theorems for every map-range loop of risc/app.go (Props.C15.*_order_irrelevant: Commit, Rollback, InitRAT, RATCommit, RATRollback, RATFlush give equivalent contexts for ANY permutation of the entries) and a reviewed inventory of goroutines and package-level variables that must not change unnoticed. What a Lean model cannot exhibit (goroutine interleavings, another process, reuse of a parsed program) is checked dynamically and labelled partial: every input runs 3x in one process (the third run on a parsed program already used by another machine), on three more machines CONCURRENTLY (goroutines) beside a machine of another variant, the used program object and a fresh parse on OTHER data, and again in a second process; status, cycles, registers and memory must be bit-identical. Recorded finding KF-ooo-rename: the renaming variants choose among in-flight writers in Go map order, so repeated runs can differ.",
    note="Partial by nature: map iteration order and goroutine scheduling are sampled, not enumerated; the MSI and control-unit map loops are not modelled (their order-dependence is what KF-ooo-rename records). Not-well-formed programs (a Go panic can leave a map-order-dependent partial state) are excluded.",
    technique="Lean 4 proof of permutation-invariance lemmas + source inventory tripwire; repeated and cross-process execution as dynamic complement")

CPU_NOTE = ("Oracle: Spec.run (lean/MajoranaVerif/Spec/Run.lean, trusted, compiled). Every generated program runs on the real code of each selected variant x parallelism 1..4 in worker processes under the verif tick budget and a wall-clock watchdog; registers, memory hash and status are compared with the reference; a divergence outside every KNOWN_FINDINGS trigger is a VIOLATION with the shrunk program as replay. "
            "What is PROVED in Lean beneath this property: the instruction layer (C02: every Go instruction body equals Spec.exec) and the sequential machines MVP-1/MVP-2 (Model.Seq, tied to Go by exact agreement of status, cycles and final state, and compared with Spec.run on every case). MVP-3..8 have NO Lean machine model: for them this check is a differential exploration, not a proof; the superscalar variants carry the recorded findings KF-ooo-mem / KF-ooo-shadow / KF-ooo-2branch / KF-ooo-spec-error / KF-ooo-rename (DESIGN §8; KNOWN_FINDINGS.json), which excuse only runs inside their trigger predicates.")
CPU_LEVEL = " LEVEL: differential exploration against a Lean specification, not a machine-level proof (see level_note)."
cpu_props = {
    "C01": ("Every variant computes the sequential architectural result: all generator families, all 12 variants x parallelism 1..4, final registers and memory against Spec.run.", "§4 C01"),
    "C03": ("Wrong-path instructions leave no trace: taken branches and jumps whose shadow holds register writes, stores, loads from any address, jal, division by zero, undefined labels, a second branch; fast and load-delayed conditions; MVP-4..8.", "§4 C03"),
    "C04": ("Register dependences (RAW/WAW/WAR): programs over 2-4 registers with chains, fans, WAW and WAR pairs and mixed-latency producers; MVP-4..8.", "§4 C04"),
    "C05": ("Cache transparency and write-back: load/store programs over 2-16 KB memories (larger than every cache), strides, re-reads after eviction, every first-touch offset; MVP-3..8; loaded values and final memory against flat memory semantics.", "§4 C05"),
    "C07": ("Termination: every run returns without panic, within the tick budget 8 x MemoryAccess x (instructions+64) and with a cycle count within that bound; a defined error (division by zero, undefined label) is reported as an error value exactly when the sequential run reaches it.", "§4 C07"),
    "C09": ("Returning completes everything older: the last instructions before ret / the end are cache-missing loads, stores to uncached lines, dependent chains, line-disjoint load/store streams with capacity evictions; MVP-4..8. Additionally, at the memory-hierarchy level of MVP-7.0/7.1/8 (request schedules issued directly to the real cache controllers of the verif rig, incl. L1 and L3 capacity evictions, run to quiescence, then the end-of-run write-back): every byte written by exactly one core holds its last stored value in memory.", "§4 C09"),
    "C10": ("Memory dependences between in-flight loads and stores: store->load, load->store, store->store pairs at distance 1..8 to the same byte/word/line through independent address registers; MVP-4..8. Additionally, on the cache-controller rig of MVP-7.0/7.1/8: a read returns the reading core's latest completed write for every byte only it writes.", "§4 C10"),
}
PROVED_PART = {
    "C01": " PROVED (Props/C01.lean): for MVP-1 and MVP-2 — for every parsed program, every initial state and every fuel, whenever the sequential run ends by ret, by running past the end or with a defined error, the cycle-accurate Lean model of the machine (tied to the Go machine by exact agreement of status, cycles and final state on every generated case) ends the same way after the same number of instructions with the specification's final registers and memory. PARTIAL: MVP-3..8 have no Lean machine model; for them this is differential exploration only.",
    "C07": " PROVED (Props/C07.lean): for MVP-1 and MVP-2 — a run of a program that is well-formed along its sequential run returns (error value exactly for the defined errors, never a panic) after exactly the specified number of instructions and within (3 x MemoryAccess + decode + 50) x instructions cycles. PARTIAL: MVP-3..8 are covered by the tick budget and watchdog only.",
}
for pid, (txt, dref) in cpu_props.items():
    if pid in PROVED_PART:
        checks[pid] = dict(category="proof", design=dref, text=txt + PROVED_PART[pid], note=CPU_NOTE,
                           technique="Lean 4 refinement proof (simulation of Spec.step by the machine model's step, built on C02's per-instruction theorems) for MVP-1/MVP-2; differential testing of all real machines against the Lean specification with known-finding trigger predicates for the rest")
        continue
    checks[pid] = dict(category="exploration", design=dref, text=txt + CPU_LEVEL, note=CPU_NOTE,
                       technique="differential testing of the real machines against a Lean 4 specification (Spec.run) with generator families targeted at the property, shrinking and known-finding trigger predicates; Lean proofs only for the instruction layer (C02) and MVP-1/MVP-2 (C12)")

checks["C06"] = dict(category="proof", design="§4 C06",
    text="18 theorems (Props/C06.lean) about an abstract transition system of the MSI directory and the per-core cache controllers (Model/Msi.lean: line states, data, lock counters, request stages; actions request/snoop/fill/complete/flush) for ANY number of cores and lines and EVERY interleaving: a 19-conjunct invariant holds initially and is preserved by every action except a flush of a core with a request in progress; from it: single writer, no sharer beside a writer, a Shared line equals the next level (the data clause), resident iff not Invalid outside a transfer in progress, counters non-negative, semaphore sanity, no panic; and the decidable predicate MsiInv that the monitor evaluates on real snapshots is true of the snapshot of every reachable model state. With flush the full statement is FALSE: two proved witnesses (findings KF-C06-flush-window, KF-C06-flush-read-of-modified). MVP-8's L3 layer is not modelled (monitored as `next level`).",
    note="Trusted: Lean kernel, standard axioms, the hand-written abstract model (tied to proc/mvp7-0, mvp7-1, mvp8-0 msi.go/cc.go by REFINEMENT REPLAY: every consecutive pair of per-cycle snapshots of the real code must be explained by model steps, and the Go-side and Lean-side MsiInv verdicts on each snapshot must agree), the verif hooks that export the snapshots (new files proc/*/verif_on.go, read-only), the controller rig (NewVerifRig) for the bounded-exhaustive request interleavings (k <= 3 quick, k <= 4 thorough) and the whole-CPU runs on 1..4 cores. Runs that panic or hang for reasons outside C06 are recorded and skipped.",
    technique="Lean 4 inductive-invariant proof on an abstract protocol model; per-cycle snapshot monitor of the real code with refinement replay through the model; bounded-exhaustive request interleavings on a pipeline-free rig as search")

NA = {}

allp = [f"C{i:02d}" for i in range(1, 17)]
m = {
    "version": 1,
    "setup_cmd": "bin/setup",
    "hooks": {"guard": "verif", "enable": "go build -tags verif (the harness in /verif/go is built with it against /repo)",
              "baseline_off_cmd": "/verif/bin/baseline-check",
              "source_commits": ["f346ac5 verif hook: Context.VerifTick (risc/verif_on.go, risc/verif_off.go; one call per iteration of every Run loop in proc/mvp*/cpu.go)",
                                 "1e76d29 verif hooks: MSI/L1/L3/semaphore snapshots and controller rig (new files proc/comp/verif_on.go, proc/mvp7-0/verif_on.go, proc/mvp7-1/verif_on.go, proc/mvp8-0/verif_on.go; VerifSetOnTick in risc/verif_on.go)"],
              "add_only": True},
    "engines": [
        {"name": "lean-proof", "path": "lean/", "serves_properties": sorted(checks), "kind_free_text": "Lean 4 library: Spec (trusted statement), Gen (regenerated from /repo each run), Model (hand models), Proofs, Props (property theorems), Driver (compiled line-protocol drivers)"},
        {"name": "go-extract", "path": "go/cmd/extract", "serves_properties": sorted(checks), "kind_free_text": "go/ast + go/types translator Go -> Lean (tie T1)"},
        {"name": "go-harness", "path": "go/cmd/harness", "serves_properties": sorted(checks), "kind_free_text": "runs the real code in-process / in worker processes, writes line-protocol streams (tie T2) and whole-CPU differential cases"},
    ],
    "checks": [],
    "not_applicable": [],
    "notes": "See DESIGN.md. Every check regenerates the translated Lean model from /repo's working tree, re-builds the property's theorems, audits axioms, rebuilds the Go harness against /repo and runs the correspondence streams. KNOWN_FINDINGS.json lists fixed defects and recorded findings.",
}
for p in allp:
    if p in checks:
        c = checks[p]
        m["checks"].append({
            "property_id": p, "quick_cmd": f"bin/check {p} --tier quick", "thorough_cmd": f"bin/check {p} --tier thorough",
            "evidence_file": f"/verif/evidence/{p}.json", "replay_cmd_template": f"bin/check {p} --replay {{path}}",
            "engine": "lean-proof",
            "level_claimed": {"category": c["category"], "text": c["text"], "design_ref": c["design"]},
            "level_note": c["note"], "technique": c["technique"]})
    else:
        m["not_applicable"].append({"property_id": p, "reason": NA.get(p, "no check built")})
json.dump(m, open("/verif/MANIFEST.json", "w"), indent=1)
print("checks:", [c["property_id"] for c in m["checks"]], "n/a:", [x["property_id"] for x in m["not_applicable"]])

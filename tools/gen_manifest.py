#!/usr/bin/env python3
"""Writes /verif/MANIFEST.json from the table below (kept in one place so that it stays valid)."""
import json
NA_REASON = "check not built yet (work in progress): no claim is made until a Lean model, its theorems and a tie to the code exist"
checks = {
 "C16": dict(
    category="proof",
    text="Theorems (Props/C16.lean) over the Lean definitions REGENERATED from common/bytes/bytes.go and the lw/sw bodies of risc/opcodes.go on every run: split;join = id for all 2^32 words, join;split = id for all 2^32 byte quadruples, byte i = bits 8i..8i+7, neither direction can panic, sw then lw returns the stored value. The quantifier is closed by proof, not by enumeration; a change to the Go source changes the generated definitions and re-opens the proofs.",
    note="Trusted: Lean kernel (+leanchecker in thorough), axioms propext/Classical.choice/Quot.sound only, the Go->Lean translator and Model/GoInt (validated every run by running the generated definitions against the real functions), harness/driver. Search when a proof or the tie breaks: Go functions vs encoding/binary on a stratified sample, and all 2^32 values in thorough (or whenever something is broken).",
    technique="Lean 4 proof over a model regenerated from the Go source (translator), bit-extensionality; correspondence stream + exhaustive 2^32 Go sweep as search",
    design="§4 C16"),
 "C02": dict(
    category="proof",
    text="One theorem per instruction struct of risc/opcodes.go (45) plus their conjunction, over Lean definitions REGENERATED from the Go bodies on every run: for every context, forward slot, operand value, register choice (x0 and aliases included), immediate and label map, the Go Run body yields exactly the outcome of the RV32IM specification Spec.exec (a Go error iff division by zero / undefined label; never a panic; no direct register-file write); ReadRegisters/WriteRegisters equal the ISA read/write sets modulo x0; MemoryRead/MemoryWrite equal the accessed byte addresses; x0 ignores writes and reads 0.",
    note="Trusted: as C16, plus Spec/Exec.lean (the RV32IM reading: div-by-zero and undefined label are errors, ret halts), Model/Roles.lean (ISA role of each Go field, cross-checked per case against the text the Go parser accepted), Model/Rat.lean for the rename-table reads inside registerRead (tied by C15). Search: every generated single-instruction case is run on the real code (risc.Parse + Run + the four declaration methods) and compared with both the generated definitions (tie) and Spec.exec (property); a difference is reported with the instruction text and operand values as replay.",
    technique="Lean 4 proof over a model regenerated from the Go source (translator); differential Go vs Lean spec on boundary lattice + random as correspondence and search",
    design="§4 C02"),
 "C13": dict(
    category="proof",
    text="24 theorems (Props/C13.lean) over a hand-written Lean model that keeps the Go representation (MRU-first line list; LRU-first key order), for ALL geometries (line length >= 1, any number of lines) and ALL operation histories within the type's non-overlap contract (an explicit decidable hypothesis, with a proved counterexample when it is dropped): a read returns the last write since the line's insertion, presence = coverage by a resident line, PushLine displaces the least-recently-used line AND reports that line's contents, capacity is restored after the reported victim is removed (both push APIs), sub-line extraction, and the same recency laws for the key-value LRU (put on a full map removes the least recently touched key; get/find/put move to most-recent; Find returns the least recent member).",
    note="Trusted: Lean kernel, the three standard axioms, the hand model Model/LineCache.lean + Model/KvLru.lean (tied to proc/comp/cache.go and common/cache/lru.go by the lock-step correspondence stream on every run: geometries (2,6),(4,4),(4,16),(64,1024),(128,4096) and random ones, slice-aliasing probes, bounded-exhaustive short histories), the independent Python reference that judges the Go outputs (byte->value map + recency stamps), harness/driver. int32 address overflow is outside the model.",
    technique="Lean 4 proof (invariant + refinement to a history-defined reference) on a hand model; lock-step correspondence Go vs model + independent reference oracle as tie and search",
    design="§4 C13"),
 "C14": dict(
    category="proof",
    text="31 theorems (Props/C14.lean) over hand-written Lean models of SimpleBus, BufferedBus, Queue and Broadcast, for ALL capacities and ALL operation histories (items carry the index of their Add as unique id): conservation (added = returned + inside + cleaned, as multisets; at most one delivery per id), FIFO for Get and order-preservation under Pick, latency (an item added in cycle c is not delivered before a Connect(c') with c' >= c+1; SimpleBus: not before the second Get), capacity under polite producers, Clean/Flush empties and forgets. The clause `a reverted item is the next one delivered` is FALSE of the code when the visible queue is non-empty: kept as Full_C14_revert_next with a proved refutation and a proved partial version (queue empty) — recorded known finding KF-C14-revert (dead API).",
    note="Trusted: Lean kernel, the three standard axioms, the hand model Model/Bus.lean (tied to proc/comp/bus.go, queue.go, broadcast.go by the lock-step stream on every run: capacities 1..4 x 1..4, ~70% polite producers, plus bounded-exhaustive histories up to length 6-9), the independent Python oracle on id lists, harness/driver. Not modelled: the goroutine/channel inside Queue.Iterator (thorough runs the stream under -race), Go int overflow of cycle+1.",
    technique="Lean 4 proof by induction over operation histories on a hand model; lock-step correspondence + bounded-exhaustive histories + independent oracle as tie and search",
    design="§4 C14"),
}
allp = [f"C{i:02d}" for i in range(1, 17)]
m = {
 "version": 1,
 "setup_cmd": "bin/setup",
 "hooks": {"guard": "verif", "enable": "go build -tags verif (the harness in /verif/go is built with it against /repo)",
           "baseline_off_cmd": "/verif/bin/baseline-check", "source_commits": [], "add_only": True},
 "engines": [
   {"name": "lean-proof", "path": "lean/", "serves_properties": sorted(checks), "kind_free_text": "Lean 4 library: Spec (trusted statement), Gen (regenerated from /repo each run), Model (hand models), Proofs, Props (property theorems), Driver (compiled line-protocol driver)"},
   {"name": "go-extract", "path": "go/cmd/extract", "serves_properties": sorted(checks), "kind_free_text": "go/ast + go/types translator Go -> Lean (tie T1)"},
   {"name": "go-harness", "path": "go/cmd/harness", "serves_properties": sorted(checks), "kind_free_text": "runs the real code in-process, writes line-protocol streams (tie T2)"},
 ],
 "checks": [],
 "not_applicable": [],
 "notes": "See DESIGN.md. Every check regenerates the translated Lean model from /repo's working tree, re-builds the property's theorems, audits axioms, rebuilds the Go harness against /repo and runs the correspondence streams. KNOWN_FINDINGS.json lists fixed defects and recorded findings.",
}
for p in allp:
    if p in checks:
        c = checks[p]
        m["checks"].append({
            "property_id": p, "quick_cmd": f"bin/check {p} --tier quick", "thorough_cmd": f"bin/check {p} --tier thorough",
            "evidence_file": f"/verif/evidence/{p}.json", "replay_cmd_template": f"bin/check {p} --replay {{path}}",
            "engine": "lean-proof",
            "level_claimed": {"category": c["category"], "text": c["text"], "design_ref": c["design"]},
            "level_note": c["note"], "technique": c["technique"]})
    else:
        m["not_applicable"].append({"property_id": p, "reason": NA_REASON})
json.dump(m, open("/verif/MANIFEST.json", "w"), indent=1)
print("checks:", [c["property_id"] for c in m["checks"]])

#!/usr/bin/env python3
"""Writes lean/MajoranaVerif/Props/C02.lean (hand-maintained generator for the 45 per-mnemonic
statements; the OUTPUT is committed and is the source of truth — this script only saves typing)."""
import sys
ops = "add addi and andi auipc beq beqz bge bgeu ble blt bltu bne bnez div j jal jalr lui lb lh li lw nop mul mv or ori rem ret sb sh sll slli slt sltu slti sra srai srl srli sub sw xor xori".split()
nofwd = {"auipc","j","li","lui","nop","ret"}
loads = {"lb":1,"lh":2,"lw":4}
out = []
for o in ops:
    fwd = "{}" if o in nofwd else "o.forward"
    hyp_mem = f"\n    (hm : mem.length = {loads[o]})" if o in loads else ""
    out.append(f"""theorem exec_{o} (o : Gen.op_{o}) (ctx : Model.Context) (labels : GoMap String Word)
    (pc : Word) (mem : List Byte) (seq : Word)
    (hz : Gen.registerRead ctx {fwd} 0 seq = 0){hyp_mem} :
    resOfGen ((Gen.Instr.{o}_ o).run ctx labels pc mem seq) =
      resOfSpec (Spec.exec (ofGen (.{o}_ o)) pc (view ctx {fwd} seq) (labelsOf labels) mem) := by
  c02_{o}
""")
sys.stdout.write("\n".join(out))

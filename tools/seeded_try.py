#!/usr/bin/env python3
"""tools/seeded_try.py <mutation-dir> <checks…>  — apply <mutation-dir>/patch.diff to /repo, run the given
checks (quick tier, or TIER env), undo the patch, print which checks reported a violation."""
import json, os, subprocess, sys, time
d = os.path.abspath(sys.argv[1]); checks = sys.argv[2:]
tier = os.environ.get("TIER", "quick")
patch = os.path.join(d, "patch.diff")
def sh(*a, **k): return subprocess.run(*a, **k)
st = sh(["git", "-C", "/repo", "status", "--porcelain", "--untracked-files=no"], capture_output=True, text=True).stdout.strip()
if st:
    sys.exit("refusing: /repo has uncommitted tracked changes:\n" + st)
r = sh(["git", "-C", "/repo", "apply", "--whitespace=nowarn", patch])
if r.returncode != 0:
    r = sh(["git", "-C", "/repo", "apply", "--3way", "--whitespace=nowarn", patch])
    if r.returncode != 0:
        sys.exit("patch does not apply")
results = {}
try:
    for c in checks:
        t = time.time()
        p = sh(["/verif/bin/check", c, "--tier", tier], capture_output=True, text=True, cwd="/verif")
        viol = [l for l in p.stdout.splitlines() if l.startswith("VIOLATION")]
        results[c] = {"exit": p.returncode, "violations": viol[:6], "wall_s": round(time.time() - t, 1), "tail": p.stdout.strip().splitlines()[-1:] }
        print(c, "exit", p.returncode, len(viol), "violation lines", f"{time.time()-t:.0f}s")
        for v in viol[:3]:
            path = v.split("replay=")[1].split()[0]
            try:
                j = json.load(open(path))
                print("    ", v[:110], "|", (j.get("verdict") or j.get("clause") or j.get("kind") or "")[:80], "|", str(j.get("variant", ""))[:12], "|", (j.get("program") or j.get("text") or str(j.get("broken", ""))[:200]).replace("\n", "; ")[:160])
            except Exception as e:
                print("    ", v[:200])
finally:
    sh(["git", "-C", "/repo", "checkout", "--", "."])
    sh(["git", "-C", "/repo", "reset", "-q"])
json.dump(results, open(os.environ.get("SEEDED_OUT") or os.path.join(d, "check_results.json"), "w"), indent=1)

#!/opt/veriftools/pyvenv/bin/python
"""tools/validate.py — MANIFEST.json and every evidence file against the schemas in /root/.vp; every claimed
property has an evidence file; KNOWN_FINDINGS.json parses; no sorry/admit/axiom/native_decide in lean sources."""
import glob, json, re, sys
import jsonschema
bad = 0
m = json.load(open("/verif/MANIFEST.json"))
jsonschema.validate(m, json.load(open("/root/.vp/MANIFEST.schema.json")))
sc = json.load(open("/root/.vp/EVIDENCE.schema.json"))
for c in m["checks"]:
    try:
        jsonschema.validate(json.load(open(c["evidence_file"])), sc)
    except Exception as e:
        bad += 1
        print("EVIDENCE", c["property_id"], str(e)[:300])
json.load(open("/verif/KNOWN_FINDINGS.json"))
props = [json.loads(l)["id"] for l in open("/verif/properties.jsonl")]
claimed = {c["property_id"] for c in m["checks"]} | {x["property_id"] for x in m["not_applicable"]}
if set(props) != claimed:
    bad += 1
    print("properties not covered by checks/not_applicable:", set(props) ^ claimed)
pat = re.compile(r"\b(sorry|admit|native_decide|bv_decide|implemented_by)\b|^axiom |^unsafe |maxHeartbeats 0")
for f in glob.glob("/verif/lean/MajoranaVerif/**/*.lean", recursive=True):
    incomment = False
    for n, line in enumerate(open(f), 1):
        code = line.split("--")[0]
        if "/-" in code:
            incomment = True
        if not incomment and pat.search(code):
            bad += 1
            print("LEAN", f, n, line.strip()[:120])
        if "-/" in line:
            incomment = False
print("validate:", "FAILED" if bad else "ok")
sys.exit(1 if bad else 0)

#!/usr/bin/env python3
"""tools/seeded_confirm.py [ids…] — lead-side confirmation of the seeded changes delivered by the mutation
sub-agents (staged under .work/seeded_in/<id>/: patch.diff, demo_test.go, meta.json).

For each id, in ONE scratch worktree of /repo's HEAD outside /repo and /verif (created here, removed at the end):
  1. demonstration on the clean worktree            -> must PASS
  2. git apply patch.diff ; go build ./...            -> must compile
  3. demonstration with the change                   -> must FAIL
  4. the repository's whole test suite (bin/baseline-check on the worktree, guard off) -> every baseline test still passes
  5. undo
Only when 1-4 hold the change is kept as /verif/seeded/<id>/ (patch.diff, demo_test.go, meta.json)."""
import json, os, re, shutil, subprocess, sys, time

IN = "/verif/.work/seeded_in"
OUT = "/verif/seeded"
WT = "/tmp/seedchk"
ENV = dict(os.environ, GOFLAGS="-mod=mod", GOPROXY="off", GOSUMDB="off", GOTOOLCHAIN="local")
PKGDIR = {"proc": "proc", "proc_test": "proc", "risc": "risc", "risc_test": "risc", "bytes_test": "common/bytes",
          "cache_test": "common/cache", "comp": "proc/comp", "comp_test": "proc/comp", "mvp7_0": "proc/mvp7-0", "mvp8_0": "proc/mvp8-0", "mvp7_1": "proc/mvp7-1", "mvp3": "proc/mvp3", "mvp4": "proc/mvp4", "mvp5": "proc/mvp5",
          "mvp6_0": "proc/mvp6-0", "mvp6_1": "proc/mvp6-1", "mvp6_2": "proc/mvp6-2", "mvp6_3": "proc/mvp6-3"}


def sh(cmd, **k):
    return subprocess.run(cmd, capture_output=True, text=True, env=ENV, **k)


def clean():
    sh(["git", "-C", WT, "checkout", "--", "."])
    sh(["git", "-C", WT, "clean", "-fdq"])


def demo(id_):
    src = open(f"{IN}/{id_}/demo_test.go").read()
    pkg = re.search(r"^package (\w+)", src, flags=re.M).group(1)
    tag = re.search(r"^//go:build (\w+)", src, flags=re.M)
    d = PKGDIR.get(pkg, f"zz_seeddemo_{id_.replace('-', '_').lower()}")
    os.makedirs(f"{WT}/{d}", exist_ok=True)
    shutil.copy(f"{IN}/{id_}/demo_test.go", f"{WT}/{d}/zz_seeddemo_test.go")
    cmd = ["go", "test", "-vet=off", "-count=1", "-run", "TestDemo"] + (["-tags", tag.group(1)] if tag else []) + [f"./{d}/"]
    p = sh(cmd, cwd=WT)
    os.remove(f"{WT}/{d}/zz_seeddemo_test.go")
    if d.startswith("zz_seeddemo"):
        shutil.rmtree(f"{WT}/{d}")
    ran = re.search(r"^(ok|FAIL|---)", p.stdout, flags=re.M) is not None
    return p.returncode, " ".join(cmd), (p.stdout + p.stderr)[-1500:], ran


def main():
    ids = sys.argv[1:] or sorted(x for x in os.listdir(IN) if os.path.isdir(f"{IN}/{x}"))
    head = sh(["git", "-C", "/repo", "rev-parse", "HEAD"]).stdout.strip()
    if os.path.exists(WT):
        sh(["git", "-C", "/repo", "worktree", "remove", "--force", WT])
    r = sh(["git", "-C", "/repo", "worktree", "add", "--detach", WT, head])
    if r.returncode:
        sys.exit(r.stderr)
    try:
        for id_ in ids:
            t0 = time.time()
            clean()
            rec = {"id": id_, "repo_head": head, "steps": []}
            rc0, cmd, out0, ran0 = demo(id_)
            rec["steps"].append({"step": "demonstration on the clean tree", "cmd": cmd, "exit": rc0, "tail": out0[-400:]})
            ap = sh(["git", "-C", WT, "apply", "--whitespace=nowarn", f"{IN}/{id_}/patch.diff"])
            b = sh(["go", "build", "./..."], cwd=WT)
            rec["steps"].append({"step": "git apply patch.diff && go build ./...", "exit": ap.returncode or b.returncode, "tail": (ap.stderr + b.stderr)[-400:]})
            rc1, cmd, out1, ran1 = demo(id_)
            rec["steps"].append({"step": "demonstration with the change", "cmd": cmd, "exit": rc1, "tail": out1[-600:]})
            ok = rc0 == 0 and ran0 and ap.returncode == 0 and b.returncode == 0 and rc1 != 0 and ran1 and "build failed" not in out1
            suite = None
            if ok:
                s = subprocess.run(["/verif/bin/baseline-check"], capture_output=True, text=True, env=dict(ENV, REPO_DIR=WT))
                suite = s.stdout.strip().splitlines()
                rec["steps"].append({"step": "whole test suite with the change (REPO_DIR=<worktree> bin/baseline-check: go test -json -vet=off -count=1 ./... vs BASELINE stable_pass)", "exit": s.returncode, "tail": suite[:6]})
                ok = s.returncode == 0
            rec["confirmed"] = ok
            rec["wall_s"] = round(time.time() - t0)
            print(id_, "CONFIRMED" if ok else "REJECTED", f"clean-demo={rc0} build={b.returncode} mutated-demo={rc1} suite={suite[0] if suite else None} {rec['wall_s']}s", flush=True)
            json.dump(rec, open(f"{IN}/{id_}/confirm.json", "w"), indent=1)
            if ok:
                os.makedirs(f"{OUT}/{id_}", exist_ok=True)
                shutil.copy(f"{IN}/{id_}/patch.diff", f"{OUT}/{id_}/patch.diff")
                shutil.copy(f"{IN}/{id_}/demo_test.go", f"{OUT}/{id_}/demo_test.go")
                json.dump(rec, open(f"{OUT}/{id_}/confirm.json", "w"), indent=1)
    finally:
        sh(["git", "-C", "/repo", "worktree", "remove", "--force", WT])
        sh(["git", "-C", "/repo", "worktree", "prune"])


main()

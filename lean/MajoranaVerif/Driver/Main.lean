/-
  Driver/Main.lean — one line in, one (or two) lines out.  The Go harness runs the
  real code on the same lines; bin/check diffs the streams (tie T2, DESIGN §3.2).
-/
import MajoranaVerif.Driver.C02
import MajoranaVerif.Driver.Run

def handle (line : String) : String :=
  let l := line.trimAscii.toString
  match Driver.words l with
  | "c16" :: rest => Driver.C02.c16 rest
  | "c02" :: _ => Driver.C02.c02 ((l.drop 4).toString)
  | "run" :: _ => Driver.Run.run ((l.drop 4).toString)
  | _ => "bad-op"

partial def loop (h : IO.FS.Stream) (out : IO.FS.Stream) : IO Unit := do
  let line ← h.getLine
  if line.isEmpty then return ()
  out.putStrLn (handle line)
  loop h out

def main : IO Unit := do
  let out ← IO.getStdout
  loop (← IO.getStdin) out
  out.flush

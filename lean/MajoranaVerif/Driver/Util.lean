/-
  Driver/Util.lean — line-protocol helpers shared by the correspondence drivers
  (core-only, so the driver builds as a `lean_exe`).  Part of the trusted base of
  tie T2 (DESIGN §6).
-/
import MajoranaVerif.Model.GoInt

namespace Driver

/-- `k=v` tokens of a section -/
def kvs (toks : List String) : List (String × String) :=
  toks.filterMap fun t =>
    match t.splitOn "=" with
    | k :: v :: rest => some (k, "=".intercalate (v :: rest))
    | _ => none

def getKV (m : List (String × String)) (k : String) : Option String := m.lookup k

def words (s : String) : List String := (s.splitOn " ").filter (· ≠ "")

/-- split a line into `;`-separated sections, each a list of words -/
def sections (s : String) : List (List String) := (s.splitOn ";").map words

def intOf (s : String) : Int := s.toInt?.getD 0
def natOf (s : String) : Nat := s.toNat?.getD 0
def w32 (s : String) : BitVec 32 := BitVec.ofInt 32 (intOf s)
def w8 (s : String) : BitVec 8 := BitVec.ofInt 8 (intOf s)

/-- comma-separated list (empty string = empty list) -/
def csv (s : String) : List String := if s.isEmpty then [] else s.splitOn ","

def showI32 (v : BitVec 32) : String := toString v.toInt
def showI8 (v : BitVec 8) : String := toString v.toInt
def showB (b : Bool) : String := if b then "1" else "0"

def showFault : GoInt.Fault → String
  | .err _ => "err"
  | .panic _ => "panic"

/-- insertion sort on a key (lists here are tiny) -/
def sortBy {α} (key : α → Int) (l : List α) : List α :=
  l.foldl (fun acc x =>
    let (a, b) := acc.span (fun y => key y ≤ key x)
    a ++ [x] ++ b) []

end Driver

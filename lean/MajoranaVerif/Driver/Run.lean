/-
  Driver/Run.lean — the sequential reference (Spec.run) as a line-protocol service:
  the oracle of every whole-CPU property.  Input: one generated case (initial
  registers, memory image, canonical program text, all hex-encoded by the Go
  harness); output: how the reference run ends, the final registers, a hash of the
  final memory, and the dynamic trace summary the known-finding triggers and C12
  need (path of instruction indices, load/store addresses).
-/
import MajoranaVerif.Driver.Util
import MajoranaVerif.Spec.Run
import MajoranaVerif.Model.Parser
import MajoranaVerif.Model.SeqMachine
import MajoranaVerif.Model.Mvp3
import MajoranaVerif.Model.Mvp4
import MajoranaVerif.Model.Mvp5
import MajoranaVerif.Model.Mvp60Fast
import MajoranaVerif.Model.Mvp60Class
import MajoranaVerif.Model.Mvp61
import MajoranaVerif.Model.Mvp62
import MajoranaVerif.Model.Mvp63
import MajoranaVerif.Model.Mvp70
import MajoranaVerif.Model.Mvp71
import MajoranaVerif.Model.Mvp80

namespace Driver.Run

def hexVal (c : Char) : Nat :=
  if '0' ≤ c ∧ c ≤ '9' then c.toNat - '0'.toNat
  else if 'a' ≤ c ∧ c ≤ 'f' then c.toNat - 'a'.toNat + 10
  else 0

def unhex (s : String) : Array UInt8 := Id.run do
  let cs := s.toList.toArray
  let mut out : Array UInt8 := Array.mkEmpty (cs.size / 2)
  let mut i := 0
  while i + 1 < cs.size do
    out := out.push (UInt8.ofNat (hexVal cs[i]! * 16 + hexVal cs[i+1]!))
    i := i + 2
  return out

def fnv64 (mem : Array (BitVec 8)) : UInt64 :=
  mem.foldl (fun h b => (h ^^^ (UInt64.ofNat b.toNat)) * 1099511628211) 14695981039346656037

def hex16 (v : UInt64) : String :=
  let ds := (List.range 16).map fun i => (Nat.toDigits 16 ((v.toNat >>> (4 * (15 - i))) % 16)).headD '0'
  String.ofList ds

def showStop : Spec.Stop → String
  | .ret => "ret"
  | .offEnd => "offend"
  | .error .divByZero => "err:div-by-zero"
  | .error .undefinedLabel => "err:undefined-label"
  | .notWf why => "notwf:" ++ why.replace " " "_"

def showHalt : Option Model.Seq.Halt → String
  | none => "fuel"
  | some .ret => "ret"
  | some .offEnd => "offend"
  | some .err => "err"
  | some (.panic _) => "panic"

/-- FNV-1a over the bytes of a string (the tie of `m60pK` hashes the printed registers and the memory hash, so
that `checklib/cpucheck.py` can compare the model's final state with the Go machine's also when both are wrong) -/
def fnvStr (s : String) : UInt64 :=
  s.toUTF8.foldl (fun h b => (h ^^^ b.toUInt64) * 1099511628211) 14695981039346656037

/-- which parallelisms of the MVP-6.0 model are evaluated: 1 and 2 by default (3 and 4 behave like 2 on almost every
case and would make the quick tier a third slower), all four when `VERIF_TIER=thorough` or `VERIF_M60=all` -/
initialize m60Pars : List Nat ← do
  let tier ← IO.getEnv "VERIF_TIER"
  let opt ← IO.getEnv "VERIF_M60"
  return if tier == some "thorough" || opt == some "all" then [1, 2, 3, 4] else if opt == some "none" then [] else [1, 2]

/-- the cycle-accurate model of MVP-6.0 (`Model.Mvp60`) with eu = wu = 1..4, followed by ` r60=<a><b>`: membership of the program
in the classes `Model.Mvp60.RegOnly` (a), `Model.Mvp60.StraightLine` (b) and `Model.Mvp60.StraightLineRet` (c) of the
correctness statements (packages R60, R60b, R60c; ` r60=<a><b><c><d><e><f><g><h>`, d = `Model.Mvp60.BranchOnly`, e = `Model.Mvp60.RegOnlyWf`, f = `Model.Mvp60.StraightLineLd`, g = `Model.Mvp60.StraightLineLdRet`, h = `Model.Mvp60.StraightLineLdR`):
` m60pK=<halt>,<cycles>,<same|DIFF>,<ticks>,<digest of final registers and memory>` -/
def m60Suffix (app : Model.Seq.App) (ctx : Model.Context) (spec : Spec.Result) : String :=
  let fuel := 32 * Gen.Latency.MemoryAccess.toNat * (spec.steps + 64)
  let one (k : Nat) : String :=
    let r := Model.Mvp60.runFast app ctx k k fuel
    let fr := (List.range 32).map fun j => GoInt.GoMap.get1 r.final.ctx.Registers j
    let same := fr == spec.final.regs.toList && r.final.ctx.Memory == spec.final.mem.toList
    let cyc := match r.halt with | some .err => 0 | _ => r.final.cycles
    let dig := fnvStr (",".intercalate (fr.map showI32) ++ ";" ++ hex16 (fnv64 r.final.ctx.Memory.toArray))
    s!" m60p{k}={showHalt r.halt},{cyc},{if same then "same" else "DIFF"},{r.ticks},{hex16 dig}"
  "".intercalate (m60Pars.map one) ++ s!" r60={if Model.Mvp60.RegOnly app then 1 else 0}{if Model.Mvp60.StraightLine app then 1 else 0}{if Model.Mvp60.StraightLineRet app then 1 else 0}{if Model.Mvp60.BranchOnly app then 1 else 0}{if Model.Mvp60.RegOnlyWf app then 1 else 0}{if Model.Mvp60.StraightLineLd app then 1 else 0}{if Model.Mvp60.StraightLineLdRet app then 1 else 0}{if Model.Mvp60.StraightLineLdR app then 1 else 0}"

/-- which parallelisms of the MVP-6.1 model are evaluated: K = 2 in the quick tier (K = 1, 2 cost +15 … +30 % of the quick
checks' wall time, the model has no idle-skip), 1..4 under `VERIF_TIER=thorough`; `VERIF_M61=all|none` overrides -/
initialize m61Pars : List Nat ← do
  let tier ← IO.getEnv "VERIF_TIER"
  let opt ← IO.getEnv "VERIF_M61"
  return if tier == some "thorough" || opt == some "all" then [1, 2, 3, 4] else if opt == some "none" then [] else [2]

/-- the cycle-accurate model of MVP-6.1 (`Model.Mvp61`) with eu = wu = 1..4, in the format of `m60Suffix`:
` m61pK=<halt>,<cycles>,<same|DIFF>,<ticks>,<digest of final registers and memory>` -/
def m61Suffix (app : Model.Seq.App) (ctx : Model.Context) (spec : Spec.Result) : String :=
  let fuel := 32 * Gen.Latency.MemoryAccess.toNat * (spec.steps + 64)
  let one (k : Nat) : String :=
    let r := Model.Mvp61.run app ctx k k fuel
    let fr := (List.range 32).map fun j => GoInt.GoMap.get1 r.final.ctx.Registers j
    let same := fr == spec.final.regs.toList && r.final.ctx.Memory == spec.final.mem.toList
    let cyc := match r.halt with | some .err => 0 | _ => r.final.cycles
    let dig := fnvStr (",".intercalate (fr.map showI32) ++ ";" ++ hex16 (fnv64 r.final.ctx.Memory.toArray))
    s!" m61p{k}={showHalt r.halt},{cyc},{if same then "same" else "DIFF"},{r.ticks},{hex16 dig}"
  "".intercalate (m61Pars.map one)

/-- which parallelisms of the MVP-6.2 model are evaluated (as `m61Pars`; `VERIF_M62=all|none` overrides) -/
initialize m62Pars : List Nat ← do
  let tier ← IO.getEnv "VERIF_TIER"
  let opt ← IO.getEnv "VERIF_M62"
  return if tier == some "thorough" || opt == some "all" then [1, 2, 3, 4] else if opt == some "none" then [] else [2]

/-- the cycle-accurate model of MVP-6.2 (`Model.Mvp62`) with eu = wu = 1..4, in the format of `m60Suffix`:
` m62pK=<halt>,<cycles>,<same|DIFF>,<ticks>,<digest of final registers and memory>` -/
def m62Suffix (app : Model.Seq.App) (ctx : Model.Context) (spec : Spec.Result) : String :=
  let fuel := 32 * Gen.Latency.MemoryAccess.toNat * (spec.steps + 64)
  let one (k : Nat) : String :=
    let r := Model.Mvp62.run app ctx k k fuel
    let fr := (List.range 32).map fun j => GoInt.GoMap.get1 r.final.ctx.Registers j
    let same := fr == spec.final.regs.toList && r.final.ctx.Memory == spec.final.mem.toList
    let cyc := match r.halt with | some .err => 0 | _ => r.final.cycles
    let dig := fnvStr (",".intercalate (fr.map showI32) ++ ";" ++ hex16 (fnv64 r.final.ctx.Memory.toArray))
    s!" m62p{k}={showHalt r.halt},{cyc},{if same then "same" else "DIFF"},{r.ticks},{hex16 dig}"
  "".intercalate (m62Pars.map one)

/-- which parallelisms of the MVP-6.3 model are evaluated (as `m61Pars`; `VERIF_M63=all|none` overrides) -/
initialize m63Pars : List Nat ← do
  let tier ← IO.getEnv "VERIF_TIER"
  let opt ← IO.getEnv "VERIF_M63"
  return if tier == some "thorough" || opt == some "all" then [1, 2, 3, 4] else if opt == some "none" then [] else [2]

/-- the cycle-accurate model of MVP-6.3 (`Model.Mvp63`) with eu = wu = 1..4, in the format of `m60Suffix`:
` m63pK=<halt>,<cycles>,<same|DIFF>,<ticks>,<digest of final registers and memory>`; `<halt>` is `maporder` when the
model stopped because the Go result depends on map iteration order (MVP-6.3 is not deterministic): no verdict -/
def m63Suffix (app : Model.Seq.App) (ctx : Model.Context) (spec : Spec.Result) : String :=
  let fuel := 32 * Gen.Latency.MemoryAccess.toNat * (spec.steps + 64)
  let one (k : Nat) : String :=
    let r := Model.Mvp63.run app ctx k k fuel
    let fr := (List.range 32).map fun j => GoInt.GoMap.get1 r.final.ctx.Registers j
    let same := fr == spec.final.regs.toList && r.final.ctx.Memory == spec.final.mem.toList
    let cyc := match r.halt with | some .err => 0 | _ => r.final.cycles
    let dig := fnvStr (",".intercalate (fr.map showI32) ++ ";" ++ hex16 (fnv64 r.final.ctx.Memory.toArray))
    let h := if Model.Mvp63.isMapOrder r then "maporder" else showHalt r.halt
    s!" m63p{k}={h},{cyc},{if same then "same" else "DIFF"},{r.ticks},{hex16 dig}"
  "".intercalate (m63Pars.map one)

/-- which parallelisms (number of cores) of the MVP-7.0 model are evaluated: none in the quick tier (one core alone costs
+30 % on the memory-heavy streams: a single execute unit serialises the 309-cycle misses), 1..4 under `VERIF_TIER=thorough`;
`VERIF_M70=all|p1|p2|none` overrides -/
initialize m70Pars : List Nat ← do
  let tier ← IO.getEnv "VERIF_TIER"
  let opt ← IO.getEnv "VERIF_M70"
  return if opt == some "none" then [] else if opt == some "p1" then [1] else if opt == some "p2" then [1, 2]
    else if tier == some "thorough" || opt == some "all" then [1, 2, 3, 4] else []

/-- the cycle-accurate model of MVP-7.0 (`Model.Mvp70`) with K cores, in the format of `m63Suffix`:
` m70pK=<halt>,<cycles>,<same|DIFF>,<ticks>,<digest of final registers and memory>` -/
def m70Suffix (app : Model.Seq.App) (ctx : Model.Context) (spec : Spec.Result) : String :=
  let fuel := 32 * Gen.Latency.MemoryAccess.toNat * (spec.steps + 64)
  let one (k : Nat) : String :=
    let r := Model.Mvp70.run app ctx k fuel
    let fr := (List.range 32).map fun j => GoInt.GoMap.get1 r.final.base.ctx.Registers j
    let same := fr == spec.final.regs.toList && r.final.base.ctx.Memory == spec.final.mem.toList
    let cyc := match r.halt with | some .err => 0 | _ => r.final.base.cycles
    let dig := fnvStr (",".intercalate (fr.map showI32) ++ ";" ++ hex16 (fnv64 r.final.base.ctx.Memory.toArray))
    let h := if Model.Mvp70.isMapOrder r then "maporder" else showHalt r.halt
    s!" m70p{k}={h},{cyc},{if same then "same" else "DIFF"},{r.ticks},{hex16 dig}"
  "".intercalate (m70Pars.map one)

/-- which parallelisms of the MVP-7.1 model are evaluated (as `m70Pars`: thorough tier only; `VERIF_M71=all|p1|p2|none`) -/
initialize m71Pars : List Nat ← do
  let tier ← IO.getEnv "VERIF_TIER"
  let opt ← IO.getEnv "VERIF_M71"
  return if opt == some "none" then [] else if opt == some "p1" then [1] else if opt == some "p2" then [1, 2]
    else if tier == some "thorough" || opt == some "all" then [1, 2, 3, 4] else []

/-- a model on `Model.Mvp70.State` with K cores, in the format of `m70Suffix`: ` <name>pK=…` -/
def m7xSuffix (name : String) (pars : List Nat) (run : Nat → Nat → Model.Mvp70.Result) (spec : Spec.Result) : String :=
  let fuel := 32 * Gen.Latency.MemoryAccess.toNat * (spec.steps + 64)
  let one (k : Nat) : String :=
    let r := run k fuel
    let fr := (List.range 32).map fun j => GoInt.GoMap.get1 r.final.base.ctx.Registers j
    let same := fr == spec.final.regs.toList && r.final.base.ctx.Memory == spec.final.mem.toList
    let cyc := match r.halt with | some .err => 0 | _ => r.final.base.cycles
    let dig := fnvStr (",".intercalate (fr.map showI32) ++ ";" ++ hex16 (fnv64 r.final.base.ctx.Memory.toArray))
    let h := if Model.Mvp70.isMapOrder r then "maporder" else showHalt r.halt
    s!" {name}p{k}={h},{cyc},{if same then "same" else "DIFF"},{r.ticks},{hex16 dig}"
  "".intercalate (pars.map one)

/-- the cycle-accurate model of MVP-7.1 (`Model.Mvp71`): ` m71pK=…` -/
def m71Suffix (app : Model.Seq.App) (ctx : Model.Context) (spec : Spec.Result) : String :=
  m7xSuffix "m71" m71Pars (fun k fuel => Model.Mvp71.run app ctx k fuel) spec

/-- which parallelisms of the MVP-8.0 model are evaluated (thorough tier only; `VERIF_M80=all|p1|p2|none`) -/
initialize m80Pars : List Nat ← do
  let tier ← IO.getEnv "VERIF_TIER"
  let opt ← IO.getEnv "VERIF_M80"
  return if opt == some "none" then [] else if opt == some "p1" then [1] else if opt == some "p2" then [1, 2]
    else if tier == some "thorough" || opt == some "all" then [1, 2, 3, 4] else []

/-- the cycle-accurate model of MVP-8.0 (`Model.Mvp80`): ` m80pK=…` -/
def m80Suffix (app : Model.Seq.App) (ctx : Model.Context) (spec : Spec.Result) : String :=
  m7xSuffix "m80" m80Pars (fun k fuel => Model.Mvp80.run app ctx k fuel) spec

/-- the cycle-accurate models of MVP-1 and MVP-2 on the same case: how the run ends, the cycle count,
and whether the final registers and memory equal the specification's (`same`/`DIFF`) -/
def seqModels (progBytes : List UInt8) (regs : Array (BitVec 32)) (mem : Array (BitVec 8)) (fuel : Nat)
    (spec : Spec.Result) : String :=
  match Model.Parser.parse progBytes with
  | .error _ => "m1=parse-error m2=parse-error"
  | .ok papp =>
    let app : Model.Seq.App := { instrs := papp.instrs, labels := papp.labels }
    let ctx : Model.Context :=
      { Registers := GoInt.GoMap.ofList ((List.range 32).filterMap fun r => if regs[r]! != 0 then some (r, regs[r]!) else none),
        Memory := mem.toList }
    let one (r : Model.Seq.Result) : String :=
      let fr := (List.range 32).map fun k => GoInt.GoMap.get1 r.final.ctx.Registers k
      let same := fr == spec.final.regs.toList && r.final.ctx.Memory == spec.final.mem.toList
      let cyc := match r.halt with | some .err => 0 | _ => r.cycles
      s!"{showHalt r.halt},{cyc},{r.steps},{if same then "same" else "DIFF"}"
    let one5 (r : Model.Mvp5.Result) : String :=
      let fr := (List.range 32).map fun k => GoInt.GoMap.get1 r.final.base.ctx.Registers k
      let same := fr == spec.final.regs.toList && r.final.base.ctx.Memory == spec.final.mem.toList
      let cyc := match r.halt with | some .err => 0 | _ => r.final.base.cycles
      s!"{showHalt r.halt},{cyc},{r.final.base.executed},{if same then "same" else "DIFF"}"
    let one4 (r : Model.Mvp4.Result) : String :=
      let fr := (List.range 32).map fun k => GoInt.GoMap.get1 r.final.ctx.Registers k
      let same := fr == spec.final.regs.toList && r.final.ctx.Memory == spec.final.mem.toList
      let cyc := match r.halt with | some .err => 0 | _ => r.final.cycles
      s!"{showHalt r.halt},{cyc},{r.final.executed},{if same then "same" else "DIFF"}"
    s!"m1={one (Model.Seq.runMvp1 app ⟨ctx, 0⟩ fuel)} m2={one (Model.Seq.runMvp2 app ⟨ctx, 0⟩ fuel)} m3={one (Model.Mvp3.runMvp3 app ⟨ctx, 0⟩ fuel).toSeq} h3={if Model.Mvp3.wfAccesses app ⟨ctx, 0⟩ fuel then 1 else 0} m4={one4 (Model.Mvp4.run app ctx (32 * Gen.Latency.MemoryAccess.toNat * (spec.steps + 64)))} m5={one5 (Model.Mvp5.run app ctx (32 * Gen.Latency.MemoryAccess.toNat * (spec.steps + 64)))}{m60Suffix app ctx spec}{m61Suffix app ctx spec}{m62Suffix app ctx spec}{m63Suffix app ctx spec}{m70Suffix app ctx spec}{m71Suffix app ctx spec}{m80Suffix app ctx spec}"

/-- `run id ; family=.. fuel=N memsize=M ; regs=r:v,.. ; mem=<hex> ; prog=<hex>` -/
def run (line : String) : String :=
  match sections line with
  | [idS, optS, regsS, memS, progS] =>
    let id := idS.headD "?"
    let opts := kvs optS
    let fuel := natOf ((getKV opts "fuel").getD "200000")
    let regsL : List (Nat × BitVec 32) := (csv ((getKV (kvs regsS) "regs").getD "")).filterMap fun s =>
      match s.splitOn ":" with
      | [r, v] => some (natOf r, w32 v)
      | _ => none
    let regs : Array (BitVec 32) := regsL.foldl (fun a (r, v) => if r < 32 ∧ r ≠ 0 then a.set! r v else a) (Array.replicate 32 0)
    let mem : Array (BitVec 8) := (unhex ((getKV (kvs memS) "mem").getD "")).map fun b => BitVec.ofNat 8 b.toNat
    let progBytes := unhex ((getKV (kvs progS) "prog").getD "")
    let text := String.fromUTF8! (ByteArray.mk progBytes)
    match Spec.Asm.program text with
    | none => s!"R {id} not-canonical"
    | some p =>
      let r := Spec.run p { regs := regs, mem := mem } fuel
      let regsS := ",".intercalate (r.final.regs.toList.map showI32)
      let path := ",".intercalate ((r.trace.toList.take 3000).map fun e => toString (e.pc.toNat / 4))
      let accs := ",".intercalate ((r.trace.toList.take 3000).filterMap fun e =>
        match e.loads, e.stores with
        | a :: _, _ => some s!"L{a.toNat}w{e.loads.length}"
        | _, a :: _ => some s!"S{a.toNat}w{e.stores.length}"
        | _, _ => none)
      s!"R {id} stop={showStop r.stop} steps={r.steps} n={p.instrs.size} regs={regsS} mem={hex16 (fnv64 r.final.mem)} {seqModels progBytes.toList regs mem fuel r} path={path} accs={accs}"
  | _ => "bad-line"

end Driver.Run

/-
  Driver/C02.lean — correspondence driver for C16 and C02: evaluates the
  REGENERATED definitions (Gen.*) and the SPECIFICATION (Spec.*) on the cases the
  Go harness ran on the real code, in the same canonical rendering.
-/
import MajoranaVerif.Driver.Util
import MajoranaVerif.Model.Roles
import MajoranaVerif.Spec.Asm
open GoInt

namespace Driver.C02

def c16 (toks : List String) : String :=
  match toks with
  | ["split", n] =>
    match Gen.Bytes.BytesFromLowBits (w32 n) with
    | .ok v => s!"ok {showI8 v[0]} {showI8 v[1]} {showI8 v[2]} {showI8 v[3]}"
    | .error f => showFault f
  | ["join", a, b, c, d] =>
    match Gen.Bytes.I32FromBytes (w8 a) (w8 b) (w8 c) (w8 d) with
    | .ok v => s!"ok {showI32 v}"
    | .error f => showFault f
  | _ => "bad-op"

def showMem (l : List (Word × Byte)) : String :=
  ",".intercalate ((sortBy (fun p => p.1.toInt) l).map fun (a, b) => s!"{showI32 a}:{showI8 b}")

def showRegs (l : List Nat) : String := ",".intercalate (l.map toString)
def showAddrs (l : List Word) : String := ",".intercalate (l.map showI32)

/-- full rendering of a Go `Execution` (tie: must equal what the Go side prints) -/
def showExe (e : Gen.Execution) : String :=
  s!"rc={showB e.RegisterChange} reg={e.Register} val={showI32 e.RegisterValue} mc={showB e.MemoryChange} mem=[{showMem e.MemoryChanges}] next={showI32 e.NextPc} pcc={showB e.PcChange} ret={showB e.Return} dw=[{",".intercalate (e.DirectWrites.map fun (r, v) => s!"{r}:{showI32 v}")}]"

def showOutcome (o : Spec.Outcome) : String :=
  let r := match o.reg with
    | some (r, v) => s!"{r}:{showI32 v}"
    | none => "-"
  let n := match o.next with
    | some t => showI32 t
    | none => "-"
  s!"reg={r} mem=[{showMem o.mem}] next={n} ret={showB o.ret}"

def showRes : Model.Res → String
  | .ok o => "ok " ++ showOutcome o
  | .err => "err"
  | .panic => "panic"
  | .sideEffect => "direct-register-write"

def dedupSortNoZero (l : List Nat) : List Nat :=
  (sortBy (fun (r : Nat) => (r : Int)) (l.filter (fun r => r != 0))).eraseDups

/-- `c02 id ; op=<name> f=v … ; fwd=<reg>:<val> ; pc=.. seq=.. ; regs=r:v,.. ; mem=b,.. ; labels=n:a,.. ; text=<canonical line words…>` -/
def c02 (line : String) : String :=
  match sections line with
  | [idS, opS, fwdS, pcS, regsS, memS, labS, textS] =>
    let id := idS.headD "?"
    let op := kvs opS
    let fwd : Gen.Forward := match (getKV (kvs fwdS) "fwd").map (·.splitOn ":") with
      | some [r, v] => { Register := natOf r, Value := w32 v }
      | _ => {}
    let pc := w32 ((getKV (kvs pcS) "pc").getD "0")
    let seq := w32 ((getKV (kvs pcS) "seq").getD "0")
    let regs : List (Nat × Word) := (csv ((getKV (kvs regsS) "regs").getD "")).filterMap fun s =>
      match s.splitOn ":" with
      | [r, v] => some (natOf r, w32 v)
      | _ => none
    let mem : List Byte := (csv ((getKV (kvs memS) "mem").getD "")).map w8
    let labels : List (String × Word) := (csv ((getKV (kvs labS) "labels").getD "")).filterMap fun s =>
      match s.splitOn ":" with
      | [n, a] => some (n, w32 a)
      | _ => none
    let ctx : Model.Context := { Registers := GoMap.ofList regs }
    let gl : GoMap String Word := GoMap.ofList labels
    match Gen.Instr.ofDump ((getKV op "op").getD "") (getKV op) fwd with
    | none => s!"G {id} bad-dump\nS {id} bad-dump"
    | some g =>
      let gexe := match g.run ctx gl pc mem seq with
        | .ok e => "ok " ++ showExe { e with DirectWrites := e.DirectWrites.filter fun (r, v) => GoMap.get1 ctx.Registers r != v }
        | .error f => showFault f
      let gline := s!"G {id} {gexe} | rr=[{showRegs g.readRegisters}] wr=[{showRegs g.writeRegisters}] mr=[{showAddrs (g.memoryRead ctx seq)}] mw=[{showAddrs (g.memoryWrite ctx seq)}] ty={repr g.instructionType}"
      -- specification side: from the TEXT (independent of the Go struct dump), with the register view of the context
      let text := " ".intercalate (textS.drop 1)
      let sline := match Spec.Asm.line text with
        | none => s!"S {id} not-canonical"
        | some si =>
          let rf : Spec.RegFile := fun r => if r = fwd.Register then fwd.Value else (GoMap.get1 ctx.Registers r)
          let res := Model.resOfSpec (Spec.exec si pc rf (fun l => labels.lookup l) mem)
          let roles := if Model.ofGen g == si then "roles=ok" else "roles=MISMATCH"
          let sa := match si with
            | .store w _ base off => (List.range w.bytes).map (fun k => Spec.rd0 rf base + off + BitVec.ofNat 32 k)
            | _ => []
          s!"S {id} {showRes res} | rr=[{showRegs (dedupSortNoZero (Spec.reads si))}] wr=[{showRegs (dedupSortNoZero (Spec.writes si))}] la=[{showAddrs (Spec.loadAddrs si rf)}] sa=[{showAddrs sa}] {roles}"
      gline ++ "\n" ++ sline
  | _ => "bad-line"

end Driver.C02

/-
  Driver/MainC14.lean — line-protocol driver of C14 (one line in, one line out).
  Executes the hand model of proc/comp/{bus,queue,broadcast}.go on the operation lines
  the Go harness (go/cmd/harness/c14.go) ran on the real code.  The two bus kinds are
  driven through `Model.BusHist.step` / `Model.SBusHist.step`, i.e. through the very
  functions Props/C14.lean quantifies over; item ids are the operation index since the
  last `new` (checked: a line whose id is not the expected one is `bad-op`).

  Lines (`<state>` = what the exported observers show after the operation):
    sb new | add <id> | tryadd <id> | get | flush | clean
    bb new <ql> <bl> | add <id> <c> | tryadd <id> <c> | revert <x> <c> | dellast | get
       | pick <m> <r> | connect <c> | clean
    bx <ql> <bl> <op>…     a whole BufferedBus history on one line (exhaustive stream; the
                           answer is the result of the LAST operation + compact state):
       a<c> t<c> r<x>:<c> d g p<m>:<r> c<c> x
    sx <op>…               a whole SimpleBus history: a t g f x
    q new <cap> | push <v> | iter | iterrm <m> <r> | rm <v> | len
    bc new <count> | notify <v> | read <id> | commit <id> <i>
-/
import MajoranaVerif.Driver.Util
import MajoranaVerif.Model.Bus
open Model GoInt

namespace Driver.C14

def ids (l : List Nat) : String := ",".intercalate (l.map toString)

def optOut : Option Nat → String
  | some t => s!"{t} 1"
  | none => "0 0"

def modPred (m r : Nat) : Nat → Bool := fun x => x % m == r

/-! ### SimpleBus -/

def sbState (b : SimpleBus Nat) : String := s!"e={showB b.isEmpty} ca={showB b.canAdd}"

/-- one SimpleBus operation: new state and the operation's own result; `none` = malformed -/
def sbOp (s : SBusHist.St) (toks : List String) : Option (SBusHist.St × String) :=
  match toks with
  | ["add", id] =>
    if natOf id != s.n then none else some (SBusHist.step s .add, "ok")
  | ["tryadd", id] =>
    if natOf id != s.n then none else
    let s' := SBusHist.step s .tryAdd
    some (s', s!"ok {showB (s'.added.length != s.added.length)}")
  | ["get"] =>
    let s' := SBusHist.step s .get
    let r := if s'.returned.length != s.returned.length then s'.returned.getLast? else none
    some (s', s!"ok {optOut r}")
  | ["flush"] => some (SBusHist.step s .flush, "ok")
  | ["clean"] => some (SBusHist.step s .clean, "ok")
  | _ => none

/-! ### BufferedBus -/

def bbState (b : BufferedBus Nat) : String :=
  s!"q={ids b.queue} pend={b.pendingRead} rem={b.remainingToAdd} ca={showB b.canAdd} cg={showB b.canGet} e={showB b.isEmpty} ex={showB (b.exists_ (modPred 2 1))}"

def lastNew (before after : List Nat) : Option Nat :=
  if after.length != before.length then after.getLast? else none

/-- one BufferedBus operation: new state and the operation's own result (`none` = malformed) -/
def bbOp (s : BusHist.St) (toks : List String) : Option (BusHist.St × String) :=
  match toks with
  | ["add", id, c] =>
    if natOf id != s.n then none else some (BusHist.step s (.add (intOf c)), "ok")
  | ["tryadd", id, c] =>
    if natOf id != s.n then none else
    let s' := BusHist.step s (.tryAdd (intOf c))
    some (s', s!"ok {showB (s'.led.added.length != s.led.added.length)}")
  | ["revert", x, c] => some (BusHist.step s (.revert (natOf x) (intOf c)), "ok")
  | ["dellast"] => some (BusHist.step s .deleteLast, "ok")
  | ["get"] =>
    let s' := BusHist.step s .get
    some (s', s!"ok {optOut (lastNew s.led.returned s'.led.returned)}")
  | ["pick", m, r] =>
    if natOf m == 0 then none else
    let s' := BusHist.step s (.pick (modPred (natOf m) (natOf r)))
    some (s', s!"ok {optOut (lastNew s.led.returned s'.led.returned)}")
  | ["connect", c] => some (BusHist.step s (.connect (intOf c)), "ok")
  | ["clean"] => some (BusHist.step s .clean, "ok")
  | _ => none

/-- compact state of the exhaustive stream: queue/pend,rem/flags -/
def bbStateC (b : BufferedBus Nat) : String :=
  s!"{ids b.queue}/{b.pendingRead},{b.remainingToAdd}/{showB b.canAdd}{showB b.canGet}{showB b.isEmpty}{showB (b.exists_ (modPred 2 1))}"

/-- compact tokens of the exhaustive stream -/
def expand (id : Nat) (t : String) : List String :=
  let rest := (t.drop 1).toString
  match t.front with
  | 'a' => ["add", toString id, rest]
  | 't' => ["tryadd", toString id, rest]
  | 'r' => "revert" :: rest.splitOn ":"
  | 'd' => ["dellast"]
  | 'g' => ["get"]
  | 'p' => "pick" :: rest.splitOn ":"
  | 'c' => ["connect", rest]
  | 'x' => ["clean"]
  | _ => ["?"]

/-- a whole history on one line; the answer is that of its LAST operation -/
def bxLine (ql bl : Int) (ops : List String) : String :=
  let rec go (s : BusHist.St) (ops : List String) (last : String) : String :=
    match ops with
    | [] => last ++ " " ++ bbStateC s.bus
    | t :: rest =>
      match bbOp s (expand s.n t) with
      | none => "bad-op"
      | some (s', out) => go s' rest out
  if ops.isEmpty then "bad-op" else go (BusHist.init ql bl) ops ""

def sxExpand (id : Nat) (t : String) : List String :=
  match t with
  | "a" => ["add", toString id]
  | "t" => ["tryadd", toString id]
  | "g" => ["get"]
  | "f" => ["flush"]
  | "x" => ["clean"]
  | _ => ["?"]

def sxLine (ops : List String) : String :=
  let rec go (s : SBusHist.St) (ops : List String) (last : String) : String :=
    match ops with
    | [] => last ++ " " ++ sbState s.bus
    | t :: rest =>
      match sbOp s (sxExpand s.n t) with
      | none => "bad-op"
      | some (s', out) => go s' rest out
  if ops.isEmpty then "bad-op" else go {} ops ""

/-! ### Queue, Broadcast -/

def qState (q : Queue Nat) : String := s!"len={q.len} full={showB q.isFull}"

def qOp (q : Queue Nat) (toks : List String) : Option (Queue Nat × String) :=
  match toks with
  | ["push", v] =>
    if natOf v != q.next then none else
    let q' := q.push (natOf v)
    some (q', "ok " ++ qState q')
  | ["iter"] => some (q, s!"ok [{ids (q.iterator.map (·.2))}] " ++ qState q)
  | ["iterrm", m, r] =>
    if natOf m == 0 then none else
    let (vs, q') := q.iterRemove (modPred (natOf m) (natOf r))
    some (q', s!"ok [{ids vs}] " ++ qState q')
  | ["rm", v] =>
    let q' := q.remove (natOf v)
    some (q', "ok " ++ qState q')
  | ["len"] => some (q, "ok " ++ qState q)
  | _ => none

def bcOp (b : Broadcast Nat) (toks : List String) : Option (Broadcast Nat × String) :=
  match toks with
  | ["notify", v] => some (b.notify (natOf v), "ok")
  | ["read", id] =>
    match b.read (intOf id) with
    | .ok (l, b') => some (b', s!"ok [{ids l}]")
    | .error f => some (b, showFault f)
  | ["commit", id, i] =>
    match b.commit (natOf id) (natOf i) with
    | .ok b' => some (b', "ok")
    | .error f => some (b, showFault f)
  | _ => none

structure DState where
  sb : SBusHist.St := {}
  bb : BusHist.St := BusHist.init 0 0
  q : Queue Nat := Queue.new 0
  bc : Broadcast Nat := { count := 0, listeners := [] }

def handle (d : DState) (line : String) : DState × String :=
  match words line with
  | ["sb", "new"] => ({ d with sb := {} }, "ok " ++ sbState ({} : SimpleBus Nat))
  | "sb" :: rest =>
    match sbOp d.sb rest with
    | some (s, out) => ({ d with sb := s }, out ++ " " ++ sbState s.bus)
    | none => (d, "bad-op")
  | ["bb", "new", ql, bl] =>
    let s := BusHist.init (intOf ql) (intOf bl)
    ({ d with bb := s }, s!"ok in={s.bus.inLength} out={s.bus.outLength} | " ++ bbState s.bus)
  | "bb" :: rest =>
    match bbOp d.bb rest with
    | some (s, out) => ({ d with bb := s }, out ++ " | " ++ bbState s.bus)
    | none => (d, "bad-op")
  | "bx" :: ql :: bl :: ops => (d, bxLine (intOf ql) (intOf bl) ops)
  | "sx" :: ops => (d, sxLine ops)
  | ["q", "new", cap] =>
    let q : Queue Nat := Queue.new (intOf cap)
    ({ d with q := q }, "ok " ++ qState q)
  | "q" :: rest =>
    match qOp d.q rest with
    | some (q, out) => ({ d with q := q }, out)
    | none => (d, "bad-op")
  | ["bc", "new", count] =>
    match Broadcast.new (α := Nat) (intOf count) with
    | .ok b => ({ d with bc := b }, "ok")
    | .error f => (d, showFault f)
  | "bc" :: rest =>
    match bcOp d.bc rest with
    | some (b, out) => ({ d with bc := b }, out)
    | none => (d, "bad-op")
  | _ => (d, "bad-op")

end Driver.C14

partial def loopC14 (h : IO.FS.Stream) (out : IO.FS.Stream) (d : Driver.C14.DState) : IO Unit := do
  let line ← h.getLine
  if line.isEmpty then return ()
  let (d', o) := Driver.C14.handle d line.trimAscii.toString
  out.putStrLn o
  loopC14 h out d'

def main : IO Unit := do
  let out ← IO.getStdout
  loopC14 (← IO.getStdin) out {}
  out.flush

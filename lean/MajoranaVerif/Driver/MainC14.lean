/-
  Driver/MainC14.lean — line-protocol driver of C14 (one line in, one line out).
  STUB: to be filled by the C14 work package (see /verif/BUILDING.md).
-/
import MajoranaVerif.Driver.Util

def handleC14 (line : String) : String := "todo " ++ line

partial def loopC14 (h : IO.FS.Stream) (out : IO.FS.Stream) : IO Unit := do
  let line ← h.getLine
  if line.isEmpty then return ()
  out.putStrLn (handleC14 line.trimAscii.toString)
  loopC14 h out

def main : IO Unit := do
  let out ← IO.getStdout
  loopC14 (← IO.getStdin) out
  out.flush

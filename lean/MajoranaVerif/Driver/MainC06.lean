/-
  Driver/MainC06.lean — line-protocol driver of C06 (one line in, one line out).

  For every snapshot line written by go/cmd/harness/c06.go (a per-cycle snapshot of the REAL
  MVP-7.0 / 7.1 / 8 machine or of the controller rig) the driver
    1. evaluates `Model.Msi.MsiInv` (the C06 invariant, Model/Msi.lean part (a)) and answers
       `ok` or `viol <clauses>` — compared by checklib/c06.py with the Go side's own evaluation;
    2. refinement: keeps a state of the abstract protocol model (Model/Msi.lean part (b)),
       decodes from the difference to the previous snapshot the model actions the real code must
       have performed in that cycle (snoop completions, then per core in core order:
       start / proceed / push / evicted / complete / flush), applies `Model.Msi.step` and checks
       that the model's projection equals the new snapshot (`ref=ok`, else `ref=fail:<what>`,
       afterwards `ref=lost` until the next run).  On MVP-8 only the L1-level protocol is
       replayed (command kinds 1, 2); the next level is what the line reports (`nl=`).

  Lines: see go/cmd/harness/c06.go.   K → case, R → run, S → ok|viol … ref=…, P → pm ok|pm viol …,
  E → end, X → skip, T → total, anything else → bad-op.
-/
import MajoranaVerif.Driver.Util
import MajoranaVerif.Model.Msi
import MajoranaVerif.Model.L3
open Model.Msi

namespace Driver.C06

/-! ### parsing -/

def natOf' (s : String) : Nat := (s.toInt?.getD 0).toNat

/-- number of bytes a zero-run compressed hex string stands for -/
def dataLen (s : String) : Int :=
  (s.splitOn ".").foldl (fun acc t =>
    if t.startsWith "z" then acc + Int.ofNat (natOf' (t.drop 1).toString) else acc + Int.ofNat (t.length / 2)) 0

def plusList (s : String) : List String := if s.isEmpty then [] else s.splitOn "+"

structure CoreObs where
  act : String
  rlocks : List Int
  locks : List Int
  l1 : List (SLine String)
  deriving Inhabited

structure Obs where
  states : List SState
  sems : List SSem
  cmds : List (Nat × Int × Nat)
  cores : List CoreObs
  next : List (Int × String)
  deriving Inhabited

def parseTriples (s : String) : List (String × String × String) :=
  (csv s).filterMap fun t =>
    match t.splitOn ":" with
    | [a, b, c] => some (a, b, c)
    | _ => none

def parseCore (v : String) : CoreObs :=
  match v.splitOn "/" with
  | [act, rl, lk, l1] =>
    { act := act
      rlocks := (plusList rl).map intOf
      locks := (plusList lk).map intOf
      l1 := (plusList l1).filterMap fun t =>
        match t.splitOn ":" with
        | [b, sz, d] => some ⟨intOf b, intOf sz, dataLen d, d⟩
        | _ => none }
  | _ => { act := "?", rlocks := [], locks := [], l1 := [] }

/-- the sections after the head of an S/P line -/
def parseObs (secs : List String) : Obs :=
  let kv : List (String × String) := secs.filterMap fun s =>
    let s := s.trimAscii.toString
    match s.splitOn "=" with
    | k :: v :: _ => some (k, v)
    | _ => none
  let get (k : String) : String := (kv.lookup k).getD ""
  let cores := (kv.filter fun p => p.1.startsWith "c" && p.1 != "cmd").map fun p => parseCore p.2
  { states := (parseTriples (get "st")).map fun (a, b, c) => ⟨natOf' a, intOf b, natOf' c⟩
    sems := (parseTriples (get "sem")).map fun (a, b, c) => ⟨intOf a, intOf b, intOf c⟩
    cmds := (parseTriples (get "cmd")).map fun (a, b, c) => (natOf' a, intOf b, natOf' c)
    cores := cores
    next := (csv (get "nl")).filterMap fun t =>
      match t.splitOn ":" with
      | [b, d] => some (intOf b, d)
      | _ => none }

def Obs.fill (c : CoreObs) : List Int :=
  (if c.act.contains 'r' then c.rlocks else []) ++ (if c.act.contains 'w' then c.locks else [])

def Obs.snapshot (o : Obs) (lineSize : Int) : Snapshot String :=
  { lineSize := lineSize
    states := o.states
    cores := o.cores.map fun c => { lines := c.l1, fill := Obs.fill c }
    next := o.next
    sems := o.sems }

/-! ### the model state in tabulated form (so that lookups stay O(1) over a long run) -/

structure Tab where
  n : Nat := 0
  lsz : Nat := 64
  l1n : Nat := 16
  st : Array St := #[]                    -- n × slots
  sem : Array Sem := #[]                  -- slots
  cmd : Array Bool := #[]                 -- n × slots × 2
  l1 : Array (Option String) := #[]       -- n × slots
  mem : Array String := #[]               -- slots
  req : Array (Option (Req String)) := #[]
  panic : Bool := false
  known : List Nat := []                  -- line bases mentioned so far in this run

def slots : Nat := 512

def kindIx : Kind → Nat
  | .evict => 0
  | .writeBack => 1

def Tab.slot (t : Tab) (l : Line) : Option Nat :=
  if l % t.lsz == 0 && l / t.lsz < slots then some (l / t.lsz) else none

def Tab.new (n lsz l1n : Nat) : Tab :=
  { n := n, l1n := l1n, lsz := if lsz == 0 then 64 else lsz
    st := Array.replicate (n * slots) .I
    sem := Array.replicate slots ⟨0, 0⟩
    cmd := Array.replicate (n * slots * 2) false
    l1 := Array.replicate (n * slots) none
    mem := Array.replicate slots ""
    req := Array.replicate n none }

def Tab.toState (t : Tab) : State String :=
  { n := t.n
    st := fun c l => match t.slot l with
      | some i => if c < t.n then t.st.getD (c * slots + i) .I else .I
      | none => .I
    sem := fun l => match t.slot l with
      | some i => t.sem.getD i ⟨0, 0⟩
      | none => ⟨0, 0⟩
    cmd := fun c l k => match t.slot l with
      | some i => if c < t.n then t.cmd.getD ((c * slots + i) * 2 + kindIx k) false else false
      | none => false
    req := fun c => if c < t.n then t.req.getD c none else none
    l1 := fun c l => match t.slot l with
      | some i => if c < t.n then t.l1.getD (c * slots + i) none else none
      | none => none
    mem := fun l => match t.slot l with
      | some i => t.mem.getD i ""
      | none => ""
    panic := t.panic }

/-- re-tabulate the model state on the known lines -/
def Tab.absorb (t : Tab) (σ : State String) : Tab :=
  let cores := List.range t.n
  let t1 := t.known.foldl (fun (t : Tab) l =>
    match t.slot l with
    | none => t
    | some i =>
      let t := { t with sem := t.sem.setIfInBounds i (σ.sem l), mem := t.mem.setIfInBounds i (σ.mem l) }
      cores.foldl (fun (t : Tab) c =>
        { t with
          st := t.st.setIfInBounds (c * slots + i) (σ.st c l)
          l1 := t.l1.setIfInBounds (c * slots + i) (σ.l1 c l)
          cmd := (t.cmd.setIfInBounds ((c * slots + i) * 2) (σ.cmd c l .evict)).setIfInBounds ((c * slots + i) * 2 + 1) (σ.cmd c l .writeBack) }) t) t
  { t1 with req := cores.foldl (fun a c => a.setIfInBounds c (σ.req c)) t1.req, panic := σ.panic }

/-! ### decoding the actions of one cycle -/

def kindOf (k : Nat) : Option Kind :=
  if k == 1 then some .evict else if k == 2 then some .writeBack else none

def Obs.hasCmd (o : Obs) (e : Nat) (l : Nat) (k : Kind) : Bool :=
  o.cmds.any fun (e', l', k') => e' == e && l' == Int.ofNat l && kindOf k' == some k

def Obs.l1Data (o : Obs) (c : Nat) (l : Nat) : Option String :=
  match o.cores[c]? with
  | some k => (k.l1.find? fun x => x.base == Int.ofNat l).map (·.data)
  | none => none

/-- the request the snapshot shows for core c: (line, isWrite) -/
def Obs.request (o : Obs) (c : Nat) : Option (Nat × Bool) :=
  match o.cores[c]? with
  | some k =>
    if k.act.contains 'r' then (k.rlocks.head?).map fun l => (l.toNat, false)
    else if k.act.contains 'w' then (k.locks.head?).map fun l => (l.toNat, true)
    else none
  | none => none

def Obs.stateOf (o : Obs) (c : Nat) (l : Nat) : Nat :=
  match o.states.find? (fun e => e.core == c && e.base == Int.ofNat l) with
  | some e => e.state
  | none => 0

/-- the actions of core c's request in this cycle (at most `fuel` of them), applied eagerly as the
coroutine does: everything that can run in the cycle runs.  Also returns the cores whose busy
controller was flushed. -/
def decodeCore (o : Obs) (l1n : Nat) (c : Nat) : Nat → State String × List Nat → State String × List Nat
  | 0, p => p
  | fuel + 1, (σ, fl) =>
    let flushed : State String × List Nat := (step σ (.flush c), c :: fl)
    match σ.req c with
    | none =>
      match o.request c with
      | some (l, w) =>
        let σ' := step σ (.start c l w)
        match σ'.req c with
        | none => (σ, fl)
        | some _ => decodeCore o l1n c fuel (σ', fl)
      | none => (σ, fl)
    | some r =>
      let same := o.request c == some (r.line, !r.mode.isRead)
      match r.stage with
      | .wait =>
        if !same then flushed
        else if pendDone σ r then decodeCore o l1n c fuel (step σ (.proceed c), fl) else (σ, fl)
      | .fetch _ =>
        if !same then flushed
        else if (o.l1Data c r.line).isSome then
          -- `PushLineWithEvictionWarning` reports the last (least recently used) line when the cache
          -- now holds more lines than its capacity
          let lines := match o.cores[c]? with
            | some k => k.l1
            | none => []
          let victim := if lines.length > l1n then (lines.getLast?).map (fun x => x.base.toNat) else none
          decodeCore o l1n c fuel (step σ (.push c victim), fl)
        else (σ, fl)
      | .pushed (some _) => if !same then flushed else (σ, fl)
      | .pushed none => if !same then flushed else decodeCore o l1n c fuel (step σ (.evicted c), fl)
      | .l1 =>
        if same then (σ, fl) else
        let v := (o.l1Data c r.line).getD ""
        let σc := step σ (.complete c v)
        if (σc.st c r.line).code == o.stateOf c r.line && !σc.panic then (σc, fl) else flushed

/-- a request that the snapshot no longer shows and that did not complete was flushed -/
def flushPass (o : Obs) (c : Nat) (p : State String × List Nat) : State String × List Nat :=
  let (σ, fl) := p
  match σ.req c with
  | none => p
  | some r =>
    if o.request c == some (r.line, !r.mode.isRead) then p else
    match r.stage with
    | .l1 =>
      let σc := step σ (.complete c ((o.l1Data c r.line).getD ""))
      if (σc.st c r.line).code == o.stateOf c r.line && !σc.panic then p else (step σ (.flush c), c :: fl)
    | _ => (step σ (.flush c), c :: fl)

/-- snoop completions (commands that disappeared), then the cores in order.  `flushFirst`: the
flushes of the cycle ran before the cores' requests (the rig flushes at the start of a cycle; in
CPU.Run an execute unit flushes in its own turn) -/
def decode (o : Obs) (t : Tab) (flushFirst : Bool) : State String × List Nat :=
  let σ0 := t.toState
  let cores := List.range t.n
  let σ1 := cores.foldl (fun σ e =>
    t.known.foldl (fun σ l =>
      [Kind.evict, Kind.writeBack].foldl (fun σ k =>
        if σ.cmd e l k && !(o.hasCmd e l k) then step σ (.snoop e l k) else σ) σ) σ) σ0
  let p1 : State String × List Nat := (σ1, [])
  let p1 := if flushFirst then cores.foldl (fun p c => flushPass o c p) p1 else p1
  cores.foldl (fun p c => decodeCore o t.l1n c 8 p) p1

/-- first difference between the model's projection and the snapshot -/
def compare (o : Obs) (t : Tab) (σ : State String) : Option String :=
  if σ.panic then some "model-panic" else
  let cores := List.range t.n
  let perLine : Option String := t.known.findSome? fun l =>
    let sm := match o.sems.find? (fun m => m.base == Int.ofNat l) with
      | some m => (m.read, m.write)
      | none => (0, 0)
    if ((σ.sem l).read, (σ.sem l).write) != sm then some s!"sem:{l}" else
    (match o.next.find? (fun p => p.1 == Int.ofNat l) with
      | some p => if σ.mem l != p.2 then some s!"next:{l}" else none
      | none => none) <|>
    cores.findSome? fun c =>
      if (σ.st c l).code != o.stateOf c l then some s!"state:{c}:{l}"
      else if σ.l1 c l != o.l1Data c l then some s!"l1:{c}:{l}"
      else if σ.cmd c l .evict != o.hasCmd c l .evict then some s!"cmd-evict:{c}:{l}"
      else if σ.cmd c l .writeBack != o.hasCmd c l .writeBack then some s!"cmd-writeback:{c}:{l}"
      else none
  perLine <|> cores.findSome? fun c =>
    let want := o.request c
    let have_ := (σ.req c).map fun r => (r.line, !r.mode.isRead)
    if want != have_ then some s!"request:{c}" else none

/-! ### driver state -/

structure DState where
  lineSize : Int := 64
  memSize : Int := 0
  tab : Tab := {}
  refOn : Bool := false
  first : Bool := true
  /-- (core, line) pairs left resident-but-Invalid by a flush between the L1 push and `post()` -/
  excused : List (Nat × Nat) := []
  /-- flushes of a busy controller replayed so far in this run -/
  busyFlush : Nat := 0
  /-- MVP-8: the verdict of `Model.L3.cleanSnapB` on the last `l3=` / `l3d=` sections seen in this run -/
  l3Last : String := "ok"
  deriving Inhabited

instance : Inhabited Tab := ⟨{}⟩

def rawBases (o : Obs) : List Int :=
  o.states.map (·.base) ++ o.sems.map (·.base) ++
    (o.cmds.filter fun (_, _, k) => k ≤ 2).map (fun (_, b, _) => b) ++
    o.cores.flatMap (fun c => c.rlocks ++ c.locks ++ c.l1.map (·.base)) ++ o.next.map (·.1)

def basesOf (o : Obs) : List Nat :=
  ((rawBases o).filter (fun b => decide (0 ≤ b))).map Int.toNat

def handleSnapshot (d : DState) (secs : List String) : DState × String :=
  let o := parseObs secs
  let s := o.snapshot d.lineSize
  let bad := violated s
  let verdict := if bad.isEmpty then "ok" else "viol " ++ ",".intercalate bad
  if !d.refOn then (d, verdict ++ " ref=lost") else
  -- lines mentioned for the first time: the model learns their next-level contents
  let t := d.tab
  let fresh := (basesOf o).eraseDups.filter fun b => !t.known.contains b
  let t := fresh.foldl (fun (t : Tab) b =>
    match t.slot b with
    | some i =>
      { t with known := b :: t.known
               mem := t.mem.setIfInBounds i (((o.next.find? fun p => p.1 == Int.ofNat b).map (·.2)).getD "") }
    | none => t) t
  if fresh.any (fun b => (t.slot b).isNone) ||
     (rawBases o).any (fun b => decide (b < 0) || (decide (0 < d.memSize) && decide (d.memSize < b + d.lineSize))) then
    -- an access outside the memory (garbage address register): fetches pad with zeros, write-backs are
    -- dropped, the run ends in an index panic — outside the property's domain and the model
    ({ d with refOn := false }, verdict ++ " ref=skip:wild-address")
  else if o.cmds.any (fun (c, b, k) => k ≤ 2 && o.stateOf c b.toNat == 0) then
    -- MVP-8 only: `evictL1ExtraCacheLine` sends an evict command for a victim whose state is Invalid
    -- (MVP-7.x returns nil, as the model does); such a victim exists only in the aftermath of a flush
    -- in the fill window, and the command makes coSnoop panic.  Outside the model.
    ({ d with refOn := false }, verdict ++ " ref=skip:command-on-invalid-line")
  else
  let accept (p : State String × List Nat) : DState × String :=
    let (σ, fl) := p
    -- a flushed fill that had already pushed its line: resident, Invalid, no request (the flush window)
    let newExc := fl.filterMap fun c =>
      match t.req.getD c none with
      | some r =>
        if r.mode.fill && (match r.stage with | .pushed _ => true | .l1 => true | _ => false) &&
           σ.st c r.line == .I && (σ.l1 c r.line).isSome then some (c, r.line) else none
      | none => none
    let exc := (d.excused ++ newExc).filter fun (c, l) => σ.st c l == .I && (σ.l1 c l).isSome
    -- the offenders of holds_iff_not_invalid (ii); direction (i) is never excused
    let dirI := o.states.any fun e => e.state != 0 && !(s.holds e.core e.base)
    let offenders := (List.range o.cores.length).flatMap fun c =>
      ((s.coreLines c).filter fun l => s.stateOf c l.base == 0 && !(s.inTransfer c l.base)).map fun l => (c, l.base.toNat)
    let hw := if bad == ["holds_iff_not_invalid"] && !dirI && offenders.all (fun p => exc.contains p) then " hw=excused" else ""
    ({ d with tab := t.absorb σ, first := false, excused := exc, busyFlush := d.busyFlush + fl.length },
      verdict ++ " ref=ok" ++ hw ++ (if fl.isEmpty then "" else s!" flush={fl.length}"))
  let p := decode o t false
  match compare o t p.1 with
  | none => accept p
  | some why =>
    let p2 := decode o t true
    match compare o t p2.1 with
    | none => accept p2
    | some _ => ({ d with refOn := false }, verdict ++ " ref=fail:" ++ why)

/-! ### MVP-8: `Model.L3.cleanB` on the exported L3 (work package L3) -/

def hexNibble (c : Char) : Nat :=
  if '0' ≤ c ∧ c ≤ '9' then c.toNat - '0'.toNat
  else if 'a' ≤ c ∧ c ≤ 'f' then c.toNat - 'a'.toNat + 10
  else 0

def hexBytes : List Char → List (BitVec 8)
  | a :: b :: rest => BitVec.ofNat 8 (hexNibble a * 16 + hexNibble b) :: hexBytes rest
  | _ => []

/-- the bytes a zero-run compressed hex string stands for -/
def decodeData (s : String) : List (BitVec 8) :=
  (s.splitOn ".").flatMap fun t =>
    if t.startsWith "z" then List.replicate (natOf' (t.drop 1).toString) 0#8 else hexBytes t.toList

/-- `ok` | `stale` (a line that is not flagged differs from memory) | `keys` (a flag on an unaligned address or on no
exported line): `Model.L3.cleanSnapB` (= `Model.L3.cleanB` of the state, `Proofs.L3.cleanSnapB_snapshotOf`) on the sections
`l3=base:size:flag:data:mem+…` and `l3d=addr+…` -/
def l3Verdict (memSize : Int) (l3s l3d : String) : String :=
  let obs : List Model.L3.LineObs := (plusList l3s).filterMap fun t =>
    match t.splitOn ":" with
    | [b, sz, fl, dat, m] =>
      let data := decodeData dat
      let base := intOf b
      let inside := (min (Int.ofNat data.length) (memSize - base)).toNat
      let ms := if m == "~" then data.take inside else decodeData m
      some ({ lo := base, hi := base + intOf sz, data := data }, fl == "d", ms)
    | _ => none
  let dirty := (plusList l3d).map intOf
  if !(Model.L3.cleanSnapLinesB obs) then "stale"
  else if !(Model.L3.cleanSnapKeysB Model.L3.mvp8Config obs dirty) then "keys"
  else "ok"

/-- the `l3clean=` suffix of the answer to an S line (empty when the variant has no L3); `l3=^` repeats the previous sections -/
def l3Suffix (d : DState) (secs : List String) : DState × String :=
  let kv : List (String × String) := secs.filterMap fun s =>
    let s := s.trimAscii.toString
    match s.splitOn "=" with
    | k :: v :: _ => some (k, v)
    | _ => none
  match kv.lookup "l3" with
  | none => (d, "")
  | some "^" => (d, " l3clean=" ++ d.l3Last)
  | some l3s =>
    let v := l3Verdict d.memSize l3s ((kv.lookup "l3d").getD "")
    ({ d with l3Last := v }, " l3clean=" ++ v)

/-! ### the values the rig's reads returned vs the current value of their line (work package COH) -/

/-- `Proofs.MsiCoherence.cur` on a snapshot: the L1 copy of the core that holds the line Modified, else the next level -/
def curData (o : Obs) (base : Int) : String :=
  match o.states.find? (fun e => e.base == base && e.state == 2) with
  | some e => (o.l1Data e.core base.toNat).getD ""
  | none => ((o.next.find? (fun p => p.1 == base)).map (·.2)).getD ""

/-- the `rv=` suffix of the answer to an S line of a rig run: every read that completed while this snapshot was the
state (`rv=core:addr:data,…`) returned the current value of its line (`Props.C05.Msi.read_returns_cur`) -/
def rvSuffix (d : DState) (secs : List String) : String :=
  let kv : List (String × String) := secs.filterMap fun s =>
    let s := s.trimAscii.toString
    match s.splitOn "=" with
    | k :: v :: _ => some (k, v)
    | _ => none
  match kv.lookup "rv" with
  | none => ""
  | some rv =>
    let o := parseObs secs
    let ok := (csv rv).all fun t =>
      match t.splitOn ":" with
      | [_, a, dat] =>
        let addr := intOf a
        let base := addr - addr % d.lineSize
        let cur := decodeData (curData o base)
        let got := decodeData dat
        ((cur.drop (addr - base).toNat).take got.length) == got
      | _ => false
    if ok then " rv=ok" else " rv=bad"

def handle (d : DState) (line : String) : DState × String :=
  let secs := line.splitOn " ; "
  let head := words (secs.headD "")
  match head with
  | "K" :: _ => (d, "case")
  | "R" :: _ :: rest =>
    let kv := kvs rest
    let n := natOf' ((getKV kv "cores").getD "0")
    let lsz := natOf' ((getKV kv "lsz").getD "64")
    let l1n := natOf' ((getKV kv "l1n").getD "16")
    ({ lineSize := Int.ofNat lsz, memSize := Int.ofNat (natOf' ((getKV kv "mem").getD "0")), tab := Tab.new n lsz l1n, refOn := true, first := true }, "run")
  | ["S", _, _] =>
    let (d1, ans) := handleSnapshot d (secs.drop 1)
    let (d2, suf) := l3Suffix d1 (secs.drop 1)
    (d2, ans ++ suf ++ rvSuffix d (secs.drop 1))
  | ["P", _, _] =>
    let o := parseObs (secs.drop 1)
    let s := o.snapshot d.lineSize
    if s.countersNonneg then ({ d with refOn := false }, "pm ok") else
    -- cause, from the replayed model state: every negative counter is read = -1 with write = 1 on a line
    -- on which some core's request in progress is a read of a line it held Modified (mode rdHitM: the
    -- write lock recorded in the read-lock table, released with RUnlock by flush)
    let negs := o.sems.filter fun m => decide (m.read < 0) || decide (m.write < 0)
    let explained := d.refOn && negs.all fun m =>
      m.read == -1 && m.write == 1 &&
      (List.range d.tab.n).any fun c =>
        match d.tab.req.getD c none with
        | some r => r.mode == .rdHitM && Int.ofNat r.line == m.base
        | none => false
    ({ d with refOn := false }, "pm viol counters_nonneg" ++ (if explained then " ref=pm cause=flush-rdHitM" else ""))
  | "E" :: _ => (d, s!"end busyflush={d.busyFlush}")
  | "X" :: _ => (d, "skip")
  | "T" :: _ => (d, "total")
  | _ => (d, "bad-op")

end Driver.C06

partial def loopC06 (h : IO.FS.Stream) (out : IO.FS.Stream) (d : Driver.C06.DState) : IO Unit := do
  let line ← h.getLine
  if line.isEmpty then return ()
  let (d', o) := Driver.C06.handle d line.trimAscii.toString
  out.putStrLn o
  loopC06 h out d'

def main : IO Unit := do
  let out ← IO.getStdout
  loopC06 (← IO.getStdin) out {}
  out.flush

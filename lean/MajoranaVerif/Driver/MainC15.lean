/-
  Driver/MainC15.lean — line-protocol driver of C15 (one line in, one line out).
  STUB: to be filled by the C15 work package (see /verif/BUILDING.md).
-/
import MajoranaVerif.Driver.Util

def handleC15 (line : String) : String := "todo " ++ line

partial def loopC15 (h : IO.FS.Stream) (out : IO.FS.Stream) : IO Unit := do
  let line ← h.getLine
  if line.isEmpty then return ()
  out.putStrLn (handleC15 line.trimAscii.toString)
  loopC15 h out

def main : IO Unit := do
  let out ← IO.getStdout
  loopC15 (← IO.getStdin) out
  out.flush

/-
  Driver/MainC15.lean — line-protocol driver of C15 (one line in, one line out).

  A line is a whole history, so the driver is stateless between lines and a failing
  line is its own replay:

    h <class> rat=<0|1> ; <op> ; <op> ; …      operations on a `Model.Context`
        reg r v | init | tw r v t | rw r v t | commit | rollback s |
        rcommit | rrollback s | rflush | rd r t | rdf r t fr fv
      answer per op, joined by " | ":  R[reg:value,…]  (ctx.Registers, sorted)  or  v=<value>
      (`rd`: what `mv t6, r` computes through the REGENERATED `Gen.op_mv.Run`, i.e. through
       `Gen.registerRead`; the direct call of `Gen.registerRead` must agree)

    q L=<n> ; <op> ; …                          operations on a `Model.Rat Int Int` of length n
        write k v | read k | find k le|lt t | values | findvalues le|lt t

  The context is created with the regenerated `Gen.ratLength` (risc/app.go `ratLength`).
-/
import MajoranaVerif.Driver.Util
import MajoranaVerif.Model.Txn
import MajoranaVerif.Gen.Risc
import MajoranaVerif.Gen.Opcodes
open GoInt Model Driver

namespace Driver.C15

def showRegs (m : GoMap Reg Word) : String :=
  "R[" ++ ",".intercalate ((sortBy (fun (p : Reg × Word) => (p.1 : Int)) m.entries).map
    fun (r, v) => s!"{r}:{showI32 v}") ++ "]"

/-- what `mv t6, r` computes with tag `t` on the model context -/
def readOut (ctx : Context) (fwd : Gen.Forward) (r : Reg) (t : Word) : String :=
  let direct := Gen.registerRead ctx fwd r t
  match Gen.op_mv.Run { rd := Gen.Reg.T6, rs := r, forward := fwd } ctx {} 0 [] t with
  | .ok e =>
    if e.RegisterValue == direct then s!"v={showI32 e.RegisterValue}"
    else s!"v={showI32 e.RegisterValue} registerRead={showI32 direct}"
  | .error f => showFault f

/-- all arguments of an operation are decimal integers (as the harness requires) -/
def ints (l : List String) : Option (List Int) := l.mapM String.toInt?

def isReg (i : Int) : Bool := decide (0 ≤ i) && decide (i < 32)

def W (i : Int) : Word := BitVec.ofInt 32 i

def ctxOp (ctx : Context) (f : List String) : Context × String :=
  match f with
  | [] => (ctx, "bad-op")
  | op :: args =>
    match ints args with
    | none => (ctx, "bad-op")
    | some a =>
      let st (c : Context) : Context × String := (c, showRegs c.Registers)
      let bad : Context × String := (ctx, "bad-op")
      match op, a with
      | "reg", [r, v] => if isReg r then st (ctx.writeRegister r.toNat (W v)) else bad
      | "init", [] => st ctx.initRAT
      | "tw", [r, v, t] => if isReg r then st (ctx.transactionWriteRegister r.toNat (W v) (W t)) else bad
      | "rw", [r, v, t] => if isReg r then st (ctx.transactionRATWrite r.toNat (W v) (W t)) else bad
      | "commit", [] => st ctx.commit
      | "rollback", [s] => st (ctx.rollback (W s))
      | "rcommit", [] => st ctx.ratCommit
      | "rrollback", [s] => st (ctx.ratRollback (W s))
      | "rflush", [] => st ctx.ratFlush
      | "rd", [r, t] => if isReg r then (ctx, readOut ctx {} r.toNat (W t)) else bad
      | "rdf", [r, t, fr, fv] =>
        if isReg r && isReg fr then (ctx, readOut ctx { Register := fr.toNat, Value := W fv } r.toNat (W t)) else bad
      | _, _ => bad

def runOps {σ : Type} (step : σ → List String → σ × String) (s : σ) (ops : List (List String)) : List String :=
  (ops.foldl (fun (acc : σ × List String) f =>
    let (s', out) := step acc.1 f
    (s', out :: acc.2)) (s, [])).2.reverse

def showKV (l : List (Int × Int)) : String :=
  "[" ++ ",".intercalate ((sortBy (fun (p : Int × Int) => p.1) l).map fun (k, v) => s!"{k}:{v}") ++ "]"

def predOf (kind : String) (t : Int) : Option (Int → Bool) :=
  match kind with
  | "le" => some (fun v => decide (v ≤ t))
  | "lt" => some (fun v => decide (v < t))
  | _ => none

def ratOp (r : Rat Int Int) (f : List String) : Rat Int Int × String :=
  match f with
  | ["write", k, v] =>
    match ints [k, v] with
    | some [k, v] => (r.write k v, "ok")
    | _ => (r, "bad-op")
  | ["read", k] =>
    match ints [k] with
    | some [k] => let (v, ex) := r.read k; (r, s!"v={v} ex={showB ex}")
    | _ => (r, "bad-op")
  | ["find", k, kind, t] =>
    match ints [k, t] with
    | some [k, t] =>
      match predOf kind t with
      | some p => let (v, ex) := r.find k p; (r, s!"v={v} ex={showB ex}")
      | none => (r, "bad-op")
    | _ => (r, "bad-op")
  | ["values"] => (r, showKV r.values)
  | ["findvalues", kind, t] =>
    match ints [t] with
    | some [t] =>
      match predOf kind t with
      | some p => (r, showKV (r.findValues p))
      | none => (r, "bad-op")
    | _ => (r, "bad-op")
  | _ => (r, "bad-op")

def handle (line : String) : String :=
  match sections line with
  | ("h" :: rest) :: ops =>
    match (getKV (kvs rest) "rat") with
    | some b =>
      let ctx : Context :=
        { committedRAT := Rat.new Gen.ratLength, transactionRAT := Rat.new Gen.ratLength, rat := (b == "1") }
      " | ".intercalate (runOps ctxOp ctx ops)
    | none => "bad-op"
  | ("q" :: rest) :: ops =>
    match (getKV (kvs rest) "L") with
    | some l =>
      if natOf l == 0 then "bad-op"
      else " | ".intercalate (runOps ratOp (Rat.new (natOf l)) ops)
    | none => "bad-op"
  | _ => "bad-op"

end Driver.C15

def handleC15 (line : String) : String := Driver.C15.handle line

partial def loopC15 (h : IO.FS.Stream) (out : IO.FS.Stream) : IO Unit := do
  let line ← h.getLine
  if line.isEmpty then return ()
  out.putStrLn (handleC15 line.trimAscii.toString)
  loopC15 h out

def main : IO Unit := do
  let out ← IO.getStdout
  loopC15 (← IO.getStdin) out
  out.flush

/-
  Driver/MainC11.lean — line-protocol driver of C11 (one line in, one line out).

  input lines (written by go/cmd/harness/c11.go):
    `c11 <id> <kind> <ref> x<hex>`   program text, hex-encoded → the model's `parse`, rendered like the Go side
    `asm <id> x<hex>`                canonical text → `asm-agree` iff Model.Parser + Model.ofGen = Spec.Asm
    `tab`                            the model's tables of space encodings and of ToLower-to-ASCII code points
  anything else → `bad-op`.
-/
import MajoranaVerif.Driver.Util
import MajoranaVerif.Model.Parser
import MajoranaVerif.Model.Roles
import MajoranaVerif.Spec.Asm
open GoInt Model.Parser

namespace Driver.C11

def hexVal (c : Char) : Option Nat :=
  if '0' ≤ c ∧ c ≤ '9' then some (c.toNat - 48)
  else if 'a' ≤ c ∧ c ≤ 'f' then some (c.toNat - 87)
  else none

def unhexGo : List Char → List UInt8 → Option (List UInt8)
  | [], acc => some acc.reverse
  | [_], _ => none
  | a :: b :: r, acc =>
    match hexVal a, hexVal b with
    | some x, some y => unhexGo r ((x * 16 + y).toUInt8 :: acc)
    | _, _ => none

/-- `x<hex>` → bytes -/
def unhex (s : String) : Option (List UInt8) :=
  match s.toList with
  | 'x' :: r => unhexGo r []
  | _ => none

def hexDigit (n : Nat) : Char := if n < 10 then Char.ofNat (48 + n) else Char.ofNat (87 + n)

def hex (bs : List UInt8) : String :=
  String.ofList ('x' :: bs.flatMap fun b => [hexDigit (b.toNat / 16), hexDigit (b.toNat % 16)])

def showLabel (s : String) : String := hex (unlatin1 s)

/-- fields sorted by Go field name, `forward` omitted; strings hex-encoded -/
def showInstr : Gen.Instr → String
  | .add_ o => s!"add rd={o.rd} rs1={o.rs1} rs2={o.rs2}"
  | .addi_ o => s!"addi imm={showI32 o.imm} rd={o.rd} rs={o.rs}"
  | .and_ o => s!"and rd={o.rd} rs1={o.rs1} rs2={o.rs2}"
  | .andi_ o => s!"andi imm={showI32 o.imm} rd={o.rd} rs={o.rs}"
  | .auipc_ o => s!"auipc imm={showI32 o.imm} rd={o.rd}"
  | .beq_ o => s!"beq label={showLabel o.label} rs1={o.rs1} rs2={o.rs2}"
  | .beqz_ o => s!"beqz label={showLabel o.label} rs={o.rs}"
  | .bge_ o => s!"bge label={showLabel o.label} rs1={o.rs1} rs2={o.rs2}"
  | .bgeu_ o => s!"bgeu label={showLabel o.label} rs1={o.rs1} rs2={o.rs2}"
  | .ble_ o => s!"ble label={showLabel o.label} rs1={o.rs1} rs2={o.rs2}"
  | .blt_ o => s!"blt label={showLabel o.label} rs1={o.rs1} rs2={o.rs2}"
  | .bltu_ o => s!"bltu label={showLabel o.label} rs1={o.rs1} rs2={o.rs2}"
  | .bne_ o => s!"bne label={showLabel o.label} rs1={o.rs1} rs2={o.rs2}"
  | .bnez_ o => s!"bnez label={showLabel o.label} rs={o.rs}"
  | .div_ o => s!"div rd={o.rd} rs1={o.rs1} rs2={o.rs2}"
  | .j_ o => s!"j label={showLabel o.label}"
  | .jal_ o => s!"jal label={showLabel o.label} rd={o.rd}"
  | .jalr_ o => s!"jalr imm={showI32 o.imm} rd={o.rd} rs={o.rs}"
  | .lui_ o => s!"lui imm={showI32 o.imm} rd={o.rd}"
  | .lb_ o => s!"lb offset={showI32 o.offset} rd={o.rd} rs={o.rs}"
  | .lh_ o => s!"lh offset={showI32 o.offset} rd={o.rd} rs={o.rs}"
  | .li_ o => s!"li imm={showI32 o.imm} rd={o.rd}"
  | .lw_ o => s!"lw offset={showI32 o.offset} rd={o.rd} rs={o.rs}"
  | .nop_ _ => "nop"
  | .mul_ o => s!"mul rd={o.rd} rs1={o.rs1} rs2={o.rs2}"
  | .mv_ o => s!"mv rd={o.rd} rs={o.rs}"
  | .or_ o => s!"or rd={o.rd} rs1={o.rs1} rs2={o.rs2}"
  | .ori_ o => s!"ori imm={showI32 o.imm} rd={o.rd} rs={o.rs}"
  | .rem_ o => s!"rem rd={o.rd} rs1={o.rs1} rs2={o.rs2}"
  | .ret_ _ => "ret"
  | .sb_ o => s!"sb offset={showI32 o.offset} rd={o.rd} rs={o.rs}"
  | .sh_ o => s!"sh offset={showI32 o.offset} rd={o.rd} rs={o.rs}"
  | .sll_ o => s!"sll rd={o.rd} rs1={o.rs1} rs2={o.rs2}"
  | .slli_ o => s!"slli imm={showI32 o.imm} rd={o.rd} rs={o.rs}"
  | .slt_ o => s!"slt rd={o.rd} rs1={o.rs1} rs2={o.rs2}"
  | .sltu_ o => s!"sltu rd={o.rd} rs1={o.rs1} rs2={o.rs2}"
  | .slti_ o => s!"slti imm={showI32 o.imm} rd={o.rd} rs={o.rs}"
  | .sra_ o => s!"sra rd={o.rd} rs1={o.rs1} rs2={o.rs2}"
  | .srai_ o => s!"srai imm={showI32 o.imm} rd={o.rd} rs={o.rs}"
  | .srl_ o => s!"srl rd={o.rd} rs1={o.rs1} rs2={o.rs2}"
  | .srli_ o => s!"srli imm={showI32 o.imm} rd={o.rd} rs={o.rs}"
  | .sub_ o => s!"sub rd={o.rd} rs1={o.rs1} rs2={o.rs2}"
  | .sw_ o => s!"sw offset={showI32 o.offset} rd={o.rd} rs={o.rs}"
  | .xor_ o => s!"xor rd={o.rd} rs1={o.rs1} rs2={o.rs2}"
  | .xori_ o => s!"xori imm={showI32 o.imm} rd={o.rd} rs={o.rs}"

def showApp (a : App) : String :=
  let labs := a.labels.entries.mergeSort (fun x y => !(y.1 < x.1))
  s!"ok n={a.instrs.length} instrs=[{";".intercalate (a.instrs.map showInstr)}] labels=[{",".intercalate (labs.map fun (k, v) => s!"{showLabel k}:{showI32 v}")}]"

def showParse (r : Except ParseErr App) : String :=
  match r with
  | .ok a => showApp a
  | .error (.err k) => "err " ++ k
  | .error (.panic _) => "panic"

/-! ### agreement with the trusted reference assembler on canonical text -/

def asmCheck (bs : List UInt8) : String :=
  match String.fromUTF8? (ByteArray.mk bs.toArray) with
  | none => "asm-skip not-utf8"
  | some text =>
    match parse bs, Spec.Asm.program text with
    | .ok a, some p =>
      if a.instrs.map Model.ofGen != p.instrs.toList then "asm-DIFF instrs"
      else
        -- every label either side knows resolves to the same address
        let keys := (a.labels.keys ++ p.labels.map (·.1)).eraseDups
        if keys.all (fun k => a.labels.find? k == p.label k) then "asm-agree" else "asm-DIFF labels"
    | .error (.err _), none => "asm-agree"
    | .ok _, none => "asm-DIFF model-accepts spec-rejects"
    | .error (.err _), some _ => "asm-DIFF model-rejects spec-accepts"
    | .error (.panic _), _ => "asm-DIFF model-panics"

/-! ### the tables, recomputed from the model's byte predicates by a sweep over all code points -/

def utf8 (c : Nat) : List UInt8 :=
  if c < 0x80 then [c.toUInt8]
  else if c < 0x800 then [(0xC0 + c / 64).toUInt8, (0x80 + c % 64).toUInt8]
  else if c < 0x10000 then [(0xE0 + c / 4096).toUInt8, (0x80 + c / 64 % 64).toUInt8, (0x80 + c % 64).toUInt8]
  else [(0xF0 + c / 262144).toUInt8, (0x80 + c / 4096 % 64).toUInt8, (0x80 + c / 64 % 64).toUInt8, (0x80 + c % 64).toUInt8]

def isSurrogate (c : Nat) : Bool := 0xD800 ≤ c && c < 0xE000

def tables : String := Id.run do
  let mut spaces : Array Nat := #[]
  let mut lowers : Array String := #[]
  for c in [0:0x110000] do
    if isSurrogate c then continue
    let e := utf8 c
    -- a space both for the forward and for the backward scan, also next to other bytes
    let l := trimLeft (e ++ [0x41]) == [0x41]
    let r := trimRight (0x41 :: e) == [0x41]
    if l != r then spaces := spaces.push 99999999
    if l then spaces := spaces.push c
    match toLower e with
    | [b] => if b < 0x80 && b.toNat != c then lowers := lowers.push s!"{c}:{b.toNat}"
    | _ => pure ()
  return s!"tab spaces={",".intercalate (spaces.toList.map toString)} lower={",".intercalate lowers.toList}"

def handle (line : String) : String :=
  match words line with
  | ["c11", _, _, _, h] =>
    match unhex h with
    | some bs => showParse (parse bs)
    | none => "bad-op"
  | ["asm", _, h] =>
    match unhex h with
    | some bs => asmCheck bs
    | none => "bad-op"
  | ["tab"] => tables
  | _ => "bad-op"

end Driver.C11

def handleC11 (line : String) : String := Driver.C11.handle line

partial def loopC11 (h : IO.FS.Stream) (out : IO.FS.Stream) : IO Unit := do
  let line ← h.getLine
  if line.isEmpty then return ()
  out.putStrLn (handleC11 line.trimAscii.toString)
  loopC11 h out

def main : IO Unit := do
  let out ← IO.getStdout
  loopC11 (← IO.getStdin) out
  out.flush

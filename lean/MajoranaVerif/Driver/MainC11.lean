/-
  Driver/MainC11.lean — line-protocol driver of C11 (one line in, one line out).
  STUB: to be filled by the C11 work package (see /verif/BUILDING.md).
-/
import MajoranaVerif.Driver.Util

def handleC11 (line : String) : String := "todo " ++ line

partial def loopC11 (h : IO.FS.Stream) (out : IO.FS.Stream) : IO Unit := do
  let line ← h.getLine
  if line.isEmpty then return ()
  out.putStrLn (handleC11 line.trimAscii.toString)
  loopC11 h out

def main : IO Unit := do
  let out ← IO.getStdout
  loopC11 (← IO.getStdin) out
  out.flush

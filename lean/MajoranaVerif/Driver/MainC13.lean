/-
  Driver/MainC13.lean — line-protocol driver of C13 (one line in, one line out):
  executes `Model.LineCache` / `Model.KvLru` on the lines the Go harness
  (verif/go/cmd/harness/c13.go) ran on the real code.  Core-only.

  The model has value semantics; Go's cache stores the caller's `[]int8` itself and
  hands the same slice back, and `ExistingLines()/Lines()` share the backing array
  of `c.lines`, which `EvictCacheLine` shifts in place.  The harness exercises this
  (`mut`, `held`, `snap`, `chk`), so the DRIVER (not the model) keeps the little
  heap needed to predict it:
    * `tags`  — parallel to `c.lines`: serial number of the pushed slice that is the line's `Data`;
    * `dead`  — pushed slices that are no longer the `Data` of a resident line (frozen unless `mut`);
    * `arr`/`gen` — the backing array of `c.lines` as (lo, hi, tag) and its generation: `Get` hits and
      pushes allocate a new array, `EvictCacheLine` shifts the current one in place;
    * `snaps` — held `ExistingLines()/Lines()` results: (generation, length, frozen content once the
      array was replaced).
-/
import MajoranaVerif.Driver.Util
import MajoranaVerif.Model.LineCache
import MajoranaVerif.Model.KvLru
open GoInt

namespace Driver.C13
open LineCache

abbrev Ent := Int × Int × Nat   -- lo, hi, tag

structure Snap where
  gen : Nat
  len : Nat
  frozen : Option (List Ent)

structure St where
  c : Option Cache := none
  tags : List Nat := []
  next : Nat := 0
  dead : List (Nat × List (BitVec 8)) := []
  arr : List Ent := []
  gen : Nat := 0
  snaps : Array Snap := #[]
  kv : Option (KvLru.Kv Int Int) := none

def parseData (s : String) : List (BitVec 8) :=
  if s == "-" || s.isEmpty then [] else (s.splitOn ",").map w8

def parseInts (s : String) : List Int :=
  if s == "-" || s.isEmpty then [] else (s.splitOn ",").map intOf

def showData (d : List (BitVec 8)) : String :=
  if d.isEmpty then "-" else ",".intercalate (d.map showI8)

def aliasOf (d : List (BitVec 8)) (tag : Nat) : String :=
  if d.isEmpty then "-1" else toString tag

/-- current content of pushed slice `k` -/
def resolve (st : St) (c : Cache) (k : Nat) : Option (List (BitVec 8)) :=
  match (st.tags.zip c.lines).find? (fun p => p.1 == k) with
  | some (_, l) => some l.data
  | none => st.dead.lookup k

def showEnt (st : St) (c : Cache) (e : Ent) : String :=
  let d := (resolve st c e.2.2).getD []
  s!"{e.1}:{e.2.1}:{showData d}:{aliasOf d e.2.2}"

def showEnts (st : St) (c : Cache) (es : List Ent) : String :=
  if es.isEmpty then "lines -" else "lines " ++ "|".intercalate (es.map (showEnt st c))

def entsOf (tags : List Nat) (ls : List Line) : List Ent :=
  (tags.zip ls).map fun (t, l) => (l.lo, l.hi, t)

/-- the backing array of `c.lines` was replaced: snapshots of the old one are frozen -/
def newArray (st : St) (tags : List Nat) (c' : Cache) : St :=
  let snaps := st.snaps.map fun s =>
    if s.gen == st.gen && s.frozen.isNone then { s with frozen := some (st.arr.take s.len) } else s
  { st with snaps := snaps, gen := st.gen + 1, arr := entsOf tags c'.lines, tags := tags, c := some c' }

def idxOf (c : Cache) (a : Int) : Nat :=
  match splitAt a c.lines with
  | some (pre, _, _) => pre.length
  | none => 0

def handleCache (st : St) (c : Cache) (toks : List String) : St × String :=
  match toks with
  | ["push", lo, d] =>
    let data := parseData d
    let k := st.next
    let (r, c') := pushLine c (intOf lo) data
    let allTags := k :: st.tags
    let allLines := newLine c (intOf lo) data :: c.lines
    let keep := c'.lines.length
    let dropped := ((allTags.zip allLines).drop keep).map fun (t, l) => (t, l.data)
    let out := match r with
      | none => "none"
      | some ev => s!"data {showData ev} a={aliasOf ev (allTags.getLast?.getD 0)}"
    let st1 := { st with next := k + 1, dead := dropped ++ st.dead }
    (newArray st1 (allTags.take keep) c', out)
  | ["pushw", lo, d] =>
    let data := parseData d
    let k := st.next
    let (r, c') := pushLineWithEvictionWarning c (intOf lo) data
    let allTags := k :: st.tags
    let out := match r with
      | none => "none"
      | some l => s!"line {l.lo} {l.hi} {showData l.data} a={aliasOf l.data (allTags.getLast?.getD 0)}"
    (newArray { st with next := k + 1 } allTags c', out)
  | ["get", a] =>
    match get c (intOf a) with
    | .error f => (st, showFault f)
    | .ok (none, _) => (st, "miss")
    | .ok (some v, c') =>
      let i := idxOf c (intOf a)
      let t := st.tags.getD i 0
      (newArray st (t :: st.tags.eraseIdx i) c', s!"hit {showI8 v}")
  | ["getline", a] =>
    match getCacheLine c (intOf a) with
    | .error f => (st, showFault f)
    | .ok none => (st, "miss")
    | .ok (some d) => (st, s!"data {showData d} a={aliasOf d (st.tags.getD (idxOf c (intOf a)) 0)}")
  | ["getsub", n, addrs] =>
    match getSubCacheLine c (parseInts addrs) (intOf n) with
    | .error f => (st, showFault f)
    | .ok none => (st, "miss")
    | .ok (some (small, d)) => (st, s!"sub {small} {showData d}")
  | ["evict", a] =>
    match evictCacheLine c (intOf a) with
    | .error f => (st, showFault f)
    | .ok (none, _) => (st, "miss")
    | .ok (some d, c') =>
      let i := idxOf c (intOf a)
      let t := st.tags.getD i 0
      let m := c.lines.length
      -- in place: `append(lines[:i], lines[i+1:]...)` — the old last element stays where it was
      let arr' := st.arr.take i ++ (st.arr.drop (i + 1)).take (m - i - 1) ++ st.arr.drop (m - 1)
      ({ st with c := some c', tags := st.tags.eraseIdx i, dead := (t, d) :: st.dead, arr := arr' },
       s!"data {showData d} a={aliasOf d t}")
  | ["write", a, d] =>
    let data := parseData d
    let c' := writeState c (intOf a) data
    ({ st with c := some c' }, match write c (intOf a) data with | .ok _ => "ok" | .error f => showFault f)
  | ["existing"] => (st, showEnts st c (entsOf st.tags (existingLines c)))
  | ["lines"] => (st, showEnts st c (entsOf st.tags (lines c)))
  | ["mut", k, i, v] =>
    let k := natOf k
    let i := natOf i
    if k ≥ st.next then (st, "panic")
    else match (st.tags.zip c.lines).findIdx? (fun p => p.1 == k) with
      | some p =>
        let l := c.lines.getD p default
        if i < l.data.length then
          ({ st with c := some { c with lines := c.lines.set p { l with data := l.data.set i (w8 v) } } }, "ok")
        else (st, "panic")
      | none =>
        match st.dead.lookup k with
        | some d =>
          if i < d.length then
            ({ st with dead := st.dead.map fun (t, x) => if t == k then (t, x.set i (w8 v)) else (t, x) }, "ok")
          else (st, "panic")
        | none => (st, "panic")
  | ["held", k] =>
    match resolve st c (natOf k) with
    | some d => (st, "data " ++ showData d)
    | none => (st, "panic")
  | ["snap", w] =>
    let ls := if w == "e" then existingLines c else lines c
    ({ st with snaps := st.snaps.push { gen := st.gen, len := ls.length, frozen := none } },
     showEnts st c (entsOf st.tags ls))
  | ["chk", j] =>
    match st.snaps[natOf j]? with
    | none => (st, "panic")
    | some s =>
      let es := match s.frozen with
        | some es => es
        | none => st.arr.take s.len
      (st, showEnts st c es)
  | _ => (st, "bad-op")

def showKv (l : KvLru.Kv Int Int) : String :=
  let ord := if l.order.isEmpty then "-" else ",".intercalate (l.order.map toString)
  let es := sortBy (fun (p : Int × Int) => p.1) l.cache.entries
  let m := if es.isEmpty then "-" else ",".intercalate (es.map fun (k, v) => s!"{k}:{v}")
  s!"order={ord} map={m}"

def handleKv (st : St) (toks : List String) : St × String :=
  match toks, st.kv with
  | ["kvnew", n], _ =>
    let l : KvLru.Kv Int Int := KvLru.new (natOf n)
    ({ st with kv := some l }, "ok " ++ showKv l)
  | _, none => (st, "panic order=? map=?")
  | ["kvput", k, v], some l =>
    match KvLru.put l (intOf k) (intOf v) with
    | .ok l' => ({ st with kv := some l' }, "ok " ++ showKv l')
    | .error f => (st, showFault f ++ " " ++ showKv l)
  | ["kvget", k], some l =>
    match KvLru.get l (intOf k) with
    | (some v, l') => ({ st with kv := some l' }, s!"hit {v} " ++ showKv l')
    | (none, l') => ({ st with kv := some l' }, "miss " ++ showKv l')
  | "kvfind" :: rest, some l =>
    match KvLru.find l (parseInts (rest.headD "-")) with
    | (some k, l') => ({ st with kv := some l' }, s!"found {k} " ++ showKv l')
    | (none, l') => ({ st with kv := some l' }, "miss " ++ showKv l')
  | _, _ => (st, "bad-op")

def handle (st : St) (line : String) : St × String :=
  let toks := words line
  match toks with
  | "new" :: l :: c :: _ =>
    match LineCache.new (natOf l) (natOf c) with
    | .ok c0 => ({ kv := st.kv, c := some c0 }, s!"ok {c0.numberOfLines}")
    | .error f => ({ kv := st.kv }, showFault f)
  | [] => (st, "bad-op")
  | op :: _ =>
    if op.startsWith "kv" then handleKv st toks
    else match st.c with
      | some c => handleCache st c toks
      | none => (st, if ["push", "pushw", "get", "getline", "getsub", "evict", "write", "existing", "lines", "mut", "held", "snap", "chk"].contains op then "panic" else "bad-op")

end Driver.C13

partial def loopC13 (h : IO.FS.Stream) (out : IO.FS.Stream) (st : Driver.C13.St) : IO Unit := do
  let line ← h.getLine
  if line.isEmpty then return ()
  let (st', res) := Driver.C13.handle st line.trimAscii.toString
  out.putStrLn res
  loopC13 h out st'

def main : IO Unit := do
  let out ← IO.getStdout
  loopC13 (← IO.getStdin) out {}
  out.flush

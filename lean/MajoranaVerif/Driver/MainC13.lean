/-
  Driver/MainC13.lean — line-protocol driver of C13 (one line in, one line out).
  STUB: to be filled by the C13 work package (see /verif/BUILDING.md).
-/
import MajoranaVerif.Driver.Util

def handleC13 (line : String) : String := "todo " ++ line

partial def loopC13 (h : IO.FS.Stream) (out : IO.FS.Stream) : IO Unit := do
  let line ← h.getLine
  if line.isEmpty then return ()
  out.putStrLn (handleC13 line.trimAscii.toString)
  loopC13 h out

def main : IO Unit := do
  let out ← IO.getStdout
  loopC13 (← IO.getStdin) out
  out.flush

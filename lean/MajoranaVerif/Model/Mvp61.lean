/-
  Model/Mvp61.lean — hand-written, executable, cycle-accurate model of proc/mvp6-1: MVP-6.0 plus operand forwarding
  between an instruction pushed by the control unit in the previous cycle and its consumer.

  What is literally MVP-6.0's code is taken from `Model.Mvp60` (imported, not copied): the fetch unit (`fetchCore`: the
  coroutine library's `start` / `Checkpoint` / `Reset` are MVP-6.0's closure states), the decode unit's state, the
  L1I / L3 memory-management unit with its pending fetches, the BTB, the branch unit's `shouldFlushPipeline`, the write
  units (`wuCycle`, run on a projection of this machine's state), the final `mmu.flush()`, the register scoreboards.
  New here (the diff of the two directories, file by file):
    fu.go   `reset` / `flush` call `ctx.IncSequenceID()` (so `SequenceID(pc) = pc + 1000·sequenceID` now moves)
    du.go   `runner.Forward(risc.Forward{})`: decoding CLEARS the forward slot of the (shared) instruction object
    cu.go   rewritten: one branch per cycle, `ret` waits for a pending conditional branch, hazards against the runners
            skipped in this cycle, and FORWARDING: a runner whose only hazard is one read-after-write on a register
            written by a runner pushed in the previous cycle is pushed with a channel to that runner
    eu.go   the consumer polls its channel before `bu.assert` and stores the value in the instruction's forward slot;
            the producer sends `execution.RegisterValue` after queueing its result (and then skips the branch-unit
            notifications); the `Pre` hook drops a unit whose (last) runner is younger than `eu.sequenceID`
    bu.go   `notifyConditionalBranch` (clears the control unit's flag)
    cpu.go  the flush path: the execute units keep cycling (with the cycle number frozen at `fromCycle`) until all
            are empty, the write units drain after every such cycle, an inner flush may replace the target;
            an error in that loop ends the run with that error (before the fix of M61-defect-1: `return 0, nil`)
    wu.go, mmu.go, btb.go: same code (coroutine syntax / an `int32` conversion only).

  Shared mutable objects of the Go code made explicit:
  * `app.Instructions[i]` is a pointer; `Forward` mutates the instruction itself, so the forward slot belongs to the
    STATIC instruction (all its dynamic instances): `State.fwds`, indexed by `pc/4`; `instrOf` puts the slot into
    the instruction with the generated `Gen.Instr.setForward` before `Run` / `MemoryRead` are called.
  * the execute bus holds POINTERS to the control unit's runners; `previousRunner.Forwarder = ch` mutates the runner
    while it sits in the execute bus: `setForwarder` on the bus entry with that runner's identity (`uid`, ghost).
  * channels (`make(chan int32, 1)`, one send, one non-blocking receive): `State.chans`, ids from `State.nextChan`.

  Go map iterations (besides MVP-6.0's, see Model/Mvp60.lean):
  * `for previousRunner := range u.pushedRunnersInPreviousCycle` in `shouldUseForwarding` returns the FIRST runner (in
    map order) that writes a register the candidate reads.  The model keeps the runners in push order and, when two runners
    with different identities match (`FwdChoice.ambiguous`), records the candidate and the two producers in the ghost field
    `State.mapOrder` and ends the run right after the control unit with the distinguished panic `mapOrderMsg` — so the
    tie itself checks that the order never matters on a generated case of MVP-6.1 / 6.2 (it cannot: forwarding is only
    tried with exactly one hazard, and every register written by a runner pushed one cycle ago is still pending, so a
    second match would be a second hazard), and gives no verdict where it does matter on MVP-6.3 (renaming admits two
    writers of one register in one cycle).  `Proofs/Mvp63MapOrder.lean`: `ambiguous` iff two such producers; otherwise
    the answer is the same for every order of the runners; only the control unit ever sets the marker.
  * `hazardTypes` (a map) is only indexed and measured (`len`).

  Granularity: ONE CALL OF `cycle` = ONE `ctx.VerifTick()`.  `Mode`: `normal`, `retA`, `retB` as in MVP-6.0;
  `flushF` = at the head of the "executing previous unit cycles" loop, `flushW i` = inside write unit `i`'s drain loop.
-/
import MajoranaVerif.Model.Mvp60
import MajoranaVerif.Model.Txn
open GoInt

namespace Model.Mvp61
open Model.Seq (App Halt)
open Model.Mvp60 (cfg busSize btbSize FetchUnit DecodeUnit ExecCtx EuCo WuCo WriteUnit BranchUnit FuCo L3Res Event
  incRegs decRegs addPendingRegisters deletePendingRegisters pendingPos getFromL3 pushLineToL3 pastEnd instrAt
  btbGet btbAdd buShouldFlush)

/-! ## unit states -/

/-- `risc.InstructionRunnerPc` with the fields MVP-6.1 uses; `uid` (ghost) is the identity of the Go object the
execute bus points to, assigned when the control unit pushes the runner -/
structure Runner where
  instr : Gen.Instr
  pc : Word
  seq : Word
  uid : Nat := 0
  forwarder : Option Nat := none
  receiver : Option Nat := none
  fwdReg : Reg := 0
  /-- MVP-7.1: `ExecutionUnitID`, the core the control unit would like to run the instruction (it holds the line) -/
  euPref : Option Nat := none
  deriving Repr, DecidableEq, Inhabited

def Runner.to60 (r : Runner) : Model.Mvp60.Runner := { instr := r.instr, pc := r.pc, seq := r.seq }

structure ExecUnit where
  co : EuCo := .none
  memory : List Byte := []
  runner : Option Runner := none
  /-- `executeUnit.sequenceID` -/
  sequenceID : Word := 0
  deriving Repr, DecidableEq, Inhabited

inductive Mode where
  | normal
  | retA
  | retB
  /-- at the head of the loop "executing previous unit cycles" -/
  | flushF (seq : Word) (pc : Word) (fromCycle : Int)
  /-- inside the drain loop of write unit `i` of that loop (`isEmpty`: no execute unit was busy in this round) -/
  | flushW (i : Nat) (seq : Word) (pc : Word) (fromCycle : Int) (isEmpty : Bool)
  deriving Repr, DecidableEq, Inhabited

structure State where
  ctx : Model.Context
  fu : FetchUnit := {}
  decodeBus : BufferedBus Word := BufferedBus.new busSize busSize
  du : DecodeUnit := {}
  controlBus : BufferedBus Runner := BufferedBus.new busSize busSize
  cuPendings : Queue Runner := Queue.new Gen.Consts.mvp6_1.pendingLength
  /-- `pushedRunnersInPreviousCycle`, in push order -/
  cuPrev : List Runner := []
  /-- `pendingConditionalBranch` -/
  cuPendCond : Bool := false
  executeBus : BufferedBus Runner := BufferedBus.new busSize busSize
  eus : List ExecUnit := []
  writeBus : BufferedBus ExecCtx := BufferedBus.new busSize busSize
  wus : List WriteUnit := []
  bu : BranchUnit := {}
  mmu : Model.Mmu.Mmu
  pendings : List (Int × Int) := []
  /-- the forward slots of the static instructions that are not the zero value, by instruction index -/
  fwds : List (Nat × Gen.Forward) := []
  /-- values sent on forwarding channels and not yet received -/
  chans : List (Nat × Word) := []
  nextChan : Nat := 0
  nextUid : Nat := 1
  cycles : Int := 0
  mode : Mode := .normal
  /-- ghost: number of `Run` calls of instructions -/
  executed : Nat := 0
  /-- ghost: number of runners pushed with a forwarding channel (`cu.forwarding`) -/
  forwarded : Nat := 0
  /-- configuration, never changed by a tick: `true` = the machine is `proc/mvp6-2` (MVP-6.1 plus commit / rollback of
  register writes through the transaction map; the four places where the two packages differ test this flag), see
  `Model/Mvp62.lean`.  `Model.Mvp61.init` sets `false`. -/
  v62 : Bool := false
  /-- configuration: `true` (together with `v62`) = the machine is `proc/mvp6-3` (MVP-6.2 plus register renaming: the
  rename tables instead of the transaction map, `shouldUseRenaming` in the control unit, the write units' filter in the
  cycle of a flush), see `Model/Mvp63.lean` -/
  v63 : Bool := false
  /-- configuration: `true` = `proc/mvp7-1` and later (the control unit gives loads / stores a preferred core from its copy of
  the MSI states, the execute units pick by preference and call `Run` / `MemoryRead` with the runner's sequence id), see
  `Model/Mvp71.lean` -/
  v71 : Bool := false
  /-- MVP-7.1: `controlUnit.msiStatesCopy` as `(core, line) ↦ 1 (shared) | 2 (modified)` -/
  msiCopy : List ((Nat × Int) × Nat) := []
  /-- ghost: `some (candidate, p, q)` once `shouldUseForwarding` had to choose between two different runners `p`, `q`
  pushed in the previous cycle (possible with renaming only: MVP-6.3); the run ends in that tick -/
  mapOrder : Option (Runner × Runner × Runner) := none
  deriving Inhabited

/-! ## the forward slots and the channels -/

def instrIdx (pc : Word) : Nat := (Int.tdiv pc.toInt 4).toNat

def fwdGet (l : List (Nat × Gen.Forward)) (idx : Nat) : Gen.Forward :=
  match l.find? (fun e => e.1 == idx) with
  | some e => e.2
  | none => {}

def fwdSet (l : List (Nat × Gen.Forward)) (idx : Nat) (f : Gen.Forward) : List (Nat × Gen.Forward) :=
  (idx, f) :: l.filter (fun e => e.1 != idx)

/-- the instruction of a runner as `Run` / `MemoryRead` see it: with the current forward slot -/
def instrOf (s : State) (r : Runner) : Gen.Instr := r.instr.setForward (fwdGet s.fwds (instrIdx r.pc))

def chanGet (l : List (Nat × Word)) (ch : Nat) : Option Word := (l.find? (fun e => e.1 == ch)).map (·.2)

/-- `fetchUnit.reset(pc, cleanPending)`: MVP-6.0's plus `ctx.IncSequenceID()` -/
def fuReset (s : State) (pc : Word) (clean : Bool) : State :=
  { s with fu := s.fu.reset pc clean, ctx := { s.ctx with sequenceID := s.ctx.sequenceID + 1#32 } }

/-! ## fetch, decode -/

def fetchCycle (app : App) (s : State) : M State := do
  let (fu, mmu, bus) ← Model.Mvp60.fetchCore app s.cycles s.fu s.mmu s.decodeBus
  pure { s with fu := fu, mmu := mmu, decodeBus := bus }

/-- the `for { … }` of `decodeUnit.cycle` (as `Model.Mvp60.decodeLoop`, plus the clearing of the forward slot) -/
def decodeLoop (app : App) (cycle : Int) : Nat → State → M State
  | 0, s => pure s
  | n + 1, s =>
    let (x, inBus) := s.decodeBus.get
    let s := { s with decodeBus := inBus }
    match x with
    | none => pure s
    | some pc =>
      if Int.tdiv pc.toInt 4 ≥ app.instrs.length then pure s
      else do
        let i ← instrAt app pc
        let s := { s with fwds := s.fwds.filter (fun e => e.1 != instrIdx pc) }
        let jump := i.instructionType.IsUnconditionalBranch
        let s := if jump then { s with du := { s.du with pendingBranchResolution := true } } else s
        let s := { s with controlBus := s.controlBus.add { instr := i, pc := pc, seq := pc + s.ctx.sequenceID * 1000#32 } cycle }
        if jump then pure s
        else
          -- since /repo 9745825: `u.ret = true; return` — nothing behind a return is decoded, not even in this cycle
          if i.instructionType == Gen.InstructionType.Ret then pure { s with du := { s.du with ret := true } }
          else decodeLoop app cycle n s

def decodeCycle (app : App) (s : State) : M State :=
  if s.du.ret then pure s
  else if s.du.pendingBranchResolution then pure s
  else decodeLoop app s.cycles (s.decodeBus.pendingRead.toNat + 1) s

/-! ## control unit (cu.go) -/

inductive HazardType where
  | raw | waw | war
  deriving Repr, DecidableEq, Inhabited

/-- `hazards, hazardTypes := ctx.IsDataHazard3(runner)` (the set of types is the set of the list's types) -/
def hazards (ctx : Model.Context) (i : Gen.Instr) : List (HazardType × Reg) :=
  (i.readRegisters.filterMap fun r =>
    if r != Gen.Reg.Zero && pendingPos ctx.PendingWriteRegisters r then some (.raw, r) else none) ++
  (i.writeRegisters.flatMap fun r =>
    if r == Gen.Reg.Zero then []
    else (if pendingPos ctx.PendingWriteRegisters r then [(HazardType.waw, r)] else []) ++
         (if pendingPos ctx.PendingReadRegisters r then [(HazardType.war, r)] else []))

/-- `isDataHazardWithSkippedRunners(runner)` -/
def hazardWithSkipped (skipped : List Runner) (r : Runner) : Bool :=
  skipped.any fun sk =>
    (r.instr.readRegisters.any fun reg => reg != Gen.Reg.Zero && sk.instr.writeRegisters.contains reg) ||
    (r.instr.writeRegisters.any fun reg => reg != Gen.Reg.Zero &&
      (sk.instr.writeRegisters.contains reg || sk.instr.readRegisters.contains reg))

/-- the matches of `shouldUseForwarding`'s three nested loops for one previous runner: the first read register of
the candidate (non-zero) that equals a write register of `p`, write registers outermost -/
def fwdMatch (p r : Runner) : Option Reg :=
  (p.instr.writeRegisters.filterMap fun w =>
    r.instr.readRegisters.find? (fun rd => rd != Gen.Reg.Zero && rd == w)).head?

/-- the message of the distinguished panic "the Go result depends on map iteration order" (the driver prints such a
run as `maporder`, the check gives no verdict on it) -/
def mapOrderMsg : String := "map order: two runners pushed in the previous cycle match"

/-- what `shouldUseForwarding` answers -/
inductive FwdChoice where
  /-- `false, nil, Zero` -/
  | no
  /-- `true, previousRunner, register`, the same for every iteration order of the map -/
  | one (p : Runner) (reg : Reg)
  /-- two DIFFERENT runners pushed in the previous cycle match: Go returns whichever its map iteration yields first -/
  | ambiguous (p q : Runner)
  deriving Inhabited

/-- the runners pushed in the previous cycle that write a register the candidate reads, with that register -/
def fwdCandidates (prev : List Runner) (r : Runner) : List (Runner × Reg) :=
  prev.filterMap fun p => (fwdMatch p r).map fun reg => (p, reg)

/-- `shouldUseForwarding(runner, hazards, hazardTypes)`.  The Go loop ranges over the MAP
`pushedRunnersInPreviousCycle` and returns the first match; the model keeps the runners in push order and does not choose
when two different runners (ghost identity `uid`) match -/
def shouldUseForwarding (prev : List Runner) (r : Runner) (hz : List (HazardType × Reg)) : FwdChoice :=
  match hz with
  | [(.raw, _)] =>
    match fwdCandidates prev r with
    | [] => .no
    | m :: rest =>
      match rest.find? (fun x => x.1.uid != m.1.uid) with
      | none => .one m.1 m.2
      | some x => .ambiguous m.1 x.1
  | _ => .no

/-- `previousRunner.Forwarder = ch` on the runner object the execute bus points to -/
def setForwarder (b : BufferedBus Runner) (uid ch : Nat) : BufferedBus Runner :=
  { b with buffer := b.buffer.map (fun e => if e.2.uid == uid then (e.1, { e.2 with forwarder := some ch }) else e)
           queue := b.queue.map (fun x => if x.uid == uid then { x with forwarder := some ch } else x) }

/-- the state the control unit works on -/
structure CuSt where
  ctx : Model.Context
  inBus : BufferedBus Runner
  outBus : BufferedBus Runner
  pendings : Queue Runner
  prev : List Runner
  cur : List Runner := []
  skipped : List Runner := []
  pushedBranch : Bool := false
  pendCond : Bool
  nextChan : Nat
  nextUid : Nat
  forwarded : Nat
  v62 : Bool := false
  v63 : Bool := false
  /-- set when `shouldUseForwarding` was ambiguous: the candidate and the two producers -/
  mapOrder : Option (Runner × Runner × Runner) := none
  v71 : Bool := false
  msiCopy : List ((Nat × Int) × Nat) := []
  /-- the forward slots (read only: `getExecutionUnitIDPreference` calls `MemoryRead` on the static instruction) -/
  fwds : List (Nat × Gen.Forward) := []

/-- MVP-7.1 `getLineReaders` / `getLineWriter`: the cores holding line `a` in the copy, in `StableMapIteration` order
(sorted by core, then line) -/
def lineHolders (copy : List ((Nat × Int) × Nat)) (a : Int) (onlyModified : Bool) : List Nat :=
  let ids := (copy.filter fun e => e.1.2 == a && (e.2 == 2 || (!onlyModified && e.2 == 1))).map (·.1.1)
  (List.range (ids.foldl max 0 + 1)).filter ids.contains

/-- MVP-7.1 `getExecutionUnitIDPreference(runner)`: `executionUnitIDCache` is never filled, so `Find` always fails and
the first reader is taken -/
def euPreference (st : CuSt) (r : Runner) : Option Nat :=
  let i := r.instr.setForward (fwdGet st.fwds (instrIdx r.pc))
  let t := i.instructionType
  let line (addrs : List Word) : Option Int := addrs.head?.map fun a => a.toInt - a.toInt.tmod 64
  if t.IsMemoryRead then (line (i.memoryRead st.ctx r.seq)).bind fun a => (lineHolders st.msiCopy a false).head?
  else if t.IsMemoryWrite then (line (i.memoryWrite st.ctx r.seq)).bind fun a => (lineHolders st.msiCopy a true).head?
  else none

/-- `pushRunner(ctx, cycle, runner)` followed by `pushedRunnersInCurrentCycle[runner] = true` -/
def pushRunner (st : CuSt) (cycle : Int) (r : Runner) : Option CuSt :=
  if !st.outBus.canAdd then none
  else
    let r := if st.v71 then { r with euPref := euPreference st r } else r
    let r := { r with uid := st.nextUid }
    some { st with outBus := st.outBus.add r cycle, ctx := addPendingRegisters st.ctx r.instr,
                   cur := st.cur ++ [r], nextUid := st.nextUid + 1 }

/-- `handleRunner(ctx, cycle, &runner)`: `(push, stop)`, the runner as the caller sees it afterwards (the callee may
have set its `Receiver` / `ForwardRegister`), the state -/
def handleRunner (st : CuSt) (cycle : Int) (r : Runner) : M ((Bool × Bool) × Runner × CuSt) :=
  let t := r.instr.instructionType
  if t.IsBranch && st.pushedBranch then pure ((false, true), r, st)
  else if t == Gen.InstructionType.Ret && (!st.outBus.isEmpty || st.pendCond) then pure ((false, true), r, st)
  -- MVP-6.1: `return false, true`; MVP-6.2: `return false, false` (the loop goes on with the next runner)
  else if hazardWithSkipped st.skipped r then pure ((false, !st.v62), r, st)
  else
    let hz := hazards st.ctx r.instr
    if hz.isEmpty then
      match pushRunner st cycle r with
      | none => pure ((false, true), r, st)
      | some st' => pure ((true, t == Gen.InstructionType.Ret), r, st')
    else
      match shouldUseForwarding st.prev r hz with
      | .ambiguous p q => pure ((false, true), r, { st with mapOrder := some (r, p, q) })
      | .one p reg =>
        let ch := st.nextChan
        let st := { st with nextChan := st.nextChan + 1, outBus := setForwarder st.outBus p.uid ch }
        let r := { r with receiver := some ch, fwdReg := reg }
        match pushRunner st cycle r with
        | none => pure ((false, true), r, st)
        | some st' => pure ((true, true), r, { st' with forwarded := st'.forwarded + 1 })
      | .no =>
        -- MVP-6.3: `if u.shouldUseRenaming(hazards, hazardTypes) { … return true, false }` — at most one hazard, and
        -- it is not read-after-write: the runner is pushed although an older writer / reader of its register is in flight
        if st.v63 && decide (hz.length ≤ 1) && !hz.any (fun h => h.1 == HazardType.raw) then
          match pushRunner st cycle r with
          | none => pure ((false, true), r, st)
          | some st' => pure ((true, false), r, st')
        else pure ((false, true), r, st)

def notePushed (st : CuSt) (r : Runner) : CuSt :=
  let t := r.instr.instructionType
  { st with pushedBranch := st.pushedBranch || t.IsBranch, pendCond := st.pendCond || t.IsConditionalBranch }

/-- `for elem := range u.pendings.Iterator() { … }`; `true` = the cycle returned -/
def cuPendingLoop (cycle : Int) : List (Nat × Runner) → CuSt → M (CuSt × Bool)
  | [], st => pure (st, false)
  | (h, r) :: rest, st => do
    let ((push, stop), r', st) ← handleRunner st cycle r
    let st := if push then notePushed { st with pendings := st.pendings.remove h } r'
              else { st with skipped := st.skipped ++ [r'] }
    if stop then pure (st, true) else cuPendingLoop cycle rest st

/-- `for !u.pendings.IsFull() { runner, exists := u.inBus.Get(); … }` -/
def cuBusLoop (cycle : Int) : Nat → CuSt → M CuSt
  | 0, st => pure st
  | n + 1, st =>
    if st.pendings.isFull then pure st
    else
      let (x, inBus) := st.inBus.get
      let st := { st with inBus := inBus }
      match x with
      | none => pure st
      | some r => do
        let ((push, stop), r', st) ← handleRunner st cycle r
        let st := if push then notePushed st r'
                  else { st with pendings := st.pendings.push r', skipped := st.skipped ++ [r'] }
        if stop then pure st else cuBusLoop cycle n st

/-- `controlUnit.cycle(cycle, ctx)` -/
def controlCycle (s : State) : M State :=
  if !s.executeBus.canAdd then pure { s with cuPrev := [] }
  else do
    let st : CuSt := { ctx := s.ctx, inBus := s.controlBus, outBus := s.executeBus, pendings := s.cuPendings,
                       prev := s.cuPrev, pendCond := s.cuPendCond, nextChan := s.nextChan, nextUid := s.nextUid,
                       forwarded := s.forwarded, v62 := s.v62, v63 := s.v63, v71 := s.v71, msiCopy := s.msiCopy,
                       fwds := s.fwds }
    let (st, stopped) ← cuPendingLoop s.cycles s.cuPendings.iterator st
    let st ← if stopped then pure st else cuBusLoop s.cycles (st.inBus.pendingRead.toNat + 1) st
    -- the forwarding choice was ambiguous: the run ends here (see `cycleM`); the state is kept, with the witness
    if st.mapOrder.isSome then pure { s with mapOrder := st.mapOrder }
    else
    pure { s with ctx := st.ctx, controlBus := st.inBus, executeBus := st.outBus, cuPendings := st.pendings,
                  cuPrev := st.cur, cuPendCond := st.pendCond, nextChan := st.nextChan, nextUid := st.nextUid,
                  forwarded := st.forwarded }

/-! ## execute units (eu.go) -/

/-- what `executeUnit.Cycle` returns: `euResp` -/
inductive EuOut where
  | none
  | flush (seq : Word) (pc : Word)
  | ret
  | err
  deriving Repr, DecidableEq, Inhabited

def setEu (s : State) (i : Nat) (eu : ExecUnit) : State := { s with eus := s.eus.set i eu }

/-- `btbBranchUnit.assert(runner)` (MVP-6.0's, with this package's `fetchUnit.reset`) -/
def buAssert (s : State) (r : Runner) : State :=
  let t := r.instr.instructionType
  if t.IsUnconditionalBranch then
    match btbGet s.bu.btb r.pc with
    | none => { s with bu := { s.bu with toCheck := true, expectation := BitVec.ofInt 32 (-1) } }
    | some nextPc => fuReset { s with bu := { s.bu with toCheck := true, expectation := nextPc } } nextPc true
  else if t.IsConditionalBranch then { s with bu := { s.bu with toCheck := true, expectation := r.pc + 4#32 } }
  else { s with bu := { s.bu with toCheck := false } }

/-- what the resolution of a conditional branch does to the context.  MVP-6.1 (`notifyConditionalBranch()`): nothing.
MVP-6.2: `notifyConditionalBranchTaken(SequenceID)` = `ctx.Rollback(SequenceID)` when the branch jumps
(`PcChange && NextPc != Pc+4`), else `notifyConditionalBranchNotTaken()` = `ctx.Commit()`.  (Both range over the map
`ctx.Transaction`; the keys are distinct registers and each is written once: the order is irrelevant.) -/
def condCtx (v62 v63 : Bool) (ctx : Model.Context) (r : Runner) (e : Gen.Execution) : Model.Context :=
  if v63 then (if e.PcChange && e.NextPc != r.pc + 4#32 then ctx.ratRollback r.seq else ctx.ratCommit)
  else if v62 then (if e.PcChange && e.NextPc != r.pc + 4#32 then ctx.rollback r.seq else ctx.commit) else ctx

/-- `executeUnit.run(r)` of unit `i` (after `Reset()`); `cyc` is `r.cycle` -/
def euRun (app : App) (s : State) (i : Nat) (eu : ExecUnit) (r : Runner) (cyc : Int) : M (State × EuOut) :=
  let eu := { eu with co := .none }
  let s := { setEu s i eu with executed := s.executed + 1 }
  -- MVP-7.1: `Run(ctx, labels, pc, memory, u.runner.SequenceID)` (tagged register reads); before: sequence id 0
  match (instrOf s r).run s.ctx app.labels r.pc eu.memory (if s.v71 then r.seq else 0#32) with
  | .error (.panic w) => throw (.panic w)
  | .error (.err _) => pure (s, .err)
  | .ok e =>
    if e.Return then pure (s, .ret)
    else do
      let (inL3, mmu) ← (if e.MemoryChange then Model.Mmu.doesExecutionMemoryChangesExistsInL1D s.mmu e
                          else pure (false, s.mmu) : M (Bool × Model.Mmu.Mmu))
      if inL3 then do
        let mmu ← Model.Mmu.writeExecutionMemoryChangesToL1D mmu e
        pure ({ s with mmu := mmu,
                       ctx := deletePendingRegisters s.ctx r.instr.readRegisters r.instr.writeRegisters }, .none)
      else
        let t := r.instr.instructionType
        let s := { s with mmu := mmu,
                          writeBus := s.writeBus.add { seq := r.seq, execution := e, itype := t,
                                                       writeRegisters := r.instr.writeRegisters,
                                                       readRegisters := r.instr.readRegisters } cyc }
        match r.forwarder with
        | none =>
          -- `notifyUnconditionalJumpAddressResolved(pc, NextPc)`
          let s := if t.IsUnconditionalBranch then
              let s := { s with bu := { s.bu with btb := btbAdd s.bu.btb r.pc e.NextPc } }
              let s := fuReset s e.NextPc true
              { s with du := { s.du with pendingBranchResolution := false } }
            else s
          -- `notifyConditionalBranch()` / MVP-6.2: `notifyConditionalBranchTaken` / `…NotTaken` (`condCtx`)
          let s := if t.IsConditionalBranch then { s with cuPendCond := false, ctx := condCtx s.v62 s.v63 s.ctx r e } else s
          if e.PcChange then
            let (fl, bu) := buShouldFlush s.bu e.NextPc
            pure ({ s with bu := bu }, if fl then .flush r.seq e.NextPc else .none)
          else pure (s, .none)
        | some ch =>
          -- `u.runner.Forwarder <- execution.RegisterValue` (buffered channel: never blocks)
          let s := { s with chans := s.chans ++ [(ch, e.RegisterValue)] }
          if t.IsBranch then throw (.panic "shouldn't be a branch") else pure (s, .none)

/-- `prepareRun`, first part: `if u.runner.Receiver != nil { select { case v := <-u.runner.Receiver: … default: return } }`
— `none` = nothing on the channel yet (poll again next cycle); otherwise the value goes into the forward slot of the
(static) instruction for the register the control unit matched, and the runner's receiver is cleared -/
def euReceive (s : State) (eu : ExecUnit) (r : Runner) : Option (State × ExecUnit × Runner) :=
  match r.receiver with
  | none => some (s, eu, r)
  | some ch =>
    match chanGet s.chans ch with
    | none => none
    | some v =>
      let r' := { r with receiver := none }
      some ({ s with chans := s.chans.filter (fun e => e.1 != ch),
                     fwds := fwdSet s.fwds (instrIdx r.pc) { Register := r.fwdReg, Value := v } },
            { eu with runner := some r' }, r')

/-- `prepareRun`, second part: `bu.assert`, the memory read, `run` -/
def euAfterReceive (app : App) (s : State) (i : Nat) (eu : ExecUnit) (r : Runner) (cyc : Int) : M (State × EuOut) := do
  let s := buAssert s r
  let addrs := (instrOf s r).memoryRead s.ctx 0#32
  if !addrs.isEmpty then do
    let (res, mmu, pend) ← getFromL3 s.mmu s.pendings addrs
    let s := { s with mmu := mmu, pendings := pend }
    match res with
    | .pending => pure (setEu s i eu, .none)
    | .hit m => pure (setEu s i { eu with memory := m, co := .l3wait (Gen.Latency.L3Access - 1) }, .none)
    | .miss => pure (setEu s i { eu with co := .memwait (Gen.Latency.MemoryAccess - 1) addrs }, .none)
  else euRun app s i eu r cyc

/-- `executeUnit.prepareRun(r)` of unit `i` -/
def euPrepare (app : App) (s : State) (i : Nat) (eu : ExecUnit) (r : Runner) (cyc : Int) : M (State × EuOut) :=
  if !s.writeBus.canAdd then pure (setEu s i eu, .none)
  else
    match euReceive s eu r with
    | none => pure (setEu s i eu, .none)
    | some (s, eu, r) => euAfterReceive app s i eu r cyc

/-- the `Pre` hook of the unit's coroutine: drop (`eu.flush()`) a unit whose runner is younger than `eu.sequenceID` -/
def euPre (eu : ExecUnit) : Bool :=
  match eu.runner with
  | none => false
  | some r => eu.sequenceID != 0#32 && eu.sequenceID.slt r.seq

/-- `executeUnit.Cycle(euReq{cyc, ctx, app})` for unit `i`: the `Pre` hook, then the current closure -/
def euCycle (app : App) (s : State) (i : Nat) (cyc : Int) : M (State × EuOut) :=
  match s.eus[i]? with
  | none => throw (.panic "execute unit index")
  | some eu =>
    if euPre eu then pure (setEu s i { eu with co := .none, sequenceID := 0 }, .none)
    else
    match eu.co with
    | .none =>
      let (x, inBus) := s.executeBus.get
      match x with
      | none => pure ({ s with executeBus := inBus }, .none)
      | some r =>
        euPrepare app { s with executeBus := inBus } i { eu with runner := some r, co := .prepare } r cyc
    | .prepare =>
      match eu.runner with
      | none => throw (.panic "nil runner")
      | some r => euPrepare app s i eu r cyc
    | .l3wait rem =>
      if rem > 0 then pure (setEu s i { eu with co := .l3wait (rem - 1) }, .none)
      else match eu.runner with
        | none => throw (.panic "nil runner")
        | some r => euRun app s i eu r cyc
    | .memwait rem addrs =>
      if rem > 0 then pure (setEu s i { eu with co := .memwait (rem - 1) addrs }, .none)
      else match eu.runner, addrs with
        | none, _ => throw (.panic "nil runner")
        | _, [] => throw (.panic "index out of range")
        | some r, a0 :: _ => do
          let line ← Model.Mmu.fetchCacheLine cfg s.ctx.Memory a0
          let (mmu, pend, mem) ← pushLineToL3 s.mmu s.pendings s.ctx.Memory a0 line
          let (res, mmu, pend) ← getFromL3 mmu pend addrs
          match res with
          | .hit m =>
            euRun app { s with mmu := mmu, pendings := pend, ctx := { s.ctx with Memory := mem } } i { eu with memory := m } r cyc
          | _ => throw (.panic "cache line doesn't exist")

def ExecUnit.isEmpty (eu : ExecUnit) : Bool := eu.co == .none

/-! ## write units: MVP-6.0's, on the part of the state they touch -/

def to60 (s : State) : Model.Mvp60.State :=
  { ctx := s.ctx, writeBus := s.writeBus, wus := s.wus, mmu := s.mmu, cycles := s.cycles }

def setWu (s : State) (j : Nat) (wu : WriteUnit) : State := { s with wus := s.wus.set j wu }

/-- `writeUnit.Cycle` of `proc/mvp6-2`: `Model.Mvp60.wuCycle` with `ctx.TransactionWriteRegister(execution, SequenceID)` in
the place of `ctx.WriteRegister(execution)` -/
def wuCycle62 (s : State) (j : Nat) (before : Word) : M State :=
  match s.wus[j]? with
  | none => throw (.panic "write unit index")
  | some wu =>
    match wu.co with
    | .wait rem =>
      if rem > 0 then pure (setWu s j { wu with co := .wait (rem - 1) })
      else
        match wu.memoryWrite with
        | none => throw (.panic "nil memory write")
        | some ec =>
          match Model.Seq.writeMemory s.ctx ec.execution with
          | none => throw (.panic "memory index")
          | some ctx =>
            pure { setWu s j { wu with co := .none } with ctx := deletePendingRegisters ctx ec.readRegisters ec.writeRegisters }
    | .none =>
      let (x, inBus) := s.writeBus.get
      let s := { s with writeBus := inBus }
      match x with
      | none => pure s
      | some ec =>
        if before != BitVec.ofInt 32 (-1) && before.slt ec.seq then pure s
        else if ec.execution.RegisterChange then
          -- MVP-6.3: `ctx.TransactionRATWrite(execution, SequenceID)`
          let ctx := if s.v63 then s.ctx.transactionRATWrite ec.execution.Register ec.execution.RegisterValue ec.seq
                     else s.ctx.transactionWriteRegister ec.execution.Register ec.execution.RegisterValue ec.seq
          pure { s with ctx := deletePendingRegisters ctx ec.readRegisters ec.writeRegisters }
        else if ec.execution.MemoryChange then
          pure (setWu s j { co := .wait Gen.Latency.MemoryAccess, memoryWrite := some ec })
        else pure { s with ctx := deletePendingRegisters s.ctx ec.readRegisters ec.writeRegisters }

def wuCycle (s : State) (j : Nat) (before : Word) : M State :=
  if s.v62 then wuCycle62 s j before
  else do
    let t ← Model.Mvp60.wuCycle (to60 s) j before
    pure { s with ctx := t.ctx, writeBus := t.writeBus, wus := t.wus }

/-- `for _, wu := range m.writeUnits { wu.Cycle(wuReq{before}) }` -/
def wusCycleB (s : State) (before : Word) : M State :=
  (List.range s.wus.length).foldlM (fun s j => wuCycle s j before) s

def wusCycle (s : State) : M State := wusCycleB s (BitVec.ofInt 32 (-1))

def areWriteUnitsEmpty (s : State) : Bool := s.wus.all WriteUnit.isEmpty

/-! ## the `Run` loop (cpu.go) -/

/-- `CPU.flush(pc)` -/
def flushAll (s : State) (pc : Word) : State :=
  { s with fu := s.fu.flush pc
           du := {}
           cuPendings := Queue.new Gen.Consts.mvp6_1.pendingLength
           cuPrev := []
           cuPendCond := false
           eus := s.eus.map fun (eu : ExecUnit) => { eu with co := .none, sequenceID := 0 }
           decodeBus := s.decodeBus.clean
           controlBus := s.controlBus.clean
           executeBus := s.executeBus.clean
           writeBus := s.writeBus.clean
           ctx := { s.ctx with PendingWriteRegisters := {}, PendingReadRegisters := {},
                               sequenceID := s.ctx.sequenceID + 1#32 } }

def isEmpty (s : State) : Bool :=
  s.fu.complete && decide (s.cuPendings.len = 0) && areWriteUnitsEmpty s &&
    s.decodeBus.isEmpty && s.controlBus.isEmpty && s.executeBus.isEmpty && s.writeBus.isEmpty &&
    s.eus.all ExecUnit.isEmpty

/-- after the outer loop: `cycle += m.memoryManagementUnit.flush()` -/
def finish (s : State) (h : Halt) : M (State × Event) := do
  let (mem, extra) ← Model.Mmu.flush cfg s.mmu s.ctx.Memory
  -- MVP-6.2: `m.ctx.Commit()` after the cache flush
  -- MVP-6.3: `m.ctx.RATCommit(); m.ctx.RATFlush()`
  let ctx := if s.v63 then s.ctx.ratCommit.ratFlush else if s.v62 then s.ctx.commit else s.ctx
  pure ({ s with ctx := { ctx with Memory := mem }, cycles := s.cycles + extra, mode := .normal }, .done h)

structure EuAcc where
  flush : Bool := false
  seq : Word := 0
  pc : Word := 0
  ret : Bool := false
  err : Bool := false
  deriving Repr, DecidableEq, Inhabited

/-- `for i, eu := range m.executeUnits { eu.sequenceID = sequenceID; resp := eu.Cycle(…); … }` from unit `i` on -/
def eusCycle (app : App) : Nat → Nat → State → EuAcc → M (State × EuAcc)
  | 0, _, s, acc => pure (s, acc)
  | n + 1, i, s, acc =>
    match s.eus[i]? with
    | none => pure (s, acc)
    | some eu => do
      let s := setEu s i { eu with sequenceID := acc.seq }
      let (s, out) ← euCycle app s i s.cycles
      match out with
      | .err => pure (s, { acc with err := true })
      | .ret => eusCycle app n (i + 1) s { acc with ret := true }
      | .flush sq p =>
        eusCycle app n (i + 1) s { acc with flush := true, seq := sq, pc := if acc.pc.slt p then p else acc.pc }
      | .none => eusCycle app n (i + 1) s acc

/-- loop A after a `ret`: only the non-empty units cycle; `true` = an error was returned -/
def eusCycleBusy (app : App) : Nat → Nat → State → M (State × Bool)
  | 0, _, s => pure (s, false)
  | n + 1, i, s =>
    match s.eus[i]? with
    | none => pure (s, false)
    | some eu =>
      if eu.isEmpty then eusCycleBusy app n (i + 1) s
      else do
        let (s, out) ← euCycle app s i s.cycles
        match out with
        | .err => pure (s, true)
        | _ => eusCycleBusy app n (i + 1) s

def goRetB (s : State) : M (State × Event) :=
  if !areWriteUnitsEmpty s || !s.writeBus.isEmpty then pure ({ s with mode := .retB }, .running)
  else finish s .ret

def goRetA (s : State) : M (State × Event) :=
  if s.eus.any (fun eu => !eu.isEmpty) then pure ({ s with mode := .retA }, .running)
  else
    let s := { s with cycles := s.cycles + 1 }
    goRetB { s with writeBus := s.writeBus.connect s.cycles }

/-- the accumulators of the loop "executing previous unit cycles" -/
structure FlAcc where
  seq : Word
  pc : Word
  isEmpty : Bool := true
  err : Bool := false

/-- `for _, eu := range m.executeUnits { if !eu.isEmpty() { … eu.Cycle(euReq{fromCycle, …}) … } }` -/
def eusCycleFlush (app : App) (fromCycle : Int) : Nat → Nat → State → FlAcc → M (State × FlAcc)
  | 0, _, s, acc => pure (s, acc)
  | n + 1, i, s, acc =>
    match s.eus[i]? with
    | none => pure (s, acc)
    | some eu =>
      if eu.isEmpty then eusCycleFlush app fromCycle n (i + 1) s acc
      else do
        let acc := { acc with isEmpty := false }
        let (s, out) ← euCycle app s i fromCycle
        match out with
        | .err => pure (s, { acc with err := true })
        | .flush sq p => eusCycleFlush app fromCycle n (i + 1) s { acc with seq := sq, pc := p }
        | _ => eusCycleFlush app fromCycle n (i + 1) s acc

/-- the write units' drain loops of one round, at the condition of unit `i`'s loop; after the last unit: leave the
outer loop (`m.flush(pc); cycle += latency.Flush; continue`) when no execute unit was busy, else another round -/
def goFlushW (s : State) (seq pc : Word) (fromCycle : Int) (isEmpty : Bool) : Nat → Nat → State × Event
  | 0, _ =>
    if isEmpty then ({ flushAll s pc with cycles := s.cycles + Gen.Latency.Flush, mode := .normal }, .running)
    else ({ s with mode := .flushF seq pc fromCycle }, .running)
  | n + 1, i =>
    match s.wus[i]? with
    | none =>
      if isEmpty then ({ flushAll s pc with cycles := s.cycles + Gen.Latency.Flush, mode := .normal }, .running)
      else ({ s with mode := .flushF seq pc fromCycle }, .running)
    | some wu =>
      if !wu.isEmpty || !s.writeBus.isEmpty then ({ s with mode := .flushW i seq pc fromCycle isEmpty }, .running)
      else goFlushW s seq pc fromCycle isEmpty n (i + 1)

/-- one tick, panics still inside `M` -/
def cycleM (app : App) (s : State) : M (State × Event) :=
  match s.mode with
  | .normal => do
    let s := { s with cycles := s.cycles + 1 }
    let c := s.cycles
    let s := { s with decodeBus := s.decodeBus.connect c, controlBus := s.controlBus.connect c,
                      executeBus := s.executeBus.connect c, writeBus := s.writeBus.connect c }
    let s ← fetchCycle app s
    let s ← decodeCycle app s
    let s ← controlCycle s
    -- the Go result depends on map iteration order from here on: the run ends with the distinguished panic
    if s.mapOrder.isSome then pure (s, .done (.panic mapOrderMsg))
    else do
    let (s, acc) ← eusCycle app s.eus.length 0 s {}
    if acc.err then pure (s, .done .err)
    else do
      -- MVP-6.3: `if flush { wu.Cycle(wuReq{sequenceID}) } else { wu.Cycle(wuReq{-1}) }`
      let s ← wusCycleB s (if s.v63 && acc.flush then acc.seq else BitVec.ofInt 32 (-1))
      if acc.ret then goRetA s
      else if acc.flush then
        -- `for _, eu := range m.executeUnits { eu.sequenceID = sequenceID }; fromCycle := cycle`
        let s := { s with eus := s.eus.map fun (eu : ExecUnit) => { eu with sequenceID := acc.seq } }
        pure ({ s with mode := .flushF acc.seq acc.pc s.cycles }, .running)
      else if isEmpty s then finish s .offEnd
      else pure (s, .running)
  | .retA => do
    let s := { s with cycles := s.cycles + 1 }
    let s := { s with writeBus := s.writeBus.connect s.cycles }
    let (s, err) ← eusCycleBusy app s.eus.length 0 s
    if err then pure (s, .done .err)
    else do
      let s ← wusCycle s
      goRetA s
  | .retB => do
    let s ← wusCycle s
    let s := { s with cycles := s.cycles + 1 }
    goRetB { s with writeBus := s.writeBus.connect s.cycles }
  | .flushF seq pc fromCycle => do
    let s := { s with cycles := s.cycles + 1 }
    let (s, acc) ← eusCycleFlush app fromCycle s.eus.length 0 s { seq := seq, pc := pc }
    -- `if resp.err != nil { return 0, resp.err }` (was `return 0, nil` before the fix of M61-defect-1)
    if acc.err then pure (s, .done .err)
    else
      let s := { s with writeBus := s.writeBus.connect (s.cycles + 1) }
      pure (goFlushW s acc.seq acc.pc fromCycle acc.isEmpty s.wus.length 0)
  | .flushW i seq pc fromCycle isEmpty => do
    let s := { s with writeBus := s.writeBus.connect (s.cycles + 1) }
    let s ← wuCycle s i seq
    pure (goFlushW s seq pc fromCycle isEmpty (s.wus.length - i) i)

def cycle (app : App) (s : State) : State × Event :=
  match cycleM app s with
  | .ok r => r
  | .error (.panic w) => (s, .done (.panic w))
  | .error (.err w) => (s, .done (.panic w))

/-- L1I and L3 of THIS package -/
def cfg61 : Model.Mmu.Config :=
  { l1ILineSize := Gen.Consts.mvp6_1.l1ICacheLineSize, l1ISize := Gen.Consts.mvp6_1.l1ICacheSize,
    l1DLineSize := Gen.Consts.mvp6_1.l3CacheLineSize, l1DSize := Gen.Consts.mvp6_1.l3CacheSize }

/-- the constants of proc/mvp6-1 are those of proc/mvp6-0 (so that `Model.Mvp60`'s functions, which read `cfg`, are
this package's); checked on the REGENERATED constants, a difference makes `init` panic and the tie go red -/
def constsAgree : Bool := decide (cfg61 = cfg)

def init (ctx : Model.Context) (eu wu : Nat) : M State :=
  if !constsAgree then throw (.panic "proc/mvp6-1 constants differ from proc/mvp6-0: Model.Mvp61 must be revised")
  else do
    let mmu ← Model.Mmu.new cfg
    pure { ctx := ctx, mmu := mmu, eus := List.replicate eu {}, wus := List.replicate wu {} }

structure Result where
  halt : Option Halt
  final : State
  ticks : Nat
  deriving Inhabited

def runFrom (app : App) : Nat → State → Nat → Result
  | 0, s, n => { halt := none, final := s, ticks := n }
  | fuel + 1, s, n =>
    match cycle app s with
    | (s', .running) => runFrom app fuel s' (n + 1)
    | (s', .done h) => { halt := some h, final := s', ticks := n + 1 }

def run (app : App) (ctx : Model.Context) (eu wu : Nat) (fuel : Nat) : Result :=
  match init ctx eu wu with
  | .ok s => runFrom app fuel s 0
  | .error _ => { halt := some (.panic "NewCPU"), final := { ctx := ctx, mmu := default }, ticks := 0 }

end Model.Mvp61

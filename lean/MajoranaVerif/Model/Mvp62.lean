/-
  Model/Mvp62.lean — cycle-accurate model of proc/mvp6-2: MVP-6.1 plus commit / rollback of register writes.

  The two packages differ in four places (diff of the directories `proc/mvp6-1` and `proc/mvp6-2`, file by file):
    wu.go   the write unit calls `ctx.TransactionWriteRegister(execution, SequenceID)` instead of `ctx.WriteRegister`:
            a result goes to the transaction map `ctx.Transaction` (ONE entry per register), not to the register file;
            `commit()` / `rollback(sequenceID)` = `ctx.Commit()` / `ctx.Rollback(sequenceID)`
    bu.go / eu.go   a resolved conditional branch that jumps (`PcChange && NextPc != Pc+4`) calls
            `notifyConditionalBranchTaken(SequenceID)` = `cu.notifyConditionalBranch()` + `wu.rollback(SequenceID)`;
            otherwise `notifyConditionalBranchNotTaken()` = `cu.notifyConditionalBranch()` + `wu.commit()`
    cu.go   `handleRunner`: a hazard with a runner skipped in this cycle returns `(false, false)` (MVP-6.1: `(false, true)`)
    cpu.go  `m.ctx.Commit()` after the final cache flush
  (the rest: the units hold `ctx` in a field instead of receiving it with every request; `int32` conversions in mmu.go).
  Reads: the generated `Gen.registerRead` already looks into `ctx.Transaction` first when `ctx.rat = false`.

  These four places are in `Model.Mvp61` itself, behind the configuration flag `State.v62` (`condCtx`, `wuCycle62`,
  `handleRunner`, `finish`); everything else IS `Model.Mvp61`'s code.  This file only sets the flag:
  `Model.Mvp62.run` = `Model.Mvp61.runFrom` from the initial state with `v62 := true`.

  Go map iterations: `Commit` and `Rollback` range over `ctx.Transaction`; every key (a register) is assigned at most once
  in the loop, so the order is irrelevant (`Model.Context.commit` / `rollback`, Model/Txn.lean, property C15).
-/
import MajoranaVerif.Model.Mvp61
open GoInt

namespace Model.Mvp62
open Model.Seq (App Halt)
open Model.Mvp61 (State Result runFrom)

/-- L1I and L3 of THIS package -/
def cfg62 : Model.Mmu.Config :=
  { l1ILineSize := Gen.Consts.mvp6_2.l1ICacheLineSize, l1ISize := Gen.Consts.mvp6_2.l1ICacheSize,
    l1DLineSize := Gen.Consts.mvp6_2.l3CacheLineSize, l1DSize := Gen.Consts.mvp6_2.l3CacheSize }

/-- the constants of proc/mvp6-2 are those the shared code reads (`Model.Mvp60.cfg`, `Gen.Consts.mvp6_1.pendingLength`);
checked on the REGENERATED constants: a difference makes `init` panic and the tie go red -/
def constsAgree : Bool :=
  decide (cfg62 = Model.Mvp60.cfg) && decide (Gen.Consts.mvp6_2.pendingLength = Gen.Consts.mvp6_1.pendingLength)

def init (ctx : Model.Context) (eu wu : Nat) : M State :=
  if !constsAgree then throw (.panic "proc/mvp6-2 constants differ from proc/mvp6-1: Model.Mvp62 must be revised")
  else do
    let s ← Model.Mvp61.init ctx eu wu
    pure { s with v62 := true }

def run (app : App) (ctx : Model.Context) (eu wu : Nat) (fuel : Nat) : Result :=
  match init ctx eu wu with
  | .ok s => runFrom app fuel s 0
  | .error _ => { halt := some (.panic "NewCPU"), final := { ctx := ctx, mmu := default }, ticks := 0 }

end Model.Mvp62

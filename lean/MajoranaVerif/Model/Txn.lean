/-
  Model/Txn.lean — hand model of the speculative-register-state operations of
  `risc.Context` (risc/app.go): the transaction MAP (`TransactionWriteRegister`,
  `Commit`, `Rollback`) and the rename-table mode (`InitRAT`, `TransactionRATWrite`,
  `RATCommit`, `RATRollback`, `RATFlush`), written operation by operation like the
  Go code.  Tied to the real `risc.Context` by the lock-step stream `c15` (T2a).

  Go ranges over maps in an unspecified order.  Every such loop is modelled as a
  fold over an explicit list of entries (`…With entries`); the plain operation
  uses the table order of the association list.  `Proofs/Txn.lean` proves that any
  permutation of the entries gives an equivalent context (keys are distinct), so
  the choice is immaterial — those lemmas are reused by C08.

  Second part: the REFERENCE of property C15 — the list of uncommitted writes
  `(tag, reg, value)` and what commit / rollback / a tagged read must give.
  Core Lean only (the driver is compiled).
-/
import MajoranaVerif.Model.GoInt
import MajoranaVerif.Model.Rat
import MajoranaVerif.Model.Ctx
open GoInt

namespace Model
namespace Context

/-- `ctx.WriteRegister(exe)`: `ctx.Registers[exe.Register] = exe.RegisterValue` -/
def writeRegister (ctx : Context) (reg : Reg) (value : Word) : Context :=
  { ctx with Registers := ctx.Registers.set reg value }

/-- `ctx.TransactionWriteRegister(exe, sequenceID)`:
`ctx.Transaction[exe.Register] = transactionUnit{sequenceID, exe.RegisterValue}` -/
def transactionWriteRegister (ctx : Context) (reg : Reg) (value : Word) (sequenceID : Word) : Context :=
  { ctx with Transaction := ctx.Transaction.set reg { sequenceID := sequenceID, value := value } }

/-- body of `Commit` for a given iteration order of `range ctx.Transaction` -/
def commitWith (entries : List (Reg × transactionUnit)) (ctx : Context) : Context :=
  { ctx with
    Registers := entries.foldl (fun regs p => regs.set p.1 p.2.value) ctx.Registers
    Transaction := {} }

/-- `ctx.Commit()` -/
def commit (ctx : Context) : Context := commitWith ctx.Transaction.entries ctx

/-- body of `Rollback(sequenceID)` for a given iteration order: only units with
`tu.sequenceID < sequenceID` (Go `int32`, signed) reach the register file -/
def rollbackWith (entries : List (Reg × transactionUnit)) (ctx : Context) (sequenceID : Word) : Context :=
  { ctx with
    Registers := entries.foldl
      (fun regs p => if p.2.sequenceID.slt sequenceID then regs.set p.1 p.2.value else regs) ctx.Registers
    Transaction := {} }

/-- `ctx.Rollback(sequenceID)` -/
def rollback (ctx : Context) (sequenceID : Word) : Context :=
  rollbackWith ctx.Transaction.entries ctx sequenceID

/-- body of `InitRAT` for a given iteration order of `range ctx.Registers` -/
def initRATWith (entries : List (Reg × Word)) (ctx : Context) : Context :=
  { ctx with committedRAT := entries.foldl (fun rat p => rat.write p.1 p.2) ctx.committedRAT }

/-- `ctx.InitRAT()` -/
def initRAT (ctx : Context) : Context := initRATWith ctx.Registers.entries ctx

/-- `ctx.TransactionRATWrite(exe, sequenceID)` -/
def transactionRATWrite (ctx : Context) (reg : Reg) (value : Word) (sequenceID : Word) : Context :=
  { ctx with transactionRAT := ctx.transactionRAT.write reg { sequenceID := sequenceID, value := value } }

/-- the loop shared by `RATCommit` and `RATRollback`: `committedRAT.Write(register, tu.value)`
for every entry of the map returned by `Values()` / `FindValues(…)`, then
`ctx.transactionRAT = comp.NewRAT(ratLength)`.  Every rename table of a context is created
with the one constant `ratLength`, so the fresh table has the length of the old one (the
driver creates the context with the regenerated `Gen.ratLength`). -/
def ratApplyWith (entries : List (Reg × transactionUnit)) (ctx : Context) : Context :=
  { ctx with
    committedRAT := entries.foldl (fun rat p => rat.write p.1 p.2.value) ctx.committedRAT
    transactionRAT := Rat.new ctx.transactionRAT.length }

/-- `ctx.RATCommit()` -/
def ratCommit (ctx : Context) : Context := ratApplyWith ctx.transactionRAT.values ctx

/-- `ctx.RATRollback(sequenceID)`: `FindValues(u.sequenceID < sequenceID)` -/
def ratRollback (ctx : Context) (sequenceID : Word) : Context :=
  ratApplyWith (ctx.transactionRAT.findValues (fun u => u.sequenceID.slt sequenceID)) ctx

/-- body of `RATFlush` for a given iteration order of `range committedRAT.Values()` -/
def ratFlushWith (entries : List (Reg × Word)) (ctx : Context) : Context :=
  { ctx with Registers := entries.foldl (fun regs p => regs.set p.1 p.2) ctx.Registers }

/-- `ctx.RATFlush()` -/
def ratFlush (ctx : Context) : Context := ratFlushWith ctx.committedRAT.values ctx

end Context

/-! ## The reference of C15 -/
namespace Txn

/-- one speculative register write, as the write unit issues it -/
structure SpecWrite where
  tag : Word
  reg : Reg
  value : Word
  deriving Repr, DecidableEq, Inhabited

/-- tags are Go `int32` sequence ids: signed order -/
def tagLe (a b : Word) : Bool := a.sle b
def tagLt (a b : Word) : Bool := a.slt b

/-- one step of the scan for the youngest write: a later write with a tag at least as
large replaces the best so far -/
def youngestStep (best : Option SpecWrite) (w : SpecWrite) : Option SpecWrite :=
  match best with
  | none => some w
  | some b => if tagLe b.tag w.tag then some w else some b

/-- The youngest write of a list given in arrival order: the largest tag, and among
equal tags the one that arrived later. -/
def youngest (ws : List SpecWrite) : Option SpecWrite := ws.foldl youngestStep none

/-- the uncommitted writes to register `r`, in arrival order -/
def writesTo (ws : List SpecWrite) (r : Reg) : List SpecWrite := ws.filter (fun w => w.reg == r)

/-- the writes older than tag `s` (those a rollback to `s` keeps) -/
def olderThan (s : Word) (ws : List SpecWrite) : List SpecWrite := ws.filter (fun w => tagLt w.tag s)

/-- the writes an instruction with tag `t` may see -/
def notYoungerThan (t : Word) (ws : List SpecWrite) : List SpecWrite := ws.filter (fun w => tagLe w.tag t)

/-- the value of a write if there is one, `old` otherwise -/
def valueOr (o : Option SpecWrite) (old : Word) : Word :=
  match o with
  | some w => w.value
  | none => old

/-- architectural value of `r` after a COMMIT of the uncommitted writes `ws`: the value of
the youngest write to `r`, `old` (the value before) if there is none -/
def refCommit (ws : List SpecWrite) (r : Reg) (old : Word) : Word :=
  valueOr (youngest (writesTo ws r)) old

/-- … after a ROLLBACK to tag `s`: only writes older than `s` count; unchanged if none -/
def refRollback (s : Word) (ws : List SpecWrite) (r : Reg) (old : Word) : Word :=
  refCommit (olderThan s ws) r old

/-- the value an instruction with tag `t` reads: youngest write not younger than `t`,
the committed value if there is none -/
def refRead (t : Word) (ws : List SpecWrite) (r : Reg) (old : Word) : Word :=
  refCommit (notYoungerThan t ws) r old

/-- the uncommitted writes to one register do not exceed the table's slots
(1 for the transaction map, the ring length for the rename table) -/
def WithinSlots (slots : Nat) (ws : List SpecWrite) : Prop :=
  ∀ w ∈ ws, (writesTo ws w.reg).length ≤ slots

instance (slots : Nat) (ws : List SpecWrite) : Decidable (WithinSlots slots ws) := by
  unfold WithinSlots; infer_instance

/-- per register, the writes arrive in (weakly) increasing tag order -/
def TagMonotonePerReg (ws : List SpecWrite) : Prop :=
  ∀ w ∈ ws, (writesTo ws w.reg).Pairwise (fun a b => tagLe a.tag b.tag = true)

instance (ws : List SpecWrite) : Decidable (TagMonotonePerReg ws) := by
  unfold TagMonotonePerReg; infer_instance

/-- the two hypotheses for ONE register (the theorems only need them for the register they
speak about; `bin/check` classifies divergences register by register with these) -/
def WithinSlotsAt (slots : Nat) (ws : List SpecWrite) (r : Reg) : Prop := (writesTo ws r).length ≤ slots

instance (slots : Nat) (ws : List SpecWrite) (r : Reg) : Decidable (WithinSlotsAt slots ws r) := by
  unfold WithinSlotsAt; infer_instance

def TagMonotoneAt (ws : List SpecWrite) (r : Reg) : Prop :=
  (writesTo ws r).Pairwise (fun a b => tagLe a.tag b.tag = true)

instance (ws : List SpecWrite) (r : Reg) : Decidable (TagMonotoneAt ws r) := by
  unfold TagMonotoneAt; infer_instance

/-- no uncommitted write to `r` is younger than the reader `t` (needed by the transaction
MAP, whose read ignores the tag) -/
def NoYoungerPending (t : Word) (r : Reg) (ws : List SpecWrite) : Prop :=
  ∀ w ∈ ws, w.reg = r → tagLe w.tag t = true

instance (t : Word) (r : Reg) (ws : List SpecWrite) : Decidable (NoYoungerPending t r ws) := by
  unfold NoYoungerPending; infer_instance

/-- the `transactionUnit` the write unit stores for a speculative write -/
def toTU (w : SpecWrite) : transactionUnit := { sequenceID := w.tag, value := w.value }

/-- a rename table is well-formed: it has at least one slot per ring, every ring has the
table's length, and the keys are distinct (true of `NewRAT(n)`, `n ≥ 1`, and preserved by `Write`) -/
def RatWf {κ ν : Type} (r : Rat κ ν) : Prop :=
  1 ≤ r.length ∧ (∀ p ∈ r.tab.entries, p.2.vals.length = r.length) ∧ (r.tab.entries.map (·.1)).Nodup

instance {κ ν : Type} [DecidableEq κ] (r : Rat κ ν) : Decidable (RatWf r) := by
  unfold RatWf; infer_instance

/-- start of a speculation epoch in map mode: no uncommitted write -/
def CleanMap (ctx : Context) : Prop := ctx.Transaction.entries = []

instance (ctx : Context) : Decidable (CleanMap ctx) := by
  unfold CleanMap; infer_instance

/-- start of a speculation epoch in rename-table mode with rings of `L ≥ 1` slots: the
transaction table is a fresh `NewRAT(L)`, the committed table is well-formed -/
def CleanRat (L : Nat) (ctx : Context) : Prop :=
  1 ≤ L ∧ ctx.transactionRAT.length = L ∧ ctx.transactionRAT.tab.entries = [] ∧ RatWf ctx.committedRAT

instance (L : Nat) (ctx : Context) : Decidable (CleanRat L ctx) := by
  unfold CleanRat; infer_instance

/-- the speculative writes, issued in arrival order, in transaction-map mode … -/
def applyMap (ctx : Context) (ws : List SpecWrite) : Context :=
  ws.foldl (fun c w => c.transactionWriteRegister w.reg w.value w.tag) ctx

/-- … and in rename-table mode -/
def applyRat (ctx : Context) (ws : List SpecWrite) : Context :=
  ws.foldl (fun c w => c.transactionRATWrite w.reg w.value w.tag) ctx

/-- architectural value in map mode: `ctx.Registers[r]` (0 when absent, as in Go) -/
def archMap (ctx : Context) (r : Reg) : Word := ctx.Registers.get1 r

/-- architectural value in rename-table mode: what `committedRAT.Read(r)` gives — the value
`registerRead` falls back to, and the one `RATFlush` copies into `Registers` -/
def archRat (ctx : Context) (r : Reg) : Word := (ctx.committedRAT.read r).1

/-- how a speculation epoch ends -/
inductive End where
  | commit
  | rollback (s : Word)
  deriving Repr, DecidableEq, Inhabited

/-- one epoch: speculative writes, then commit or rollback -/
structure Epoch where
  writes : List SpecWrite
  fin : End
  deriving Repr, DecidableEq, Inhabited

/-- the hypotheses under which an epoch is claimed correct, for a table with `slots` slots per
register (1: transaction map, `L`: rename table): tags arrive in order per register, and a
rollback needs every uncommitted write still in its slot -/
def EpochOk (slots : Nat) (e : Epoch) : Prop :=
  TagMonotonePerReg e.writes ∧ (e.fin = .commit ∨ WithinSlots slots e.writes)

instance (slots : Nat) (e : Epoch) : Decidable (EpochOk slots e) := by
  unfold EpochOk; infer_instance

def refEnd (e : Epoch) (r : Reg) (old : Word) : Word :=
  match e.fin with
  | .commit => refCommit e.writes r old
  | .rollback s => refRollback s e.writes r old

/-- reference value of `r` after a whole history of epochs, starting from `old` -/
def refHistory (es : List Epoch) (r : Reg) (old : Word) : Word :=
  es.foldl (fun v e => refEnd e r v) old

def endMap (ctx : Context) (e : Epoch) : Context :=
  match e.fin with
  | .commit => (applyMap ctx e.writes).commit
  | .rollback s => (applyMap ctx e.writes).rollback s

def endRat (ctx : Context) (e : Epoch) : Context :=
  match e.fin with
  | .commit => (applyRat ctx e.writes).ratCommit
  | .rollback s => (applyRat ctx e.writes).ratRollback s

def runMap (ctx : Context) (es : List Epoch) : Context := es.foldl endMap ctx
def runRat (ctx : Context) (es : List Epoch) : Context := es.foldl endRat ctx

end Txn
end Model

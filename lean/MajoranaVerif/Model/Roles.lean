/-
  Model/Roles.lean — how the regenerated Go instruction structs (Gen.Instr, field
  names as in risc/opcodes.go) relate to the ISA-level instructions of Spec, and
  how a Go `Execution` is read as an architectural `Spec.Outcome`.

  HAND-WRITTEN, part of the statement of C02.  The Go field names are not the ISA
  roles (`sb.rd` is the *base*, `sb.rs` the *value*; `sh`/`sw` likewise): the role
  of each field is fixed by the assembler syntax, and `ofGen` is cross-checked on
  every run against `Spec.Asm` on the text the Go parser accepted (C02/C11
  correspondence streams).
-/
import MajoranaVerif.Gen.Opcodes
import MajoranaVerif.Spec.Exec
open GoInt

namespace Model

/-- ISA role of every Go instruction struct. -/
def ofGen : Gen.Instr → Spec.Instr
  | .add_ o => .r .add o.rd o.rs1 o.rs2
  | .addi_ o => .i .addi o.rd o.rs o.imm
  | .and_ o => .r .and o.rd o.rs1 o.rs2
  | .andi_ o => .i .andi o.rd o.rs o.imm
  | .auipc_ o => .auipc o.rd o.imm
  | .beq_ o => .br .beq o.rs1 o.rs2 o.label
  | .beqz_ o => .beqz o.rs o.label
  | .bge_ o => .br .bge o.rs1 o.rs2 o.label
  | .bgeu_ o => .br .bgeu o.rs1 o.rs2 o.label
  | .ble_ o => .br .ble o.rs1 o.rs2 o.label
  | .blt_ o => .br .blt o.rs1 o.rs2 o.label
  | .bltu_ o => .br .bltu o.rs1 o.rs2 o.label
  | .bne_ o => .br .bne o.rs1 o.rs2 o.label
  | .bnez_ o => .bnez o.rs o.label
  | .div_ o => .r .div o.rd o.rs1 o.rs2
  | .j_ o => .j o.label
  | .jal_ o => .jal o.rd o.label
  | .jalr_ o => .jalr o.rd o.rs o.imm
  | .lui_ o => .lui o.rd o.imm
  | .lb_ o => .load .b o.rd o.rs o.offset
  | .lh_ o => .load .h o.rd o.rs o.offset
  | .li_ o => .li o.rd o.imm
  | .lw_ o => .load .w o.rd o.rs o.offset
  | .nop_ _ => .nop
  | .mul_ o => .r .mul o.rd o.rs1 o.rs2
  | .mv_ o => .mv o.rd o.rs
  | .or_ o => .r .or o.rd o.rs1 o.rs2
  | .ori_ o => .i .ori o.rd o.rs o.imm
  | .rem_ o => .r .rem o.rd o.rs1 o.rs2
  | .ret_ _ => .ret
  | .sb_ o => .store .b o.rs o.rd o.offset      -- value = rs, base = rd
  | .sh_ o => .store .h o.rs o.rd o.offset
  | .sll_ o => .r .sll o.rd o.rs1 o.rs2
  | .slli_ o => .i .slli o.rd o.rs o.imm
  | .slt_ o => .r .slt o.rd o.rs1 o.rs2
  | .sltu_ o => .r .sltu o.rd o.rs1 o.rs2
  | .slti_ o => .i .slti o.rd o.rs o.imm
  | .sra_ o => .r .sra o.rd o.rs1 o.rs2
  | .srai_ o => .i .srai o.rd o.rs o.imm
  | .srl_ o => .r .srl o.rd o.rs1 o.rs2
  | .srli_ o => .i .srli o.rd o.rs o.imm
  | .sub_ o => .r .sub o.rd o.rs1 o.rs2
  | .sw_ o => .store .w o.rs o.rd o.offset
  | .xor_ o => .r .xor o.rd o.rs1 o.rs2
  | .xori_ o => .i .xori o.rd o.rs o.imm

/-- the forward slot an instruction currently carries (none for the structs without the field) -/
def fwdOf : Gen.Instr → Gen.Forward
  | .add_ o => o.forward | .addi_ o => o.forward | .and_ o => o.forward | .andi_ o => o.forward
  | .beq_ o => o.forward | .beqz_ o => o.forward | .bge_ o => o.forward | .bgeu_ o => o.forward
  | .ble_ o => o.forward | .blt_ o => o.forward | .bltu_ o => o.forward | .bne_ o => o.forward
  | .bnez_ o => o.forward | .div_ o => o.forward | .jal_ o => o.forward | .jalr_ o => o.forward
  | .lb_ o => o.forward | .lh_ o => o.forward | .lw_ o => o.forward | .mul_ o => o.forward
  | .mv_ o => o.forward | .or_ o => o.forward | .ori_ o => o.forward | .rem_ o => o.forward
  | .sb_ o => o.forward | .sh_ o => o.forward | .sll_ o => o.forward | .slli_ o => o.forward
  | .slt_ o => o.forward | .sltu_ o => o.forward | .slti_ o => o.forward | .sra_ o => o.forward
  | .srai_ o => o.forward | .srl_ o => o.forward | .srli_ o => o.forward | .sub_ o => o.forward
  | .sw_ o => o.forward | .xor_ o => o.forward | .xori_ o => o.forward
  | .auipc_ _ | .j_ _ | .li_ _ | .lui_ _ | .nop_ _ | .ret_ _ => {}

/-- A Go `Execution` read as an architectural outcome: a register write counts when
`RegisterChange` is set and the register is not `x0`; stores in ascending
address order are the `MemoryChanges` entries in literal order; `NextPc` counts
when `PcChange` is set. -/
def toOutcome (e : Gen.Execution) : Spec.Outcome :=
  { reg := if e.RegisterChange && e.Register != 0 then some (e.Register, e.RegisterValue) else none
    mem := if e.MemoryChange then e.MemoryChanges else []
    next := if e.PcChange then some e.NextPc else none
    ret := e.Return }

/-- Go fault ↦ specification error (a panic has no counterpart: C02/C07 exclude it). -/
inductive Res where
  | ok (o : Spec.Outcome)
  | err      -- a defined error (division by zero, undefined label)
  | panic    -- a Go run-time panic
  | sideEffect -- `Run` changed the register file directly, behind the write-back path
  deriving Repr, DecidableEq

/-- an `Execution` the write-back stage handles the way `toOutcome` reads it: nothing written
behind its back, a register result never accompanied by a store (`if RegisterChange {…} else if
MemoryChange {…}` would drop the store), and `(x0, v)` only with `v = 0` (write-back stores blindly) -/
def wfExe (e : Gen.Execution) : Bool :=
  e.DirectWrites.isEmpty &&
    (!e.RegisterChange || ((e.Register != 0 || e.RegisterValue == 0) && !e.MemoryChange))

def resOfGen : M Gen.Execution → Res
  | .ok e => if wfExe e then .ok (toOutcome e) else .sideEffect
  | .error (.err _) => .err
  | .error (.panic _) => .panic

def resOfSpec : Except Spec.Error Spec.Outcome → Res
  | .ok o => .ok o
  | .error _ => .err

/-- the label map as the specification sees it -/
def labelsOf (labels : GoMap String Word) : Spec.Labels := fun l => labels.find? l

end Model

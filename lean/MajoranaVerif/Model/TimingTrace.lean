/-
  Model/TimingTrace.lean — the *timing trace* of a run of the cycle-accurate models
  `Model.Seq.run` (MVP-1 / MVP-2) and `Model.Mvp3.go` (MVP-3), and the cycle count as a
  function of that trace alone (property C12, last clause: the cycle count does not depend
  on operand values when the executed path and the accessed addresses are the same).

  A trace records, per started loop iteration, the pc, the instruction, the addresses the
  instruction reads (`MemoryRead`), the addresses it stores to (keys of `MemoryChanges`),
  and which way the iteration went (`Phase`: stopped before `Run`, `Run` failed, `ret`,
  register / memory / no write-back) — and how the run ended.  It contains NO register
  value and NO memory byte.  Everything here is computable (the driver could print it).

  The cost functions read only a trace and the memory SIZE:
  * `seqCost` / `costOfTrace`: the latency-table accounting of `Model.Seq.stepArch` and the
    fetch policy driven by the recorded pcs;
  * `tstep` / `tcost`: the memory-management unit of MVP-3 (`Model.Mmu`, the real model
    code) run on the recorded addresses over caches and a memory whose data bytes are all
    zero — hits, misses, LRU order, evictions and panics never look at data bytes
    (`Proofs/CycleTraceMvp3.lean`: every operation commutes with zeroing the data).
-/
import MajoranaVerif.Model.Mvp3
open GoInt

namespace Model.Timing
open Model.Seq Model.Mmu Model.Mvp3

/-- which way an iteration went, as far as the INSTRUCTION decided it (faults of the memory system are
recomputed from the addresses by the cost functions) -/
inductive Phase where
  | stopped      -- no instruction executed: bad instruction index, or the fetch / the memory read failed
  | runFault     -- `Run` returned an error value or panicked
  | cyclesFault  -- `Cycles()` failed (never happens with the generated table)
  | ret          -- executed `ret`
  | wbReg        -- register write-back
  | wbMem        -- store write-back (may still fail on an address)
  | wbNone       -- nothing to write back
  deriving Repr, DecidableEq, Inhabited

/-- one started iteration -/
structure TEvent where
  pc : Word
  instr : Option Gen.Instr
  loads : List Word
  stores : List Word
  phase : Phase
  deriving Repr, DecidableEq, Inhabited

/-- the timing trace of a run: the started iterations in order, and how the run ended (`none`: out of fuel) -/
abbrev Trace := List TEvent × Option Halt

/-- what the write-back stage does with an `Execution` -/
def classify (e : Gen.Execution) : Phase × List Word :=
  if e.Return then (.ret, [])
  else if e.RegisterChange then (.wbReg, [])
  else if e.MemoryChange then (.wbMem, e.MemoryChanges.map (·.1))
  else (.wbNone, [])

/-- the part of an event the instruction decides, given the bytes it was handed -/
def execPhase (i : Gen.Instr) (ctx : Model.Context) (labels : GoMap String Word) (pc : Word) (bytes : List Byte) :
    Phase × List Word :=
  match i.run ctx labels pc bytes 0#32 with
  | .error _ => (.runFault, [])
  | .ok e =>
    match Gen.InstructionType.Cycles i.instructionType with
    | .error _ => (.cyclesFault, [])
    | .ok _ => classify e

/-! ### MVP-1 / MVP-2 -/

/-- the event of the iteration `Model.Seq.stepArch` performs in state `a` (`none`: the loop condition fails) -/
def eventSeq (app : App) (a : Arch) : Option TEvent :=
  let idx := Int.tdiv a.pc.toInt 4
  if ¬ idx < app.instrs.length then none
  else if idx < 0 then some ⟨a.pc, none, [], [], .stopped⟩
  else match app.instrs[idx.toNat]? with
    | none => some ⟨a.pc, none, [], [], .stopped⟩
    | some i =>
      let addrs := i.memoryRead a.ctx 0#32
      match addrs.mapM (readMem a.ctx.Memory) with
      | none => some ⟨a.pc, some i, addrs, [], .stopped⟩
      | some bytes =>
        let (ph, st) := execPhase i a.ctx app.labels a.pc bytes
        some ⟨a.pc, some i, addrs, st, ph⟩

/-- the timing trace of `Model.Seq.run.go` -/
def traceSeq (dc : Int) (app : App) : Nat → Arch → Trace
  | 0, _ => ([], none)
  | fuel + 1, a =>
    match stepArch dc app a with
    | .halt h _ => ((eventSeq app a).toList, some h)
    | .next a' _ =>
      let (t, h) := traceSeq dc app fuel a'
      ((eventSeq app a).toList ++ t, h)

/-- is the index a Go `int32` index into a memory of `memLen` bytes? -/
def inRange (memLen : Nat) (a : Word) : Bool := decide (0 ≤ a.toInt) && decide (a.toInt.toNat < memLen)

/-- the cost of one iteration of MVP-1 / MVP-2 (fetch excluded), from its event and the memory size -/
def seqCost (dc : Int) (memLen : Nat) (ev : TEvent) : StepCost :=
  match ev.instr with
  | none => ⟨0, 0, 0, 0⟩
  | some i =>
    if !(ev.loads.all (inRange memLen)) then ⟨dc, 0, 0, 0⟩
    else
      let mr : Int := if ev.loads.isEmpty then 0 else Gen.Latency.MemoryAccess
      let ex : Int := match Gen.InstructionType.Cycles i.instructionType with | .ok c => c | .error _ => 0
      match ev.phase with
      | .stopped | .runFault | .cyclesFault => ⟨dc, mr, 0, 0⟩
      | .ret => ⟨dc, mr, ex, 0⟩
      | .wbReg => ⟨dc, mr, ex, Gen.Latency.RegisterAccess⟩
      | .wbMem => if ev.stores.all (inRange memLen) then ⟨dc, mr, ex, Gen.Latency.MemoryAccess⟩ else ⟨dc, mr, ex, 0⟩
      | .wbNone => ⟨dc, mr, ex, 0⟩

/-- the cycles of a whole trace under a fetch policy: the policy sees only the recorded pcs -/
def costOfTrace {σ} (fp : FetchPolicy σ) (dc : Int) (memLen : Nat) : List TEvent → σ → Int
  | [], _ => 0
  | ev :: t, fs =>
    let (fs', f) := fp.cost fs ev.pc
    f + (seqCost dc memLen ev).total + costOfTrace fp dc memLen t fs'

/-! ### MVP-3 -/

/-- the event of the iteration `Model.Mvp3.step` performs (`none`: the loop condition fails) -/
def event3 (cfg : Config) (app : App) (s : State) : Option TEvent :=
  let a := s.arch
  let idx := Int.tdiv a.pc.toInt 4
  if ¬ idx < app.instrs.length then none
  else match fetch cfg s.mmu a.pc with
    | .error _ => some ⟨a.pc, none, [], [], .stopped⟩
    | .ok (u1, _) =>
      if idx < 0 then some ⟨a.pc, none, [], [], .stopped⟩
      else match app.instrs[idx.toNat]? with
        | none => some ⟨a.pc, none, [], [], .stopped⟩
        | some i =>
          let addrs := i.memoryRead a.ctx 0#32
          match load cfg u1 a.ctx.Memory addrs with
          | .error _ => some ⟨a.pc, some i, addrs, [], .stopped⟩
          | .ok (bytes, _, mem2, _) =>
            let (ph, st) := execPhase i { a.ctx with Memory := mem2 } app.labels a.pc bytes
            some ⟨a.pc, some i, addrs, st, ph⟩

/-- the timing trace of `Model.Mvp3.go` (the halt kind is the one of the loop, before the final flush) -/
def trace3 (cfg : Config) (dc : Int) (app : App) : Nat → State → Trace
  | 0, _ => ([], none)
  | fuel + 1, s =>
    match step cfg dc app s with
    | .halt h _ _ _ => ((event3 cfg app s).toList, some h)
    | .next s' _ _ =>
      let (t, h) := trace3 cfg dc app fuel s'
      ((event3 cfg app s).toList ++ t, h)

/-- the trace of `Model.Mvp3.run` -/
def traceRun3 (cfg : Config) (dc : Int) (app : App) (a : Arch) (fuel : Nat) : Trace :=
  match Model.Mmu.new cfg with
  | .error f => ([], some (faultHalt f))
  | .ok u => trace3 cfg dc app fuel ⟨a, u⟩

/-- the store the timing machine performs for recorded addresses: same keys, zero bytes -/
def zeroStore (addrs : List Word) : Gen.Execution :=
  { MemoryChange := true, MemoryChanges := addrs.map (fun a => (a, 0#8)) }

/-- one iteration of the TIMING machine of MVP-3: the unit of MVP-3 (caches and memory holding zero bytes)
driven by the addresses of the event; returns the fetch cost, the other costs and the unit / memory
afterwards.  Mirrors `Model.Mvp3.step` with the instruction's decisions read from the event. -/
def tstep (cfg : Config) (dc : Int) (u : Mmu) (mem : List Byte) (ev : TEvent) : Int × StepCost × Mmu × List Byte :=
  match fetch cfg u ev.pc with
  | .error _ => (0, ⟨0, 0, 0, 0⟩, u, mem)
  | .ok (u1, fc) =>
    match ev.instr with
    | none => (fc, ⟨0, 0, 0, 0⟩, u1, mem)
    | some i =>
      match load cfg u1 mem ev.loads with
      | .error _ => (fc, ⟨dc, 0, 0, 0⟩, u1, mem)
      | .ok (_, u2, mem2, mr) =>
        let ex : Int := match Gen.InstructionType.Cycles i.instructionType with | .ok c => c | .error _ => 0
        match ev.phase with
        | .stopped | .runFault | .cyclesFault => (fc, ⟨dc, mr, 0, 0⟩, u2, mem2)
        | .ret => (fc, ⟨dc, mr, ex, 0⟩, u2, mem2)
        | .wbReg => (fc, ⟨dc, mr, ex, Gen.Latency.RegisterAccess⟩, u2, mem2)
        | .wbMem =>
          match store u2 { Memory := mem2 } (zeroStore ev.stores) with
          | .error _ => (fc, ⟨dc, mr, ex, 0⟩, u2, mem2)
          | .ok (u3, ctx3, wb) => (fc, ⟨dc, mr, ex, wb⟩, u3, ctx3.Memory)
        | .wbNone => (fc, ⟨dc, mr, ex, 0⟩, u2, mem2)

/-- the cost of the final `flush()` on the timing machine (nothing when the run did not return normally,
nothing when the flush panics) -/
def tflush (cfg : Config) (h : Option Halt) (u : Mmu) (mem : List Byte) : Int :=
  if h = some .ret ∨ h = some .offEnd then
    match flush cfg u mem with
    | .ok (_, fc) => fc
    | .error _ => 0
  else 0

/-- the cycles of a whole trace of MVP-3 -/
def tcost (cfg : Config) (dc : Int) (h : Option Halt) : List TEvent → Mmu → List Byte → Int
  | [], u, mem => tflush cfg h u mem
  | ev :: t, u, mem =>
    let (f, c, u', mem') := tstep cfg dc u mem ev
    f + c.total + tcost cfg dc h t u' mem'

/-- the cycle count of `Model.Mvp3.run` from its trace and the memory size -/
def tcostRun (cfg : Config) (dc : Int) (memLen : Nat) (tr : Trace) : Int :=
  match Model.Mmu.new cfg with
  | .error _ => 0
  | .ok u => tcost cfg dc tr.2 tr.1 u (List.replicate memLen 0#8)

end Model.Timing

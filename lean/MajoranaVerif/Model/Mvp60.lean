/-
  Model/Mvp60.lean — hand-written, executable, cycle-accurate model of the first superscalar
  machine proc/mvp6-0 (cpu.go, fu.go, du.go, cu.go, eu.go, wu.go, bu.go, btb.go, mmu.go).

  Stages: fetch unit → decodeBus → decode unit → controlBus → control unit (in-order issue
  with a register scoreboard, a queue of blocked instructions) → executeBus → `eu` execute
  units (one shared BTB branch unit) → writeBus → `wu` write units.  The buses are
  `comp.BufferedBus` (`Model.BufferedBus`, the model of Props/C14), the blocked instructions
  are a `comp.Queue` (`Model.Queue`), the memory-management unit is an L1I and an "L3" that
  are the same code as MVP-3's L1I/L1D (`Model.Mmu` with the constants of this package) plus
  a list of pending line fetches.  Every unit is one function mirroring its Go `cycle` method
  operation by operation, in the same order of effects; the Go closures ("coroutines") are
  explicit states.  Instruction semantics are the REGENERATED ones (`Gen.Instr.run`, …),
  latencies and sizes come from `Gen.Latency.*` / `Gen.Consts.mvp6_0.*`.  A Go panic is the
  `.panic` halt, an `error` returned by an instruction's `Run` the `.err` halt.

  Granularity: ONE CALL OF `cycle` = ONE `ctx.VerifTick()` OF THE GO LOOP (`Run` ticks at the
  head of the outer loop and in each of its three inner drain loops).  `Mode` says where the
  loop stands between two ticks:
    normal            at the head of the outer `for`
    retA              inside `for { busy := …; if !busy {break}; tick … }` after a `ret`
    retB              inside `for !areWriteUnitsEmpty() || !writeBus.IsEmpty() { tick … }`
    flushW i from pc  inside the drain loop of write unit `i` before `m.flush(pc)`

  Literals of `NewCPU` that are not package constants (so not in `Gen.Consts`): bus sizes
  `busSize = 2`, `multiplier = 1` (all four buses are `NewBufferedBus(2, 2)`), BTB size 4.

  Go map iterations:
  * `doesExecutionMemoryChangesExistsInL3` ranges over `Execution.MemoryChanges` and looks every key up
    until the first miss; each hit refreshes the LRU position of its line, so the order matters
    only for a store whose bytes lie in two L3 lines; the model follows the list order of `Gen.Execution`
    (ascending addresses) — as `Model.Mmu` does for MVP-3..5.
  * `ctx.WriteMemory` ranges over the same map: distinct keys, the order is irrelevant.
  * `IsDataHazard3` fills a `hazardTypes` map which MVP-6.0 never reads.
  No other map is iterated (`Registers`, `Pending*Registers` are only indexed).
-/
import MajoranaVerif.Gen.Opcodes
import MajoranaVerif.Gen.Consts
import MajoranaVerif.Gen.Latency
import MajoranaVerif.Model.Ctx
import MajoranaVerif.Model.Bus
import MajoranaVerif.Model.LineCache
import MajoranaVerif.Model.Mmu
import MajoranaVerif.Model.SeqMachine
open GoInt

namespace Model.Mvp60
open Model.Seq (App Halt)

/-- L1I and L3 of this package in the slots of `Model.Mmu` (L3 plays the part of L1D: same code) -/
def cfg : Model.Mmu.Config :=
  { l1ILineSize := Gen.Consts.mvp6_0.l1ICacheLineSize, l1ISize := Gen.Consts.mvp6_0.l1ICacheSize,
    l1DLineSize := Gen.Consts.mvp6_0.l3CacheLineSize, l1DSize := Gen.Consts.mvp6_0.l3CacheSize }

/-- `busSize * multiplier` of `NewCPU` (local literals 2 and 1) -/
def busSize : Int := 2
/-- `newBTBBranchUnit(4, fu, du)` -/
def btbSize : Int := 4

/-! ## unit states -/

/-- the closure in `fetchUnit.coroutine` -/
inductive FuCo where
  | none      -- nil
  | wait      -- the closure counting `remainingCycles` down after an L1I miss
  | done      -- the empty closure installed when the last instruction was fetched
  deriving Repr, DecidableEq, Inhabited

structure FetchUnit where
  pc : Word := 0
  toCleanPending : Bool := false
  complete : Bool := false
  co : FuCo := .none
  remainingCycles : Int := 0
  deriving Repr, DecidableEq, Inhabited

structure DecodeUnit where
  ret : Bool := false
  pendingBranchResolution : Bool := false
  deriving Repr, DecidableEq, Inhabited

/-- `risc.InstructionRunnerPc` -/
structure Runner where
  instr : Gen.Instr
  pc : Word
  seq : Word
  deriving Repr, DecidableEq, Inhabited

/-- `risc.ExecutionContext` -/
structure ExecCtx where
  seq : Word
  execution : Gen.Execution
  itype : Gen.InstructionType
  writeRegisters : List Reg
  readRegisters : List Reg
  deriving Repr, DecidableEq, Inhabited

/-- the closure in `executeUnit.coroutine` -/
inductive EuCo where
  | none                                        -- nil
  | prepare                                     -- `coPrepareRun`
  | l3wait (rem : Int)                          -- L3 hit: `remainingCycles` of the closure
  | memwait (rem : Int) (addrs : List Word)     -- L3 miss: the closure with its captured `addrs`
  deriving Repr, DecidableEq, Inhabited

structure ExecUnit where
  co : EuCo := .none
  /-- `u.memory`: survives from one instruction to the next -/
  memory : List Byte := []
  runner : Option Runner := none
  deriving Repr, DecidableEq, Inhabited

/-- the closure in `writeUnit.coroutine` -/
inductive WuCo where
  | none
  | wait (rem : Int)
  deriving Repr, DecidableEq, Inhabited

structure WriteUnit where
  co : WuCo := .none
  memoryWrite : Option ExecCtx := none
  deriving Repr, DecidableEq, Inhabited

/-- `btbBranchUnit` with its `branchTargetBuffer` (entries `(pc, pcDest)`, oldest first) -/
structure BranchUnit where
  btb : List (Word × Word) := []
  toCheck : Bool := false
  expectation : Word := 0
  deriving Repr, DecidableEq, Inhabited

inductive Mode where
  | normal
  | retA
  | retB
  | flushW (i : Nat) (from_ : Word) (pc : Word)
  deriving Repr, DecidableEq, Inhabited

/-- the whole machine: `CPU` plus the local variable `cycle` of `Run` -/
structure State where
  ctx : Model.Context
  fu : FetchUnit := {}
  decodeBus : BufferedBus Word := BufferedBus.new busSize busSize
  du : DecodeUnit := {}
  controlBus : BufferedBus Runner := BufferedBus.new busSize busSize
  /-- `controlUnit.pendings` -/
  cuPendings : Queue Runner := Queue.new Gen.Consts.mvp6_0.pendingLength
  executeBus : BufferedBus Runner := BufferedBus.new busSize busSize
  eus : List ExecUnit := []
  writeBus : BufferedBus ExecCtx := BufferedBus.new busSize busSize
  wus : List WriteUnit := []
  bu : BranchUnit := {}
  mmu : Model.Mmu.Mmu
  /-- `memoryManagementUnit.pendings`: `[lo, hi)` of the L3 lines being fetched -/
  pendings : List (Int × Int) := []
  cycles : Int := 0
  mode : Mode := .normal
  /-- ghost: number of `Run` calls of instructions (calls of `coRun`) -/
  executed : Nat := 0
  /-- ghost: number of pipeline flushes -/
  flushes : Nat := 0
  deriving Inhabited

/-! ## risc.Context bookkeeping (risc/app.go) -/

/-- `m[r]++` for the registers other than `x0` -/
def incRegs (m : GoMap Reg Int) : List Reg → GoMap Reg Int
  | [] => m
  | r :: rs => if r == Gen.Reg.Zero then incRegs m rs else incRegs (m.set r (m.get1 r + 1)) rs

/-- `m[r]--; if m[r] <= 0 { delete(m, r) }` for the registers other than `x0` -/
def decRegs (m : GoMap Reg Int) : List Reg → GoMap Reg Int
  | [] => m
  | r :: rs =>
    if r == Gen.Reg.Zero then decRegs m rs
    else
      let v := m.get1 r - 1
      decRegs (if v ≤ 0 then m.erase r else m.set r v) rs

/-- `ctx.AddPendingRegisters(runner)` -/
def addPendingRegisters (ctx : Model.Context) (i : Gen.Instr) : Model.Context :=
  { ctx with PendingReadRegisters := incRegs ctx.PendingReadRegisters i.readRegisters
             PendingWriteRegisters := incRegs ctx.PendingWriteRegisters i.writeRegisters }

/-- `ctx.DeletePendingRegisters(readRegisters, writeRegisters)` -/
def deletePendingRegisters (ctx : Model.Context) (rd wr : List Reg) : Model.Context :=
  { ctx with PendingReadRegisters := decRegs ctx.PendingReadRegisters rd
             PendingWriteRegisters := decRegs ctx.PendingWriteRegisters wr }

/-- `v, exists := m[r]; exists && v > 0` -/
def pendingPos (m : GoMap Reg Int) (r : Reg) : Bool :=
  match m.find? r with | some v => decide (v > 0) | none => false

/-- `len(hazards) != 0` for `hazards, _ := ctx.IsDataHazard3(runner)` -/
def isDataHazard3 (ctx : Model.Context) (i : Gen.Instr) : Bool :=
  (i.readRegisters.any fun r => r != Gen.Reg.Zero && pendingPos ctx.PendingWriteRegisters r) ||
  (i.writeRegisters.any fun r => r != Gen.Reg.Zero &&
    (pendingPos ctx.PendingWriteRegisters r || pendingPos ctx.PendingReadRegisters r))

/-! ## memory-management unit (mmu.go): what is not already `Model.Mmu` -/

/-- what `getFromL3` returns -/
inductive L3Res where
  | hit (memory : List Byte)     -- (memory, false, true)
  | pending                      -- (nil, true, false)
  | miss                         -- (nil, false, false): the line is now announced in `pendings`
  deriving Repr, DecidableEq, Inhabited

/-- `getFromL3(addrs)` on the L3 cache and the list of pending fetches -/
def getFromL3Loop (c : LineCache.Cache) (pend : List (Int × Int)) :
    List Word → M (L3Res × LineCache.Cache × List (Int × Int))
  | [] => pure (.hit [], c, pend)
  | a :: as => do
    let (v, c1) ← LineCache.get c a.toInt
    match v with
    | none =>
      if pend.any (fun p => decide (p.1 ≤ a.toInt) && decide (a.toInt < p.2)) then pure (.pending, c1, pend)
      else do
        let base ← LineCache.alignDown a.toInt cfg.l1DLineSize
        pure (.miss, c1, pend ++ [(base, Model.Mmu.wrap32 (base + cfg.l1DLineSize))])
    | some b => do
      let (r, c2, pend2) ← getFromL3Loop c1 pend as
      match r with
      | .hit m => pure (.hit (b :: m), c2, pend2)
      | r => pure (r, c2, pend2)

def getFromL3 (u : Model.Mmu.Mmu) (pend : List (Int × Int)) (addrs : List Word) :
    M (L3Res × Model.Mmu.Mmu × List (Int × Int)) := do
  let (r, c, p) ← getFromL3Loop u.l1d pend addrs
  pure (r, { u with l1d := c }, p)

/-- `for i, pending := range u.pendings { if pending[0] == addr { remove it; break } }` -/
def removePending (lo : Int) : List (Int × Int) → List (Int × Int)
  | [] => []
  | p :: ps => if p.1 == lo then ps else p :: removePending lo ps

/-- `pushLineToL3(addr, line)`: `Model.Mmu.pushLineToL1D` plus the removal of the pending entry -/
def pushLineToL3 (u : Model.Mmu.Mmu) (pend : List (Int × Int)) (mem : List Byte) (addr : Word) (line : List Byte) :
    M (Model.Mmu.Mmu × List (Int × Int) × List Byte) := do
  let lo ← LineCache.alignDown addr.toInt cfg.l1DLineSize
  let (u', mem') ← Model.Mmu.pushLineToL1D cfg u mem addr line
  pure (u', removePending lo pend, mem')

/-! ## fetch unit (fu.go) -/

/-- `u.pc/4 >= int32(len(app.Instructions))` -/
def pastEnd (app : App) (pc : Word) : Bool := decide (Int.tdiv pc.toInt 4 ≥ app.instrs.length)

/-- `currentPc := u.pc; u.pc += 4; if past the end { coroutine = empty closure; complete = true };
outBus.Add(currentPc, cycle)` -/
def fuEmit (app : App) (fu : FetchUnit) (bus : BufferedBus Word) (cycle : Int) : FetchUnit × BufferedBus Word :=
  let currentPc := fu.pc
  let pc' := fu.pc + 4#32
  let fu := { fu with pc := pc' }
  let fu := if pastEnd app pc' then { fu with co := .done, complete := true } else fu
  (fu, bus.add currentPc cycle)

/-- the loop of `coFetch` with `n` iterations left -/
def coFetchLoop (app : App) (cycle : Int) :
    Nat → FetchUnit → Model.Mmu.Mmu → BufferedBus Word → M (FetchUnit × Model.Mmu.Mmu × BufferedBus Word)
  | 0, fu, mmu, bus => pure (fu, mmu, bus)
  | n + 1, fu, mmu, bus =>
    if !bus.canAdd then pure (fu, mmu, bus)
    else do
      let (hit, mmu) ← Model.Mmu.getFromL1I mmu [fu.pc]
      match hit with
      | none => pure ({ fu with remainingCycles := Gen.Latency.MemoryAccess - 1, co := .wait }, mmu, bus)
      | some _ =>
        let (fu, bus) := fuEmit app fu bus cycle
        coFetchLoop app cycle n fu mmu bus

/-- `fetchUnit.cycle(cycle, app, ctx)` on the parts of the machine it touches -/
def fetchCore (app : App) (cycle : Int) (fu : FetchUnit) (mmu : Model.Mmu.Mmu) (bus : BufferedBus Word) :
    M (FetchUnit × Model.Mmu.Mmu × BufferedBus Word) :=
  let (fu, bus) := if fu.toCleanPending then ({ fu with toCleanPending := false }, bus.clean) else (fu, bus)
  match fu.co with
  | .done => pure (fu, mmu, bus)
  | .wait =>
    if fu.remainingCycles != 0 then pure ({ fu with remainingCycles := fu.remainingCycles - 1 }, mmu, bus)
    else
      if cfg.l1ILineSize < 0 then throw (.panic "makeslice: len out of range")
      else
        let fu := { fu with co := .none }
        let mmu := Model.Mmu.pushLineToL1I mmu fu.pc (List.replicate cfg.l1ILineSize.toNat 0#8)
        let (fu, bus) := fuEmit app fu bus cycle
        pure (fu, mmu, bus)
  | .none =>
    if bus.outLength < 0 then pure (fu, mmu, bus)
    else coFetchLoop app cycle bus.outLength.toNat fu mmu bus

/-- `fetchUnit.reset(pc, cleanPending)`: since /repo commit 52aa070 it also clears `complete` (R60-defect-1) -/
def FetchUnit.reset (fu : FetchUnit) (pc : Word) (clean : Bool) : FetchUnit :=
  { fu with co := .none, complete := false, pc := pc, toCleanPending := clean }

/-- `fetchUnit.flush(pc)` -/
def FetchUnit.flush (fu : FetchUnit) (pc : Word) : FetchUnit :=
  { fu with co := .none, complete := false, pc := pc }

def fetchCycle (app : App) (s : State) : M State := do
  let (fu, mmu, bus) ← fetchCore app s.cycles s.fu s.mmu s.decodeBus
  pure { s with fu := fu, mmu := mmu, decodeBus := bus }

/-! ## decode unit (du.go) -/

/-- `app.Instructions[pc/4]` (the upper bound has been checked by the caller) -/
def instrAt (app : App) (pc : Word) : M Gen.Instr :=
  let idx := Int.tdiv pc.toInt 4
  if idx < 0 then throw (.panic "instruction index")
  else match app.instrs[idx.toNat]? with
    | some i => pure i
    | none => throw (.panic "instruction index")

/-- the `for { … }` of `decodeUnit.cycle`; `fuel` bounds the iterations by the number of entries readable from
the input bus (each iteration consumes one) -/
def decodeLoop (app : App) (ctx : Model.Context) (cycle : Int) :
    Nat → DecodeUnit → BufferedBus Word → BufferedBus Runner → M (DecodeUnit × BufferedBus Word × BufferedBus Runner)
  | 0, du, inBus, outBus => pure (du, inBus, outBus)
  | n + 1, du, inBus, outBus =>
    let (x, inBus) := inBus.get
    match x with
    | none => pure (du, inBus, outBus)
    | some pc =>
      if Int.tdiv pc.toInt 4 ≥ app.instrs.length then pure (du, inBus, outBus)
      else do
        let i ← instrAt app pc
        let jump := i.instructionType.IsUnconditionalBranch
        let du := if jump then { du with pendingBranchResolution := true } else du
        -- `ctx.SequenceID(pc) = pc + ctx.sequenceID*1000`
        let outBus := outBus.add { instr := i, pc := pc, seq := pc + ctx.sequenceID * 1000#32 } cycle
        if jump then pure (du, inBus, outBus)
        -- since /repo's fix of R60-defect-2: nothing behind a `ret` is decoded, not even in this cycle
        else if i.instructionType == Gen.InstructionType.Ret then pure ({ du with ret := true }, inBus, outBus)
        else decodeLoop app ctx cycle n du inBus outBus

/-- `decodeUnit.cycle(cycle, app, ctx)` -/
def decodeCore (app : App) (ctx : Model.Context) (cycle : Int) (du : DecodeUnit) (inBus : BufferedBus Word)
    (outBus : BufferedBus Runner) : M (DecodeUnit × BufferedBus Word × BufferedBus Runner) :=
  if du.ret then pure (du, inBus, outBus)
  else if du.pendingBranchResolution then pure (du, inBus, outBus)
  else decodeLoop app ctx cycle (inBus.pendingRead.toNat + 1) du inBus outBus

def decodeCycle (app : App) (s : State) : M State := do
  let (du, d, c) ← decodeCore app s.ctx s.cycles s.du s.decodeBus s.controlBus
  pure { s with du := du, decodeBus := d, controlBus := c }

/-! ## control unit (cu.go) -/

/-- `handleRunner(ctx, cycle, pushed, runner)`: `(push, stop)` and the new execute bus and context -/
def handleRunner (ctx : Model.Context) (outBus : BufferedBus Runner) (cycle : Int) (pushed : Int) (r : Runner) :
    (Bool × Bool) × Model.Context × BufferedBus Runner :=
  let t := r.instr.instructionType
  if t == Gen.InstructionType.Ret && !outBus.isEmpty then ((false, true), ctx, outBus)
  else if decide (pushed > 0) && t.IsBranch then ((false, true), ctx, outBus)
  else if isDataHazard3 ctx r.instr then ((false, true), ctx, outBus)
  else ((true, t == Gen.InstructionType.Ret), addPendingRegisters ctx r.instr, outBus.add r cycle)

/-- the state the control unit works on, threaded through its two loops -/
structure CuSt where
  ctx : Model.Context
  inBus : BufferedBus Runner
  outBus : BufferedBus Runner
  pendings : Queue Runner
  remaining : Int
  pushed : Int

/-- `for elem := range u.pendings.Iterator() { … }` over the snapshot; `true` = the cycle returned (`stop`) -/
def cuPendingLoop (cycle : Int) : List (Nat × Runner) → CuSt → CuSt × Bool
  | [], st => (st, false)
  | (h, r) :: rest, st =>
    let ((push, stop), ctx, outBus) := handleRunner st.ctx st.outBus cycle st.pushed r
    let st := if push then
        { st with ctx := ctx, outBus := outBus, pendings := st.pendings.remove h,
                  remaining := st.remaining - 1, pushed := st.pushed + 1 }
      else { st with ctx := ctx, outBus := outBus }
    if stop then (st, true) else cuPendingLoop cycle rest st

/-- `for remaining > 0 && !u.pendings.IsFull() { … }`; `fuel` bounds the iterations by the entries of the input bus -/
def cuBusLoop (cycle : Int) : Nat → CuSt → CuSt
  | 0, st => st
  | n + 1, st =>
    if !(decide (st.remaining > 0) && !st.pendings.isFull) then st
    else
      let (x, inBus) := st.inBus.get
      match x with
      | none => { st with inBus := inBus }
      | some r =>
        let st := { st with inBus := inBus }
        let ((push, stop), ctx, outBus) := handleRunner st.ctx st.outBus cycle st.pushed r
        let st := if push then
            { st with ctx := ctx, outBus := outBus, remaining := st.remaining - 1, pushed := st.pushed + 1 }
          else { st with ctx := ctx, outBus := outBus, pendings := st.pendings.push r }
        if stop then st else cuBusLoop cycle n st

/-- `controlUnit.cycle(cycle, ctx)` -/
def controlCycle (s : State) : State :=
  if !s.executeBus.canAdd then s
  else
    let st : CuSt := { ctx := s.ctx, inBus := s.controlBus, outBus := s.executeBus, pendings := s.cuPendings,
                       remaining := s.executeBus.remainingToAdd, pushed := 0 }
    let (st, stopped) := cuPendingLoop s.cycles s.cuPendings.iterator st
    let st := if stopped then st else cuBusLoop s.cycles (st.inBus.pendingRead.toNat + 1) st
    { s with ctx := st.ctx, controlBus := st.inBus, executeBus := st.outBus, cuPendings := st.pendings }

/-! ## branch unit (bu.go, btb.go) -/

/-- `branchTargetBuffer.get(pc)` -/
def btbGet (b : List (Word × Word)) (pc : Word) : Option Word :=
  match b.find? (fun e => e.1 == pc) with
  | some e => some e.2
  | none => none

/-- the update-in-place loop of `branchTargetBuffer.add`: `none` when no entry has this pc -/
def btbUpdate (pc dest : Word) : List (Word × Word) → Option (List (Word × Word))
  | [] => none
  | e :: es => if e.1 == pc then some ((pc, dest) :: es) else (btbUpdate pc dest es).map (e :: ·)

/-- `branchTargetBuffer.add(pc, pcDest)` -/
def btbAdd (b : List (Word × Word)) (pc dest : Word) : List (Word × Word) :=
  match btbUpdate pc dest b with
  | some b' => b'
  | none => if (b.length : Int) != btbSize then b ++ [(pc, dest)] else b.drop 1 ++ [(pc, dest)]

/-- `btbBranchUnit.assert(runner)`: the branch unit and the fetch unit (`u.fu.reset`) -/
def buAssert (bu : BranchUnit) (fu : FetchUnit) (r : Runner) : BranchUnit × FetchUnit :=
  let t := r.instr.instructionType
  if t.IsUnconditionalBranch then
    match btbGet bu.btb r.pc with
    | none => ({ bu with toCheck := true, expectation := BitVec.ofInt 32 (-1) }, fu)
    | some nextPc => ({ bu with toCheck := true, expectation := nextPc }, fu.reset nextPc true)
  else if t.IsConditionalBranch then ({ bu with toCheck := true, expectation := r.pc + 4#32 }, fu)
  else ({ bu with toCheck := false }, fu)

/-- `btbBranchUnit.shouldFlushPipeline(pc)` -/
def buShouldFlush (bu : BranchUnit) (pc : Word) : Bool × BranchUnit :=
  if !bu.toCheck then (false, bu)
  else (bu.expectation != pc, { bu with toCheck := false })

/-! ## execute units (eu.go) -/

/-- what `executeUnit.cycle` returns: `(flush, from, pc, ret, err)` -/
inductive EuOut where
  | none                                -- (false, 0, 0, false, nil)
  | flush (from_ : Word) (pc : Word)    -- (true, runner.Pc, NextPc, false, nil)
  | ret                                 -- (false, 0, 0, true, nil)
  | err                                 -- (false, 0, 0, false, err)
  deriving Repr, DecidableEq, Inhabited

def setEu (s : State) (i : Nat) (eu : ExecUnit) : State := { s with eus := s.eus.set i eu }

/-- `coRun` of execute unit `i` (whose state is `eu`, runner `r`) -/
def coRun (app : App) (s : State) (i : Nat) (eu : ExecUnit) (r : Runner) : M (State × EuOut) :=
  let eu := { eu with co := .none }
  let s := { setEu s i eu with executed := s.executed + 1 }
  match r.instr.run s.ctx app.labels r.pc eu.memory 0#32 with
  | .error (.panic w) => throw (.panic w)
  | .error (.err _) => pure (s, .err)
  | .ok e =>
    if e.Return then pure (s, .ret)
    else do
      -- `execution.MemoryChange && u.mmu.doesExecutionMemoryChangesExistsInL3(execution)`
      let (inL3, mmu) ← (if e.MemoryChange then Model.Mmu.doesExecutionMemoryChangesExistsInL1D s.mmu e
                          else pure (false, s.mmu) : M (Bool × Model.Mmu.Mmu))
      if inL3 then do
        let mmu ← Model.Mmu.writeExecutionMemoryChangesToL1D mmu e
        pure ({ s with mmu := mmu,
                       ctx := deletePendingRegisters s.ctx r.instr.readRegisters r.instr.writeRegisters }, .none)
      else
        let t := r.instr.instructionType
        let s := { s with mmu := mmu,
                          writeBus := s.writeBus.add { seq := r.seq, execution := e, itype := t,
                                                       writeRegisters := r.instr.writeRegisters,
                                                       readRegisters := r.instr.readRegisters } s.cycles }
        -- `u.bu.notifyJumpAddressResolved(u.runner.Pc, execution.NextPc)`
        let s := if t.IsUnconditionalBranch then
            { s with bu := { s.bu with btb := btbAdd s.bu.btb r.pc e.NextPc },
                     fu := s.fu.reset e.NextPc true,
                     du := { s.du with pendingBranchResolution := false } }
          else s
        if e.PcChange then
          let (fl, bu) := buShouldFlush s.bu e.NextPc
          pure ({ s with bu := bu }, if fl then .flush r.pc e.NextPc else .none)
        else pure (s, .none)

/-- `coPrepareRun` of execute unit `i` -/
def coPrepareRun (app : App) (s : State) (i : Nat) (eu : ExecUnit) (r : Runner) : M (State × EuOut) :=
  if !s.writeBus.canAdd then pure (setEu s i eu, .none)
  else do
    let (bu, fu) := buAssert s.bu s.fu r
    let s := { s with bu := bu, fu := fu }
    let addrs := r.instr.memoryRead s.ctx 0#32
    if !addrs.isEmpty then do
      let (res, mmu, pend) ← getFromL3 s.mmu s.pendings addrs
      let s := { s with mmu := mmu, pendings := pend }
      match res with
      | .pending => pure (setEu s i eu, .none)
      | .hit m => pure (setEu s i { eu with memory := m, co := .l3wait (Gen.Latency.L3Access - 1) }, .none)
      | .miss => pure (setEu s i { eu with co := .memwait (Gen.Latency.MemoryAccess - 1) addrs }, .none)
    else coRun app s i eu r

/-- `executeUnit.cycle(cycle, ctx, app)` for unit `i` -/
def euCycle (app : App) (s : State) (i : Nat) : M (State × EuOut) :=
  match s.eus[i]? with
  | none => throw (.panic "execute unit index")
  | some eu =>
    match eu.co with
    | .none =>
      let (x, inBus) := s.executeBus.get
      match x with
      | none => pure ({ s with executeBus := inBus }, .none)
      | some r =>
        coPrepareRun app { s with executeBus := inBus } i { eu with runner := some r, co := .prepare } r
    | .prepare =>
      match eu.runner with
      | none => throw (.panic "nil runner")
      | some r => coPrepareRun app s i eu r
    | .l3wait rem =>
      if rem > 0 then pure (setEu s i { eu with co := .l3wait (rem - 1) }, .none)
      else match eu.runner with
        | none => throw (.panic "nil runner")
        | some r => coRun app s i eu r
    | .memwait rem addrs =>
      if rem > 0 then pure (setEu s i { eu with co := .memwait (rem - 1) addrs }, .none)
      else match eu.runner, addrs with
        | none, _ => throw (.panic "nil runner")
        | _, [] => throw (.panic "index out of range")
        | some r, a0 :: _ => do
          let line ← Model.Mmu.fetchCacheLine cfg s.ctx.Memory a0
          let (mmu, pend, mem) ← pushLineToL3 s.mmu s.pendings s.ctx.Memory a0 line
          let (res, mmu, pend) ← getFromL3 mmu pend addrs
          match res with
          | .hit m =>
            coRun app { s with mmu := mmu, pendings := pend, ctx := { s.ctx with Memory := mem } } i { eu with memory := m } r
          | _ => throw (.panic "cache line doesn't exist")

/-- `executeUnit.isEmpty()` -/
def ExecUnit.isEmpty (eu : ExecUnit) : Bool := eu.co == .none

/-! ## write units (wu.go) -/

def setWu (s : State) (j : Nat) (wu : WriteUnit) : State := { s with wus := s.wus.set j wu }

/-- `writeUnit.cycle(ctx, before)` for unit `j`.  `before` is the `int32` argument (`-1` in the normal path, the pc of the
flushing branch in the drain before a flush); an entry is consumed and DROPPED when
`before != -1 && execution.SequenceID > before` (signed comparison) -/
def wuCycle (s : State) (j : Nat) (before : Word) : M State :=
  match s.wus[j]? with
  | none => throw (.panic "write unit index")
  | some wu =>
    match wu.co with
    | .wait rem =>
      if rem > 0 then pure (setWu s j { wu with co := .wait (rem - 1) })
      else
        match wu.memoryWrite with
        | none => throw (.panic "nil memory write")
        | some ec =>
          match Model.Seq.writeMemory s.ctx ec.execution with
          | none => throw (.panic "memory index")
          | some ctx =>
            pure { setWu s j { wu with co := .none } with ctx := deletePendingRegisters ctx ec.readRegisters ec.writeRegisters }
    | .none =>
      let (x, inBus) := s.writeBus.get
      let s := { s with writeBus := inBus }
      match x with
      | none => pure s
      | some ec =>
        if before != BitVec.ofInt 32 (-1) && before.slt ec.seq then pure s
        else if ec.execution.RegisterChange then
          let ctx := Model.Seq.writeRegister s.ctx ec.execution
          pure { s with ctx := deletePendingRegisters ctx ec.readRegisters ec.writeRegisters }
        else if ec.execution.MemoryChange then
          pure (setWu s j { co := .wait Gen.Latency.MemoryAccess, memoryWrite := some ec })
        else pure { s with ctx := deletePendingRegisters s.ctx ec.readRegisters ec.writeRegisters }

def WriteUnit.isEmpty (wu : WriteUnit) : Bool := wu.co == .none

/-- `for _, wu := range m.writeUnits { wu.cycle(m.ctx, -1) }` -/
def wusCycle (s : State) : M State :=
  (List.range s.wus.length).foldlM (fun s j => wuCycle s j (BitVec.ofInt 32 (-1))) s

/-! ## the `Run` loop (cpu.go) -/

/-- `CPU.areWriteUnitsEmpty()` -/
def areWriteUnitsEmpty (s : State) : Bool := s.wus.all WriteUnit.isEmpty

/-- `CPU.flush(pc)` -/
def flushAll (s : State) (pc : Word) : State :=
  { s with fu := s.fu.flush pc
           du := {}
           cuPendings := Queue.new Gen.Consts.mvp6_0.pendingLength
           eus := s.eus.map fun eu => { eu with co := .none }
           decodeBus := s.decodeBus.clean
           controlBus := s.controlBus.clean
           executeBus := s.executeBus.clean
           writeBus := s.writeBus.clean
           ctx := { s.ctx with PendingWriteRegisters := {}, PendingReadRegisters := {} } }

/-- `CPU.isEmpty()` -/
def isEmpty (s : State) : Bool :=
  s.fu.complete && decide (s.cuPendings.len = 0) && areWriteUnitsEmpty s &&
    s.decodeBus.isEmpty && s.controlBus.isEmpty && s.executeBus.isEmpty && s.writeBus.isEmpty &&
    s.eus.all ExecUnit.isEmpty

inductive Event where
  | running
  | done (h : Halt)
  deriving Repr, DecidableEq, Inhabited

/-- after the outer loop: `cycle += m.memoryManagementUnit.flush()` -/
def finish (s : State) (h : Halt) : M (State × Event) := do
  let (mem, extra) ← Model.Mmu.flush cfg s.mmu s.ctx.Memory
  pure ({ s with ctx := { s.ctx with Memory := mem }, cycles := s.cycles + extra, mode := .normal }, .done h)

/-- the accumulators `flush, from, pc, ret` of the loop over the execute units -/
structure EuAcc where
  flush : Bool := false
  from_ : Word := 0
  pc : Word := 0
  ret : Bool := false
  err : Bool := false
  deriving Repr, DecidableEq, Inhabited

/-- `for _, eu := range m.executeUnits { f, fp, p, r, err := eu.cycle(…); if err != nil { return 0, err }; … }` from
unit `i` on (`n` units left) -/
def eusCycle (app : App) : Nat → Nat → State → EuAcc → M (State × EuAcc)
  | 0, _, s, acc => pure (s, acc)
  | n + 1, i, s, acc => do
    let (s, out) ← euCycle app s i
    match out with
    | .err => pure (s, { acc with err := true })
    | .ret => eusCycle app n (i + 1) s { acc with ret := true }
    | .flush fp p =>
      -- `pc = max(pc, p)` on `int32`
      eusCycle app n (i + 1) s { acc with flush := true, from_ := fp, pc := if acc.pc.slt p then p else acc.pc }
    | .none => eusCycle app n (i + 1) s acc

/-- loop A after a `ret`: only the non-empty units cycle; `true` = an error was returned -/
def eusCycleBusy (app : App) : Nat → Nat → State → M (State × Bool)
  | 0, _, s => pure (s, false)
  | n + 1, i, s =>
    match s.eus[i]? with
    | none => pure (s, false)
    | some eu =>
      if eu.isEmpty then eusCycleBusy app n (i + 1) s
      else do
        let (s, out) ← euCycle app s i
        match out with
        | .err => pure (s, true)
        | _ => eusCycleBusy app n (i + 1) s

/-- the second drain loop after a `ret`, at its condition -/
def goRetB (s : State) : M (State × Event) :=
  if !areWriteUnitsEmpty s || !s.writeBus.isEmpty then pure ({ s with mode := .retB }, .running)
  else finish s .ret

/-- the first drain loop after a `ret`, at its `busy` test; when no unit is busy: `cycle++;
writeBus.Connect(cycle)` and on to the second loop -/
def goRetA (s : State) : M (State × Event) :=
  if s.eus.any (fun eu => !eu.isEmpty) then pure ({ s with mode := .retA }, .running)
  else
    let s := { s with cycles := s.cycles + 1 }
    goRetB { s with writeBus := s.writeBus.connect s.cycles }

/-- the drain loops before a flush, at the condition of write unit `i`'s loop; after the last unit:
`m.flush(pc); cycle += latency.Flush; continue` -/
def goFlush (s : State) (from_ pc : Word) : Nat → Nat → State × Event
  | 0, _ => ({ flushAll s pc with cycles := s.cycles + Gen.Latency.Flush, mode := .normal, flushes := s.flushes + 1 }, .running)
  | n + 1, i =>
    match s.wus[i]? with
    | none => ({ flushAll s pc with cycles := s.cycles + Gen.Latency.Flush, mode := .normal, flushes := s.flushes + 1 }, .running)
    | some wu =>
      if !wu.isEmpty || !s.writeBus.isEmpty then ({ s with mode := .flushW i from_ pc }, .running)
      else goFlush s from_ pc n (i + 1)

/-- one tick, panics still inside `M` -/
def cycleM (app : App) (s : State) : M (State × Event) :=
  match s.mode with
  | .normal => do
    let s := { s with cycles := s.cycles + 1 }
    let c := s.cycles
    let s := { s with decodeBus := s.decodeBus.connect c, controlBus := s.controlBus.connect c,
                      executeBus := s.executeBus.connect c, writeBus := s.writeBus.connect c }
    let s ← fetchCycle app s
    let s ← decodeCycle app s
    let s := controlCycle s
    let (s, acc) ← eusCycle app s.eus.length 0 s {}
    if acc.err then pure (s, .done .err)
    else do
      let s ← wusCycle s
      if acc.ret then goRetA s
      else if acc.flush then
        let s := { s with writeBus := s.writeBus.connect (s.cycles + 1) }
        pure (goFlush s acc.from_ acc.pc s.wus.length 0)
      else if isEmpty s then finish s .offEnd
      else pure (s, .running)
  | .retA => do
    let s := { s with cycles := s.cycles + 1 }
    let s := { s with writeBus := s.writeBus.connect s.cycles }
    let (s, err) ← eusCycleBusy app s.eus.length 0 s
    if err then pure (s, .done .err)
    else do
      let s ← wusCycle s
      goRetA s
  | .retB => do
    let s ← wusCycle s
    let s := { s with cycles := s.cycles + 1 }
    goRetB { s with writeBus := s.writeBus.connect s.cycles }
  | .flushW i from_ pc => do
    let s := { s with writeBus := s.writeBus.connect (s.cycles + 1) }
    let s := { s with cycles := s.cycles + 1 }
    let s ← wuCycle s i from_
    pure (goFlush s from_ pc (s.wus.length - i) i)

/-- one tick of the machine -/
def cycle (app : App) (s : State) : State × Event :=
  match cycleM app s with
  | .ok r => r
  | .error (.panic w) => (s, .done (.panic w))
  | .error (.err w) => (s, .done (.panic w))   -- unreachable: the units raise panics only (`Run`'s error is `EuOut.err`)

/-- `NewCPU(debug, memoryBytes, eu, wu)` with the registers and memory image the harness installs -/
def init (ctx : Model.Context) (eu wu : Nat) : M State := do
  let mmu ← Model.Mmu.new cfg
  pure { ctx := ctx, mmu := mmu, eus := List.replicate eu {}, wus := List.replicate wu {} }

structure Result where
  halt : Option Halt       -- `none`: tick budget exhausted
  final : State
  ticks : Nat
  deriving Inhabited

/-- the ticks of `Run` -/
def runFrom (app : App) : Nat → State → Nat → Result
  | 0, s, n => { halt := none, final := s, ticks := n }
  | fuel + 1, s, n =>
    match cycle app s with
    | (s', .running) => runFrom app fuel s' (n + 1)
    | (s', .done h) => { halt := some h, final := s', ticks := n + 1 }

/-- `NewCPU` + `Run` -/
def run (app : App) (ctx : Model.Context) (eu wu : Nat) (fuel : Nat) : Result :=
  match init ctx eu wu with
  | .ok s => runFrom app fuel s 0
  | .error _ => { halt := some (.panic "NewCPU"), final := { ctx := ctx, mmu := default }, ticks := 0 }

end Model.Mvp60

/-
  Model/Mmu.lean — hand-written executable model of the memory-management unit
  `memoryManagementUnit` of proc/mvp3/mmu.go.  proc/mvp4/mmu.go and proc/mvp5/mmu.go
  are the same code (they differ by the name of one constant, `liDCacheSize`, and by
  `int32(..)` conversions of `comp.AlignedAddress`), so the model is parametrised by
  a `Config` that carries the package-level constants; the three instances read them
  from the REGENERATED `Gen.Consts` (nothing is hard-coded here).

  Operation by operation, same order of effects, built on `Model/LineCache.lean`
  (the model of proc/comp/cache.go).  A Go `panic` is `Except.error (.panic …)`.

  Representation choices
  * the unit holds the two caches; `ctx.Memory` lives in `Model.Context` and is passed
    in and out as a `List Byte` by the operations that read or write it;
  * addresses cross the API as Go's `int32` (`Word`); inside, `comp.AlignedAddress`
    arithmetic is done on `Int` (`Word.toInt`) as in `Model/LineCache.lean`.  The one place
    where `int32` arithmetic can wrap for a 32-bit address — the upper bound
    `Boundary[1] = addr + lineLength` of a pushed line — is re-established by the unit
    (`wrap32`, `fixHead`): the line that would end at 2^31 gets a negative bound and is never
    hit, exactly as in Go (.work/reports/C05-defect-1.md);
  * `doesExecutionMemoryChangesExistsInL1D` and `writeExecutionMemoryChangesToL1D`
    range over a Go map (`Execution.MemoryChanges`); the translated `Gen.Execution`
    carries the changes as a list in the order the instruction builds them.  The first
    function visits the addresses in that list order (Go's order is unspecified; it
    matters only for the recency of lines when one store touches two lines), the second
    sorts by address exactly as the Go code does;
  * `flush` performs, per line, `l1DCacheLineSize` identical calls of `writeToMemory`
    (the Go loop `for i := 0; i < l1DCacheLineSize; i++` does not use `i`); the calls are
    idempotent, the model performs the write once when the constant is positive
    (the calls are idempotent: `Proofs/Mmu.lean`, `writeToMemory_idem`, `flushLine_literal`).

  INTERFACE (kept stable; work package MVP4 builds on it): `Config`, `mvp3Config`,
  `mvp4Config`, `mvp5Config`, `Mmu`, `new`, `getFromL1I`, `pushLineToL1I`, `getFromL1D`,
  `doesExecutionMemoryChangesExistsInL1D`, `writeExecutionMemoryChangesToL1D`,
  `getFromMemory`, `fetchCacheLine`, `pushLineToL1D`, `writeToL1D`, `writeToMemory`, `flush`.
-/
import MajoranaVerif.Gen.Opcodes
import MajoranaVerif.Gen.Consts
import MajoranaVerif.Gen.Latency
import MajoranaVerif.Model.Ctx
import MajoranaVerif.Model.LineCache
open GoInt

namespace Model.Mmu

/-- the package-level constants the unit reads -/
structure Config where
  l1ILineSize : Int
  l1ISize : Int
  l1DLineSize : Int
  l1DSize : Int
  deriving Repr, DecidableEq, Inhabited

def mvp3Config : Config :=
  { l1ILineSize := Gen.Consts.mvp3.l1ICacheLineSize, l1ISize := Gen.Consts.mvp3.l1ICacheSize,
    l1DLineSize := Gen.Consts.mvp3.l1DCacheLineSize, l1DSize := Gen.Consts.mvp3.l1DCacheSize }

def mvp4Config : Config :=
  { l1ILineSize := Gen.Consts.mvp4.l1ICacheLineSize, l1ISize := Gen.Consts.mvp4.l1ICacheSize,
    l1DLineSize := Gen.Consts.mvp4.l1DCacheLineSize, l1DSize := Gen.Consts.mvp4.liDCacheSize }

def mvp5Config : Config :=
  { l1ILineSize := Gen.Consts.mvp5.l1ICacheLineSize, l1ISize := Gen.Consts.mvp5.l1ICacheSize,
    l1DLineSize := Gen.Consts.mvp5.l1DCacheLineSize, l1DSize := Gen.Consts.mvp5.liDCacheSize }

/-- `type memoryManagementUnit struct { ctx *risc.Context; l1i, l1d *comp.LRUCache }` (without `ctx`) -/
structure Mmu where
  l1i : LineCache.Cache
  l1d : LineCache.Cache
  deriving Repr, DecidableEq, Inhabited

/-- `comp.NewLRUCache(lineLength, cacheLength)` on Go `int` constants (negative constants are outside
the model: the Go code would not get past `make([]int8, 0, l1DCacheLineSize)` either) -/
def newCache (lineLength cacheLength : Int) : M LineCache.Cache :=
  if lineLength < 0 ∨ cacheLength < 0 then throw (.panic "negative cache constant")
  else LineCache.new lineLength.toNat cacheLength.toNat

/-- `newMemoryManagementUnit` -/
def new (cfg : Config) : M Mmu := do
  let l1i ← newCache cfg.l1ILineSize cfg.l1ISize
  let l1d ← newCache cfg.l1DLineSize cfg.l1DSize
  pure { l1i := l1i, l1d := l1d }

/-- Go computes `Boundary[1] = addr + AlignedAddress(c.lineLength)` in `int32`: a line that would end at or
beyond 2^31 gets a negative upper bound and never matches any address (`Model/LineCache.lean` works on `Int`
and does not wrap; the unit re-establishes the `int32` value on the line it has just pushed). -/
def wrap32 (x : Int) : Int := (BitVec.ofInt 32 x).toInt

/-- the line just pushed (the head) with its upper bound as `int32` -/
def fixHead (c : LineCache.Cache) : LineCache.Cache :=
  match c.lines with
  | [] => c
  | l :: ls => { c with lines := { l with hi := wrap32 l.hi } :: ls }

/-- the loop shared by `getFromL1I` and `getFromL1D`:
`for _, addr := range addrs { v, exists := cache.Get(addr); if !exists { return nil, false }; … }`.
Every hit refreshes the recency of its line, also when a later address misses. -/
def getAll (c : LineCache.Cache) : List Word → M (Option (List Byte) × LineCache.Cache)
  | [] => pure (some [], c)
  | a :: as => do
    let (v, c1) ← LineCache.get c a.toInt
    match v with
    | none => pure (none, c1)
    | some b => do
      let (r, c2) ← getAll c1 as
      pure (r.map (b :: ·), c2)

/-- `getFromL1I(addrs) ([]int8, bool)`: `none` = `(nil, false)` -/
def getFromL1I (u : Mmu) (addrs : List Word) : M (Option (List Byte) × Mmu) := do
  let (r, c) ← getAll u.l1i addrs
  pure (r, { u with l1i := c })

/-- `pushLineToL1I(addr, line)`: `u.l1i.PushLine(addr, line)`, result dropped -/
def pushLineToL1I (u : Mmu) (addr : Word) (line : List Byte) : Mmu :=
  { u with l1i := fixHead (LineCache.pushLine u.l1i addr.toInt line).2 }

/-- `getFromL1D(addrs) ([]int8, bool)` -/
def getFromL1D (u : Mmu) (addrs : List Word) : M (Option (List Byte) × Mmu) := do
  let (r, c) ← getAll u.l1d addrs
  pure (r, { u with l1d := c })

/-- `doesExecutionMemoryChangesExistsInL1D(execution)`: the keys of `MemoryChanges` through `getFromL1D` -/
def doesExecutionMemoryChangesExistsInL1D (u : Mmu) (e : Gen.Execution) : M (Bool × Mmu) := do
  let (r, u') ← getFromL1D u (e.MemoryChanges.map (·.1))
  pure (r.isSome, u')

/-- insertion into a list sorted by signed address (`changes[i].addr < changes[j].addr` on `int32`) -/
def insertChange (p : Word × Byte) : List (Word × Byte) → List (Word × Byte)
  | [] => [p]
  | q :: qs => if q.1.slt p.1 then q :: insertChange p qs else p :: q :: qs

/-- `sort.Slice(changes, func(i, j int) bool { return changes[i].addr < changes[j].addr })`
(the keys of a map are distinct, so the result does not depend on the sorting algorithm) -/
def sortChanges : List (Word × Byte) → List (Word × Byte)
  | [] => []
  | p :: ps => insertChange p (sortChanges ps)

/-- `writeToL1D(addr, data)`: `u.l1d.Write(addr, data)` -/
def writeToL1D (u : Mmu) (addr : Word) (data : List Byte) : M Mmu := do
  let c ← LineCache.write u.l1d addr.toInt data
  pure { u with l1d := c }

/-- `writeExecutionMemoryChangesToL1D(execution)`: the changes sorted by address, their values written
as ONE run of bytes starting at the smallest address; `changes[0]` panics on an empty map -/
def writeExecutionMemoryChangesToL1D (u : Mmu) (e : Gen.Execution) : M Mmu :=
  match sortChanges e.MemoryChanges with
  | [] => throw (.panic "index out of range")
  | p :: ps => writeToL1D u p.1 ((p :: ps).map (·.2))

/-- `ctx.Memory[addr]` with an `int32` index -/
def memAt (mem : List Byte) (a : Int) : M Byte :=
  if a < 0 then throw (.panic "index out of range")
  else match mem[a.toNat]? with
    | some v => pure v
    | none => throw (.panic "index out of range")

/-- `getFromMemory(addrs)` -/
def getFromMemory (mem : List Byte) (addrs : List Word) : M (List Byte) :=
  addrs.mapM (fun a => memAt mem a.toInt)

/-- `n` bytes from the front of `rest`, zero-padded -/
def padTake : List Byte → Nat → List Byte
  | _, 0 => []
  | [], n + 1 => 0#8 :: padTake [] n
  | v :: r, n + 1 => v :: padTake r n

/-- `fetchCacheLine(addr)`: the line-sized block around `addr` (`addr - addr % l1DCacheLineSize`),
zero-padded past the end of memory (`if int(addr)+i >= len(Memory) { append 0 }`); a negative index
panics (at `i = 0` already: a negative base is below `len(Memory)`).  One pass over the memory list;
`fetchCacheLineLit` below is the literal loop, proved equal in Proofs/Mmu.lean. -/
def fetchCacheLine (cfg : Config) (mem : List Byte) (addr : Word) : M (List Byte) := do
  let lo ← LineCache.alignDown addr.toInt cfg.l1DLineSize
  if cfg.l1DLineSize < 0 then throw (.panic "makeslice: cap out of range")
  else if cfg.l1DLineSize = 0 then pure []
  else if lo < 0 then throw (.panic "index out of range")
  else pure (padTake (mem.drop lo.toNat) cfg.l1DLineSize.toNat)

/-- `data` laid over the front of `m`, cut at the end of `m` -/
def overlay : List Byte → List Byte → List Byte
  | m, [] => m
  | [], _ => []
  | _ :: ms, d :: ds => d :: overlay ms ds

/-- `writeToMemory(addr, data)`: `for i, v := range data { if int(addr)+i >= len(Memory) { return };
Memory[addr+i] = v }` — stops silently at the end of memory; a negative index panics (at `i = 0`).
One pass; `writeToMemoryLit` is the literal loop. -/
def writeToMemory (mem : List Byte) (lo : Int) (data : List Byte) : M (List Byte) :=
  match data with
  | [] => pure mem
  | _ :: _ =>
    if lo ≥ mem.length then pure mem
    else if lo < 0 then throw (.panic "index out of range")
    else pure (mem.take lo.toNat ++ overlay (mem.drop lo.toNat) data)

/-! literal forms of the two loops (specification; not executed by the driver) -/

/-- the body of `fetchCacheLine`'s loop for `i = k, k+1, …` (`n` iterations left) -/
def fetchFromLit (mem : List Byte) (lo : Int) : Nat → Nat → M (List Byte)
  | _, 0 => pure []
  | k, n + 1 =>
    if lo + k ≥ mem.length then do
      let rest ← fetchFromLit mem lo (k + 1) n
      pure (0#8 :: rest)
    else do
      let v ← memAt mem (lo + k)
      let rest ← fetchFromLit mem lo (k + 1) n
      pure (v :: rest)

def fetchCacheLineLit (cfg : Config) (mem : List Byte) (addr : Word) : M (List Byte) := do
  let lo ← LineCache.alignDown addr.toInt cfg.l1DLineSize
  if cfg.l1DLineSize < 0 then throw (.panic "makeslice: cap out of range")
  else fetchFromLit mem lo 0 cfg.l1DLineSize.toNat

def writeToMemoryLit (mem : List Byte) (lo : Int) : List Byte → Nat → M (List Byte)
  | [], _ => pure mem
  | v :: vs, i =>
    if lo + i ≥ mem.length then pure mem
    else if lo + i < 0 then throw (.panic "index out of range")
    else writeToMemoryLit (mem.set (lo + i).toNat v) lo vs (i + 1)

/-- `pushLineToL1D(addr, line)`: push at the aligned address; when the cache overflows, the line
announced by `PushLineWithEvictionWarning` (the last one) is evicted by its base address and
written back to memory.  Returns the unit and `ctx.Memory`. -/
def pushLineToL1D (cfg : Config) (u : Mmu) (mem : List Byte) (addr : Word) (line : List Byte) :
    M (Mmu × List Byte) := do
  let lo ← LineCache.alignDown addr.toInt cfg.l1DLineSize
  let (evicted, c0) := LineCache.pushLineWithEvictionWarning u.l1d lo line
  let c1 := fixHead c0
  match evicted with
  | none => pure ({ u with l1d := c1 }, mem)
  | some ev => do
    let (_, c2) ← LineCache.evictCacheLine c1 ev.lo
    let mem' ← writeToMemory mem ev.lo ev.data
    pure ({ u with l1d := c2 }, mem')

/-- one line of `flush`: `l1DCacheLineSize` identical `writeToMemory(line.Boundary[0], line.Data)` calls -/
def flushLine (cfg : Config) (mem : List Byte) (l : LineCache.Line) : M (List Byte) :=
  if cfg.l1DLineSize ≤ 0 then pure mem else writeToMemory mem l.lo l.data

def flushLines (cfg : Config) : List LineCache.Line → List Byte → Int → M (List Byte × Int)
  | [], mem, cyc => pure (mem, cyc)
  | l :: ls, mem, cyc => do
    let mem' ← flushLine cfg mem l
    flushLines cfg ls mem' (cyc + Gen.Latency.MemoryAccess)

/-- `flush() int`: every line of L1D (most recent first) is written to memory, whether or not it was
modified; one `MemoryAccess` per line.  The cache itself is left as it is.  Returns `ctx.Memory` and
the additional cycles. -/
def flush (cfg : Config) (u : Mmu) (mem : List Byte) : M (List Byte × Int) :=
  flushLines cfg (LineCache.lines u.l1d) mem 0

/-! ### the contract of the callers, as decidable predicates (hypotheses of Proofs/Mmu.lean) -/

/-- the addresses of one load lie in memory and in ONE line of `L` bytes (same `addr - addr % L`) that ends
below 2^31 (the `int32` upper bound of a line must not wrap) -/
def loadOk (L : Int) (memLen : Nat) (addrs : List Word) : Bool :=
  match addrs with
  | [] => true
  | a0 :: _ => addrs.all fun a =>
      decide (0 ≤ a.toInt) && decide (a.toInt < memLen) && decide (a.toInt - Int.tmod a.toInt L = a0.toInt - Int.tmod a0.toInt L) &&
      decide (a.toInt - Int.tmod a.toInt L + L < 2 ^ 31)

/-- the changes of one store: non-empty, consecutive ascending addresses from the first one, in memory
and in ONE line -/
def consecutive (a0 : Int) : List (Word × Byte) → Nat → Bool
  | [], _ => true
  | p :: ps, k => decide (p.1.toInt = a0 + k) && consecutive a0 ps (k + 1)

def storeOk (L : Int) (memLen : Nat) (chs : List (Word × Byte)) : Bool :=
  match chs with
  | [] => false
  | p :: _ => consecutive p.1.toInt chs 0 && loadOk L memLen (chs.map (·.1))

end Model.Mmu

/-
  Model/Msi.lean — C06: the MSI directory and the per-core cache controllers of
  MVP-7.0 / 7.1 / 8 (/repo/proc/mvp7-0/{msi.go,cc.go}, identical in mvp7-1 up to the
  `staleState` flag; mvp8-0 has the same L1-level protocol in front of a shared L3).

  Two parts.

  (a) `Snapshot` + `MsiInv : Snapshot → Bool` — the C06 invariant as a decidable
      predicate over a per-cycle snapshot of the REAL machine (verif hook
      `(*CPU).VerifSnapshot()`), one named conjunct per clause of the property.  The
      Go harness renders a snapshot per cycle, evaluates the clauses itself and the
      driver (`Driver/MainC06.lean`) evaluates `MsiInv` on the same line.

  (b) `State`, `Action`, `step`, `init` — an abstract protocol model at the level of
      line states, lock counters, snoop commands, L1 presence and whole-line contents:
      an explicit transition system whose actions are the checkpoints of the Go
      coroutines (`coRead`, `coWrite`, `coSnoop`) with the latencies abstracted to
      "any number of cycles" (every interleaving the latencies could produce, and more,
      is a run of the model).  `Props/C06.lean` proves `MsiInv` of every reachable
      state of this model for any number of cores and lines.

  Correspondence of the model with the Go code (tie): the driver replays, between two
  consecutive snapshots of a real run, the actions it decodes from the difference and
  checks that the model reaches a state whose projection IS the next snapshot
  (refinement check, `Driver/MainC06.lean`).

  Go ↔ model, operation by operation
  ----------------------------------
  msi.states[(core,line)]            `st c l`            (Invalid is the default of the map)
  msi.pendings[line] (*comp.Sem)     `sem l`             (`read`, `write` are Go `int`s: `Int` here)
  msi.commands[(core,line,kind)]     `cmd c l k = true`  (one object per key: `sendNewMSICommand` reuses)
  msiResponse.pendings / isDone()    `Req.pend e k`      (cleared for every waiting request when the
                                                           command object completes — `done()` sets the flag
                                                           all holders of the pointer see)
  cacheController.read/write         `req c : Option Req` (one request per core at a time: one EU, one CC)
  cc.rlockSems / cc.lockSems         `Req.mode.inRLockTable` (which table the lock was recorded in)
  cc.l1d (presence, whole-line data) `l1 c l : Option D`
  ctx.Memory (next level)            `mem l : D`
  Go panic                           `panic = true` (absorbing)

  Actions = coroutine checkpoints:
    start c l w     `msi.rLock` / `msi.lock` succeeds (a failed attempt is a stutter)
    proceed c       the `for _, pending := range resp.pendings` loop passes
    push c victim   `pushLineToL1` after the memory latency (victim: the line
                    `PushLineWithEvictionWarning` reports, any other resident line here)
    evicted c       the `pending != nil && !pending.isDone()` check of the extra eviction passes
    complete c v    `coReadFromL1` / `coWriteToL1` finish: `post()`, tables cleaned (v: the line
                    contents after the store; ignored by reads)
    snoop e l k     one closure appended by `coSnoop` runs to its end
    flush c         `cacheController.flush()`

  Core Lean only (the driver is compiled).
-/

namespace Model.Msi

/-! ## (a) Snapshot of the real machine and the invariant `MsiInv` -/

/-- one L1 line as exported by the hook: `[base, base+size)`, the number of data bytes, the data -/
structure SLine (D : Type) where
  base : Int
  size : Int
  dataLen : Int
  data : D
  deriving Repr

/-- per core: the L1 lines (all of `LRUCache.lines`, the over-capacity victim included) and the lines
on which this core has a request in progress (keys of `rlockSems`/`lockSems` while the read/write
coroutine is past its lock acquisition) -/
structure SCore (D : Type) where
  lines : List (SLine D)
  fill : List Int
  deriving Repr

/-- state codes: 0 Invalid, 1 Shared, 2 Modified (the Go `iota` values) -/
structure SState where
  core : Nat
  base : Int
  state : Nat
  deriving Repr, DecidableEq

structure SSem where
  base : Int
  read : Int
  write : Int
  deriving Repr, DecidableEq

structure Snapshot (D : Type) where
  lineSize : Int
  /-- protocol states (entries with state 0 may be present: Go keeps explicit `invalid` entries) -/
  states : List SState
  cores : List (SCore D)
  /-- contents of the next level (memory; on MVP-8 the L3 sub-line when L3 holds it, else memory)
  for every line base mentioned anywhere in the snapshot -/
  next : List (Int × D)
  sems : List SSem
  deriving Repr

namespace Snapshot
variable {D : Type}

def stateOf (s : Snapshot D) (c : Nat) (b : Int) : Nat :=
  match s.states.find? (fun e => e.core == c && e.base == b) with
  | some e => e.state
  | none => 0

def coreLines (s : Snapshot D) (c : Nat) : List (SLine D) :=
  match s.cores[c]? with
  | some k => k.lines
  | none => []

def coreFill (s : Snapshot D) (c : Nat) : List Int :=
  match s.cores[c]? with
  | some k => k.fill
  | none => []

def holds (s : Snapshot D) (c : Nat) (b : Int) : Bool := (s.coreLines c).any (fun l => l.base == b)

/-- "a transfer is in progress" for (core, line): the core's read or write coroutine has acquired the
line's lock and has not completed (the line is a key of its lock tables).  Only the direction
"L1 holds the line although its state is Invalid" is excused by it. -/
def inTransfer (s : Snapshot D) (c : Nat) (b : Int) : Bool := (s.coreFill c).contains b

/-- for each line at most one core holds it Modified and then no other core holds it Shared -/
def singleWriter (s : Snapshot D) : Bool :=
  s.states.all fun e =>
    e.state != 2 || s.states.all fun f => !(f.base == e.base && f.core != e.core) || f.state == 0

/-- a core's Shared line is byte-identical to the next level -/
def sharedEqualsNextLevel [DecidableEq D] (s : Snapshot D) : Bool :=
  s.states.all fun e =>
    e.state != 1 || (s.coreLines e.core).all fun l =>
      l.base != e.base ||
        match s.next.find? (fun p => p.1 == e.base) with
        | some p => decide (p.2 = l.data)
        | none => false

/-- a core holds a line in its L1 exactly when its state for it is not Invalid, outside a transfer:
(i) state ≠ Invalid → L1 holds it (never excused); (ii) L1 holds it → state ≠ Invalid or a
request of that core on that line is in progress -/
def holdsIffNotInvalid (s : Snapshot D) : Bool :=
  (s.states.all fun e => e.state == 0 || s.holds e.core e.base) &&
  (List.range s.cores.length).all fun c =>
    (s.coreLines c).all fun l => s.stateOf c l.base != 0 || s.inTransfer c l.base

/-- L1 never holds two copies of one line (no two resident lines overlap) -/
def noDuplicateLines (s : Snapshot D) : Bool :=
  s.cores.all fun k =>
    let rec go : List (SLine D) → Bool
      | [] => true
      | l :: rest => rest.all (fun m => decide (l.base + l.size ≤ m.base) || decide (m.base + m.size ≤ l.base)) && go rest
    go k.lines

/-- lines are size-aligned and of the line size -/
def aligned (s : Snapshot D) : Bool :=
  s.cores.all fun k => k.lines.all fun l =>
    decide (0 < s.lineSize) && decide (l.base % s.lineSize = 0) && decide (l.size = s.lineSize) && decide (l.dataLen = s.lineSize)

/-- per-line lock counters never go negative -/
def countersNonneg (s : Snapshot D) : Bool :=
  s.sems.all fun m => decide (0 ≤ m.read) && decide (0 ≤ m.write)

/-- semaphore sanity: never readers and a writer together, at most one writer -/
def semSane (s : Snapshot D) : Bool :=
  s.sems.all fun m => !(decide (0 < m.read) && decide (0 < m.write)) && decide (m.write ≤ 1)

/-- the clauses with their names, in reporting order -/
def clauses [DecidableEq D] (s : Snapshot D) : List (String × Bool) :=
  [("single_writer", s.singleWriter),
   ("shared_equals_next_level", s.sharedEqualsNextLevel),
   ("holds_iff_not_invalid", s.holdsIffNotInvalid),
   ("no_duplicate_lines", s.noDuplicateLines),
   ("aligned", s.aligned),
   ("counters_nonneg", s.countersNonneg),
   ("sem_sane", s.semSane)]

end Snapshot

/-- **the C06 invariant** of one snapshot -/
def MsiInv {D : Type} [DecidableEq D] (s : Snapshot D) : Bool :=
  s.singleWriter && s.sharedEqualsNextLevel && s.holdsIffNotInvalid && s.noDuplicateLines &&
  s.aligned && s.countersNonneg && s.semSane

/-- names of the violated clauses -/
def violated {D : Type} [DecidableEq D] (s : Snapshot D) : List String :=
  (s.clauses.filter (fun p => !p.2)).map (·.1)

/-! ## (b) The abstract protocol model -/

abbrev Core := Nat
/-- a line = its aligned address -/
abbrev Line := Nat

inductive St | I | S | M
  deriving DecidableEq, Repr, Inhabited

def St.code : St → Nat
  | .I => 0 | .S => 1 | .M => 2

inductive Kind | evict | writeBack
  deriving DecidableEq, Repr, Inhabited

/-- `comp.Sem` -/
structure Sem where
  read : Int
  write : Int
  deriving DecidableEq, Repr, Inhabited

/-- `RLock`: `if s.write > 0 { return false }; s.read++` -/
def Sem.rlock (s : Sem) : Option Sem :=
  if 0 < s.write then none else some { s with read := s.read + 1 }

/-- `Lock`: `if s.write > 0 || s.read > 0 { return false }; s.write++` -/
def Sem.lock (s : Sem) : Option Sem :=
  if 0 < s.write ∨ 0 < s.read then none else some { s with write := s.write + 1 }

/-- `RUnlock`: `s.read--; if s.read < 0 { panic }` — the new counter and whether Go panics -/
def Sem.runlock (s : Sem) : Sem × Bool := ({ s with read := s.read - 1 }, decide (s.read - 1 < 0))

/-- `Unlock` -/
def Sem.unlock (s : Sem) : Sem × Bool := ({ s with write := s.write - 1 }, decide (s.write - 1 < 0))

/-- what a request is, decided by `rLock`/`lock` from the requester's state at lock time -/
inductive Mode
  | rdFill   -- read, state Invalid: RLock, write-back requests, fetch, → Shared
  | rdHitS   -- read, state Shared: RLock, read from L1
  | rdHitM   -- read, state Modified: Lock (!), read from L1; recorded in rlockSems
  | wrFill   -- write, state Invalid: Lock, evict/write-back requests, fetch, → Modified
  | wrHitM   -- write, state Modified: Lock, write to L1
  | wrUpg    -- write, state Shared: Lock, invalidation requests, write to L1, → Modified
  deriving DecidableEq, Repr, Inhabited

/-- the lock is a read lock (`RLock`/`RUnlock` in `post`) -/
def Mode.shr : Mode → Bool
  | .rdFill | .rdHitS => true
  | _ => false

/-- the lock is the write lock (`Lock`/`Unlock` in `post`) -/
def Mode.excl (m : Mode) : Bool := !m.shr

/-- the line is fetched and pushed into L1 by this request -/
def Mode.fill : Mode → Bool
  | .rdFill | .wrFill => true
  | _ => false

/-- the request came through `coRead` (its semaphore is recorded in `rlockSems`, so `flush`
releases it with `RUnlock`) -/
def Mode.isRead : Mode → Bool
  | .rdFill | .rdHitS | .rdHitM => true
  | _ => false

/-- coroutine checkpoint of a request -/
inductive Stage (D : Type)
  | wait                                   -- waiting for `resp.pendings`
  | fetch (d : D)                          -- the line was read from the next level, memory latency running
  | pushed (v : Option (Line × Kind))      -- pushed into L1; waiting for the eviction of the extra line
  | l1                                     -- L1 latency running; `post()` has not run
  deriving Repr, Inhabited

structure Req (D : Type) where
  line : Line
  mode : Mode
  stage : Stage D
  /-- commands (to core `e`, on `line`, of kind `k`) this request still waits for -/
  pend : Core → Kind → Bool

structure State (D : Type) where
  /-- number of cores -/
  n : Nat
  st : Core → Line → St
  sem : Line → Sem
  cmd : Core → Line → Kind → Bool
  req : Core → Option (Req D)
  l1 : Core → Line → Option D
  mem : Line → D
  panic : Bool

inductive Action (D : Type)
  | start (c : Core) (l : Line) (w : Bool)
  | proceed (c : Core)
  | push (c : Core) (victim : Option Line)
  | evicted (c : Core)
  | complete (c : Core) (v : D)
  | snoop (e : Core) (l : Line) (k : Kind)
  | flush (c : Core)
  deriving Repr

def Action.isFlush {D : Type} : Action D → Bool
  | .flush _ => true
  | _ => false

section
variable {D : Type}

def init (n : Nat) (mem : Line → D) : State D :=
  { n := n, st := fun _ _ => .I, sem := fun _ => ⟨0, 0⟩, cmd := fun _ _ _ => false,
    req := fun _ => none, l1 := fun _ _ => none, mem := mem, panic := false }

/-- function update -/
def upd {α β : Type} [DecidableEq α] (f : α → β) (a : α) (b : β) : α → β :=
  fun x => if x = a then b else f x

def upd2 {α β γ : Type} [DecidableEq α] [DecidableEq β] (f : α → β → γ) (a : α) (b : β) (v : γ) : α → β → γ :=
  fun x y => if x = a ∧ y = b then v else f x y

/-- the commands a read of an Invalid line waits for: write-back by every other Modified holder
(`readRequest`) -/
def readPend (σ : State D) (c : Core) (l : Line) : Core → Kind → Bool :=
  fun e k => decide (e ≠ c) && (k == .writeBack && σ.st e l == .M)

/-- the commands a write waits for: write-back by Modified holders, eviction by Shared holders
(`writeRequest`, `invalidationRequest`) -/
def writePend (σ : State D) (c : Core) (l : Line) : Core → Kind → Bool :=
  fun e k => decide (e ≠ c) && ((k == .writeBack && σ.st e l == .M) || (k == .evict && σ.st e l == .S))

/-- `sendNewMSICommand` for every pending command (an existing command object is reused) -/
def addCmds (σ : State D) (l : Line) (p : Core → Kind → Bool) : Core → Line → Kind → Bool :=
  fun e l' k => σ.cmd e l' k || (decide (l' = l) && p e k)

/-- all pendings done (`for _, pending := range resp.pendings { if !pending.isDone() … }`) -/
def pendDone (σ : State D) (r : Req D) : Bool :=
  (List.range σ.n).all fun e => !(r.pend e .evict) && !(r.pend e .writeBack)

/-- the command (e, l, k) completed: every request waiting for it sees `isDone()` -/
def Req.clear (r : Req D) (c e : Core) (l : Line) (k : Kind) : Req D :=
  { r with
    pend := fun e' k' => if r.line = l ∧ e' = e ∧ k' = k then false else r.pend e' k'
    stage := match r.stage with
      | .pushed (some (l', k')) => if c = e ∧ l' = l ∧ k' = k then .pushed none else .pushed (some (l', k'))
      | s => s }

def startReq (σ : State D) (c : Core) (l : Line) (mode : Mode) (s' : Sem) (p : Core → Kind → Bool) : State D :=
  { σ with
    sem := upd σ.sem l s'
    cmd := addCmds σ l p
    req := upd σ.req c (some { line := l, mode := mode, stage := .wait, pend := p }) }

/-- `msi.rLock` / `msi.lock` + the bookkeeping of `coRead` / `coWrite` up to the first checkpoint -/
def start (σ : State D) (c : Core) (l : Line) (w : Bool) : State D :=
  if ¬ c < σ.n then σ else
  match σ.req c with
  | some _ => σ
  | none =>
    match w, σ.st c l with
    | false, .I =>
      match (σ.sem l).rlock with
      | none => σ
      | some s' => startReq σ c l .rdFill s' (readPend σ c l)
    | false, .M =>
      match (σ.sem l).lock with
      | none => σ
      | some s' => startReq σ c l .rdHitM s' (fun _ _ => false)
    | false, .S =>
      match (σ.sem l).rlock with
      | none => σ
      | some s' => startReq σ c l .rdHitS s' (fun _ _ => false)
    | true, .I =>
      match (σ.sem l).lock with
      | none => σ
      | some s' => startReq σ c l .wrFill s' (writePend σ c l)
    | true, .M =>
      match (σ.sem l).lock with
      | none => σ
      | some s' => startReq σ c l .wrHitM s' (fun _ _ => false)
    | true, .S =>
      match (σ.sem l).lock with
      | none => σ
      | some s' => startReq σ c l .wrUpg s' (writePend σ c l)

def setStage (σ : State D) (c : Core) (r : Req D) (s : Stage D) : State D :=
  { σ with req := upd σ.req c (some { r with stage := s }) }

/-- the pendings loop passes: hits go to the L1 access (`getFromL1` panics on a missing line), a read
fill panics if the line is already resident (`panic("invalid state")`), fills read the next level -/
def proceed (σ : State D) (c : Core) : State D :=
  match σ.req c with
  | none => σ
  | some r =>
    match r.stage with
    | .wait =>
      if pendDone σ r then
        match r.mode with
        | .rdHitS | .rdHitM =>
          match σ.l1 c r.line with
          | none => { σ with panic := true }
          | some _ => setStage σ c r .l1
        | .rdFill =>
          match σ.l1 c r.line with
          | some _ => { σ with panic := true }
          | none => setStage σ c r (.fetch (σ.mem r.line))
        | .wrFill => setStage σ c r (.fetch (σ.mem r.line))
        | .wrHitM | .wrUpg => setStage σ c r .l1
      else σ
    | _ => σ

/-- `pushLineToL1` (+ `evictExtraCacheLine` for the reported victim) -/
def push (σ : State D) (c : Core) (victim : Option Line) : State D :=
  match σ.req c with
  | none => σ
  | some r =>
    match r.stage with
    | .fetch d =>
      match σ.l1 c r.line with
      | some _ => setStage σ c r .l1        -- "No need to wait if it was already in L1"
      | none =>
        let σ1 : State D := { σ with l1 := upd2 σ.l1 c r.line (some d) }
        match victim with
        | none => setStage σ1 c r .l1
        | some v =>
          if v = r.line then setStage σ1 c r .l1 else
          match σ.l1 c v with
          | none => setStage σ1 c r .l1
          | some _ =>
            match σ.st c v with
            | .I => setStage σ1 c r .l1     -- `evictExtraCacheLine` returns nil
            | .S => setStage { σ1 with cmd := fun e l k => σ1.cmd e l k || (decide (e = c) && decide (l = v) && k == .evict) } c r (.pushed (some (v, .evict)))
            | .M => setStage { σ1 with cmd := fun e l k => σ1.cmd e l k || (decide (e = c) && decide (l = v) && k == .writeBack) } c r (.pushed (some (v, .writeBack)))
    | _ => σ

def evicted (σ : State D) (c : Core) : State D :=
  match σ.req c with
  | none => σ
  | some r =>
    match r.stage with
    | .pushed none => setStage σ c r .l1
    | _ => σ

/-- `coReadFromL1` / `coWriteToL1` complete: `writeToL1` (panics on a missing line), `post()`, reset -/
def complete (σ : State D) (c : Core) (v : D) : State D :=
  match σ.req c with
  | none => σ
  | some r =>
    match r.stage with
    | .l1 =>
      let l := r.line
      let σ0 : State D := { σ with req := upd σ.req c none }
      match r.mode with
      | .rdFill =>
        let (s', bad) := (σ.sem l).runlock
        { σ0 with st := upd2 σ.st c l .S, sem := upd σ.sem l s', panic := bad }
      | .rdHitS =>
        let (s', bad) := (σ.sem l).runlock
        { σ0 with sem := upd σ.sem l s', panic := bad }
      | .rdHitM =>
        let (s', bad) := (σ.sem l).unlock
        { σ0 with sem := upd σ.sem l s', panic := bad }
      | .wrFill | .wrUpg =>
        match σ.l1 c l with
        | none => { σ with panic := true }
        | some _ =>
          let (s', bad) := (σ.sem l).unlock
          { σ0 with l1 := upd2 σ.l1 c l (some v), st := upd2 σ.st c l .M, sem := upd σ.sem l s', panic := bad }
      | .wrHitM =>
        match σ.l1 c l with
        | none => { σ with panic := true }
        | some _ =>
          let (s', bad) := (σ.sem l).unlock
          { σ0 with l1 := upd2 σ.l1 c l (some v), sem := upd σ.sem l s', panic := bad }
    | _ => σ

/-- one snoop closure runs to its end: evict, or write back then evict; the command's callback sets
the state Invalid and deletes the command -/
def snoop (σ : State D) (e : Core) (l : Line) (k : Kind) : State D :=
  if σ.cmd e l k then
    let σ1 : State D :=
      { σ with
        l1 := upd2 σ.l1 e l none
        st := upd2 σ.st e l .I
        cmd := fun e' l' k' => if e' = e ∧ l' = l ∧ k' = k then false else σ.cmd e' l' k'
        req := fun c => (σ.req c).map (fun r => r.clear c e l k) }
    match k with
    | .evict => σ1
    | .writeBack =>
      match σ.l1 e l with
      | none => { σ with panic := true }       -- `panic("memory address should exist")`
      | some d => { σ1 with mem := upd σ.mem l d }
  else σ

/-- `cacheController.flush()`: both coroutines reset, every recorded lock released — with `RUnlock`
for the read table, `Unlock` for the write table -/
def flush (σ : State D) (c : Core) : State D :=
  match σ.req c with
  | none => σ
  | some r =>
    let (s', bad) := if r.mode.isRead then (σ.sem r.line).runlock else (σ.sem r.line).unlock
    { σ with req := upd σ.req c none, sem := upd σ.sem r.line s', panic := bad }

/-- the transition function; a panicked machine does not move -/
def step (σ : State D) (a : Action D) : State D :=
  if σ.panic then σ else
  match a with
  | .start c l w => start σ c l w
  | .proceed c => proceed σ c
  | .push c v => push σ c v
  | .evicted c => evicted σ c
  | .complete c v => complete σ c v
  | .snoop e l k => snoop σ e l k
  | .flush c => flush σ c

def run (σ : State D) (as : List (Action D)) : State D := as.foldl step σ

/-- reachable states -/
inductive Reachable (n : Nat) (mem : Line → D) : State D → Prop
  | init : Reachable n mem (init n mem)
  | step {σ} (a : Action D) : Reachable n mem σ → Reachable n mem (step σ a)

/-! ### Projection of a model state to a snapshot (over a finite list of lines) -/

/-- the lines with a transfer in progress for core `c` (the key of its lock table) -/
def fillOf (σ : State D) (c : Core) : List Int :=
  match σ.req c with
  | some r => [Int.ofNat r.line]
  | none => []

/-- the snapshot of a model state restricted to the lines `ls`: every line has size 1 and
base = its number (addresses inside a line are not modelled) -/
def State.snapshot (σ : State D) (ls : List Line) : Snapshot D :=
  { lineSize := 1
    states := (List.range σ.n).flatMap fun c => ls.map fun l => ⟨c, Int.ofNat l, (σ.st c l).code⟩
    cores := (List.range σ.n).map fun c =>
      { lines := ls.filterMap fun l => (σ.l1 c l).map fun d => ⟨Int.ofNat l, 1, 1, d⟩
        fill := fillOf σ c }
    next := ls.map fun l => (Int.ofNat l, σ.mem l)
    sems := ls.map fun l => ⟨Int.ofNat l, (σ.sem l).read, (σ.sem l).write⟩ }

end

end Model.Msi

/-
  Model/ParserRef.lean — the reference notions the statements of Props/C11.lean are
  written in (NOT part of the model of risc.Parse; nothing here is executed by the
  parser model):

  * the independent line classifier (`isBlankOrComment`, `isLabelLine`, `isInstrLine`,
    `labelName`, `instrLines`);
  * the layout edits of clause (e) (`LayoutEdit`);
  * the canonical pretty-printer of clause (d) (`pretty`) with its well-formedness
    predicate (`WfApp`).

  Core Lean only.
-/
import MajoranaVerif.Model.Parser
open GoInt

namespace Model.Parser

/-! ### lines and their three-way classification -/

/-- the lines of a text: `strings.Split(s, "\n")` -/
def lines (s : Bytes) : List Bytes := splitOn 0x0A s

/-- nothing but white space, or the first non-space character is `#` -/
def isBlankOrComment (raw : Bytes) : Bool :=
  let t := trimSpace raw
  t.isEmpty || t.head? == some 0x23

/-- `name:` — no space inside, last character a colon -/
def isLabelLine (raw : Bytes) : Bool :=
  let t := trimSpace raw
  !isBlankOrComment raw && !t.contains 0x20 && t.getLast? == some 0x3A

/-- everything else is an instruction line -/
def isInstrLine (raw : Bytes) : Bool := !isBlankOrComment raw && !isLabelLine raw

/-- the name a label line defines -/
def labelName (raw : Bytes) : Option Bytes :=
  if isLabelLine raw then some (trimSpace raw).dropLast else none

def instrLines (s : Bytes) : List Bytes := (lines s).filter isInstrLine

/-! ### layout edits -/

/-- spaces and tabs only -/
def isPad (ws : Bytes) : Bool := ws.all fun c => c == 0x20 || c == 0x09
def noNL (c : Bytes) : Bool := !c.contains 0x0A
def isLetter (c : UInt8) : Bool := (0x41 ≤ c && c ≤ 0x5A) || (0x61 ≤ c && c ≤ 0x7A)
/-- the other case of an ASCII letter -/
def flipCase (c : UInt8) : UInt8 := if isLetter c then c ^^^ 0x20 else c

/-- flip the case of the letters selected by the mask -/
def flipWith : List Bool → Bytes → Bytes
  | m :: ms, c :: cs => (if m then flipCase c else c) :: flipWith ms cs
  | _, cs => cs

def isPadByte (c : UInt8) : Bool := c == 0x20 || c == 0x09

/-- `raw = pre ++ word ++ rest`: `pre` spaces/tabs, `word` a non-empty run of ASCII letters
(the mnemonic), `rest` empty or starting with a space -/
def caseSplit (raw : Bytes) : Option (Bytes × Bytes × Bytes) :=
  let pre := raw.takeWhile isPadByte
  let body := raw.dropWhile isPadByte
  let word := body.takeWhile isLetter
  let rest := body.dropWhile isLetter
  if !word.isEmpty && (rest.isEmpty || rest.head? == some 0x20) then some (pre, word, rest) else none

def insertAt (i : Nat) (x : Bytes) (ls : List Bytes) : List Bytes := ls.take i ++ x :: ls.drop i

def editAt : Nat → (Bytes → Bytes) → List Bytes → List Bytes
  | _, _, [] => []
  | 0, f, a :: r => f a :: r
  | i + 1, f, a :: r => a :: editAt i f r

/-- a line consisting of its mnemonic alone, the mnemonic being `j` in some spelling: the one
place where the parser lets the mnemonic's own spelling reach the result -/
def bareJ (raw : Bytes) : Bool :=
  (indexOf 0x20 (trimSpace raw)).isNone && mnemonicOf (toLower (trimSpace raw)) == some .J

inductive LayoutEdit where
  /-- insert a blank line (any white space) before line `i` -/
  | insertBlank (i : Nat) (ws : Bytes)
  /-- insert the comment line `ws # c` before line `i` -/
  | insertComment (i : Nat) (ws c : Bytes)
  /-- indent line `i` by spaces / tabs -/
  | padLeft (i : Nat) (ws : Bytes)
  /-- append spaces / tabs to line `i` -/
  | padRight (i : Nat) (ws : Bytes)
  /-- append ` #c` to line `i` if it carries operands (contains a space once trimmed) -/
  | trailingComment (i : Nat) (c : Bytes)
  /-- change the case of the mnemonic letters of line `i` selected by the mask -/
  | mnemonicCase (i : Nat) (mask : List Bool)

/-- the edit on the list of lines; an edit whose side condition fails changes nothing -/
def LayoutEdit.applyLines : LayoutEdit → List Bytes → List Bytes
  | .insertBlank i ws, ls => if trimSpace ws = [] ∧ noNL ws then insertAt i ws ls else ls
  | .insertComment i ws c, ls => if isPad ws ∧ noNL c then insertAt i (ws ++ 0x23 :: c) ls else ls
  | .padLeft i ws, ls => if isPad ws then editAt i (fun raw => ws ++ raw) ls else ls
  | .padRight i ws, ls => if isPad ws then editAt i (fun raw => raw ++ ws) ls else ls
  | .trailingComment i c, ls =>
    if noNL c then
      editAt i (fun raw => if (trimSpace raw).contains 0x20 then raw ++ 0x20 :: 0x23 :: c else raw) ls
    else ls
  | .mnemonicCase i mask, ls =>
    editAt i (fun raw =>
      match caseSplit raw with
      | some (pre, w, rest) => pre ++ flipWith mask w ++ rest
      | none => raw) ls

/-- the edit on the text -/
def LayoutEdit.apply (e : LayoutEdit) (s : Bytes) : Bytes := joinWith 0x0A (e.applyLines (lines s))

/-- the edit changes the case of a bare `j` line -/
def LayoutEdit.hitsBareJ : LayoutEdit → Bytes → Bool
  | .mnemonicCase i _, s => match (lines s)[i]? with
    | some raw => bareJ raw
    | none => false
  | _, _ => false

/-! ### the canonical printer -/

/-- ABI name of register `r` -/
def regName (r : Nat) : Bytes := ascii (regNames.getD r "")

/-- decimal digits, least significant first (`fuel > n` suffices) -/
def digitsRev : Nat → Nat → Bytes
  | 0, _ => []
  | fuel + 1, n => (48 + n % 10).toUInt8 :: (if n < 10 then [] else digitsRev fuel (n / 10))

def natDigits (n : Nat) : Bytes := (digitsRev (n + 1) n).reverse

/-- signed decimal rendering of a Go `int32` -/
def showImm (v : Word) : Bytes :=
  if v.toInt < 0 then 0x2D :: natDigits (-v.toInt).toNat else natDigits v.toInt.toNat

/-- operands separated by `, ` -/
def commaSep : List Bytes → Bytes
  | [] => []
  | [a] => a
  | a :: b :: r => a ++ 0x2C :: 0x20 :: commaSep (b :: r)

/-- canonical text of one instruction: lower-case mnemonic, one space, operands separated by
`, `, `off(reg)` for memory operands (`sh` in this assembler's own three-operand form) -/
def prettyInstr : Gen.Instr → Bytes
  | .add_ o => ascii "add" ++ 0x20 :: commaSep [regName o.rd, regName o.rs1, regName o.rs2]
  | .addi_ o => ascii "addi" ++ 0x20 :: commaSep [regName o.rd, regName o.rs, showImm o.imm]
  | .and_ o => ascii "and" ++ 0x20 :: commaSep [regName o.rd, regName o.rs1, regName o.rs2]
  | .andi_ o => ascii "andi" ++ 0x20 :: commaSep [regName o.rd, regName o.rs, showImm o.imm]
  | .auipc_ o => ascii "auipc" ++ 0x20 :: commaSep [regName o.rd, showImm o.imm]
  | .beq_ o => ascii "beq" ++ 0x20 :: commaSep [regName o.rs1, regName o.rs2, unlatin1 o.label]
  | .beqz_ o => ascii "beqz" ++ 0x20 :: commaSep [regName o.rs, unlatin1 o.label]
  | .bge_ o => ascii "bge" ++ 0x20 :: commaSep [regName o.rs1, regName o.rs2, unlatin1 o.label]
  | .bgeu_ o => ascii "bgeu" ++ 0x20 :: commaSep [regName o.rs1, regName o.rs2, unlatin1 o.label]
  | .ble_ o => ascii "ble" ++ 0x20 :: commaSep [regName o.rs1, regName o.rs2, unlatin1 o.label]
  | .blt_ o => ascii "blt" ++ 0x20 :: commaSep [regName o.rs1, regName o.rs2, unlatin1 o.label]
  | .bltu_ o => ascii "bltu" ++ 0x20 :: commaSep [regName o.rs1, regName o.rs2, unlatin1 o.label]
  | .bne_ o => ascii "bne" ++ 0x20 :: commaSep [regName o.rs1, regName o.rs2, unlatin1 o.label]
  | .bnez_ o => ascii "bnez" ++ 0x20 :: commaSep [regName o.rs, unlatin1 o.label]
  | .div_ o => ascii "div" ++ 0x20 :: commaSep [regName o.rd, regName o.rs1, regName o.rs2]
  | .j_ o => ascii "j" ++ 0x20 :: commaSep [unlatin1 o.label]
  | .jal_ o => ascii "jal" ++ 0x20 :: commaSep [regName o.rd, unlatin1 o.label]
  | .jalr_ o => ascii "jalr" ++ 0x20 :: commaSep [regName o.rd, regName o.rs, showImm o.imm]
  | .lui_ o => ascii "lui" ++ 0x20 :: commaSep [regName o.rd, showImm o.imm]
  | .lb_ o => ascii "lb" ++ 0x20 :: commaSep [regName o.rd, showImm o.offset ++ 0x28 :: regName o.rs ++ [0x29]]
  | .lh_ o => ascii "lh" ++ 0x20 :: commaSep [regName o.rd, showImm o.offset ++ 0x28 :: regName o.rs ++ [0x29]]
  | .li_ o => ascii "li" ++ 0x20 :: commaSep [regName o.rd, showImm o.imm]
  | .lw_ o => ascii "lw" ++ 0x20 :: commaSep [regName o.rd, showImm o.offset ++ 0x28 :: regName o.rs ++ [0x29]]
  | .nop_ _ => ascii "nop"
  | .mul_ o => ascii "mul" ++ 0x20 :: commaSep [regName o.rd, regName o.rs1, regName o.rs2]
  | .mv_ o => ascii "mv" ++ 0x20 :: commaSep [regName o.rd, regName o.rs]
  | .or_ o => ascii "or" ++ 0x20 :: commaSep [regName o.rd, regName o.rs1, regName o.rs2]
  | .ori_ o => ascii "ori" ++ 0x20 :: commaSep [regName o.rd, regName o.rs, showImm o.imm]
  | .rem_ o => ascii "rem" ++ 0x20 :: commaSep [regName o.rd, regName o.rs1, regName o.rs2]
  | .ret_ _ => ascii "ret"
  | .sb_ o => ascii "sb" ++ 0x20 :: commaSep [regName o.rs, showImm o.offset ++ 0x28 :: regName o.rd ++ [0x29]]
  | .sh_ o => ascii "sh" ++ 0x20 :: commaSep [regName o.rs, showImm o.offset, regName o.rd]
  | .sll_ o => ascii "sll" ++ 0x20 :: commaSep [regName o.rd, regName o.rs1, regName o.rs2]
  | .slli_ o => ascii "slli" ++ 0x20 :: commaSep [regName o.rd, regName o.rs, showImm o.imm]
  | .slt_ o => ascii "slt" ++ 0x20 :: commaSep [regName o.rd, regName o.rs1, regName o.rs2]
  | .sltu_ o => ascii "sltu" ++ 0x20 :: commaSep [regName o.rd, regName o.rs1, regName o.rs2]
  | .slti_ o => ascii "slti" ++ 0x20 :: commaSep [regName o.rd, regName o.rs, showImm o.imm]
  | .sra_ o => ascii "sra" ++ 0x20 :: commaSep [regName o.rd, regName o.rs1, regName o.rs2]
  | .srai_ o => ascii "srai" ++ 0x20 :: commaSep [regName o.rd, regName o.rs, showImm o.imm]
  | .srl_ o => ascii "srl" ++ 0x20 :: commaSep [regName o.rd, regName o.rs1, regName o.rs2]
  | .srli_ o => ascii "srli" ++ 0x20 :: commaSep [regName o.rd, regName o.rs, showImm o.imm]
  | .sub_ o => ascii "sub" ++ 0x20 :: commaSep [regName o.rd, regName o.rs1, regName o.rs2]
  | .sw_ o => ascii "sw" ++ 0x20 :: commaSep [regName o.rs, showImm o.offset ++ 0x28 :: regName o.rd ++ [0x29]]
  | .xor_ o => ascii "xor" ++ 0x20 :: commaSep [regName o.rd, regName o.rs1, regName o.rs2]
  | .xori_ o => ascii "xori" ++ 0x20 :: commaSep [regName o.rd, regName o.rs, showImm o.imm]

def regOk (r : Nat) : Bool := r < 32

/-- a label that can be written down as an operand: not empty, no surrounding white space, no
`,`, `#` or newline; and a Lean string in the range of the byte embedding -/
def labelOk (s : String) : Bool :=
  let b := unlatin1 s
  latin1 b == s && !b.isEmpty && trimSpace b == b && !b.contains 0x2C && !b.contains 0x23 && !b.contains 0x0A

/-- what the printer can print: registers 0…31, printable labels, forward slot empty -/
def WfInstr : Gen.Instr → Bool
  | .add_ o => regOk o.rd && regOk o.rs1 && regOk o.rs2 && o.forward == default
  | .addi_ o => regOk o.rd && regOk o.rs && o.forward == default
  | .and_ o => regOk o.rd && regOk o.rs1 && regOk o.rs2 && o.forward == default
  | .andi_ o => regOk o.rd && regOk o.rs && o.forward == default
  | .auipc_ o => regOk o.rd
  | .beq_ o => regOk o.rs1 && regOk o.rs2 && labelOk o.label && o.forward == default
  | .beqz_ o => regOk o.rs && labelOk o.label && o.forward == default
  | .bge_ o => regOk o.rs1 && regOk o.rs2 && labelOk o.label && o.forward == default
  | .bgeu_ o => regOk o.rs1 && regOk o.rs2 && labelOk o.label && o.forward == default
  | .ble_ o => regOk o.rs1 && regOk o.rs2 && labelOk o.label && o.forward == default
  | .blt_ o => regOk o.rs1 && regOk o.rs2 && labelOk o.label && o.forward == default
  | .bltu_ o => regOk o.rs1 && regOk o.rs2 && labelOk o.label && o.forward == default
  | .bne_ o => regOk o.rs1 && regOk o.rs2 && labelOk o.label && o.forward == default
  | .bnez_ o => regOk o.rs && labelOk o.label && o.forward == default
  | .div_ o => regOk o.rd && regOk o.rs1 && regOk o.rs2 && o.forward == default
  | .j_ o => labelOk o.label
  | .jal_ o => regOk o.rd && labelOk o.label && o.forward == default
  | .jalr_ o => regOk o.rd && regOk o.rs && o.forward == default
  | .lui_ o => regOk o.rd
  | .lb_ o => regOk o.rd && regOk o.rs && o.forward == default
  | .lh_ o => regOk o.rd && regOk o.rs && o.forward == default
  | .li_ o => regOk o.rd
  | .lw_ o => regOk o.rd && regOk o.rs && o.forward == default
  | .nop_ _ => true
  | .mul_ o => regOk o.rd && regOk o.rs1 && regOk o.rs2 && o.forward == default
  | .mv_ o => regOk o.rd && regOk o.rs && o.forward == default
  | .or_ o => regOk o.rd && regOk o.rs1 && regOk o.rs2 && o.forward == default
  | .ori_ o => regOk o.rd && regOk o.rs && o.forward == default
  | .rem_ o => regOk o.rd && regOk o.rs1 && regOk o.rs2 && o.forward == default
  | .ret_ _ => true
  | .sb_ o => regOk o.rs && regOk o.rd && o.forward == default
  | .sh_ o => regOk o.rs && regOk o.rd && o.forward == default
  | .sll_ o => regOk o.rd && regOk o.rs1 && regOk o.rs2 && o.forward == default
  | .slli_ o => regOk o.rd && regOk o.rs && o.forward == default
  | .slt_ o => regOk o.rd && regOk o.rs1 && regOk o.rs2 && o.forward == default
  | .sltu_ o => regOk o.rd && regOk o.rs1 && regOk o.rs2 && o.forward == default
  | .slti_ o => regOk o.rd && regOk o.rs && o.forward == default
  | .sra_ o => regOk o.rd && regOk o.rs1 && regOk o.rs2 && o.forward == default
  | .srai_ o => regOk o.rd && regOk o.rs && o.forward == default
  | .srl_ o => regOk o.rd && regOk o.rs1 && regOk o.rs2 && o.forward == default
  | .srli_ o => regOk o.rd && regOk o.rs && o.forward == default
  | .sub_ o => regOk o.rd && regOk o.rs1 && regOk o.rs2 && o.forward == default
  | .sw_ o => regOk o.rs && regOk o.rd && o.forward == default
  | .xor_ o => regOk o.rd && regOk o.rs1 && regOk o.rs2 && o.forward == default
  | .xori_ o => regOk o.rd && regOk o.rs && o.forward == default


/-- the label lines `name:` that belong in front of instruction `k` (address `4k`) -/
def labelLinesAt (entries : List (String × Word)) (k : Nat) : List Bytes :=
  (entries.filter fun e => e.2.toNat == 4 * k).map fun e => unlatin1 e.1 ++ [0x3A]

/-- the lines of the program from instruction `k` on -/
def prettyFrom (entries : List (String × Word)) : Nat → List Gen.Instr → List Bytes
  | k, [] => labelLinesAt entries k
  | k, i :: r => labelLinesAt entries k ++ prettyInstr i :: prettyFrom entries (k + 1) r

/-- canonical text of a program: each label on its own line in front of the instruction it
names, one instruction per line -/
def pretty (app : App) : Bytes := joinWith 0x0A (prettyFrom app.labels.entries 0 app.instrs)

/-- a label name the three-line classifier reads back from the line `name:` -/
def labelKeyOk (s : String) : Bool :=
  let b := unlatin1 s
  latin1 b == s && labelName (b ++ [0x3A]) == some b && !b.contains 0x0A

def distinctKeys : List (String × Word) → Bool
  | [] => true
  | e :: r => !(r.map (·.1)).contains e.1 && distinctKeys r

/-- a program the printer can print: printable instructions; every label a printable name, at
an instruction boundary inside the program (or just behind it), defined once -/
def WfApp (app : App) : Bool :=
  app.instrs.all WfInstr &&
  app.labels.entries.all (fun e => labelKeyOk e.1 && e.2.toNat % 4 == 0 && decide (e.2.toNat / 4 ≤ app.instrs.length)) &&
  distinctKeys app.labels.entries

end Model.Parser

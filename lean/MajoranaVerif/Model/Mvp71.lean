/-
  Model/Mvp71.lean — cycle-accurate model of proc/mvp7-1: MVP-7.0 plus "send the access to the core that holds the line".

  The diff of the directories `proc/mvp7-0` and `proc/mvp7-1`, file by file:
    msi.go  `staleState`, `copyState()`, the order `msiEntry.less()` used by `ds.StableMapIteration`
    cc.go   `coSnoop`: `cc.msi.staleState = true` when an evict request is taken up
    cu.go   at the head of `cycle`: `if u.msi.staleState { copy the states; staleState = false; return }` — the whole control
            cycle is skipped (and `pushedRunnersInPreviousCycle` is NOT renewed: it keeps the runners of the cycle before);
            `pushRunner` sets `runner.ExecutionUnitID = getExecutionUnitIDPreference(runner)`: for a load the first core
            (sorted) that holds the line shared or modified in the COPY, for a store the first that holds it modified; the
            addresses come from `MemoryRead` / `MemoryWrite(ctx, runner.SequenceID)` on the register values of that moment.
            `executionUnitIDCache` (an LRU of cores) is never filled: its `Find` always fails.
    eu.go   `start` takes from the bus with `Pick` (the first instruction without preference or with this core's);
            `Run` / `MemoryRead` are called with the runner's sequence id (tagged register reads in the rename tables);
            `isPendingMessages()`; the `Pre` hook panics when the unit is dropped while such a message waits
    cpu.go  the three drain loops cycle a unit when `!eu.isEmpty() || eu.isPendingMessages()`
    bu.go, btb.go, du.go, fu.go, mmu.go, wu.go: same code.
  All of it is in `Model.Mvp61` / `Model.Mvp70` behind the configuration flag `Model.Mvp61.State.v71`; this file sets it.
  Go map iterations: `getLineReaders` / `getLineWriter` iterate in SORTED order (`ds.StableMapIteration`): deterministic;
  `copyState` copies a map.  Nothing new depends on map order.
-/
import MajoranaVerif.Model.Mvp70
open GoInt

namespace Model.Mvp71
open Model.Seq (App Halt)
open Model.Mvp70 (State Result runFrom)

def cfg71 : Model.Mmu.Config :=
  { l1ILineSize := Gen.Consts.mvp7_1.l1ICacheLineSize, l1ISize := Gen.Consts.mvp7_1.l1ICacheSize,
    l1DLineSize := Gen.Consts.mvp7_1.l1DCacheLineSize, l1DSize := Gen.Consts.mvp7_1.l1DCacheSize }

def constsAgree : Bool :=
  decide (cfg71 = Model.Mvp70.cfg70) && decide (Gen.Consts.mvp7_1.pendingLength = Gen.Consts.mvp6_1.pendingLength)

def init (ctx : Model.Context) (par : Nat) : M State :=
  if !constsAgree then throw (.panic "proc/mvp7-1 constants differ from proc/mvp7-0: Model.Mvp71 must be revised")
  else do
    let s ← Model.Mvp70.init ctx par
    pure { s with base := { s.base with v71 := true } }

def run (app : App) (ctx : Model.Context) (par : Nat) (fuel : Nat) : Result :=
  match init ctx par with
  | .ok s => runFrom app fuel s 0
  | .error _ => { halt := some (.panic "NewCPU"), final := default, ticks := 0 }

end Model.Mvp71

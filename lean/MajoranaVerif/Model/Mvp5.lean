/-
  Model/Mvp5.lean — hand-written, executable, cycle-accurate model of proc/mvp5: MVP-4 plus a branch
  target buffer (btb.go), a decode unit that stalls behind an unconditional jump until the jump is
  resolved (du.go: `pendingBranchResolution`), a branch unit that consults the BTB and redirects the fetch
  unit (bu.go), a fetch unit that can be told to clean its output bus (fu.go: `toCleanPending`), and an
  execute unit that notifies the branch unit when a jump is resolved (eu.go).  wu.go is identical to
  MVP-4's, mmu.go is the same code.

  RE-USE.  Everything the two packages have literally in common is taken from `Model.Mvp4`, not copied:
  the state of MVP-4 is the field `base` of this machine's state (`Model.Mvp4.State`: context, scoreboards,
  the three buses, the units, L1I/L1D, the cycle counter, the position in the `Run` loop), and
  `fetchCore` (the body of `fetchUnit.cycle` after the new cleaning step), `instrAt`, `euTake`, `writeCycle`,
  `drainCond`, `isComplete`, `finish`, `flushAll`, `euQueue`, the scoreboard functions, `BranchUnit.shouldFlushPipeline`
  are MVP-4's.  New here: `toCleanPending`, `duPending`, the BTB, `assert`, `notifyJumpAddressResolved`,
  `executeUnit.flush`, and the functions of eu.go / cpu.go that call them (`euRun`, `euIssue`, `euMemDone`,
  `euStep`, `executeCycle`, `afterExecute`, `cycleM`), which differ from MVP-4's only in those calls.

  CONSTANTS.  MVP-4's functions read `Model.Mmu.mvp4Config` (= `Gen.Consts.mvp4.*`).  They are MVP-5's
  functions exactly when `Gen.Consts.mvp5.*` has the same values; `init` checks this (`constsAgree`, on
  the REGENERATED constants) and reports a panic otherwise, so a change of a constant in proc/mvp5 alone
  breaks the tie instead of being missed.  The BTB size is the literal `4` in `NewCPU` (cpu.go:40).

  Same granularity as `Model.Mvp4`: ONE CALL OF `cycle` = ONE `ctx.VerifTick()`.

  Order of effects: in `executeUnit.run` Go calls `notifyJumpAddressResolved` (BTB, fetch unit, decode
  unit) BEFORE `shouldFlushPipeline` (`toCheck` of the branch unit); the model takes MVP-4's `euQueue`
  (which ends with `shouldFlushPipeline`) and applies the notification afterwards — the two touch disjoint state.
-/
import MajoranaVerif.Model.Mvp4
open GoInt

namespace Model.Mvp5
open Model.Seq (App Halt)
open Model.Mvp4 (Runner ExecUnit BranchUnit EuOut Event Mode)

/-- the package constants of proc/mvp5 -/
def cfg : Model.Mmu.Config := Model.Mmu.mvp5Config

/-- the constants of proc/mvp5 are those of proc/mvp4 (so that MVP-4's functions are MVP-5's) -/
def constsAgree : Bool := decide (Model.Mmu.mvp5Config = Model.Mmu.mvp4Config)

/-- `newBTBBranchUnit(4, fu, du)` in `NewCPU` -/
def btbSize : Nat := 4

/-- the whole machine: what MVP-4 has, plus `fetchUnit.toCleanPending`, `decodeUnit.pendingBranchResolution`
and `branchTargetBuffer.buffer` (oldest entry first) -/
structure State where
  base : Model.Mvp4.State
  toCleanPending : Bool := false
  duPending : Bool := false
  btb : List (Word × Word) := []
  deriving Inhabited

/-! ## branch target buffer (btb.go) -/

/-- `branchTargetBuffer.get(pc)` -/
def btbGet (b : List (Word × Word)) (pc : Word) : Option Word :=
  (b.find? fun e => e.1 == pc).map (·.2)

/-- `branchTargetBuffer.add(pc, pcDest)`: update in place, else append, dropping the oldest entry when full -/
def btbAdd (b : List (Word × Word)) (pc pcDest : Word) : List (Word × Word) :=
  if b.any (fun e => e.1 == pc) then b.map fun e => if e.1 == pc then (pc, pcDest) else e
  else if b.length != btbSize then b ++ [(pc, pcDest)]
  else b.drop 1 ++ [(pc, pcDest)]

/-! ## fetch unit (fu.go) -/

/-- `fetchUnit.reset(pc, true)` -/
def fuReset (s : State) (pc : Word) : State :=
  { s with base := { s.base with fu := { s.base.fu with complete := false, pc := pc } }, toCleanPending := true }

/-- `fetchUnit.cycle`: `if fu.toCleanPending { outBus.Clean(); fu.toCleanPending = false }`, then MVP-4's body -/
def fetchCycle (app : App) (s : State) : M State := do
  let bus := if s.toCleanPending then s.base.decodeBus.clean else s.base.decodeBus
  let (fu, mmu, bus) ← Model.Mvp4.fetchCore app s.base.fu s.base.mmu bus
  pure { s with base := { s.base with fu := fu, mmu := mmu, decodeBus := bus }, toCleanPending := false }

/-! ## decode unit (du.go) -/

/-- `decodeUnit.cycle`: nothing while a jump is unresolved; decoding an unconditional jump sets the flag -/
def decodeCycle (app : App) (s : State) : M State :=
  if s.duPending then pure s
  else if !s.base.executeBus.canAdd then pure s
  else
    let (x, inBus) := s.base.decodeBus.get
    match x with
    | none => pure { s with base := { s.base with decodeBus := inBus } }
    | some pc => do
      let i ← Model.Mvp4.instrAt app pc
      pure { s with base := { s.base with decodeBus := inBus, executeBus := s.base.executeBus.add { instr := i, pc := pc } }
                    duPending := i.instructionType.IsUnconditionalBranch || s.duPending }

/-! ## branch unit (bu.go) -/

/-- `btbBranchUnit.assert(runner)` -/
def assert (s : State) (r : Runner) : State :=
  let t := r.instr.instructionType
  if t.IsUnconditionalBranch then
    match btbGet s.btb r.pc with
    | none => { s with base := { s.base with bu := { toCheck := true, expectation := BitVec.ofInt 32 (-1) } } }
    | some nextPc =>
      fuReset { s with base := { s.base with bu := { toCheck := true, expectation := nextPc } } } nextPc
  else if t.IsConditionalBranch then
    { s with base := { s.base with bu := { toCheck := true, expectation := r.pc + 4#32 } } }
  else { s with base := { s.base with bu := { s.base.bu with toCheck := false } } }

/-- `btbBranchUnit.notifyJumpAddressResolved(pc, pcTo)` -/
def notifyJumpAddressResolved (s : State) (pc pcTo : Word) : State :=
  { fuReset { s with btb := btbAdd s.btb pc pcTo } pcTo with duPending := false }

/-! ## execute unit (eu.go) -/

/-- the end of `executeUnit.run` for a result that does not go to L1D: MVP-4's `euQueue`, plus the
notification of the branch unit when the instruction is an unconditional jump -/
def euQueue (s : State) (r : Runner) (e : Gen.Execution) (eu : ExecUnit) (mmu : Model.Mmu.Mmu) : State × EuOut :=
  let (b, out) := Model.Mvp4.euQueue s.base r e eu mmu
  let s := { s with base := b }
  (if r.instr.instructionType.IsUnconditionalBranch then notifyJumpAddressResolved s r.pc e.NextPc else s, out)

/-- `executeUnit.run(ctx, app, outBus, memory)` followed by the deferred `eu.runner = {}` -/
def euRun (app : App) (s : State) (r : Runner) (memory : List Byte) : M (State × EuOut) :=
  let s := { s with base := { s.base with executed := s.base.executed + 1 } }
  match r.instr.run s.base.ctx app.labels r.pc memory 0#32 with
  | .error (.panic w) => throw (.panic w)
  | .error (.err _) => pure ({ s with base := { s.base with eu := { s.base.eu with runner := none } } }, .err)
  | .ok e =>
    if e.Return then pure ({ s with base := { s.base with eu := { s.base.eu with runner := none } } }, .ret)
    else do
      let eu := { s.base.eu with processing := false, runner := none }
      let (inL1D, mmu) ← (if e.MemoryChange then Model.Mmu.doesExecutionMemoryChangesExistsInL1D s.base.mmu e
                           else pure (false, s.base.mmu) : M (Bool × Model.Mmu.Mmu))
      if inL1D then do
        let mmu ← Model.Mmu.writeExecutionMemoryChangesToL1D mmu e
        pure ({ s with base := { s.base with eu := eu, mmu := mmu } }, .none)
      else pure (euQueue s r e eu mmu)

/-- the pending memory read completes (as `Model.Mvp4.euMemDone`) -/
def euMemDone (app : App) (s : State) (eu : ExecUnit) (r : Runner) : M (State × EuOut) :=
  match eu.memory with
  | some m => euRun app { s with base := { s.base with eu := { eu with memory := none } } } r m
  | none =>
    match eu.addrs with
    | [] => throw (.panic "index out of range")
    | a0 :: _ => do
      let line ← Model.Mmu.fetchCacheLine cfg s.base.ctx.Memory a0
      let (mmu, mem) ← Model.Mmu.pushLineToL1D cfg s.base.mmu s.base.ctx.Memory a0 line
      let (m, mmu) ← Model.Mmu.getFromL1D mmu eu.addrs
      match m with
      | none => throw (.panic "cache line doesn't exist")
      | some m => euRun app { s with base := { s.base with eu := eu, mmu := mmu, ctx := { s.base.ctx with Memory := mem } } } r m

/-- from `runner := eu.runner` on (as `Model.Mvp4.euIssue`, with this package's `assert`) -/
def euIssue (app : App) (s : State) (eu : ExecUnit) (r : Runner) : M (State × EuOut) :=
  let s := assert s r
  if Model.Mvp4.isWriteDataHazard s.base.ctx.PendingWriteRegisters r.instr.readRegisters then
    pure ({ s with base := { s.base with eu := { eu with remainingCycles := 1 } } }, .none)
  else
    let addrs := r.instr.memoryRead s.base.ctx 0#32
    if !addrs.isEmpty then
      if addrs.any (fun a => Model.Mvp4.pendingWriteMemoryIntention s.base.pwmi (Model.Mvp4.lineOf a)) then
        pure ({ s with base := { s.base with eu := { eu with remainingCycles := 1 } } }, .none)
      else do
        let (m, mmu) ← Model.Mmu.getFromL1D s.base.mmu addrs
        match m with
        | some m =>
          pure ({ s with base := { s.base with mmu := mmu, eu := { eu with memory := some m, pendingMemoryRead := true, remainingCycles := Gen.Latency.L1Access } } }, .none)
        | none =>
          pure ({ s with base := { s.base with mmu := mmu, eu := { eu with addrs := addrs, pendingMemoryRead := true, remainingCycles := Gen.Latency.MemoryAccess } } }, .none)
    else euRun app { s with base := { s.base with eu := eu } } r []

/-- count the latency down, wait for room on the write bus, then `euIssue` (as `Model.Mvp4.euStep`) -/
def euStep (app : App) (s : State) (eu : ExecUnit) : M (State × EuOut) :=
  let eu := { eu with remainingCycles := eu.remainingCycles - 1 }
  if eu.remainingCycles != 0 then pure ({ s with base := { s.base with eu := eu } }, .none)
  else if !s.base.writeBus.canAdd then pure ({ s with base := { s.base with eu := { eu with remainingCycles := 1 } } }, .none)
  else
    match eu.runner with
    | none => throw (.panic "nil runner")
    | some r => euIssue app s eu r

/-- `executeUnit.cycle(ctx, app, inBus, outBus)` -/
def executeCycle (app : App) (s : State) : M (State × EuOut) :=
  if s.base.eu.pendingMemoryRead then
    let eu := { s.base.eu with remainingCycles := s.base.eu.remainingCycles - 1 }
    if eu.remainingCycles != 0 then pure ({ s with base := { s.base with eu := eu } }, .none)
    else
      match eu.runner with
      | none => throw (.panic "nil runner")
      | some r => euMemDone app s { eu with pendingMemoryRead := false } r
  else do
    let (b, eu, go) ← Model.Mvp4.euTake s.base
    let s := { s with base := b }
    if !go then pure ({ s with base := { s.base with eu := eu } }, .none)
    else euStep app s eu

/-! ## the `Run` loop (cpu.go) -/

def writeCycle (s : State) : M State := do
  let b ← Model.Mvp4.writeCycle s.base
  pure { s with base := b }

def drainCond (s : State) : Bool := Model.Mvp4.drainCond s.base

/-- `CPU.flush(pc)`: MVP-4's, plus `decodeUnit.flush()` and `executeUnit.flush()` -/
def flushAll (s : State) (pc : Word) : State :=
  let b := Model.Mvp4.flushAll s.base pc
  { s with base := { b with eu := { b.eu with processing := false, remainingCycles := 0 } }, duPending := false }

def isComplete (s : State) : Bool := Model.Mvp4.isComplete s.base

def finish (s : State) (h : Halt) : M (State × Event) := do
  let (b, ev) ← Model.Mvp4.finish s.base h
  pure ({ s with base := b }, ev)

/-- the rest of an iteration of the outer loop after `executeUnit.cycle` (as `Model.Mvp4.afterExecute`) -/
def afterExecute (s : State) (out : EuOut) : M (State × Event) :=
  match out with
  | .err => pure (s, .done .err)
  | out => do
    let s ← writeCycle s
    match out with
    | .ret => if drainCond s then pure ({ s with base := { s.base with mode := .drainRet } }, .running) else finish s .ret
    | .flush pc =>
      if drainCond s then pure ({ s with base := { s.base with mode := .drainFlush pc } }, .running)
      else pure (flushAll s pc, .running)
    | _ => if isComplete s then finish s .offEnd else pure (s, .running)

/-- one tick, panics still inside `M` -/
def cycleM (app : App) (s : State) : M (State × Event) :=
  match s.base.mode with
  | .normal => do
    let s := { s with base := { s.base with cycles := s.base.cycles + 1 } }
    let s ← fetchCycle app s
    let s ← decodeCycle app s
    let (s, out) ← executeCycle app s
    afterExecute s out
  | .drainRet => do
    let s ← writeCycle s
    if drainCond s then pure (s, .running) else finish s .ret
  | .drainFlush pc => do
    let s := { s with base := { s.base with cycles := s.base.cycles + 1 } }
    let s ← writeCycle s
    if drainCond s then pure (s, .running)
    else
      let s := flushAll s pc
      pure ({ s with base := { s.base with mode := .normal } }, .running)

/-- one tick of the machine -/
def cycle (app : App) (s : State) : State × Event :=
  match cycleM app s with
  | .ok r => r
  | .error (.panic w) => (s, .done (.panic w))
  | .error (.err w) => (s, .done (.panic w))

/-- `NewCPU(debug, memoryBytes)` -/
def init (ctx : Model.Context) : M State :=
  if !constsAgree then throw (.panic "proc/mvp5 constants differ from proc/mvp4: Model.Mvp5 must be revised")
  else do
    let b ← Model.Mvp4.init ctx
    pure { base := b }

structure Result where
  halt : Option Halt
  final : State
  ticks : Nat
  deriving Inhabited

def runFrom (app : App) : Nat → State → Nat → Result
  | 0, s, n => { halt := none, final := s, ticks := n }
  | fuel + 1, s, n =>
    match cycle app s with
    | (s', .running) => runFrom app fuel s' (n + 1)
    | (s', .done h) => { halt := some h, final := s', ticks := n + 1 }

/-- `NewCPU` + `Run` -/
def run (app : App) (ctx : Model.Context) (fuel : Nat) : Result :=
  match init ctx with
  | .ok s => runFrom app fuel s 0
  | .error _ => { halt := some (.panic "NewCPU"), final := { base := { ctx := ctx, mmu := default } }, ticks := 0 }

end Model.Mvp5

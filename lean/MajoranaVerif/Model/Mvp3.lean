/-
  Model/Mvp3.lean — cycle-accurate hand model of proc/mvp3/cpu.go: MVP-1's unpipelined loop
  plus an L1I of pc lines and a write-back LRU L1D (`Model/Mmu.lean`).

  One iteration of `for pc/4 < int32(len(app.Instructions))` is `step`:
    fetchInstruction (L1I hit: L1Access; miss: MemoryAccess and a zero line pushed at the pc),
    decode (cyclesDecode; `app.Instructions[pc/4]` panics on a negative index),
    execute (MemoryRead; when it reads memory: L1Access, and on an L1D miss MemoryAccess, the
      line around the FIRST address is fetched from memory and pushed — a victim is written back —
      and a second miss is the Go `panic("cache line doesn't exist")`; then `Run`; then `Cycles()`),
    `ret` leaves the loop, otherwise the pc moves and the result is written back
      (register: RegisterAccess; store: into L1D for L1Access when ALL its bytes are cached, else
      straight to `ctx.Memory` for MemoryAccess).
  After the loop `flush()` writes every L1D line to memory (MemoryAccess per line).

  Built from the REGENERATED pieces exactly as `Model.Seq.stepArch`: `Gen.Instr.run`,
  `Gen.Instr.memoryRead`, `Gen.InstructionType.Cycles`, `Gen.Latency.*`, `Gen.Consts.mvp3.*`.
  Tied to the Go machine by the whole-run correspondence (`m3=` field of `Driver/Run.lean`):
  status, cycle count, final registers and final memory on every generated case.
-/
import MajoranaVerif.Model.SeqMachine
import MajoranaVerif.Model.Mmu
open GoInt

namespace Model.Mvp3
open Model.Seq Model.Mmu

/-- the machine between two iterations: registers / memory / pc, and the two caches -/
structure State where
  arch : Arch
  mmu : Mmu
  deriving Inhabited

def faultHalt : Fault → Halt
  | .err _ => .err
  | .panic w => .panic w

/-- `fetchInstruction(pc)`: the unit afterwards and the cycles charged -/
def fetch (cfg : Config) (u : Mmu) (pc : Word) : M (Mmu × Int) := do
  let (r, u1) ← getFromL1I u [pc]
  match r with
  | some _ => pure (u1, Gen.Latency.L1Access)
  | none =>
    if cfg.l1ILineSize < 0 then throw (.panic "makeslice: len out of range")
    else pure (pushLineToL1I u1 pc (List.replicate cfg.l1ILineSize.toNat 0#8), Gen.Latency.MemoryAccess)

/-- the memory-read part of `execute`: the bytes handed to `Run`, the unit, `ctx.Memory` (a victim
may have been written back) and the cycles charged -/
def load (cfg : Config) (u : Mmu) (mem : List Byte) (addrs : List Word) : M (List Byte × Mmu × List Byte × Int) :=
  match addrs with
  | [] => pure ([], u, mem, 0)
  | a0 :: _ => do
    let (r, u1) ← getFromL1D u addrs
    match r with
    | some bytes => pure (bytes, u1, mem, Gen.Latency.L1Access)
    | none => do
      let line ← fetchCacheLine cfg mem a0
      let (u2, mem2) ← pushLineToL1D cfg u1 mem a0 line
      let (r2, u3) ← getFromL1D u2 addrs
      match r2 with
      | none => throw (.panic "cache line doesn't exist")
      | some bytes => pure (bytes, u3, mem2, Gen.Latency.L1Access + Gen.Latency.MemoryAccess)

/-- the store part of the write-back -/
def store (u : Mmu) (ctx : Model.Context) (e : Gen.Execution) : M (Mmu × Model.Context × Int) := do
  let (ex, u1) ← doesExecutionMemoryChangesExistsInL1D u e
  if ex then do
    let u2 ← writeExecutionMemoryChangesToL1D u1 e
    pure (u2, ctx, Gen.Latency.L1Access)
  else
    match writeMemory ctx e with
    | none => throw (.panic "memory index")
    | some c => pure (u1, c, Gen.Latency.MemoryAccess)

inductive StepResult where
  | next (s : State) (fetch : Int) (cost : StepCost)
  /-- the state is the one the run stops in; the costs are those accumulated before the halt -/
  | halt (h : Halt) (s : State) (fetch : Int) (cost : StepCost)
  deriving Inhabited

/-- one iteration of the loop of `Run` -/
def step (cfg : Config) (decodeCost : Int) (app : App) (s : State) : StepResult :=
  let zero : StepCost := ⟨0, 0, 0, 0⟩
  let a := s.arch
  let idx := Int.tdiv a.pc.toInt 4
  if ¬ idx < app.instrs.length then .halt .offEnd s 0 zero
  else match fetch cfg s.mmu a.pc with
    | .error f => .halt (faultHalt f) s 0 zero
    | .ok (u1, fc) =>
      if idx < 0 then .halt (.panic "instruction index") ⟨a, u1⟩ fc zero
      else match app.instrs[idx.toNat]? with
        | none => .halt (.panic "instruction index") ⟨a, u1⟩ fc zero
        | some i =>
          let addrs := i.memoryRead a.ctx 0#32
          match load cfg u1 a.ctx.Memory addrs with
          | .error f => .halt (faultHalt f) ⟨a, u1⟩ fc ⟨decodeCost, 0, 0, 0⟩
          | .ok (bytes, u2, mem2, mr) =>
            let ctx2 : Model.Context := { a.ctx with Memory := mem2 }
            match i.run ctx2 app.labels a.pc bytes 0#32 with
            | .error f => .halt (faultHalt f) ⟨⟨ctx2, a.pc⟩, u2⟩ fc ⟨decodeCost, mr, 0, 0⟩
            | .ok e =>
              match Gen.InstructionType.Cycles i.instructionType with
              | .error _ => .halt (.panic "Cycles") ⟨⟨ctx2, a.pc⟩, u2⟩ fc ⟨decodeCost, mr, 0, 0⟩
              | .ok ex =>
                if e.Return then .halt .ret ⟨⟨ctx2, a.pc⟩, u2⟩ fc ⟨decodeCost, mr, ex, 0⟩
                else
                  let pc' := if e.PcChange then e.NextPc else a.pc + 4#32
                  if e.RegisterChange then
                    .next ⟨⟨writeRegister ctx2 e, pc'⟩, u2⟩ fc ⟨decodeCost, mr, ex, Gen.Latency.RegisterAccess⟩
                  else if e.MemoryChange then
                    match store u2 ctx2 e with
                    | .error f => .halt (faultHalt f) ⟨⟨ctx2, a.pc⟩, u2⟩ fc ⟨decodeCost, mr, ex, 0⟩
                    | .ok (u3, ctx3, wb) => .next ⟨⟨ctx3, pc'⟩, u3⟩ fc ⟨decodeCost, mr, ex, wb⟩
                  else .next ⟨⟨ctx2, pc'⟩, u2⟩ fc ⟨decodeCost, mr, ex, 0⟩

structure Result where
  halt : Option Halt      -- `none`: fuel exhausted
  final : Arch            -- after `flush()` when the run returned normally
  mmu : Mmu
  cycles : Int            -- what `Run` returns on success (an `err` run returns 0 in Go)
  steps : Nat             -- loop iterations started
  deriving Inhabited

/-- after the loop: `m.cycle += m.mmu.flush()` -/
def finish (cfg : Config) (h : Halt) (s : State) (cyc : Int) (n : Nat) : Result :=
  match flush cfg s.mmu s.arch.ctx.Memory with
  | .error f => { halt := some (faultHalt f), final := s.arch, mmu := s.mmu, cycles := cyc, steps := n }
  | .ok (mem, fc) =>
    { halt := some h, final := { s.arch with ctx := { s.arch.ctx with Memory := mem } }, mmu := s.mmu,
      cycles := cyc + fc, steps := n }

/-- the `Run` loop with a fuel (loop iterations) -/
def go (cfg : Config) (decodeCost : Int) (app : App) : Nat → State → Int → Nat → Result
  | 0, s, cyc, n => { halt := none, final := s.arch, mmu := s.mmu, cycles := cyc, steps := n }
  | fuel + 1, s, cyc, n =>
    match step cfg decodeCost app s with
    | .halt .offEnd s' _ _ => finish cfg .offEnd s' cyc n
    | .halt .ret s' f c => finish cfg .ret s' (cyc + f + c.total) (n + 1)
    | .halt h s' f c => { halt := some h, final := s'.arch, mmu := s'.mmu, cycles := cyc + f + c.total, steps := n + 1 }
    | .next s' f c => go cfg decodeCost app fuel s' (cyc + f + c.total) (n + 1)

/-- `NewCPU` + `Run` -/
def run (cfg : Config) (decodeCost : Int) (app : App) (a : Arch) (fuel : Nat) : Result :=
  match Model.Mmu.new cfg with
  | .error f => { halt := some (faultHalt f), final := a, mmu := default, cycles := 0, steps := 0 }
  | .ok u => go cfg decodeCost app fuel ⟨a, u⟩ 0 0

def runMvp3 (app : App) (a : Arch) (fuel : Nat) : Result :=
  run mvp3Config Gen.Consts.mvp3.cyclesDecode app a fuel

/-- the part of a result that `Model.Seq.Result` has -/
def Result.toSeq (r : Result) : Model.Seq.Result :=
  { halt := r.halt, final := r.final, cycles := r.cycles, steps := r.steps }

/-! ### the hypothesis of the transparency theorems, as a decidable predicate of the cache-less run -/

/-- the accesses of the instruction the cache-less machine executes in state `a` are line-local and
in bounds (true when the machine does not get as far as executing an instruction) -/
def accessOk (L : Int) (app : App) (a : Arch) : Bool :=
  let idx := Int.tdiv a.pc.toInt 4
  if ¬ idx < app.instrs.length then true
  else if idx < 0 then true
  else match app.instrs[idx.toNat]? with
    | none => true
    | some i =>
      let addrs := i.memoryRead a.ctx 0#32
      loadOk L a.ctx.Memory.length addrs &&
      match addrs.mapM (readMem a.ctx.Memory) with
      | none => true
      | some bytes =>
        match i.run a.ctx app.labels a.pc bytes 0#32 with
        | .error _ => true
        | .ok e => if !e.Return && !e.RegisterChange && e.MemoryChange then storeOk L a.ctx.Memory.length e.MemoryChanges else true

/-- every access of the first `fuel` iterations of the cache-less run (`Model.Seq.stepArch`) is
line-local and in bounds -/
def accessesOk (L : Int) (dc : Int) (app : App) : Nat → Arch → Bool
  | 0, _ => true
  | fuel + 1, a =>
    accessOk L app a &&
    match stepArch dc app a with
    | .next a' _ => accessesOk L dc app fuel a'
    | .halt _ _ => true

/-- THE hypothesis of the MVP-3 theorems (Props/C05, C09, C01, C07, C12), for the constants of proc/mvp3:
the driver prints it as `h3=` for every case -/
def wfAccesses (app : App) (a : Arch) (fuel : Nat) : Bool :=
  accessesOk mvp3Config.l1DLineSize Gen.Consts.mvp1.cyclesDecode app fuel a

end Model.Mvp3

/-
  Model/Mvp4.lean — hand-written, executable, cycle-accurate model of the pipelined
  machine proc/mvp4 (cpu.go, fu.go, du.go, eu.go, wu.go, bu.go; mmu.go is
  `Model.Mmu` with `mvp4Config`).

  Four stages — fetch unit → decodeBus → decode unit → executeBus → ONE execute unit →
  writeBus → write unit — connected by `comp.SimpleBus` (`Model.SimpleBus`).  Every
  unit is one function mirroring its Go `cycle` method operation by operation, in the
  same order of effects; the instruction semantics are the REGENERATED ones
  (`Gen.Instr.run`, `Gen.Instr.memoryRead`, `Gen.Instr.readRegisters`, …), latencies
  and sizes come from `Gen.Latency.*` / `Gen.Consts.mvp4.*`.  A Go panic is an
  explicit `.panic` halt, an `error` returned by `Run` is the `.err` halt.

  Granularity: ONE CALL OF `cycle` = ONE `ctx.VerifTick()` OF THE GO LOOP.
  `Run` is `for { tick; cycle++; fetch; decode; execute; write; [ret: drain loop; break]
  [flush: drain loop; flush; continue] [complete: break] }` where each iteration of the
  two inner drain loops ticks as well.  The model is the small-step machine of these
  ticks: `Mode.normal` performs one full iteration of the outer loop up to the point where
  a drain loop would start; `Mode.drainRet` / `Mode.drainFlush pc` perform one iteration
  of the respective drain loop (and what follows it when its condition turns false).
  So `run`'s fuel is exactly the tick budget the harness gives the Go machine, and the
  model needs no nested unbounded loop.

  Representation choices (recorded as assumptions in the evidence):
  * `ctx.pendingWriteMemoryIntention : map[int32]map[int]struct{}` is the set of pairs
    `(aligned address, store id)` (`State.pwmi`, not part of `Model.Context` because the
    translated instruction semantics never read it).  `PendingWriteMemoryIntention(a)` =
    "some pair with first component `a`"; `Delete…(a, id)` panics iff the pair is absent
    (Go: iff the inner map is missing or has no such id) — observationally the same.
  * `executeUnit.storeID` is a Go `int`, `ExecutionContext.SequenceID` is `int32(storeID)`
    and the write unit uses `int(SequenceID)`: modelled by one `Int` (no wrap below 2^31 stores).
  * map iteration over `Execution.MemoryChanges` follows the list order of `Gen.Execution`
    (ascending addresses); the order matters only for a store that touches two cache lines.
  * `eu.runner = risc.InstructionRunnerPc{}` (a nil interface) is `none`; the unit never
    calls a method on it while it is `none` (`processing` is false then); if it did, Go would
    panic with a nil dereference and so does the model.
-/
import MajoranaVerif.Gen.Opcodes
import MajoranaVerif.Gen.Consts
import MajoranaVerif.Gen.Latency
import MajoranaVerif.Model.Ctx
import MajoranaVerif.Model.Bus
import MajoranaVerif.Model.LineCache
import MajoranaVerif.Model.Mmu
import MajoranaVerif.Model.SeqMachine
open GoInt

namespace Model.Mvp4
open Model.Seq (App Halt)

def cfg : Model.Mmu.Config := Model.Mmu.mvp4Config

/-! ## unit states -/

/-- `fetchUnit` (the `mmu` pointer and the constant `cyclesMemoryAccess = latency.MemoryAccess` are not state) -/
structure FetchUnit where
  pc : Word := 0
  remainingCycles : Int := 0
  complete : Bool := false
  processing : Bool := false
  deriving Repr, DecidableEq, Inhabited

/-- `risc.InstructionRunnerPc` as MVP-4 uses it: the instruction and its pc -/
structure Runner where
  instr : Gen.Instr
  pc : Word
  deriving Repr, DecidableEq, Inhabited

/-- `risc.ExecutionContext` as MVP-4 fills it -/
structure ExecCtx where
  sequenceID : Int
  execution : Gen.Execution
  instructionType : Gen.InstructionType
  writeRegisters : List Reg
  deriving Repr, DecidableEq, Inhabited

/-- `executeUnit` -/
structure ExecUnit where
  processing : Bool := false
  pendingMemoryRead : Bool := false
  addrs : List Word := []
  memory : Option (List Byte) := none
  remainingCycles : Int := 0
  runner : Option Runner := none
  storeID : Int := 0
  deriving Repr, DecidableEq, Inhabited

/-- `writeUnit` -/
structure WriteUnit where
  pendingMemoryWrite : Bool := false
  cycles : Int := 0
  deriving Repr, DecidableEq, Inhabited

/-- `simpleBranchUnit` -/
structure BranchUnit where
  toCheck : Bool := false
  expectation : Word := 0
  deriving Repr, DecidableEq, Inhabited

/-- where the `Run` loop stands between two ticks -/
inductive Mode where
  | normal                     -- at the head of the outer `for`
  | drainRet                   -- inside the drain loop after a `ret`
  | drainFlush (pc : Word)     -- inside the drain loop before `m.flush(pc)`
  deriving Repr, DecidableEq, Inhabited

/-- the whole machine: `CPU` plus the local variable `cycle` of `Run` -/
structure State where
  ctx : Model.Context
  /-- `ctx.pendingWriteMemoryIntention` as a set of (aligned address, store id) pairs -/
  pwmi : List (Int × Int) := []
  fu : FetchUnit := {}
  decodeBus : SimpleBus Word := {}
  executeBus : SimpleBus Runner := {}
  eu : ExecUnit := {}
  writeBus : SimpleBus ExecCtx := {}
  wu : WriteUnit := {}
  bu : BranchUnit := {}
  mmu : Model.Mmu.Mmu
  cycles : Int := 0
  mode : Mode := .normal
  /-- ghost: number of instructions whose `Run` was called (the `steps` of the tie output) -/
  executed : Nat := 0
  deriving Inhabited

/-! ## risc.Context bookkeeping (risc/app.go) -/

/-- `addr - addr%l1DCacheLineSize` on `int32` (Go's `%` truncates; no overflow: the result lies
between 0 and `addr`) -/
def lineOf (a : Word) : Int := a.toInt - a.toInt.tmod cfg.l1DLineSize

/-- `ctx.AddPendingWriteRegisters(registers)`: `PendingWriteRegisters[r]++` (also for `x0`) -/
def addPendingWriteRegisters (m : GoMap Reg Int) : List Reg → GoMap Reg Int
  | [] => m
  | r :: rs => addPendingWriteRegisters (m.set r (m.get1 r + 1)) rs

/-- `ctx.DeletePendingWriteRegisters(registers)`: decrement, delete the key when it reaches 0 -/
def deletePendingWriteRegisters (m : GoMap Reg Int) : List Reg → GoMap Reg Int
  | [] => m
  | r :: rs =>
    let v := m.get1 r - 1
    deletePendingWriteRegisters (if v ≤ 0 then m.erase r else m.set r v) rs

/-- `ctx.IsWriteDataHazard(registers)` -/
def isWriteDataHazard (m : GoMap Reg Int) (regs : List Reg) : Bool :=
  regs.any fun r => r != Gen.Reg.Zero && (match m.find? r with | some v => decide (v > 0) | none => false)

/-- `ctx.PendingWriteMemoryIntention(alignedAddr)` -/
def pendingWriteMemoryIntention (p : List (Int × Int)) (line : Int) : Bool := p.any fun x => x.1 == line

/-- `ctx.AddPendingWriteMemoryIntention(alignedAddr, id)` (a set: adding twice is adding once) -/
def addPwmi (p : List (Int × Int)) (line id : Int) : List (Int × Int) :=
  if p.contains (line, id) then p else p ++ [(line, id)]

/-- `ctx.DeletePendingWriteMemoryIntention(alignedAddr, id)`: panics when the pair is absent -/
def deletePwmi (p : List (Int × Int)) (line id : Int) : M (List (Int × Int)) :=
  if p.contains (line, id) then pure (p.erase (line, id)) else throw (.panic "do not exist")

/-! ## fetch unit (fu.go) -/

/-- `fu.pc/4 >= int32(len(app.Instructions))` -/
def pastEnd (app : App) (pc : Word) : Bool := decide (Int.tdiv pc.toInt 4 ≥ app.instrs.length)

/-- `if !fu.processing { fu.processing = true; if hit in L1I { remainingCycles = 1 } else { remainingCycles =
cyclesMemoryAccess; push a zero line at the pc } }` -/
def fetchStart (fu : FetchUnit) (mmu : Model.Mmu.Mmu) : M (FetchUnit × Model.Mmu.Mmu) :=
  if !fu.processing then do
    let (hit, mmu) ← Model.Mmu.getFromL1I mmu [fu.pc]
    match hit with
    | some _ => pure ({ fu with processing := true, remainingCycles := 1 }, mmu)
    | none =>
      if cfg.l1ILineSize < 0 then throw (.panic "makeslice: len out of range")
      else pure ({ fu with processing := true, remainingCycles := Gen.Latency.MemoryAccess },
            Model.Mmu.pushLineToL1I mmu fu.pc (List.replicate cfg.l1ILineSize.toNat 0#8))
  else pure (fu, mmu)

/-- `fetchUnit.cycle(app, ctx, outBus)` on the parts of the machine it touches: the unit itself, the
memory-management unit (L1I only) and the decode bus -/
def fetchCore (app : App) (fu : FetchUnit) (mmu : Model.Mmu.Mmu) (outBus : SimpleBus Word) :
    M (FetchUnit × Model.Mmu.Mmu × SimpleBus Word) :=
  if fu.complete then pure (fu, mmu, outBus)
  else if pastEnd app fu.pc then pure ({ fu with complete := true }, mmu, outBus)
  else do
    let (fu, mmu) ← fetchStart fu mmu
    let fu := { fu with remainingCycles := fu.remainingCycles - 1 }
    if fu.remainingCycles == 0 then
      if !outBus.canAdd then pure ({ fu with remainingCycles := 1 }, mmu, outBus)
      else
        let currentPC := fu.pc
        let pc' := fu.pc + 4#32
        pure ({ fu with processing := false, pc := pc', complete := pastEnd app pc' }, mmu, outBus.add currentPC)
    else pure (fu, mmu, outBus)

def fetchCycle (app : App) (s : State) : M State := do
  let (fu, mmu, bus) ← fetchCore app s.fu s.mmu s.decodeBus
  pure { s with fu := fu, mmu := mmu, decodeBus := bus }

/-- `fetchUnit.flush(pc)` -/
def FetchUnit.flush (fu : FetchUnit) (pc : Word) : FetchUnit :=
  { fu with processing := false, complete := false, pc := pc }

/-! ## decode unit (du.go) -/

/-- `app.Instructions[pc/4]` -/
def instrAt (app : App) (pc : Word) : M Gen.Instr :=
  let idx := Int.tdiv pc.toInt 4
  if idx < 0 then throw (.panic "instruction index")
  else match app.instrs[idx.toNat]? with
    | some i => pure i
    | none => throw (.panic "instruction index")

/-- `decodeUnit.cycle(app, inBus, outBus)` on the two buses -/
def decodeCore (app : App) (inBus : SimpleBus Word) (outBus : SimpleBus Runner) :
    M (SimpleBus Word × SimpleBus Runner) :=
  if !outBus.canAdd then pure (inBus, outBus)
  else
    let (x, inBus) := inBus.get
    match x with
    | none => pure (inBus, outBus)
    | some pc => do
      let i ← instrAt app pc
      pure (inBus, outBus.add { instr := i, pc := pc })

def decodeCycle (app : App) (s : State) : M State := do
  let (d, e) ← decodeCore app s.decodeBus s.executeBus
  pure { s with decodeBus := d, executeBus := e }

/-! ## branch unit (bu.go) -/

/-- `simpleBranchUnit.assert(runner)` -/
def BranchUnit.assert (bu : BranchUnit) (r : Runner) : BranchUnit :=
  let t := r.instr.instructionType
  if t.IsUnconditionalBranch then { toCheck := true, expectation := BitVec.ofInt 32 (-1) }
  else if t.IsConditionalBranch then { toCheck := true, expectation := r.pc + 4#32 }
  else bu

/-- `simpleBranchUnit.shouldFlushPipeline(pc)` -/
def BranchUnit.shouldFlushPipeline (bu : BranchUnit) (pc : Word) : Bool × BranchUnit :=
  if !bu.toCheck then (false, bu)
  else (bu.expectation != pc, { bu with toCheck := false })

/-! ## execute unit (eu.go) -/

/-- what `executeUnit.cycle` returns: `(flush, pc, ret, err)` -/
inductive EuOut where
  | none                  -- (false, 0, false, nil)
  | flush (pc : Word)     -- (true, pc, false, nil)
  | ret                   -- (false, 0, true, nil)
  | err                   -- (false, 0, false, err)
  deriving Repr, DecidableEq, Inhabited

/-- the aligned addresses `AddPendingWriteMemoryIntention` is called with, one per changed byte -/
def addPwmiAll (p : List (Int × Int)) (id : Int) : List (Word × Byte) → List (Int × Int)
  | [] => p
  | (a, _) :: rest => addPwmiAll (addPwmi p (lineOf a) id) id rest

/-- the end of `executeUnit.run` for a result that does not go to L1D: announce the store (if it is one) in the
store scoreboard under a fresh id, put the result on the write bus, count its destination in the register
scoreboard, and ask the branch unit whether the pipeline must be flushed (`eu` is the unit with `processing`
cleared, `mmu` the memory-management unit after the L1D lookup) -/
def euQueue (s : State) (r : Runner) (e : Gen.Execution) (eu : ExecUnit) (mmu : Model.Mmu.Mmu) : State × EuOut :=
  let (eu, pwmi) :=
    if e.MemoryChange then
      let id := eu.storeID + 1
      ({ eu with storeID := id }, addPwmiAll s.pwmi id e.MemoryChanges)
    else (eu, s.pwmi)
  let wregs := r.instr.writeRegisters
  let writeBus := s.writeBus.add
    { sequenceID := eu.storeID, execution := e, instructionType := r.instr.instructionType, writeRegisters := wregs }
  let ctx := { s.ctx with PendingWriteRegisters := addPendingWriteRegisters s.ctx.PendingWriteRegisters wregs }
  let (fl, bu) := if e.PcChange then s.bu.shouldFlushPipeline e.NextPc else (false, s.bu)
  ({ s with eu := eu, mmu := mmu, pwmi := pwmi, writeBus := writeBus, ctx := ctx, bu := bu },
   if fl then .flush e.NextPc else .none)

/-- `executeUnit.run(ctx, app, outBus, memory)` followed by the deferred `eu.runner = {}` -/
def euRun (app : App) (s : State) (r : Runner) (memory : List Byte) : M (State × EuOut) :=
  let s := { s with executed := s.executed + 1 }
  match r.instr.run s.ctx app.labels r.pc memory 0#32 with
  | .error (.panic w) => throw (.panic w)
  | .error (.err _) => pure ({ s with eu := { s.eu with runner := none } }, .err)
  | .ok e =>
    if e.Return then pure ({ s with eu := { s.eu with runner := none } }, .ret)
    else do
      let eu := { s.eu with processing := false, runner := none }
      -- `execution.MemoryChange && eu.mmu.doesExecutionMemoryChangesExistsInL1D(execution)`
      let (inL1D, mmu) ← (if e.MemoryChange then Model.Mmu.doesExecutionMemoryChangesExistsInL1D s.mmu e
                           else pure (false, s.mmu) : M (Bool × Model.Mmu.Mmu))
      if inL1D then do
        let mmu ← Model.Mmu.writeExecutionMemoryChangesToL1D mmu e
        pure ({ s with eu := eu, mmu := mmu }, .none)
      else pure (euQueue s r e eu mmu)

/-- `executeUnit.cycle`, first branch, once `remainingCycles` has reached 0: the pending memory read
completes (`eu` is the unit with the counter already decremented and `pendingMemoryRead` cleared) -/
def euMemDone (app : App) (s : State) (eu : ExecUnit) (r : Runner) : M (State × EuOut) :=
  match eu.memory with
  | some m => euRun app { s with eu := { eu with memory := none } } r m
  | none =>
    match eu.addrs with
    | [] => throw (.panic "index out of range")      -- `eu.addrs[0]`
    | a0 :: _ => do
      let line ← Model.Mmu.fetchCacheLine cfg s.ctx.Memory a0
      let (mmu, mem) ← Model.Mmu.pushLineToL1D cfg s.mmu s.ctx.Memory a0 line
      let (m, mmu) ← Model.Mmu.getFromL1D mmu eu.addrs
      match m with
      | none => throw (.panic "cache line doesn't exist")
      | some m => euRun app { s with eu := eu, mmu := mmu, ctx := { s.ctx with Memory := mem } } r m

/-- `executeUnit.cycle`, second branch, from `runner := eu.runner` on: the latency has elapsed and the
write bus has room (`eu` is the unit with the counter already decremented) -/
def euIssue (app : App) (s : State) (eu : ExecUnit) (r : Runner) : M (State × EuOut) :=
  let bu := s.bu.assert r
  if isWriteDataHazard s.ctx.PendingWriteRegisters r.instr.readRegisters then
    pure ({ s with eu := { eu with remainingCycles := 1 }, bu := bu }, .none)
  else
    let addrs := r.instr.memoryRead s.ctx 0#32
    if !addrs.isEmpty then
      if addrs.any (fun a => pendingWriteMemoryIntention s.pwmi (lineOf a)) then
        pure ({ s with eu := { eu with remainingCycles := 1 }, bu := bu }, .none)
      else do
        let (m, mmu) ← Model.Mmu.getFromL1D s.mmu addrs
        match m with
        | some m =>
          pure ({ s with bu := bu, mmu := mmu,
                         eu := { eu with memory := some m, pendingMemoryRead := true, remainingCycles := Gen.Latency.L1Access } }, .none)
        | none =>
          pure ({ s with bu := bu, mmu := mmu,
                         eu := { eu with addrs := addrs, pendingMemoryRead := true, remainingCycles := Gen.Latency.MemoryAccess } }, .none)
    else euRun app { s with eu := eu, bu := bu } r []

/-- `if !eu.processing { runner, exists := inBus.Get(); if !exists { return }; … }`: the state, the unit and
whether the cycle goes on -/
def euTake (s : State) : M (State × ExecUnit × Bool) :=
  let eu := s.eu
  if !eu.processing then
    let (x, inBus) := s.executeBus.get
    match x with
    | none => pure ({ s with executeBus := inBus }, eu, false)
    | some r =>
      match Gen.InstructionType.Cycles r.instr.instructionType with
      | .error f => throw f
      | .ok c => pure ({ s with executeBus := inBus },
                       { eu with runner := some r, remainingCycles := c, processing := true }, true)
  else pure (s, eu, true)

/-- `executeUnit.cycle`, second branch after the `if !eu.processing { … }` block: count the latency down, wait for
room on the write bus, then `euIssue` -/
def euStep (app : App) (s : State) (eu : ExecUnit) : M (State × EuOut) :=
  let eu := { eu with remainingCycles := eu.remainingCycles - 1 }
  if eu.remainingCycles != 0 then pure ({ s with eu := eu }, .none)
  else if !s.writeBus.canAdd then pure ({ s with eu := { eu with remainingCycles := 1 } }, .none)
  else
    match eu.runner with
    | none => throw (.panic "nil runner")
    | some r => euIssue app s eu r

/-- `executeUnit.cycle(ctx, app, inBus, outBus)` -/
def executeCycle (app : App) (s : State) : M (State × EuOut) :=
  if s.eu.pendingMemoryRead then
    let eu := { s.eu with remainingCycles := s.eu.remainingCycles - 1 }
    if eu.remainingCycles != 0 then pure ({ s with eu := eu }, .none)
    else
      match eu.runner with
      | none => throw (.panic "nil runner")
      | some r => euMemDone app s { eu with pendingMemoryRead := false } r
  else do
    let (s, eu, go) ← euTake s
    if !go then pure ({ s with eu := eu }, .none)
    else euStep app s eu

/-! ## write unit (wu.go) -/

/-- the `released` loop of the write unit: one `DeletePendingWriteMemoryIntention(line, id)` per distinct line -/
def releaseAll (p : List (Int × Int)) (id : Int) : List (Word × Byte) → List Int → M (List (Int × Int))
  | [], _ => pure p
  | (a, _) :: rest, released =>
    let line := lineOf a
    if released.contains line then releaseAll p id rest released
    else do
      let p' ← deletePwmi p line id
      releaseAll p' id rest (line :: released)

/-- `writeUnit.cycle(ctx, inBus)` on the parts of the machine it touches: the context (registers, memory,
register scoreboard), the store scoreboard, the write bus and the unit itself -/
def writeCore (ctx : Model.Context) (pwmi : List (Int × Int)) (inBus : SimpleBus ExecCtx) (wu : WriteUnit) :
    M (Model.Context × List (Int × Int) × SimpleBus ExecCtx × WriteUnit) :=
  if wu.pendingMemoryWrite then
    let c := wu.cycles - 1
    pure (ctx, pwmi, inBus, { pendingMemoryWrite := !(c == 0), cycles := c })
  else
    let (x, inBus) := inBus.get
    match x with
    | none => pure (ctx, pwmi, inBus, wu)
    | some ec =>
      let e := ec.execution
      if e.RegisterChange then
        let ctx := Model.Seq.writeRegister ctx e
        pure ({ ctx with PendingWriteRegisters := deletePendingWriteRegisters ctx.PendingWriteRegisters ec.writeRegisters },
              pwmi, inBus, wu)
      else if e.MemoryChange then
        match Model.Seq.writeMemory ctx e with
        | none => throw (.panic "memory index")
        | some ctx => do
          let pwmi ← releaseAll pwmi ec.sequenceID e.MemoryChanges []
          pure (ctx, pwmi, inBus, { pendingMemoryWrite := true, cycles := Gen.Latency.MemoryAccess })
      else pure (ctx, pwmi, inBus, wu)

def writeCycle (s : State) : M State := do
  let (ctx, pwmi, bus, wu) ← writeCore s.ctx s.pwmi s.writeBus s.wu
  pure { s with ctx := ctx, pwmi := pwmi, writeBus := bus, wu := wu }

/-! ## the `Run` loop (cpu.go) -/

/-- `!m.writeUnit.isEmpty() || !m.writeBus.IsEmpty()`: the condition of both drain loops -/
def drainCond (s : State) : Bool := s.wu.pendingMemoryWrite || !s.writeBus.isEmpty

/-- `CPU.flush(pc)` -/
def flushAll (s : State) (pc : Word) : State :=
  { s with fu := s.fu.flush pc
           decodeBus := s.decodeBus.flush
           executeBus := s.executeBus.flush
           writeBus := s.writeBus.flush
           ctx := { s.ctx with PendingWriteRegisters := {}, PendingReadRegisters := {} }
           pwmi := [] }

/-- `CPU.isComplete()` -/
def isComplete (s : State) : Bool :=
  s.fu.complete && !s.eu.processing && !s.wu.pendingMemoryWrite &&
    s.decodeBus.isEmpty && s.executeBus.isEmpty && s.writeBus.isEmpty

inductive Event where
  | running
  | done (h : Halt)
  deriving Repr, DecidableEq, Inhabited

/-- after the outer loop: `cycle += m.memoryManagementUnit.flush()` -/
def finish (s : State) (h : Halt) : M (State × Event) := do
  let (mem, extra) ← Model.Mmu.flush cfg s.mmu s.ctx.Memory
  pure ({ s with ctx := { s.ctx with Memory := mem }, cycles := s.cycles + extra, mode := .normal }, .done h)

/-- the rest of an iteration of the outer loop after `executeUnit.cycle` returned `out`: an error ends the run
at once; otherwise the write unit runs, and then `ret` / flush / completion are handled -/
def afterExecute (s : State) (out : EuOut) : M (State × Event) :=
  match out with
  | .err => pure (s, .done .err)            -- `return 0, err`: no write-back, no flush of the caches
  | out => do
    let s ← writeCycle s
    match out with
    | .ret => if drainCond s then pure ({ s with mode := .drainRet }, .running) else finish s .ret
    | .flush pc =>
      if drainCond s then pure ({ s with mode := .drainFlush pc }, .running)
      else pure (flushAll s pc, .running)
    | _ => if isComplete s then finish s .offEnd else pure (s, .running)

/-- one tick, panics still inside `M` -/
def cycleM (app : App) (s : State) : M (State × Event) :=
  match s.mode with
  | .normal => do
    let s := { s with cycles := s.cycles + 1 }
    let s ← fetchCycle app s
    let s ← decodeCycle app s
    let (s, out) ← executeCycle app s
    afterExecute s out
  | .drainRet => do
    let s ← writeCycle s
    if drainCond s then pure (s, .running) else finish s .ret
  | .drainFlush pc => do
    let s := { s with cycles := s.cycles + 1 }
    let s ← writeCycle s
    if drainCond s then pure (s, .running) else pure ({ flushAll s pc with mode := .normal }, .running)

/-- one tick of the machine -/
def cycle (app : App) (s : State) : State × Event :=
  match cycleM app s with
  | .ok r => r
  | .error (.panic w) => (s, .done (.panic w))
  | .error (.err w) => (s, .done (.panic w))   -- unreachable: the units raise panics only (`Run`'s error is `EuOut.err`)

/-- `NewCPU(debug, memoryBytes)` with the registers and memory image the harness installs -/
def init (ctx : Model.Context) : M State := do
  let mmu ← Model.Mmu.new cfg
  pure { ctx := ctx, mmu := mmu }

structure Result where
  halt : Option Halt       -- `none`: tick budget exhausted
  final : State
  ticks : Nat
  deriving Inhabited

/-- the ticks of `Run` -/
def runFrom (app : App) : Nat → State → Nat → Result
  | 0, s, n => { halt := none, final := s, ticks := n }
  | fuel + 1, s, n =>
    match cycle app s with
    | (s', .running) => runFrom app fuel s' (n + 1)
    | (s', .done h) => { halt := some h, final := s', ticks := n + 1 }

/-- `NewCPU` + `Run` -/
def run (app : App) (ctx : Model.Context) (fuel : Nat) : Result :=
  match init ctx with
  | .ok s => runFrom app fuel s 0
  | .error _ => { halt := some (.panic "NewCPU"), final := { ctx := ctx, mmu := default }, ticks := 0 }

/-! ## the hypothesis of the refinement theorems, as a decidable predicate of the sequential run

MVP-4 is claimed to agree with the unpipelined machine on runs in which every load reads, and every store
writes, bytes inside memory and inside ONE cache line (`Model.Mmu.loadOk` / `storeOk`: what naturally
aligned in-bounds accesses satisfy), and no jump goes to the address -1 (the value the branch unit uses
for "no expectation": `bu.go`, `expectation = -1`). -/

/-- the side conditions for the instruction the sequential machine executes in state `a` -/
def stepOk (app : App) (a : Model.Seq.Arch) : Bool :=
  let idx := Int.tdiv a.pc.toInt 4
  if ¬ idx < app.instrs.length then true
  else if idx < 0 then true
  else match app.instrs[idx.toNat]? with
    | none => true
    | some i =>
      let addrs := i.memoryRead a.ctx 0#32
      Model.Mmu.loadOk cfg.l1DLineSize a.ctx.Memory.length addrs &&
      match addrs.mapM (Model.Seq.readMem a.ctx.Memory) with
      | none => true
      | some bytes =>
        match i.run a.ctx app.labels a.pc bytes 0#32 with
        | .error _ => true
        | .ok e =>
          (if !e.Return && !e.RegisterChange && e.MemoryChange then
             Model.Mmu.storeOk cfg.l1DLineSize a.ctx.Memory.length e.MemoryChanges else true) &&
          (if e.PcChange then e.NextPc != BitVec.ofInt 32 (-1) else true)

/-- `stepOk` along the first `fuel` steps of the sequential run -/
def seqOk (app : App) : Nat → Model.Seq.Arch → Bool
  | 0, _ => true
  | fuel + 1, a =>
    stepOk app a &&
    match Model.Seq.stepArch Gen.Consts.mvp1.cyclesDecode app a with
    | .next a' _ => seqOk app fuel a'
    | .halt _ _ => true

end Model.Mvp4

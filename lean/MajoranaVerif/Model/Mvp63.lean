/-
  Model/Mvp63.lean — cycle-accurate model of proc/mvp6-3: MVP-6.2 plus register renaming.

  The diff of the directories `proc/mvp6-2` and `proc/mvp6-3`, file by file:
    cpu.go  `risc.NewContext(…, true)`: the context is in rename-table mode (`ctx.rat`), so the generated
            `Gen.registerRead` reads the transaction rename table, then the committed one; `m.ctx.InitRAT()` before the
            loop; in the cycle of a flush the write units run with the flushing branch's sequence id as filter
            (`wu.Cycle(wuReq{sequenceID})`: younger results are dropped); at the end `RATCommit(); RATFlush()` instead of
            `Commit()`
    cu.go   `shouldUseRenaming`: a runner whose ONLY hazard is write-after-write or write-after-read is pushed
            (`return true, false`); every pushed runner is recorded in `pushedRunnersInCurrentCycle` by the caller
    wu.go   `TransactionRATWrite` / `RATCommit` / `RATRollback` instead of the transaction-map functions
    bu.go, du.go, eu.go, fu.go, mmu.go, btb.go: same code.
  These places are in `Model.Mvp61` behind the configuration flag `State.v63` (`handleRunner`, `condCtx`, `wuCycle62`,
  `cycleM`, `finish`); this file sets the flags and prepares the context.

  Go map iterations.  `InitRAT`, `RATCommit`, `RATRollback`, `RATFlush` range over maps whose keys are distinct registers,
  each written once into its own ring / map slot: the order is irrelevant (`Model.Context.*`, Model/Txn.lean).
  `shouldUseForwarding` ranges over `pushedRunnersInPreviousCycle` and returns the first match: with renaming two runners
  pushed in one cycle CAN write the same register, and a consumer pushed in the next cycle matches both.  The model does
  not choose: it records the candidate and the two producers in `State.mapOrder` and ends the run with the panic
  `Model.Mvp61.mapOrderMsg` (printed `maporder` by the driver: no verdict); characterised in `Proofs/Mvp63MapOrder.lean`.
-/
import MajoranaVerif.Model.Mvp62
open GoInt

namespace Model.Mvp63
open Model.Seq (App Halt)
open Model.Mvp61 (State Result runFrom)

def cfg63 : Model.Mmu.Config :=
  { l1ILineSize := Gen.Consts.mvp6_3.l1ICacheLineSize, l1ISize := Gen.Consts.mvp6_3.l1ICacheSize,
    l1DLineSize := Gen.Consts.mvp6_3.l3CacheLineSize, l1DSize := Gen.Consts.mvp6_3.l3CacheSize }

/-- the constants of proc/mvp6-3 are those the shared code reads -/
def constsAgree : Bool :=
  decide (cfg63 = Model.Mvp60.cfg) && decide (Gen.Consts.mvp6_3.pendingLength = Gen.Consts.mvp6_1.pendingLength)

/-- `NewCPU` (`risc.NewContext(debug, memoryBytes, true)`: both rename tables `comp.NewRAT(ratLength)`) and the
`m.ctx.InitRAT()` at the head of `Run` -/
def init (ctx : Model.Context) (eu wu : Nat) : M State :=
  if !constsAgree then throw (.panic "proc/mvp6-3 constants differ from proc/mvp6-1: Model.Mvp63 must be revised")
  else do
    let s ← Model.Mvp61.init ctx eu wu
    let c : Model.Context := { s.ctx with rat := true, committedRAT := Rat.new Gen.ratLength, transactionRAT := Rat.new Gen.ratLength }
    pure { s with v62 := true, v63 := true, ctx := c.initRAT }

def run (app : App) (ctx : Model.Context) (eu wu : Nat) (fuel : Nat) : Result :=
  match init ctx eu wu with
  | .ok s => runFrom app fuel s 0
  | .error _ => { halt := some (.panic "NewCPU"), final := { ctx := ctx, mmu := default }, ticks := 0 }

/-- the run ended because the Go result depends on map iteration order -/
def isMapOrder (r : Result) : Bool := r.final.mapOrder.isSome

end Model.Mvp63

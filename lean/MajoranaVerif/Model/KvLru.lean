/-
  Model/KvLru.lean — hand-written executable model of the generic
  `cache.LRUCache[K, V]` (/repo/common/cache/lru.go) used by the control units of
  MVP-7.1 / MVP-8 to pick an execution unit.  Tie T2a (stream `c13-kv`).

  Representation = Go's: `cache` is the map (association list with unique keys,
  `GoInt.GoMap`), `order` is the LRU-FIRST key slice (`order[0]` is the next victim,
  the last element the most recently touched key).
-/
import MajoranaVerif.Model.GoInt

namespace KvLru
open GoInt

structure Kv (K V : Type) where
  capacity : Nat
  cache : GoMap K V
  order : List K
  deriving Repr

variable {K V : Type} [DecidableEq K]

/-- `NewLRUCache(capacity)` -/
def new (capacity : Nat) : Kv K V := { capacity := capacity, cache := GoMap.empty, order := [] }

/-- `refreshOrder`: delete the first occurrence of the key, append it. -/
def refreshOrder (order : List K) (key : K) : List K := order.erase key ++ [key]

/-- `Get` -/
def get (l : Kv K V) (key : K) : Option V × Kv K V :=
  match l.cache.find? key with
  | some v => (some v, { l with order := refreshOrder l.order key })
  | none => (none, l)

/-- `Find(keys)`: the first key of `order` (least recently used first) that is in `keys`. -/
def find (l : Kv K V) (keys : List K) : Option K × Kv K V :=
  if l.order.length = 0 then (none, l)
  else match l.order.find? (fun k => keys.contains k) with
    | some k => (some k, { l with order := refreshOrder l.order k })
    | none => (none, l)

/-- `Put`: `order[0]` panics on an empty order (capacity 0). -/
def put (l : Kv K V) (key : K) (value : V) : M (Kv K V) :=
  if (l.cache.find? key).isNone && l.cache.entries.length == l.capacity then
    match l.order with
    | [] => throw (.panic "index out of range")
    | k0 :: rest =>
      pure { l with cache := (l.cache.erase k0).set key value, order := refreshOrder rest key }
  else
    pure { l with cache := l.cache.set key value, order := refreshOrder l.order key }

/-! ### histories -/

inductive Op (K V : Type) where
  | put (k : K) (v : V)
  | get (k : K)
  | find (ks : List K)
  deriving Repr

/-- one call: state afterwards (unchanged by a panicking `Put`) -/
def step (l : Kv K V) : Op K V → Kv K V
  | .put k v => match put l k v with | .ok l' => l' | .error _ => l
  | .get k => (get l k).2
  | .find ks => (find l ks).2

/-- the state after a history given NEWEST FIRST, from `NewLRUCache(capacity)` -/
def after (capacity : Nat) : List (Op K V) → Kv K V
  | [] => new capacity
  | op :: h => step (after capacity h) op

def run (capacity : Nat) (ops : List (Op K V)) : Kv K V := ops.foldl step (new capacity)

/-! ### reference recency (histories NEWEST FIRST) -/

/-- the key a call touches when made in state `l`: `Put`'s key, `Get`'s key when present,
the key `Find` answers -/
def touchedBy (l : Kv K V) : Op K V → Option K
  | .put k _ => some k
  | .get k => if (l.cache.find? k).isSome then some k else none
  | .find ks => (find l ks).1

/-- recency of key `k`: position (1-based, call order) of the last call that touched it; 0 = never -/
def stamp (capacity : Nat) (k : K) : List (Op K V) → Nat
  | [] => 0
  | op :: h => if touchedBy (after capacity h) op = some k then h.length + 1 else stamp capacity k h

end KvLru

/-
  Model/Rat.lean — hand model of proc/comp/rat.go (`RAT[K,V]`): a ring of
  `length` slots per key plus the index of the newest slot.  Tied to the Go code
  by the lock-step correspondence stream of C15 (T2a).
-/
import MajoranaVerif.Model.GoInt
open GoInt

namespace Model

structure RatEntry (ν : Type) where
  vals : List ν      -- `values[k]`, always `length` long
  idx : Nat          -- `idx[k]`, index of the newest slot
  wrapped : Bool := false  -- `wrapped[k]`: the ring has been filled at least once
  deriving Repr, Inhabited

structure Rat (κ ν : Type) where
  length : Nat
  tab : GoMap κ (RatEntry ν) := {}
  deriving Repr, Inhabited

namespace Rat
variable {κ ν : Type} [BEq κ] [Inhabited ν]

def new (length : Nat) : Rat κ ν := { length := length }

/-- `Read(k)`: the newest slot of `k`. -/
def read (r : Rat κ ν) (k : κ) : ν × Bool :=
  match r.tab.find? k with
  | none => (default, false)
  | some e => (e.vals.getD e.idx default, true)

/-- Scan order of `Find` / `FindValues`: `idx, idx-1, …, 0`, then — only once the ring
has wrapped, i.e. those slots were written — `length-1, …, idx+1`. -/
def scanOrder (length idx : Nat) (wrapped : Bool) : List Nat :=
  (List.range (idx + 1)).reverse ++
    (if wrapped then (List.range length).reverse.filter (fun i => idx < i) else [])

/-- `Find(k, p)`: newest-to-oldest scan of the ring, first slot satisfying `p`. -/
def find (r : Rat κ ν) (k : κ) (p : ν → Bool) : ν × Bool :=
  match r.tab.find? k with
  | none => (default, false)
  | some e =>
    match (scanOrder r.length e.idx e.wrapped).find? (fun i => p (e.vals.getD i default)) with
    | some i => (e.vals.getD i default, true)
    | none => (default, false)

/-- `Write(k, v)`. -/
def write (r : Rat κ ν) (k : κ) (v : ν) : Rat κ ν :=
  match r.tab.find? k with
  | none =>
    { r with tab := r.tab.set k { vals := (List.replicate r.length default).set 0 v, idx := 0 } }
  | some e =>
    let idx := (e.idx + 1) % r.length
    { r with tab := r.tab.set k { vals := e.vals.set idx v, idx := idx, wrapped := e.wrapped || idx == 0 } }

/-- `Values()`: newest slot of every key (as an association list in table order;
Go returns a map, callers range over it — order-independence is C08's lemma). -/
def values (r : Rat κ ν) : List (κ × ν) :=
  r.tab.entries.map (fun (k, e) => (k, e.vals.getD e.idx default))

/-- `FindValues(p)`: for every key the first slot in scan order satisfying `p`. -/
def findValues (r : Rat κ ν) (p : ν → Bool) : List (κ × ν) :=
  r.tab.entries.filterMap (fun (k, e) =>
    match (scanOrder r.length e.idx e.wrapped).find? (fun i => p (e.vals.getD i default)) with
    | some i => some (k, e.vals.getD i default)
    | none => none)

end Rat
end Model

/-
  Model/Bus.lean — hand model of proc/comp/bus.go (`SimpleBus`, `BufferedBus`),
  proc/comp/queue.go (`Queue`) and proc/comp/broadcast.go (`Broadcast`), operation by
  operation, plus the HISTORY SEMANTICS the C14 theorems quantify over
  (`BusHist.step/run`, `SBusHist.step/run`).  The C14 driver executes exactly these
  `step` functions against the real Go code (tie T2a, stream `c14`), so the function
  the theorems talk about is the function that ran in lock-step with Go.

  Representation is mirrored literally:
    * `NewBufferedBus(queueLength, bufferLength)`, `InLength() = queueLength`,
      `OutLength() = bufferLength`; `Connect` compares with `==`, `CanAdd` with `!=`.
    * Go `int` is modelled by `Int` (cycles and lengths far from 2^63: assumption).
    * Go `(T, bool)` results are `Option`; the driver renders `none` as `0 0`.
  Core Lean only (the driver is compiled).
-/
import MajoranaVerif.Model.GoInt
open GoInt

namespace Model

/-! ## SimpleBus : a two-slot latch -/

structure SimpleBus (α : Type) where
  pending : Option α := none
  current : Option α := none
  deriving Repr, DecidableEq

namespace SimpleBus
variable {α : Type}

/-- `Flush()` -/
def flush (_ : SimpleBus α) : SimpleBus α := { pending := none, current := none }

/-- `Get()`: returns `current`, then `current = pending; pending = {}`. -/
def get (b : SimpleBus α) : Option α × SimpleBus α :=
  (b.current, { pending := none, current := b.pending })

/-- `CanAdd()` -/
def canAdd (b : SimpleBus α) : Bool := b.pending.isNone

/-- `Add(t)`: overwrites `pending` unconditionally. -/
def add (b : SimpleBus α) (t : α) : SimpleBus α := { b with pending := some t }

/-- `IsEmpty()` -/
def isEmpty (b : SimpleBus α) : Bool := b.pending.isNone && b.current.isNone

/-- `Clean()` -/
def clean (_ : SimpleBus α) : SimpleBus α := { pending := none, current := none }

/-- everything the bus holds, oldest first -/
def inside (b : SimpleBus α) : List α := b.current.toList ++ b.pending.toList

end SimpleBus

/-! ## BufferedBus -/

structure BufferedBus (α : Type) where
  /-- `buffer []BufferEntry{availableFromCycle, t}`: waiting for a later cycle -/
  buffer : List (Int × α) := []
  /-- `queue []T`: visible to the consumer -/
  queue : List α := []
  queueLength : Int
  bufferLength : Int
  deriving Repr

namespace BufferedBus
variable {α : Type}

/-- `NewBufferedBus(queueLength, bufferLength)` -/
def new (queueLength bufferLength : Int) : BufferedBus α :=
  { buffer := [], queue := [], queueLength := queueLength, bufferLength := bufferLength }

/-- `InLength()` (sic: returns `queueLength`) -/
def inLength (b : BufferedBus α) : Int := b.queueLength
/-- `OutLength()` (sic: returns `bufferLength`) -/
def outLength (b : BufferedBus α) : Int := b.bufferLength

/-- `Clean()` -/
def clean (b : BufferedBus α) : BufferedBus α := { b with buffer := [], queue := [] }

/-- `Add(t, currentCycle)`: appended to the buffer, stamped `currentCycle + 1`. -/
def add (b : BufferedBus α) (t : α) (currentCycle : Int) : BufferedBus α :=
  { b with buffer := b.buffer ++ [(currentCycle + 1, t)] }

/-- `Revert(t, currentCycle)`: put at the FRONT OF THE BUFFER, stamped `currentCycle`. -/
def revert (b : BufferedBus α) (t : α) (currentCycle : Int) : BufferedBus α :=
  { b with buffer := (currentCycle, t) :: b.buffer }

/-- `DeleteLast()` -/
def deleteLast (b : BufferedBus α) : BufferedBus α :=
  if b.buffer.length == 0 then b else { b with buffer := b.buffer.dropLast }

/-- `Get()` -/
def get (b : BufferedBus α) : Option α × BufferedBus α :=
  match b.queue with
  | [] => (none, b)
  | x :: q => (some x, { b with queue := q })

/-- the stateful `slices.DeleteFunc` closure of `Pick`: delete the first match only -/
def pickLoop (p : α → Bool) : List α → Option α × List α
  | [] => (none, [])
  | x :: q =>
    if p x then (some x, q)
    else
      let r := pickLoop p q
      (r.1, x :: r.2)

/-- `Pick(predicate)` -/
def pick (b : BufferedBus α) (p : α → Bool) : Option α × BufferedBus α :=
  let r := pickLoop p b.queue
  (r.1, { b with queue := r.2 })

/-- `Exists(predicate)` -/
def exists_ (b : BufferedBus α) (p : α → Bool) : Bool := b.queue.any p

/-- `CanGet()` -/
def canGet (b : BufferedBus α) : Bool := b.queue.length != 0

/-- `CanAdd()`: `len(buffer) != bufferLength` -/
def canAdd (b : BufferedBus α) : Bool := (b.buffer.length : Int) != b.bufferLength

/-- `RemainingToAdd()` -/
def remainingToAdd (b : BufferedBus α) : Int := b.bufferLength - (b.buffer.length : Int)

/-- `PendingRead()` -/
def pendingRead (b : BufferedBus α) : Int := (b.queue.length : Int)

/-- `IsEmpty()` -/
def isEmpty (b : BufferedBus α) : Bool := b.queue.length == 0 && b.buffer.length == 0

/-- the `for` loop of `Connect`: returns (remaining buffer, new queue) -/
def connectLoop (queueLength currentCycle : Int) : List (Int × α) → List α → List (Int × α) × List α
  | [], q => ([], q)
  | e :: rest, q =>
    if (q.length : Int) == queueLength then (e :: rest, q)
    else if e.1 > currentCycle then (e :: rest, q)
    else connectLoop queueLength currentCycle rest (q ++ [e.2])

/-- `Connect(currentCycle)` -/
def connect (b : BufferedBus α) (currentCycle : Int) : BufferedBus α :=
  if (b.queue.length : Int) == b.queueLength then b
  else
    let r := connectLoop b.queueLength currentCycle b.buffer b.queue
    { b with buffer := r.1, queue := r.2 }

/-- everything the bus holds, in delivery order of the normal path: queue, then buffer -/
def inside (b : BufferedBus α) : List α := b.queue ++ b.buffer.map (·.2)

end BufferedBus

/-! ## Queue (container/list with a capacity that only `IsFull` looks at)

Elements carry the identity of their `*list.Element` as a handle (`Nat`, the push
counter).  `Iterator()` is a goroutine filling a channel buffered to `Len()`; the
consumer removes only elements it has already received, which the walker has already
stepped past, so the iteration is a snapshot of the list at the call (the goroutine
itself is outside the model, DESIGN §4 C14 "Tie"). -/

structure Queue (α : Type) where
  items : List (Nat × α) := []
  next : Nat := 0
  length : Int
  deriving Repr

namespace Queue
variable {α : Type}

def new (length : Int) : Queue α := { items := [], next := 0, length := length }

/-- `Push(value)` -/
def push (q : Queue α) (v : α) : Queue α :=
  { q with items := q.items ++ [(q.next, v)], next := q.next + 1 }

/-- `Length()` -/
def len (q : Queue α) : Int := (q.items.length : Int)

/-- `IsFull()`: `Len() >= length` -/
def isFull (q : Queue α) : Bool := decide ((q.items.length : Int) ≥ q.length)

/-- `Iterator()` drained: the elements (handle, value) front to back -/
def iterator (q : Queue α) : List (Nat × α) := q.items

/-- `Remove(elem)`: no effect when the element is no longer in the list -/
def remove (q : Queue α) (handle : Nat) : Queue α :=
  { q with items := q.items.filter (fun e => e.1 != handle) }

/-- the loop `for e := range q.Iterator() { if p(Value(e)) { q.Remove(e) } }` -/
def iterRemove (q : Queue α) (p : α → Bool) : List α × Queue α :=
  let snap := q.iterator
  (snap.map (·.2), snap.foldl (fun q e => if p e.2 then q.remove e.1 else q) q)

end Queue

/-! ## Broadcast -/

structure Broadcast (α : Type) where
  count : Int
  /-- `listeners [][]event{data, read}` -/
  listeners : List (List (α × Bool))
  deriving Repr

namespace Broadcast
variable {α : Type}

/-- `NewBroadcast(count)`: `make([][]event, count)` panics on a negative count -/
def new (count : Int) : M (Broadcast α) :=
  if count < 0 then throw (.panic "makeslice: len out of range")
  else pure { count := count, listeners := List.replicate count.toNat [] }

/-- `Notify(t)` -/
def notify (b : Broadcast α) (t : α) : Broadcast α :=
  { b with listeners := b.listeners.map (fun l => l ++ [(t, false)]) }

/-- `Read(id)`: drops the events marked read, returns the data of the others; the
`Commit` closure of the `i`-th returned event is `commit id i`. -/
def read (b : Broadcast α) (id : Int) : M (List α × Broadcast α) :=
  if id < 0 then throw (.panic "index out of range")
  else
    match b.listeners[id.toNat]? with
    | none => throw (.panic "index out of range")
    | some l =>
      let l' := l.filter (fun e => !e.2)
      pure (l'.map (·.1), { b with listeners := b.listeners.set id.toNat l' })

/-- `Commit()` of the `i`-th event returned by a `Read(id)`:
`b.listeners[id][i].read = true` evaluated WHEN CALLED (index, not identity). -/
def commit (b : Broadcast α) (id : Nat) (i : Nat) : M (Broadcast α) :=
  match b.listeners[id]? with
  | none => throw (.panic "index out of range")
  | some l =>
    match l[i]? with
    | none => throw (.panic "index out of range")
    | some e => pure { b with listeners := b.listeners.set id (l.set i (e.1, true)) }

end Broadcast

/-! ## History semantics of a BufferedBus of ids (what C14 quantifies over)

A history is a `List Op`.  The item put in by the operation at position `i` of the
history has the unique id `i` (`St.n` counts operations).  The ledger records what
went in and what came out; nothing in it influences the bus. -/

namespace BusHist

inductive Op where
  /-- `b.Add(id, c)` without asking -/
  | add (c : Int)
  /-- the polite producer: `if b.CanAdd() { b.Add(id, c) }` -/
  | tryAdd (c : Int)
  /-- `b.Revert(x, c)` -/
  | revert (x : Nat) (c : Int)
  | deleteLast
  | get
  | pick (p : Nat → Bool)
  | connect (c : Int)
  | clean

def Op.isRevert : Op → Bool
  | .revert _ _ => true
  | _ => false

def Op.isRawAdd : Op → Bool
  | .add _ => true
  | _ => false

/-- the predicates used by the `Pick`s of a history -/
def picksOf : List Op → List (Nat → Bool)
  | [] => []
  | .pick p :: h => p :: picksOf h
  | _ :: h => picksOf h

/-- no `Revert` in the history (decidable: `h.all (!·.isRevert)`) -/
def NoRevert (h : List Op) : Prop := ∀ op ∈ h, op.isRevert = false

/-- every `Add` directly follows a `CanAdd() == true` (only `tryAdd`), and nothing is
put in behind the producer's back by `Revert` -/
def Polite (h : List Op) : Prop := ∀ op ∈ h, op.isRawAdd = false ∧ op.isRevert = false

instance (h : List Op) : Decidable (NoRevert h) :=
  inferInstanceAs (Decidable (∀ op ∈ h, op.isRevert = false))
instance (h : List Op) : Decidable (Polite h) :=
  inferInstanceAs (Decidable (∀ op ∈ h, op.isRawAdd = false ∧ op.isRevert = false))

structure Ledger where
  /-- ids accepted by `Add`, in order -/
  added : List Nat := []
  /-- ids put back by `Revert`, in order -/
  reverted : List Nat := []
  /-- ids handed to the consumer by `Get` or `Pick`, in order -/
  returned : List Nat := []
  /-- the subsequence of `returned` that came from `Get` -/
  got : List Nat := []
  /-- ids discarded by `Clean` / `DeleteLast` -/
  removed : List Nat := []
  deriving Repr

structure St where
  bus : BufferedBus Nat
  n : Nat := 0
  led : Ledger := {}

def step (s : St) : Op → St
  | .add c =>
    { bus := s.bus.add s.n c, n := s.n + 1, led := { s.led with added := s.led.added ++ [s.n] } }
  | .tryAdd c =>
    if s.bus.canAdd then
      { bus := s.bus.add s.n c, n := s.n + 1, led := { s.led with added := s.led.added ++ [s.n] } }
    else { s with n := s.n + 1 }
  | .revert x c =>
    { bus := s.bus.revert x c, n := s.n + 1, led := { s.led with reverted := s.led.reverted ++ [x] } }
  | .deleteLast =>
    { bus := s.bus.deleteLast, n := s.n + 1,
      led := { s.led with removed := s.led.removed ++ (s.bus.buffer.getLast?.map (·.2)).toList } }
  | .get =>
    let r := s.bus.get
    { bus := r.2, n := s.n + 1,
      led := { s.led with returned := s.led.returned ++ r.1.toList, got := s.led.got ++ r.1.toList } }
  | .pick p =>
    let r := s.bus.pick p
    { bus := r.2, n := s.n + 1, led := { s.led with returned := s.led.returned ++ r.1.toList } }
  | .connect c => { s with bus := s.bus.connect c, n := s.n + 1 }
  | .clean =>
    { bus := s.bus.clean, n := s.n + 1, led := { s.led with removed := s.led.removed ++ s.bus.inside } }

def runFrom (s : St) (h : List Op) : St := h.foldl step s

def init (queueLength bufferLength : Int) : St := { bus := BufferedBus.new queueLength bufferLength }

/-- the state after the history `h` on a fresh `NewBufferedBus(queueLength, bufferLength)` -/
def run (queueLength bufferLength : Int) (h : List Op) : St := runFrom (init queueLength bufferLength) h

end BusHist

/-! ## History semantics of a SimpleBus of ids -/

namespace SBusHist

inductive Op where
  | add
  /-- `if b.CanAdd() { b.Add(id) }` -/
  | tryAdd
  | get
  | flush
  | clean
  deriving DecidableEq, Repr

structure St where
  bus : SimpleBus Nat := {}
  n : Nat := 0
  added : List Nat := []
  returned : List Nat := []
  /-- ids lost: overwritten by an `Add` on a full latch, or flushed/cleaned -/
  removed : List Nat := []
  deriving Repr

def step (s : St) : Op → St
  | .add =>
    { s with bus := s.bus.add s.n, n := s.n + 1, added := s.added ++ [s.n],
             removed := s.removed ++ s.bus.pending.toList }
  | .tryAdd =>
    if s.bus.canAdd then
      { s with bus := s.bus.add s.n, n := s.n + 1, added := s.added ++ [s.n],
               removed := s.removed ++ s.bus.pending.toList }
    else { s with n := s.n + 1 }
  | .get =>
    let r := s.bus.get
    { s with bus := r.2, n := s.n + 1, returned := s.returned ++ r.1.toList }
  | .flush => { s with bus := s.bus.flush, n := s.n + 1, removed := s.removed ++ s.bus.inside }
  | .clean => { s with bus := s.bus.clean, n := s.n + 1, removed := s.removed ++ s.bus.inside }

def runFrom (s : St) (h : List Op) : St := h.foldl step s

def run (h : List Op) : St := runFrom {} h

end SBusHist

end Model

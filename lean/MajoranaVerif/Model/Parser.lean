/-
  Model/Parser.lean — hand-written executable model of `risc.Parse`
  (/repo/risc/parser.go) for property C11.  Core Lean only.

  Representation.  A Go `string` is a byte string, so the model works on
  `List UInt8`; nothing assumes valid UTF-8.  The three places where the Go
  code looks at *runes* are modelled on bytes as follows (each justified below
  and cross-checked on every run by the c11 stream, including a sweep of Go's
  `unicode.IsSpace` / `unicode.ToLower` over all code points):

  * `strings.TrimSpace` — forward: Go decodes a rune at the start and strips it
    if `unicode.IsSpace`; a space rune is decoded exactly when the bytes start
    with its (shortest-form) UTF-8 encoding, invalid bytes decode to U+FFFD
    (not a space) — so `trimLeft` strips the *encodings* listed in
    `isSp1/isSp2/isSp3`.  Backward: `utf8.DecodeLastRuneInString` returns a
    space rune exactly when the string *ends* with one of the same encodings
    (it walks back over at most three continuation bytes to a start byte and
    requires the forward decode to end exactly at the end) — so `trimRight`
    strips the same encodings as suffixes (`trimRight = reverse ∘ trimLeftRev ∘ reverse`).
  * `strings.ToLower` on the mnemonic — only compared with 45 ASCII words.  The
    model lower-cases ASCII bytes, maps the encodings of U+0130 (C4 B0 ↦ `i`)
    and U+212A (E2 84 AA ↦ `k`) — the only two non-ASCII code points whose
    `unicode.ToLower` is ASCII — and copies every other byte ≥ 0x80 (Go would
    produce some non-ASCII rune or U+FFFD there: not ASCII either way).  A
    lead byte is never a continuation byte, so Go's decoder is always aligned
    at a C4 / E2 byte, whatever garbage precedes it.  Hence
    `toLower w` is a mnemonic iff `strings.ToLower(w)` is, and then they are equal.
  * `strings.IndexRune(s, '(')`, `Index(" ")`, `Index("#")`, `Split(",")`,
    `Split("\n")`, `HasSuffix(")")` are byte searches for ASCII bytes.

  Labels inside `Gen.Instr` and the label map are Lean `String`s; a Go label is
  an arbitrary byte string, embedded by `latin1` (byte `b` ↦ code point U+00`b`,
  injective; the identity on ASCII).

  Every Go indexing / slicing expression is an explicit `idx` / `slice` that
  yields `.panic` when out of range; `Props.C11.no_panic` proves none fires.
-/
import MajoranaVerif.Model.GoInt
import MajoranaVerif.Gen.Opcodes
open GoInt

namespace Model.Parser

abbrev Bytes := List UInt8

/-- the faults of the parser: `.err kind` (kind ∈ args, reg, int, offset, unknown) or `.panic _` -/
abbrev ParseErr := Fault

/-! ### byte-string primitives -/

/-- `strings.Split(s, sep)` for a one-byte separator: always n+1 pieces -/
def splitOn (sep : UInt8) : Bytes → List Bytes
  | [] => [[]]
  | b :: r =>
    if b == sep then [] :: splitOn sep r
    else match splitOn sep r with
      | h :: t => (b :: h) :: t
      | [] => [[b]]

/-- `strings.Join(parts, sep)` (used by the layout edits and the pretty-printer) -/
def joinWith (sep : UInt8) : List Bytes → Bytes
  | [] => []
  | [a] => a
  | a :: b :: r => a ++ sep :: joinWith sep (b :: r)

/-- `strings.Index(s, c)` for a one-byte needle; `none` is Go's -1 -/
def indexOf (c : UInt8) : Bytes → Option Nat
  | [] => none
  | b :: r => if b == c then some 0 else (indexOf c r).map (· + 1)

/-- `s[lo:hi]` -/
def slice (s : Bytes) (lo hi : Nat) : M Bytes :=
  if lo ≤ hi ∧ hi ≤ s.length then pure ((s.take hi).drop lo)
  else throw (.panic "slice bounds out of range")

/-- `s[i]` -/
def idx {α} (s : List α) (i : Nat) : M α :=
  match s[i]? with
  | some v => pure v
  | none => throw (.panic "index out of range")

/-! ### `strings.TrimSpace` -/

/-- one-byte spaces: `\t \n \v \f \r` and ` ` -/
def isSp1 (a : UInt8) : Bool := a == 0x20 || (0x09 ≤ a && a ≤ 0x0D)
/-- U+0085 (C2 85), U+00A0 (C2 A0) -/
def isSp2 (a b : UInt8) : Bool := a == 0xC2 && (b == 0x85 || b == 0xA0)
/-- U+1680 (E1 9A 80), U+2000–U+200A (E2 80 80–8A), U+2028/2029 (E2 80 A8/A9),
U+202F (E2 80 AF), U+205F (E2 81 9F), U+3000 (E3 80 80) -/
def isSp3 (a b c : UInt8) : Bool :=
  (a == 0xE1 && b == 0x9A && c == 0x80) ||
  (a == 0xE2 && b == 0x80 && ((0x80 ≤ c && c ≤ 0x8A) || c == 0xA8 || c == 0xA9 || c == 0xAF)) ||
  (a == 0xE2 && b == 0x81 && c == 0x9F) ||
  (a == 0xE3 && b == 0x80 && c == 0x80)

/-- strip leading tokens, a token being one byte accepted by `p1`, two by `p2` or three by `p3` -/
def dropToks (p1 : UInt8 → Bool) (p2 : UInt8 → UInt8 → Bool) (p3 : UInt8 → UInt8 → UInt8 → Bool) :
    Bytes → Bytes
  | [] => []
  | [a] => if p1 a then [] else [a]
  | [a, b] => if p1 a then dropToks p1 p2 p3 [b] else if p2 a b then [] else [a, b]
  | a :: b :: c :: r =>
    if p1 a then dropToks p1 p2 p3 (b :: c :: r)
    else if p2 a b then dropToks p1 p2 p3 (c :: r)
    else if p3 a b c then dropToks p1 p2 p3 r
    else a :: b :: c :: r

/-- `strings.TrimLeftFunc(s, unicode.IsSpace)` -/
def trimLeft : Bytes → Bytes := dropToks isSp1 isSp2 isSp3
/-- the same on the reversed string: encodings read backwards -/
def trimLeftRev : Bytes → Bytes := dropToks isSp1 (fun a b => isSp2 b a) (fun a b c => isSp3 c b a)
/-- `strings.TrimRightFunc(s, unicode.IsSpace)` -/
def trimRight (s : Bytes) : Bytes := (trimLeftRev s.reverse).reverse
/-- `strings.TrimSpace` -/
def trimSpace (s : Bytes) : Bytes := trimRight (trimLeft s)

/-! ### `strings.ToLower` (as far as the comparison with ASCII mnemonics can see) -/

def lowerAscii (a : UInt8) : UInt8 := if 0x41 ≤ a && a ≤ 0x5A then a + 0x20 else a

def toLower : Bytes → Bytes
  | [] => []
  | [a] => [lowerAscii a]
  | [a, b] => if a == 0xC4 && b == 0xB0 then [0x69] else lowerAscii a :: toLower [b]
  | a :: b :: c :: r =>
    if a == 0xC4 && b == 0xB0 then 0x69 :: toLower (c :: r)
    else if a == 0xE2 && b == 0x84 && c == 0xAA then 0x6B :: toLower r
    else lowerAscii a :: toLower (b :: c :: r)

/-! ### labels as Lean strings -/

/-- byte `b` ↦ code point `b` (injective; identity on ASCII) -/
def latin1 (s : Bytes) : String := String.ofList (s.map Char.ofUInt8)
/-- inverse of `latin1` on its range -/
def unlatin1 (s : String) : Bytes := s.toList.map (fun c => c.toNat.toUInt8)

def ascii (s : String) : Bytes := unlatin1 s

/-! ### operand parsers -/

def regNames : List String :=
  ["zero", "ra", "sp", "gp", "tp", "t0", "t1", "t2", "s0", "s1", "a0", "a1", "a2", "a3", "a4", "a5",
   "a6", "a7", "s2", "s3", "s4", "s5", "s6", "s7", "s8", "s9", "s10", "s11", "t3", "t4", "t5", "t6"]

/-- the optional `$` of a register name -/
def stripDollar : Bytes → Bytes
  | 0x24 :: r => r
  | s => s

/-- `parseRegister`: the `switch` over both spellings; the Go constants `Zero … T6` are 0 … 31
(`Gen.Reg.*`, regenerated) in exactly this order -/
def parseRegister (s : Bytes) : M Reg :=
  match regNames.idxOf? (latin1 (stripDollar s)) with
  | some r => pure r
  | none => throw (.err "reg")

def isDigit (a : UInt8) : Bool := 0x30 ≤ a && a ≤ 0x39

def digitsVal (ds : Bytes) : Nat := ds.foldl (fun acc d => acc * 10 + (d.toNat - 48)) 0

/-- optional sign of `strconv.ParseInt`: (negative?, the rest) -/
def signSplit : Bytes → Bool × Bytes
  | 0x2B :: r => (false, r)
  | 0x2D :: r => (true, r)
  | s => (false, s)

/-- `strconv.ParseInt(s, 10, 32)` followed by `int32(·)`: optional sign, one or more decimal
digits, nothing else (no `_`, no `0x`), value within [-2³¹, 2³¹-1]; everything else is an error -/
def parseInt32 (s : Bytes) : M Word :=
  let neg := (signSplit s).1
  let ds := (signSplit s).2
  if ds.isEmpty || !ds.all isDigit then throw (.err "int")
  else
    let n := digitsVal ds
    if neg then
      if n > 2147483648 then throw (.err "int") else pure (BitVec.ofInt 32 (-(n : Int)))
    else
      if n ≥ 2147483648 then throw (.err "int") else pure (BitVec.ofNat 32 n)

def hasSuffixByte (s : Bytes) (c : UInt8) : Bool := s.getLast? == some c

/-- `parseOffsetReg` -/
def parseOffsetReg (s : Bytes) : M (Word × Reg) :=
  match indexOf 0x28 s with
  | none => throw (.err "offset")
  | some fp =>
    if !hasSuffixByte s 0x29 then throw (.err "offset")
    else do
      let immS ← slice s 0 fp
      let imm ← parseInt32 (trimSpace immS)
      let regS ← slice s (fp + 1) (s.length - 1)
      let reg ← parseRegister (trimSpace regS)
      pure (imm, reg)

def validateArgs (expected : Nat) (args : List Bytes) : M Unit :=
  if args.length != expected then throw (.err "args") else pure ()

/-- `strings.TrimSpace(elements[i])` -/
def arg (els : List Bytes) (i : Nat) : M Bytes := do
  let e ← idx els i
  pure (trimSpace e)

/-! ### the `switch` -/

open Gen in
def mnemonicOf (key : Bytes) : Option InstructionType :=
  match latin1 key with
  | "add" => some .Add | "and" => some .And | "addi" => some .Addi | "andi" => some .Andi
  | "auipc" => some .Auipc | "beq" => some .Beq | "beqz" => some .Beqz | "bge" => some .Bge
  | "bgeu" => some .Bgeu | "ble" => some .Ble | "blt" => some .Blt | "bltu" => some .Bltu
  | "bne" => some .Bne | "bnez" => some .Bnez | "div" => some .Div | "j" => some .J
  | "jal" => some .Jal | "jalr" => some .Jalr | "lui" => some .Lui | "lb" => some .Lb
  | "lh" => some .Lh | "li" => some .Li | "lw" => some .Lw | "nop" => some .Nop
  | "mul" => some .Mul | "mv" => some .Mv | "or" => some .Or | "ori" => some .Ori
  | "rem" => some .Rem | "ret" => some .Ret | "sb" => some .Sb | "sh" => some .Sh
  | "sll" => some .Sll | "slli" => some .Slli | "slt" => some .Slt | "sltu" => some .Sltu
  | "slti" => some .Slti | "sra" => some .Sra | "srai" => some .Srai | "srl" => some .Srl
  | "srli" => some .Srli | "sub" => some .Sub | "sw" => some .Sw | "xor" => some .Xor
  | "xori" => some .Xori
  | _ => none

/-- `op a, b, c` with three registers -/
def rrr (els : List Bytes) (mk : Reg → Reg → Reg → Gen.Instr) : M Gen.Instr := do
  validateArgs 3 els
  let a ← parseRegister (← arg els 0)
  let b ← parseRegister (← arg els 1)
  let c ← parseRegister (← arg els 2)
  pure (mk a b c)

/-- `op a, b, imm` -/
def rri (els : List Bytes) (mk : Reg → Reg → Word → Gen.Instr) : M Gen.Instr := do
  validateArgs 3 els
  let a ← parseRegister (← arg els 0)
  let b ← parseRegister (← arg els 1)
  let c ← parseInt32 (← arg els 2)
  pure (mk a b c)

/-- `op a, imm` -/
def ri (els : List Bytes) (mk : Reg → Word → Gen.Instr) : M Gen.Instr := do
  validateArgs 2 els
  let a ← parseRegister (← arg els 0)
  let b ← parseInt32 (← arg els 1)
  pure (mk a b)

/-- `op a, b, label` -/
def rrl (els : List Bytes) (mk : Reg → Reg → String → Gen.Instr) : M Gen.Instr := do
  validateArgs 3 els
  let a ← parseRegister (← arg els 0)
  let b ← parseRegister (← arg els 1)
  let l ← arg els 2
  pure (mk a b (latin1 l))

/-- `op a, label` -/
def rl (els : List Bytes) (mk : Reg → String → Gen.Instr) : M Gen.Instr := do
  validateArgs 2 els
  let a ← parseRegister (← arg els 0)
  let l ← arg els 1
  pure (mk a (latin1 l))

/-- `op a, off(b)` -/
def rm (els : List Bytes) (mk : Reg → Word → Reg → Gen.Instr) : M Gen.Instr := do
  validateArgs 2 els
  let a ← parseRegister (← arg els 0)
  let (off, b) ← parseOffsetReg (← arg els 1)
  pure (mk a off b)

/-- `op a, b` -/
def rr (els : List Bytes) (mk : Reg → Reg → Gen.Instr) : M Gen.Instr := do
  validateArgs 2 els
  let a ← parseRegister (← arg els 0)
  let b ← parseRegister (← arg els 1)
  pure (mk a b)

/-- `sh a, off, b` -/
def rir (els : List Bytes) (mk : Reg → Word → Reg → Gen.Instr) : M Gen.Instr := do
  validateArgs 3 els
  let a ← parseRegister (← arg els 0)
  let o ← parseInt32 (← arg els 1)
  let b ← parseRegister (← arg els 2)
  pure (mk a o b)

/-- `j label` -/
def l1 (els : List Bytes) (mk : String → Gen.Instr) : M Gen.Instr := do
  validateArgs 1 els
  let l ← arg els 0
  pure (mk (latin1 l))

/-- the 45 cases of the `switch`, with the Go field each operand position is stored in -/
def decodeOps (m : Gen.InstructionType) (els : List Bytes) : M Gen.Instr :=
  match m with
  | .Add => rrr els fun a b c => .add_ { rd := a, rs1 := b, rs2 := c }
  | .And => rrr els fun a b c => .and_ { rd := a, rs1 := b, rs2 := c }
  | .Addi => rri els fun a b i => .addi_ { imm := i, rd := a, rs := b }
  | .Andi => rri els fun a b i => .andi_ { imm := i, rd := a, rs := b }
  | .Auipc => ri els fun a i => .auipc_ { rd := a, imm := i }
  | .Beq => rrl els fun a b l => .beq_ { rs1 := a, rs2 := b, label := l }
  | .Beqz => rl els fun a l => .beqz_ { rs := a, label := l }
  | .Bge => rrl els fun a b l => .bge_ { rs1 := a, rs2 := b, label := l }
  | .Bgeu => rrl els fun a b l => .bgeu_ { rs1 := a, rs2 := b, label := l }
  | .Ble => rrl els fun a b l => .ble_ { rs1 := a, rs2 := b, label := l }
  | .Blt => rrl els fun a b l => .blt_ { rs1 := a, rs2 := b, label := l }
  | .Bltu => rrl els fun a b l => .bltu_ { rs1 := a, rs2 := b, label := l }
  | .Bne => rrl els fun a b l => .bne_ { rs1 := a, rs2 := b, label := l }
  | .Bnez => rl els fun a l => .bnez_ { rs := a, label := l }
  | .Div => rrr els fun a b c => .div_ { rd := a, rs1 := b, rs2 := c }
  | .J => l1 els fun l => .j_ { label := l }
  | .Jal => rl els fun a l => .jal_ { label := l, rd := a }
  | .Jalr => rri els fun a b i => .jalr_ { rd := a, rs := b, imm := i }
  | .Lui => ri els fun a i => .lui_ { rd := a, imm := i }
  | .Lb => rm els fun a o b => .lb_ { rd := a, offset := o, rs := b }
  | .Lh => rm els fun a o b => .lh_ { rd := a, offset := o, rs := b }
  | .Li => ri els fun a i => .li_ { rd := a, imm := i }
  | .Lw => rm els fun a o b => .lw_ { rd := a, offset := o, rs := b }
  | .Nop => pure (.nop_ {})
  | .Mul => rrr els fun a b c => .mul_ { rd := a, rs1 := b, rs2 := c }
  | .Mv => rr els fun a b => .mv_ { rd := a, rs := b }
  | .Or => rrr els fun a b c => .or_ { rd := a, rs1 := b, rs2 := c }
  | .Ori => rri els fun a b i => .ori_ { imm := i, rd := a, rs := b }
  | .Rem => rrr els fun a b c => .rem_ { rd := a, rs1 := b, rs2 := c }
  | .Ret => pure (.ret_ {})
  | .Sb => rm els fun a o b => .sb_ { rs := a, offset := o, rd := b }
  | .Sh => rir els fun a o b => .sh_ { rs := a, offset := o, rd := b }
  | .Sll => rrr els fun a b c => .sll_ { rd := a, rs1 := b, rs2 := c }
  | .Slli => rri els fun a b i => .slli_ { rd := a, rs := b, imm := i }
  | .Slt => rrr els fun a b c => .slt_ { rd := a, rs1 := b, rs2 := c }
  | .Sltu => rrr els fun a b c => .sltu_ { rd := a, rs1 := b, rs2 := c }
  | .Slti => rri els fun a b i => .slti_ { rd := a, rs := b, imm := i }
  | .Sra => rrr els fun a b c => .sra_ { rd := a, rs1 := b, rs2 := c }
  | .Srai => rri els fun a b i => .srai_ { rd := a, rs := b, imm := i }
  | .Srl => rrr els fun a b c => .srl_ { rd := a, rs1 := b, rs2 := c }
  | .Srli => rri els fun a b i => .srli_ { rd := a, rs := b, imm := i }
  | .Sub => rrr els fun a b c => .sub_ { rd := a, rs1 := b, rs2 := c }
  | .Sw => rm els fun a o b => .sw_ { rs := a, offset := o, rd := b }
  | .Xor => rrr els fun a b c => .xor_ { rd := a, rs1 := b, rs2 := c }
  | .Xori => rri els fun a b i => .xori_ { imm := i, rd := a, rs := b }

/-! ### one line -/

/-- what one source line contributes -/
inductive Item where
  | skip                       -- blank or comment
  | label (name : Bytes)
  | instr (i : Gen.Instr)
  deriving Repr, DecidableEq, Inhabited

/-- `comment := strings.Index(rem, "#"); if comment != -1 { rem = TrimSpace(rem[:comment]) }` -/
def cutComment (rem : Bytes) : M Bytes :=
  match indexOf 0x23 rem with
  | some c => do pure (trimSpace (← slice rem 0 c))
  | none => pure rem

/-- `firstWhitespace + 1` with Go's -1 for "not found": the whole line when there is no space -/
def remStart : Option Nat → Nat
  | some i => i + 1
  | none => 0

/-- the loop body of `Parse` after `line = strings.TrimSpace(line)` and the emptiness test -/
def classifyTrimmed (line : Bytes) : M Item := do
  if (← idx line 0) == 0x23 then return .skip
  let firstWhitespace := indexOf 0x20 line
  let lastCharacter ← idx line (line.length - 1)
  if firstWhitespace.isNone && lastCharacter == 0x3A then
    return .label (← slice line 0 (line.length - 1))
  -- `line[firstWhitespace+1:]` (with -1 + 1 = 0: the whole line when there is no space)
  let remainingLine ← cutComment (← slice line (remStart firstWhitespace) line.length)
  let elements := splitOn 0x2C remainingLine
  let del := firstWhitespace.getD line.length
  match mnemonicOf (toLower (← slice line 0 del)) with
  | some m => return .instr (← decodeOps m elements)
  | none => throw (.err "unknown")

/-- one raw line of the split text -/
def classify (raw : Bytes) : M Item :=
  let line := trimSpace raw
  if line.isEmpty then pure .skip else classifyTrimmed line

/-- the instruction a line decodes to (clause (d) of C11); `none` for blank, comment and label lines -/
def decodeLine (raw : Bytes) : M (Option Gen.Instr) := do
  match ← classify raw with
  | .instr i => pure (some i)
  | _ => pure none

/-! ### the whole text -/

structure App where
  instrs : List Gen.Instr := []
  labels : GoMap String Word := {}
  deriving Repr, Inhabited

/-- loop state of `Parse`: `instructions`, `labels`, `pc` -/
structure St where
  instrs : List Gen.Instr := []
  labels : GoMap String Word := {}
  pc : Word := 0
  deriving Repr, Inhabited

def St.apply (st : St) : Item → St
  | .skip => st
  | .label name => { st with labels := st.labels.set (latin1 name) st.pc }
  | .instr i => { st with instrs := st.instrs ++ [i], pc := st.pc + 4 }

def step (st : St) (raw : Bytes) : M St := do
  pure (st.apply (← classify raw))

def parseLines (lines : List Bytes) (st : St) : M St := lines.foldlM step st

/-- `risc.Parse` -/
def parse (s : Bytes) : Except ParseErr App := do
  let st ← parseLines (splitOn 0x0A s) {}
  pure { instrs := st.instrs, labels := st.labels }

end Model.Parser

/-
  Model/Mvp80.lean — cycle-accurate model of proc/mvp8-0: MVP-7.1 plus a shared L3 (32 lines of 128 bytes) between the
  L1Ds and memory.

  The diff of the directories `proc/mvp7-1` and `proc/mvp8-0`, file by file:
    cc.go   rewritten around the L3 (`Model.Mvp70`: `RCo80`, `WCo80`, `ccRead80`, `ccWrite80`, the snoop jobs `l3Evict`,
            `l1WriteBack80`, `l3WriteBack`, `finish80`): a miss in L1 costs an L3 access (50 cycles); a line in L3 is copied
            to L1 as a 64-byte sub-line (`GetSubCacheLine`, over `ExistingLines()` only); a miss in L3 costs a memory access,
            the L3 mutex of the line, another L3 access, then the 128-byte block is fetched (when it ENTERS L3: /repo fix
            2747746) and pushed; the overflow line of L3 is evicted or written back by a snoop command to the same core.
            In `coRead` the `Checkpoint` that should wait for that command is overwritten at once (no `return` behind it);
            in `coWrite` it is not.  `l1WriteBack` writes to L3 when the line is (still) there, else to memory.
            `cc.post` is set when the lock is granted.
    msi.go  request types `l1Evict l1WriteBack l3Evict l3WriteBack`; `l3Lock` (`sync.Mutex` per L3 line; the snoop closures
            use `if mu.TryLock() { return false }`: the first call takes the lock and waits one cycle, the next finds it
            taken and goes on), `l3Write`; `setL1State` sets `staleState`; `evictL1ExtraCacheLine` also sends `l1Evict`
            for an INVALID line (the snoop side then panics in `assertAddrInState`); L3 commands' callbacks only delete
            the command
    cpu.go  the L3; at the end `cc.writeBack()` per core (modified L1 lines go to L3 if the line is there, else to memory),
            then `l3WriteBack()` (EVERY L3 line is written to memory, 309 cycles each)
    mmu.go  `fetchCacheLine(addr, cacheLineSize)` aligns to its argument
    cu.go   `getL1AlignedMemoryAddress` (same value); du.go, cu.go: `stats()`; bu btb eu fu wu: same code.
  All of it is in `Model.Mvp70` behind the configuration flag `Msi.v80`; this file sets it and creates the L3.

  `Model/L3.lean` (the other agent's abstract model of the L3's data side) is not used: the tie needs the exact recency
  order of the LRU lists (`Get` refreshes it and decides later evictions), which `Model.LineCache` has.

  Go map iterations: nothing new depends on map order (`coSnoop`'s loop as in MVP-7.0: `maporder` with two pending
  requests to one core — here that includes the L3 commands a core sends to itself).
-/
import MajoranaVerif.Model.Mvp71
open GoInt

namespace Model.Mvp80
open Model.Seq (App Halt)
open Model.Mvp70 (State Result runFrom)

def cfg80 : Model.Mmu.Config :=
  { l1ILineSize := Gen.Consts.mvp8_0.l1ICacheLineSize, l1ISize := Gen.Consts.mvp8_0.l1ICacheSize,
    l1DLineSize := Gen.Consts.mvp8_0.l1DCacheLineSize, l1DSize := Gen.Consts.mvp8_0.l1DCacheSize }

def constsAgree : Bool :=
  decide (cfg80 = Model.Mvp70.cfg70) && decide (Gen.Consts.mvp8_0.pendingLength = Gen.Consts.mvp6_1.pendingLength)

def init (ctx : Model.Context) (par : Nat) : M State :=
  if !constsAgree then throw (.panic "proc/mvp8-0 constants differ from proc/mvp7-1: Model.Mvp80 must be revised")
  else do
    let s ← Model.Mvp71.init ctx par
    let l3 ← Model.Mmu.newCache Gen.Consts.mvp8_0.l3CacheLineSize Gen.Consts.mvp8_0.l3CacheSize
    pure { s with l3 := l3, msi := { s.msi with v80 := true } }

def run (app : App) (ctx : Model.Context) (par : Nat) (fuel : Nat) : Result :=
  match init ctx par with
  | .ok s => runFrom app fuel s 0
  | .error _ => { halt := some (.panic "NewCPU"), final := default, ticks := 0 }

end Model.Mvp80

/-
  Model/Mvp60Class.lean — decidable classes of programs for the correctness statements about MVP-6.0
  (`Props.C01.Full_mvp60_regonly_correct`, `Props.C01.mvp60_straightline_correct`).

  * `RegOnly app`: no load/store, no `div`/`rem` (a wrong-path division by zero ends the run with its error:
    `Props.C07.mvp60_wrong_path_error`), every label that is used is defined (a wrong-path jump or taken branch to an
    undefined label would do the same).  Any ALU instruction, `mul`, branches, `j`/`jal`/`jalr`, `ret`.
  * `StraightLineRet app`: no load/store, no branch or jump; `ret` allowed (package R60b).
  * `StraightLine app`: no load/store, no branch or jump, no `ret`: the run falls off the end (or ends with the defined
    error of a `div`/`rem` by zero — there is no wrong path, so `div`/`rem` are allowed).
-/
import MajoranaVerif.Gen.Opcodes
import MajoranaVerif.Model.SeqMachine
open GoInt

namespace Model.Mvp60
open Model.Seq (App)

/-- `lb lh lw sb sh sw` -/
def isMemType (t : Gen.InstructionType) : Bool :=
  t == .Lb || t == .Lh || t == .Lw || t == .Sb || t == .Sh || t == .Sw

/-- `div rem`: the instructions with a defined error that depends on operand values -/
def isDivRem (t : Gen.InstructionType) : Bool := t == .Div || t == .Rem

/-- the label an instruction names, if any -/
def labelOf : Gen.Instr → Option String
  | .beq_ o => some o.label | .beqz_ o => some o.label | .bge_ o => some o.label | .bgeu_ o => some o.label
  | .ble_ o => some o.label | .blt_ o => some o.label | .bltu_ o => some o.label | .bne_ o => some o.label
  | .bnez_ o => some o.label | .j_ o => some o.label | .jal_ o => some o.label
  | _ => none

/-- register-only programs on which no wrong-path instruction can raise an error -/
def RegOnly (app : App) : Bool :=
  app.instrs.all fun i =>
    !isMemType i.instructionType && !isDivRem i.instructionType &&
    (match labelOf i with | some l => (app.labels.find? l).isSome | none => true)

/-- an instruction of a straight-line register-only program -/
def slInstr (i : Gen.Instr) : Bool :=
  !isMemType i.instructionType && !i.instructionType.IsBranch && !(i.instructionType == .Ret)

/-- register-only programs without control flow -/
def StraightLine (app : App) : Bool := app.instrs.all slInstr

/-- an instruction of a straight-line register-only program that may `ret` -/
def slrInstr (i : Gen.Instr) : Bool :=
  !isMemType i.instructionType && !i.instructionType.IsBranch

/-- register-only programs without branches and jumps; `ret` allowed anywhere (the run ends at the first one) -/
def StraightLineRet (app : App) : Bool := app.instrs.all slrInstr

end Model.Mvp60

/-
  Model/Mvp60Class.lean — decidable classes of programs for the correctness statements about MVP-6.0
  (`Props.C01.Full_mvp60_regonly_correct`, `Props.C01.mvp60_straightline_correct`).

  * `RegOnly app`: no load/store, no `div`/`rem` (a wrong-path division by zero ends the run with its error:
    `Props.C07.mvp60_wrong_path_error`), every label that is used is defined (a wrong-path jump or taken branch to an
    undefined label would do the same).  Any ALU instruction, `mul`, branches, `j`/`jal`/`jalr`, `ret`.
  * `StraightLineRet app`: no load/store, no branch or jump; `ret` allowed (package R60b).
  * `StraightLine app`: no load/store, no branch or jump, no `ret`: the run falls off the end (or ends with the defined
    error of a `div`/`rem` by zero — there is no wrong path, so `div`/`rem` are allowed).
-/
import MajoranaVerif.Gen.Opcodes
import MajoranaVerif.Model.SeqMachine
open GoInt

namespace Model.Mvp60
open Model.Seq (App)

/-- `lb lh lw sb sh sw` -/
def isMemType (t : Gen.InstructionType) : Bool :=
  t == .Lb || t == .Lh || t == .Lw || t == .Sb || t == .Sh || t == .Sw

/-- `div rem`: the instructions with a defined error that depends on operand values -/
def isDivRem (t : Gen.InstructionType) : Bool := t == .Div || t == .Rem

/-- the label an instruction names, if any -/
def labelOf : Gen.Instr → Option String
  | .beq_ o => some o.label | .beqz_ o => some o.label | .bge_ o => some o.label | .bgeu_ o => some o.label
  | .ble_ o => some o.label | .blt_ o => some o.label | .bltu_ o => some o.label | .bne_ o => some o.label
  | .bnez_ o => some o.label | .j_ o => some o.label | .jal_ o => some o.label
  | _ => none

/-- register-only programs on which no wrong-path instruction can raise an error -/
def RegOnly (app : App) : Bool :=
  app.instrs.all fun i =>
    !isMemType i.instructionType && !isDivRem i.instructionType &&
    (match labelOf i with | some l => (app.labels.find? l).isSome | none => true)

/-- an instruction of a straight-line register-only program -/
def slInstr (i : Gen.Instr) : Bool :=
  !isMemType i.instructionType && !i.instructionType.IsBranch && !(i.instructionType == .Ret)

/-- register-only programs without control flow -/
def StraightLine (app : App) : Bool := app.instrs.all slInstr

/-- an instruction of a straight-line register-only program that may `ret` -/
def slrInstr (i : Gen.Instr) : Bool :=
  !isMemType i.instructionType && !i.instructionType.IsBranch

/-- register-only programs without branches and jumps; `ret` allowed anywhere (the run ends at the first one) -/
def StraightLineRet (app : App) : Bool := app.instrs.all slrInstr

/-- the label an instruction names (if any) is defined and is the address of an instruction of the program or of its end -/
def labelOk (app : App) (i : Gen.Instr) : Bool :=
  match labelOf i with
  | some l => (match app.labels.find? l with
      | some v => v.toNat % 4 == 0 && decide (v.toNat / 4 ≤ app.instrs.length)
      | none => false)
  | none => true

/-- an instruction of a register-only program whose only control flow is conditional branches and `ret` -/
def brInstr (app : App) (i : Gen.Instr) : Bool :=
  !isMemType i.instructionType && !isDivRem i.instructionType && !i.instructionType.IsUnconditionalBranch && labelOk app i

/-- register-only programs with conditional branches (forward and backward) and `ret`, no `j`/`jal`/`jalr`, no `div`/`rem`;
every label defined and pointing to an instruction (package R60b) -/
def BranchOnly (app : App) : Bool := app.instrs.all (brInstr app)

/-- an instruction of the class the proofs work with -/
def gInstr (app : App) (i : Gen.Instr) : Bool :=
  !isMemType i.instructionType && !i.instructionType.IsUnconditionalBranch && labelOk app i

/-- the class the proofs work with: no load/store, no jump, labels well-formed, and `div`/`rem` only in programs without
conditional branches (no wrong path).  It contains `StraightLineRet` and `BranchOnly`. -/
def ProvedClass (app : App) : Bool :=
  app.instrs.all (gInstr app) &&
  (app.instrs.all (fun i => !isDivRem i.instructionType) || app.instrs.all (fun i => !i.instructionType.IsConditionalBranch))

/-- an instruction of the class with jumps (package R60c): no load/store, labels well-formed -/
def jInstr (app : App) (i : Gen.Instr) : Bool :=
  !isMemType i.instructionType && labelOk app i

/-- the class the proofs of package R60c work with: no load/store, labels well-formed, and `div`/`rem` only in programs
without branches and jumps (no wrong path).  It contains `ProvedClass` and `RegOnlyWf`. -/
def JClass (app : App) : Bool :=
  app.instrs.all (jInstr app) &&
  (app.instrs.all (fun i => !isDivRem i.instructionType) || app.instrs.all (fun i => !i.instructionType.IsBranch))

/-- `RegOnly` with well-formed labels (every label points to an instruction of the program or to its end: what the
parser produces): register-only programs with branches, jumps, calls and `ret` (package R60c) -/
def RegOnlyWf (app : App) : Bool := RegOnly app && app.instrs.all (labelOk app)

/-- a store -/
def isStoreType (t : Gen.InstructionType) : Bool := t == .Sb || t == .Sh || t == .Sw

/-- an instruction of a straight-line program with loads (package R60d): no store, no branch or jump, no `ret`, no
`div`/`rem` (with loads in flight a younger instruction may execute before an older one: an error value of a `div`/`rem`
would have to be ordered against the results of the instructions around it) -/
def ldInstr (i : Gen.Instr) : Bool :=
  !isStoreType i.instructionType && !i.instructionType.IsBranch && !(i.instructionType == .Ret) && !isDivRem i.instructionType

/-- **straight-line programs with memory reads** (`lb`, `lh`, `lw` allowed; package R60d) -/
def StraightLineLd (app : App) : Bool := app.instrs.all ldInstr

/-- as `ldInstr`, `ret` allowed -/
def ldrInstr (i : Gen.Instr) : Bool :=
  !isStoreType i.instructionType && !i.instructionType.IsBranch && !isDivRem i.instructionType

/-- **straight-line programs with memory reads that may end with a `ret`**: a `ret` is allowed as the LAST instruction of
the program text only (package R60d; with an instruction behind a `ret` the machine is wrong on two and more units:
R60-defect-2) -/
def StraightLineLdRet (app : App) : Bool := app.instrs.dropLast.all ldInstr && app.instrs.all ldrInstr

/-- **straight-line programs with memory reads and `ret`** (anywhere: the run ends at the first one; true of the machine since
/repo's fix of R60-defect-2 — the decode unit stops at a `ret`) -/
def StraightLineLdR (app : App) : Bool := app.instrs.all ldrInstr

end Model.Mvp60

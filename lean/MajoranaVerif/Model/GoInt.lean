/-
  Model/GoInt.lean — Go's fixed-width integer semantics on `BitVec`, the run-time
  faults the translated code can raise, and the few container shapes the
  translator (verif/go/cmd/extract) targets.  HAND-WRITTEN, trusted (DESIGN §6);
  cross-checked on every run by executing the generated definitions against the
  real Go functions (C16 / C02 correspondence streams).
-/
namespace GoInt

/-- What a translated Go function can do besides returning a value. -/
inductive Fault where
  | err (msg : String)    -- a non-nil `error` result
  | panic (msg : String)  -- a Go run-time panic
  deriving Repr, DecidableEq, Inhabited

abbrev M := Except Fault

def Fault.isPanic : Fault → Bool
  | .panic _ => true
  | _ => false

/-! ### integer operations (signedness is chosen by the translator from go/types) -/

/-- `int8(x)`, `int32(x)`, `uint(x)` … : Go integer conversion. Widening sign- or
zero-extends according to the *source* type, narrowing truncates. -/
def conv (srcSigned : Bool) (m : Nat) (a : BitVec n) : BitVec m :=
  if srcSigned then a.signExtend m else a.setWidth m

/-- Shift counts are capped at the operand width before they reach `Nat` shifts:
Go shifts "behave as if the left operand is shifted `c` times by 1" (no masking, no
upper limit), and shifting `width` times already gives the limit value (0, or all
sign bits); the cap also keeps the compiled driver away from astronomically large
`Nat` shifts. -/
def cap (n : Nat) (c : BitVec m) : Nat := min c.toNat n

/-- `a << c` with an unsigned count: no masking, a count ≥ width gives 0. -/
def shlU (a : BitVec n) (c : BitVec m) : BitVec n := a <<< cap n c

/-- `a >> c`, `a` signed, unsigned count: arithmetic. -/
def sshrU (a : BitVec n) (c : BitVec m) : BitVec n := a.sshiftRight (cap n c)

/-- `a >> c`, `a` unsigned, unsigned count: logical. -/
def ushrU (a : BitVec n) (c : BitVec m) : BitVec n := a >>> cap n c

/-- signed shift count: Go panics when it is negative. -/
def shlS (a : BitVec n) (c : BitVec m) : M (BitVec n) :=
  if c.slt 0 then throw (.panic "negative shift amount") else pure (a <<< cap n c)

def sshrS (a : BitVec n) (c : BitVec m) : M (BitVec n) :=
  if c.slt 0 then throw (.panic "negative shift amount") else pure (a.sshiftRight (cap n c))

def ushrS (a : BitVec n) (c : BitVec m) : M (BitVec n) :=
  if c.slt 0 then throw (.panic "negative shift amount") else pure (a >>> cap n c)

/-- signed `/`: truncated; panics on a zero divisor; `min / -1 = min` (wraps). -/
def sdiv (a b : BitVec n) : M (BitVec n) :=
  if b == 0 then throw (.panic "integer divide by zero") else pure (a.sdiv b)

/-- signed `%`: sign of the dividend; panics on a zero divisor. -/
def srem (a b : BitVec n) : M (BitVec n) :=
  if b == 0 then throw (.panic "integer divide by zero") else pure (a.srem b)

def udiv (a b : BitVec n) : M (BitVec n) :=
  if b == 0 then throw (.panic "integer divide by zero") else pure (a / b)

def urem (a b : BitVec n) : M (BitVec n) :=
  if b == 0 then throw (.panic "integer divide by zero") else pure (a % b)

/-- slice indexing `s[i]` with a constant or computed index. -/
def index [Inhabited α] (s : List α) (i : Nat) : M α :=
  match s[i]? with
  | some v => pure v
  | none => throw (.panic "index out of range")

/-! ### Go maps as association lists (first match wins; `set` replaces in place
or appends, so the key set stays duplicate-free) -/

structure GoMap (κ : Type) (ν : Type) where
  entries : List (κ × ν) := []
  deriving Repr, Inhabited

namespace GoMap
variable {κ ν : Type} [BEq κ]

def empty : GoMap κ ν := ⟨[]⟩

def find? (m : GoMap κ ν) (k : κ) : Option ν := m.entries.lookup k

/-- `v, ok := m[k]` -/
def get [Inhabited ν] (m : GoMap κ ν) (k : κ) : ν × Bool :=
  match m.find? k with
  | some v => (v, true)
  | none => (default, false)

/-- `m[k]` -/
def get1 [Inhabited ν] (m : GoMap κ ν) (k : κ) : ν := (m.get k).1

def setList (k : κ) (v : ν) : List (κ × ν) → List (κ × ν)
  | [] => [(k, v)]
  | (k', v') :: rest => if k' == k then (k, v) :: rest else (k', v') :: setList k v rest

/-- `m[k] = v` -/
def set (m : GoMap κ ν) (k : κ) (v : ν) : GoMap κ ν := ⟨setList k v m.entries⟩

/-- `delete(m, k)` -/
def erase (m : GoMap κ ν) (k : κ) : GoMap κ ν := ⟨m.entries.filter (fun p => !(p.1 == k))⟩

def keys (m : GoMap κ ν) : List κ := m.entries.map (·.1)

def ofList (l : List (κ × ν)) : GoMap κ ν := l.foldl (fun m p => m.set p.1 p.2) empty

end GoMap
end GoInt

/-
  Model/SeqMachine.lean — cycle-accurate hand model of the two unpipelined machines
  proc/mvp1/cpu.go and proc/mvp2/cpu.go.

  Both run the same loop: fetch, decode, execute (optional memory read, then the
  instruction's `Run`), write back — and differ only in what a fetch costs (MVP-1:
  always a memory access; MVP-2: an L1 access when the pc lies in the 64-byte window
  fetched last).  The model therefore has ONE architectural step function,
  `stepArch`, built from the REGENERATED instruction semantics (`Gen.Instr.run`,
  `Gen.Instr.memoryRead`, `Gen.InstructionType.Cycles`, `Gen.Latency.*`,
  `Gen.Consts.*`), and a `FetchPolicy` that only contributes cycles.  Every Go panic
  site (instruction index, memory index) is an explicit `.panic` result.

  Tied to the Go code by the lock-step correspondence of C12/C01 (same programs, same
  initial states: status, cycle count, final registers and memory must be equal).
-/
import MajoranaVerif.Gen.Opcodes
import MajoranaVerif.Gen.Consts
import MajoranaVerif.Model.Ctx
open GoInt

namespace Model.Seq

structure App where
  instrs : List Gen.Instr
  labels : GoMap String Word
  deriving Inhabited

/-- architectural state of a run: the context (register file, memory) and the pc -/
structure Arch where
  ctx : Model.Context
  pc : Word
  deriving Inhabited

inductive Halt where
  | ret            -- executed `ret`
  | offEnd         -- pc/4 reached the number of instructions
  | err            -- `Run` returned an error value: the run returns (0, err)
  | panic (why : String)
  deriving Repr, DecidableEq, Inhabited

/-- `ctx.Memory[addr]` with a Go `int32` index -/
def readMem (mem : List Byte) (a : Word) : Option Byte :=
  if a.toInt < 0 then none else mem[a.toInt.toNat]?

/-- `ctx.WriteRegister(exe)` -/
def writeRegister (ctx : Model.Context) (e : Gen.Execution) : Model.Context :=
  { ctx with Registers := ctx.Registers.set e.Register e.RegisterValue }

/-- `ctx.WriteMemory(exe)`: `none` when an address is out of range (Go panics) -/
def writeMemory (ctx : Model.Context) (e : Gen.Execution) : Option Model.Context :=
  e.MemoryChanges.foldlM (init := ctx) fun c (a, b) =>
    if a.toInt < 0 ∨ c.Memory.length ≤ a.toInt.toNat then none
    else some { c with Memory := c.Memory.set a.toInt.toNat b }

/-- cost of everything in one loop iteration except the fetch: decode, optional memory read,
execute latency, write-back -/
structure StepCost where
  decode : Int
  memRead : Int
  execute : Int
  writeBack : Int
  deriving Repr, DecidableEq, Inhabited

def StepCost.total (c : StepCost) : Int := c.decode + c.memRead + c.execute + c.writeBack

inductive StepResult where
  | next (a : Arch) (cost : StepCost)
  | halt (h : Halt) (cost : StepCost)   -- cost accumulated before the halt (for `ret`: decode + execute)
  deriving Inhabited

/-- one iteration of the `for pc/4 < len(app.Instructions)` loop, fetch cost excluded -/
def stepArch (decodeCost : Int) (app : App) (a : Arch) : StepResult :=
  let zero : StepCost := ⟨0, 0, 0, 0⟩
  let idx := Int.tdiv a.pc.toInt 4
  if ¬ idx < app.instrs.length then .halt .offEnd zero
  else if idx < 0 then .halt (.panic "instruction index") zero
  else match app.instrs[idx.toNat]? with
    | none => .halt (.panic "instruction index") zero
    | some i =>
      let addrs := i.memoryRead a.ctx 0#32
      let bytes? := addrs.mapM (readMem a.ctx.Memory)
      match bytes? with
      | none => .halt (.panic "memory index") ⟨decodeCost, 0, 0, 0⟩
      | some bytes =>
        let mr : Int := if addrs.isEmpty then 0 else Gen.Latency.MemoryAccess
        match i.run a.ctx app.labels a.pc bytes 0#32 with
        | .error (.err _) => .halt .err ⟨decodeCost, mr, 0, 0⟩
        | .error (.panic w) => .halt (.panic w) ⟨decodeCost, mr, 0, 0⟩
        | .ok e =>
          match Gen.InstructionType.Cycles i.instructionType with
          | .error _ => .halt (.panic "Cycles") ⟨decodeCost, mr, 0, 0⟩
          | .ok ex =>
            if e.Return then .halt .ret ⟨decodeCost, mr, ex, 0⟩
            else
              let pc' := if e.PcChange then e.NextPc else a.pc + 4#32
              if e.RegisterChange then
                .next ⟨writeRegister a.ctx e, pc'⟩ ⟨decodeCost, mr, ex, Gen.Latency.RegisterAccess⟩
              else if e.MemoryChange then
                match writeMemory a.ctx e with
                | none => .halt (.panic "memory index") ⟨decodeCost, mr, ex, 0⟩
                | some c => .next ⟨c, pc'⟩ ⟨decodeCost, mr, ex, Gen.Latency.MemoryAccess⟩
              else .next ⟨a.ctx, pc'⟩ ⟨decodeCost, mr, ex, 0⟩

/-- what a fetch costs, and the state that decision depends on -/
structure FetchPolicy (σ : Type) where
  init : σ
  cost : σ → Word → σ × Int

/-- MVP-1: every fetch is a memory access -/
def mvp1Fetch : FetchPolicy Unit := ⟨(), fun _ _ => ((), Gen.Latency.MemoryAccess)⟩

/-- MVP-2: `l1iFrom ≤ pc ≤ l1iTo` (signed) hits the one-line instruction cache -/
def mvp2Fetch : FetchPolicy (Word × Word) :=
  ⟨(BitVec.ofInt 32 (-1), BitVec.ofInt 32 (-1)), fun (lo, hi) pc =>
    if lo.sle pc && pc.sle hi then ((lo, hi), Gen.Latency.L1Access)
    else ((pc, pc + BitVec.ofInt 32 Gen.Consts.mvp2.l1iSize), Gen.Latency.MemoryAccess)⟩

structure Result where
  halt : Option Halt      -- `none`: fuel exhausted
  final : Arch
  cycles : Int            -- what `Run` returns on success (an `err` run returns 0 in Go)
  steps : Nat             -- loop iterations started
  deriving Inhabited

/-- the `Run` loop: the fetch is charged only when the loop condition holds (as in Go) -/
def run {σ} (fp : FetchPolicy σ) (decodeCost : Int) (app : App) (a : Arch) (fuel : Nat) : Result :=
  go fuel a fp.init 0 0
where
  go : Nat → Arch → σ → Int → Nat → Result
  | 0, a, _, cyc, n => { halt := none, final := a, cycles := cyc, steps := n }
  | fuel + 1, a, fs, cyc, n =>
    match stepArch decodeCost app a with
    | .halt .offEnd _ => { halt := some .offEnd, final := a, cycles := cyc, steps := n }
    | .halt h c =>
      let (_, f) := fp.cost fs a.pc
      { halt := some h, final := a, cycles := cyc + f + c.total, steps := n + 1 }
    | .next a' c =>
      let (fs', f) := fp.cost fs a.pc
      go fuel a' fs' (cyc + f + c.total) (n + 1)

def runMvp1 (app : App) (a : Arch) (fuel : Nat) : Result := run mvp1Fetch Gen.Consts.mvp1.cyclesDecode app a fuel
def runMvp2 (app : App) (a : Arch) (fuel : Nat) : Result := run mvp2Fetch Gen.Consts.mvp2.cyclesDecode app a fuel

end Model.Seq

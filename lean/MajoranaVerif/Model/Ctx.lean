/-
  Model/Ctx.lean — the part of `risc.Context` (risc/app.go) that the translated
  instruction semantics read: register file, transaction map, the two rename
  tables and the mode flag.  Field names are the Go field names, because the
  generated code (Gen/Opcodes.lean) refers to them verbatim.
-/
import MajoranaVerif.Model.GoInt
import MajoranaVerif.Model.Rat
open GoInt

abbrev Word := BitVec 32
abbrev Byte := BitVec 8
/-- `risc.RegisterType` (a `uint64` in Go; only ever compared for equality). -/
abbrev Reg := Nat

namespace Model

/-- `risc.transactionUnit` -/
structure transactionUnit where
  sequenceID : Word := 0
  value : Word := 0
  deriving Repr, Inhabited, DecidableEq

structure Context where
  Registers : GoMap Reg Word := {}
  Transaction : GoMap Reg transactionUnit := {}
  PendingWriteRegisters : GoMap Reg Int := {}
  PendingReadRegisters : GoMap Reg Int := {}
  Memory : List Byte := []
  Debug : Bool := false
  sequenceID : Word := 0
  committedRAT : Rat Reg Word := Rat.new 10
  transactionRAT : Rat Reg transactionUnit := Rat.new 10
  rat : Bool := false
  deriving Inhabited

end Model

/-
  Model/Mvp60Fast.lean — `Model.Mvp60.runFast`: the same run as `Model.Mvp60.run`, computed without
  stepping through the ticks in which the whole machine only waits.

  MVP-6.0 spends most of its ticks waiting for a counter: 309 ticks per instruction-cache miss, per L3 miss
  and per store in a write unit, and a machine that has dead-locked (an execute unit polling a line that is
  "pending" forever) waits until the tick budget is exhausted.  `idle s` is a decidable description of
  "this tick changes nothing but the counters": every bus is stuck (`Connect` moves nothing: queue full or
  buffer empty), the fetch unit waits / is done / cannot add, the decode unit has nothing to read or is
  stopped, the control unit cannot add / its oldest blocked instruction is still blocked / has nothing to read,
  every execute unit counts down / has nothing to read / polls a pending line, every write unit counts down /
  has nothing to read.  Nothing of this depends on the value of `cycles`, so the next tick is idle as well
  until the smallest counter reaches 0: `skip s` ticks are replaced by `bump s (skip s)`.

  `Proofs/Mvp60Fast.lean` proves `runFast = run` (`runFast_eq_run`); the driver runs `runFast`.
-/
import MajoranaVerif.Model.Mvp60
open GoInt

namespace Model.Mvp60
open Model.Seq (App Halt)

/-- `Connect(c)` moves nothing, for every `c`: the queue is full or the buffer is empty -/
def busIdle {α : Type} (b : BufferedBus α) : Bool :=
  decide ((b.queue.length : Int) = b.queueLength) || b.buffer.isEmpty

def fuIdle (s : State) : Bool :=
  !s.fu.toCleanPending &&
  match s.fu.co with
  | .done => true
  | .wait => decide (s.fu.remainingCycles > 0)
  | .none => !s.decodeBus.canAdd

def duIdle (s : State) : Bool :=
  s.du.ret || s.du.pendingBranchResolution || s.decodeBus.queue.isEmpty

/-- `handleRunner` refuses the instruction (and then changes nothing and stops the cycle) -/
def blocked (s : State) (r : Runner) : Bool := !(handleRunner s.ctx s.executeBus s.cycles 0 r).1.1

def cuIdle (s : State) : Bool :=
  !s.executeBus.canAdd ||
  match s.cuPendings.iterator with
  | (_, r) :: _ => blocked s r
  | [] => !(decide (s.executeBus.remainingToAdd > 0) && !s.cuPendings.isFull) || s.controlBus.queue.isEmpty

/-- `coPrepareRun` returns at once and changes nothing: the write bus is full, or the instruction is a load
whose line is announced as pending (and looking the addresses up does not even change the LRU order) -/
def prepStuck (s : State) (r : Runner) : Bool :=
  !s.writeBus.canAdd ||
  (let t := r.instr.instructionType
   !t.IsUnconditionalBranch && !t.IsConditionalBranch && !s.bu.toCheck &&
   (let addrs := r.instr.memoryRead s.ctx 0#32
    !addrs.isEmpty &&
    match getFromL3 s.mmu s.pendings addrs with
    | .ok (.pending, m, p) => m == s.mmu && p == s.pendings
    | _ => false))

def euIdle (s : State) (eu : ExecUnit) : Bool :=
  match eu.co with
  | .none => s.executeBus.queue.isEmpty
  | .l3wait rem => decide (rem > 0)
  | .memwait rem _ => decide (rem > 0)
  | .prepare => match eu.runner with
    | none => false
    | some r => prepStuck s r

def wuIdle (s : State) (wu : WriteUnit) : Bool :=
  match wu.co with
  | .wait rem => decide (rem > 0)
  | .none => s.writeBus.queue.isEmpty

/-- `idle` for a tick at the head of the outer loop -/
def idleNormal (s : State) : Bool :=
  busIdle s.decodeBus && busIdle s.controlBus && busIdle s.executeBus && busIdle s.writeBus &&
  fuIdle s && duIdle s && cuIdle s && s.eus.all (euIdle s) && s.wus.all (wuIdle s) && !isEmpty s

/-- `idle` for a tick of the first drain loop after a `ret`: only the busy execute units and the write units cycle -/
def idleRetA (s : State) : Bool :=
  busIdle s.writeBus && s.eus.all (fun eu => eu.isEmpty || euIdle s eu) && s.wus.all (wuIdle s) &&
  s.eus.any (fun eu => !eu.isEmpty)

/-- `idle` for a tick of the second drain loop after a `ret`: only the write units cycle -/
def idleRetB (s : State) : Bool :=
  busIdle s.writeBus && s.wus.all (wuIdle s) && (!areWriteUnitsEmpty s || !s.writeBus.isEmpty)

/-- `idle` for a tick of write unit `i`'s drain loop before a flush: only this unit cycles -/
def idleFlushW (s : State) (i : Nat) : Bool :=
  busIdle s.writeBus &&
  match s.wus[i]? with
  | some wu => (match wu.co with | .wait rem => decide (rem > 0) | .none => false)
  | none => false

/-- the next tick changes nothing but counters (and does not end the run or the drain loop it is in) -/
def idle (s : State) : Bool :=
  match s.mode with
  | .normal => idleNormal s
  | .retA => idleRetA s
  | .retB => idleRetB s
  | .flushW i _ _ => idleFlushW s i

def fuCounter (s : State) : List Int := match s.fu.co with | .wait => [s.fu.remainingCycles] | _ => []
def euCounters (s : State) : List Int :=
  s.eus.filterMap (fun eu => match eu.co with | .l3wait rem => some rem | .memwait rem _ => some rem | _ => none)
def wuCounter (wu : WriteUnit) : Option Int := match wu.co with | .wait rem => some rem | _ => none

/-- the counters that are running -/
def counters (s : State) : List Int :=
  match s.mode with
  | .normal => fuCounter s ++ euCounters s ++ s.wus.filterMap wuCounter
  | .retA => euCounters s ++ s.wus.filterMap wuCounter
  | .retB => s.wus.filterMap wuCounter
  | .flushW i _ _ => (s.wus[i]?.bind wuCounter).toList

def bumpFu (fu : FetchUnit) (k : Nat) : FetchUnit :=
  match fu.co with | .wait => { fu with remainingCycles := fu.remainingCycles - k } | _ => fu
def bumpEu (k : Nat) (eu : ExecUnit) : ExecUnit :=
  match eu.co with
  | .l3wait rem => { eu with co := .l3wait (rem - k) }
  | .memwait rem a => { eu with co := .memwait (rem - k) a }
  | _ => eu
def bumpWu (k : Nat) (wu : WriteUnit) : WriteUnit :=
  match wu.co with
  | .wait rem => { wu with co := .wait (rem - k) }
  | _ => wu

/-- `k` ticks of waiting -/
def bump (s : State) (k : Nat) : State :=
  match s.mode with
  | .normal => { s with cycles := s.cycles + k, fu := bumpFu s.fu k, eus := s.eus.map (bumpEu k), wus := s.wus.map (bumpWu k) }
  | .retA => { s with cycles := s.cycles + k, eus := s.eus.map (bumpEu k), wus := s.wus.map (bumpWu k) }
  | .retB => { s with cycles := s.cycles + k, wus := s.wus.map (bumpWu k) }
  | .flushW i _ _ =>
    match s.wus[i]? with
    | some wu => { s with cycles := s.cycles + k, wus := s.wus.set i (bumpWu k wu) }
    | none => { s with cycles := s.cycles + k }

/-- how many ticks can be skipped when at most `limit` are left: the smallest running counter; when no counter is
running the machine is dead-locked and waits for ever -/
def skip (s : State) (limit : Nat) : Nat :=
  match (counters s).map Int.toNat with
  | [] => limit
  | c :: cs => min limit (cs.foldl min c)

/-- the ticks of `Run`, idle stretches in one step.  `gas` bounds the number of steps of this function (each consumes at
least one tick, so `gas = fuel` is enough); without gas, and in the case `skip = 0` that idle states do not have, it
falls back to `runFrom` — so `runFastFrom = runFrom` holds unconditionally (`Proofs.Mvp60Fast`). -/
def runFastFrom (app : App) : Nat → Nat → State → Nat → Result
  | 0, fuel, s, n => runFrom app fuel s n
  | _ + 1, 0, s, n => { halt := none, final := s, ticks := n }
  | gas + 1, fuel + 1, s, n =>
    if idle s then
      let k := skip s (fuel + 1)
      if k = 0 then runFrom app (fuel + 1) s n
      else runFastFrom app gas (fuel + 1 - k) (bump s k) (n + k)
    else
      match cycle app s with
      | (s', .running) => runFastFrom app gas fuel s' (n + 1)
      | (s', .done h) => { halt := some h, final := s', ticks := n + 1 }

/-- `NewCPU` + `Run` -/
def runFast (app : App) (ctx : Model.Context) (eu wu : Nat) (fuel : Nat) : Result :=
  match init ctx eu wu with
  | .ok s => runFastFrom app fuel fuel s 0
  | .error _ => { halt := some (.panic "NewCPU"), final := { ctx := ctx, mmu := default }, ticks := 0 }

end Model.Mvp60

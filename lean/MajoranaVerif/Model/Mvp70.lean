/-
  Model/Mvp70.lean — cycle-accurate model of proc/mvp7-0: MVP-6.3 with the L3 / memory-management data path replaced by
  one L1D per core behind a cache controller (`cc.go`) and an MSI directory (`msi.go`).

  Re-used from `Model.Mvp61` (with the flags `v62`, `v63` set — `Model.Mvp63`'s configuration), on the field `base`:
  fetch unit (its L1I is the `l1i` of `base.mmu`; the rest of `base.mmu` is unused), decode unit, control unit (hazards,
  forwarding, renaming, the `maporder` marker), branch unit / BTB, write units (a memory change never reaches them), the
  rename-table context, `euReceive`, `buAssert`, `euRun` for everything that is not a store, the flush modes.
  New here, from the Go text:
    msi.go  `Msi`: `states`, the semaphores `pendings`, `commands` (each with the identity of its shared
            `*msiCommandInfo`; `done` = the infos whose `doneFlag` is set), `rLock` / `lock` with their POST closures (`Post`)
    cc.go   `CC`: the L1D, the closure states of the three coroutines (`RCo`, `WCo`, the snoop list `SnoopJob`), the
            semaphores held by the request in flight
    eu.go   loads poll `cc.read`, stores are executed BY the execute unit through `cc.write` (no write-bus entry, no
            release of their pending registers)
    cpu.go  the snoop cycles in every loop, the final drain loop (`drain`), `export`
  Go map iterations: `for req, info := range requests` in `coSnoop` (the order in which the snoop closures of one core are
  appended): with more than one pending request to a core the model stops with `Model.Mvp61.mapOrderMsg`; `cc.flush`
  ranges over `rlockSems` / `lockSems` (at most one entry each: one request in flight per controller); `readRequest` /
  `writeRequest` / `invalidationRequest` range over `states` (the order only numbers the command infos).
-/
import MajoranaVerif.Model.Mvp63
open GoInt

namespace Model.Mvp70
open Model.Seq (App Halt)
open Model.Mvp60 (Event cfg)
open Model.Mvp61 (Runner ExecUnit EuOut EuAcc FlAcc Mode mapOrderMsg)

inductive MsiSt where
  | invalid | shared | modified
  deriving Repr, DecidableEq, Inhabited

inductive ReqType where
  | evict | writeBack
  /-- MVP-8.0 (`evict` / `writeBack` are its `l1Evict` / `l1WriteBack`) -/
  | l3Evict | l3WriteBack
  deriving Repr, DecidableEq, Inhabited

structure CmdKey where
  id : Nat
  addr : Int
  req : ReqType
  deriving Repr, DecidableEq, Inhabited

/-- `comp.Sem` -/
structure Sem where
  read : Int := 0
  write : Int := 0
  deriving Repr, DecidableEq, Inhabited

structure Msi where
  /-- `pendings map[AlignedAddress]*Sem` -/
  sems : List (Int × Sem) := []
  states : List ((Nat × Int) × MsiSt) := []
  /-- `commands`: key ↦ identity of the shared `*msiCommandInfo` -/
  commands : List (CmdKey × Nat) := []
  /-- the infos whose `doneFlag` is set -/
  done : List Nat := []
  nextCmd : Nat := 0
  /-- MVP-7.1 `staleState`: an eviction was requested, the control unit has to copy the states again -/
  stale : Bool := false
  /-- configuration: `true` = `proc/mvp8-0` (`setL1State` marks the copy stale; L3 locks and write marks below) -/
  v80 : Bool := false
  /-- MVP-8.0 `l3Lock`: the L3 lines (128-byte aligned) whose `sync.Mutex` is locked -/
  l3Locked : List Int := []
  /-- MVP-8.0 `l3Write`: the L3 lines written since they were fetched -/
  l3Write : List Int := []
  deriving Repr, Inhabited

/-- the POST closure of `rLock` / `lock`: `setState(id, addrs, st)` (optional), then `RUnlock` / `Unlock` -/
structure Post where
  id : Nat
  addr : Int
  setTo : Option MsiSt
  write : Bool
  deriving Repr, Inhabited

inductive RCo where
  | start
  | pend (fetch : Bool) (pendings : List Nat) (post : Post)
  | fetchWait (cycles : Int) (lineAddr : Int) (data : List Byte) (post : Post)
  | evictWait (pending : Option Nat) (post : Post)
  | l1Wait (cycles : Int) (data : List Byte)
  deriving Repr, Inhabited

inductive WCo where
  | start
  | pend (fetch : Bool) (pendings : List Nat) (post : Post)
  | fetchWait (cycles : Int) (lineAddr : Int) (data : List Byte) (post : Post)
  | evictWait (pending : Option Nat) (cycles : Int) (post : Post)
  | l1Wait (cycles : Int)
  deriving Repr, Inhabited

inductive SnoopJob where
  | evict (key : CmdKey) (cmd : Nat)
  | writeBack (cycles : Int) (key : CmdKey) (cmd : Nat)
  /-- MVP-8.0 -/
  | l3Evict (key : CmdKey) (cmd : Nat)
  | l1WriteBack80 (c1 c2 c3 : Int) (key : CmdKey) (cmd : Nat)
  | l3WriteBack (cycles : Int) (key : CmdKey) (cmd : Nat)
  deriving Repr, Inhabited

/-- MVP-8.0: the closure states of `coRead` -/
inductive RCo80 where
  | start
  | pend (notFromL1 : Bool) (pendings : List Nat)
  | l3Wait (c : Int)
  | memWait (c : Int)
  | lockWait
  | fillWait (c : Int)
  | evictWait (pending : Option Nat)
  | l1Wait (c : Int) (data : List Byte)
  deriving Repr, Inhabited

/-- MVP-8.0: the closure states of `coWrite` -/
inductive WCo80 where
  | start
  | pend (notFromL1 : Bool) (pendings : List Nat)
  | l1PushWait (c : Int) (l1Addr : Int) (l1Data : List Byte)
  | evictWait (pending : Option Nat)
  | memWait (c : Int)
  | l3Wait (c : Int)
  | l3EvictWait (pending : Option Nat)
  | afterL1 (c : Int)
  | l1Wait (c : Int)
  deriving Repr, Inhabited

structure CC where
  l1d : LineCache.Cache
  read : RCo := .start
  write : WCo := .start
  snoop : List SnoopJob := []
  rlockSems : List Int := []
  lockSems : List Int := []
  post : Option Post := none
  read80 : RCo80 := .start
  write80 : WCo80 := .start
  deriving Repr, Inhabited

/-- the closure states of an execute unit's coroutine -/
inductive Co where
  | start
  | prepare
  | reading (addrs : List Word)
  | writing (addrs : List Word) (data : List Byte)
  deriving Repr, Inhabited

structure State where
  base : Model.Mvp61.State
  cos : List Co := []
  ccs : List CC := []
  msi : Msi := {}
  /-- inside the final loop of `Run` (after the main loop) -/
  drain : Bool := false
  /-- MVP-8.0: the shared L3 (`msi.v80` is the configuration flag) -/
  l3 : LineCache.Cache := default
  deriving Inhabited

/-! ## msi.go -/

def alignOf (addrs : List Word) : M Int :=
  match addrs with
  | [] => throw (.panic "index out of range")
  | a :: _ => LineCache.alignDown a.toInt Gen.Consts.mvp7_0.l1DCacheLineSize

def getSem (m : Msi) (a : Int) : Sem := ((m.sems.find? (fun e => e.1 == a)).map (·.2)).getD {}
def setSem (m : Msi) (a : Int) (s : Sem) : Msi :=
  { m with sems := (a, s) :: m.sems.filter (fun e => e.1 != a) }

def getState (m : Msi) (id : Nat) (a : Int) : MsiSt :=
  ((m.states.find? (fun e => e.1 == (id, a))).map (·.2)).getD .invalid
def setState (m : Msi) (id : Nat) (a : Int) (st : MsiSt) : Msi :=
  { m with states := ((id, a), st) :: m.states.filter (fun e => e.1 != (id, a)) }

/-- `setState` / MVP-8.0 `setL1State` (which also sets `staleState`) — used by the POST closures -/
def setL1State (m : Msi) (id : Nat) (a : Int) (st : MsiSt) : Msi :=
  let m := setState m id a st
  if m.v80 then { m with stale := true } else m

/-- `sem.RLock()` / `sem.Lock()` on the semaphore of line `a`: `none` = refused -/
def rLockSem (m : Msi) (a : Int) : Option Msi :=
  let s := getSem m a
  if s.write > 0 then none else some (setSem m a { s with read := s.read + 1 })
def lockSem (m : Msi) (a : Int) : Option Msi :=
  let s := getSem m a
  if s.write > 0 || s.read > 0 then none else some (setSem m a { s with write := s.write + 1 })
def rUnlockSem (m : Msi) (a : Int) : M Msi :=
  let s := getSem m a
  if s.read - 1 < 0 then throw (.panic "read is negative") else pure (setSem m a { s with read := s.read - 1 })
def unlockSem (m : Msi) (a : Int) : M Msi :=
  let s := getSem m a
  if s.write - 1 < 0 then throw (.panic "write is negative") else pure (setSem m a { s with write := s.write - 1 })

def runPost (m : Msi) (p : Post) : M Msi :=
  let m := match p.setTo with | some st => setL1State m p.id p.addr st | none => m
  if p.write then unlockSem m p.addr else rUnlockSem m p.addr

/-- `sendNewMSICommand(id, alignedAddr, request)` -/
def sendCommand (m : Msi) (id : Nat) (a : Int) (req : ReqType) : Msi × Nat :=
  let key : CmdKey := { id := id, addr := a, req := req }
  match m.commands.find? (fun e => e.1 == key) with
  | some e => (m, e.2)
  | none => ({ m with commands := m.commands ++ [(key, m.nextCmd)], nextCmd := m.nextCmd + 1 }, m.nextCmd)

/-- the loop of `readRequest` / `writeRequest` / `invalidationRequest` over the other holders of the line -/
def requestOthers (m : Msi) (id : Nat) (a : Int) (evictShared : Bool) : Msi × List Nat :=
  m.states.foldl (fun (acc : Msi × List Nat) e =>
    if e.1.1 == id || e.1.2 != a then acc
    else match e.2 with
      | .modified => let (m', c) := sendCommand acc.1 e.1.1 a .writeBack; (m', acc.2 ++ [c])
      | .shared => if evictShared then (let (m', c) := sendCommand acc.1 e.1.1 a .evict; (m', acc.2 ++ [c])) else acc
      | .invalid => acc) (m, [])

/-- what `rLock` / `lock` answer: `none` = `wait` -/
abbrev LockResp := Option (Bool × List Nat × Post)

/-- `msi.rLock(id, addrs)`: `(fetchFromMemory, pendings, post)` -/
def rLock (m : Msi) (id : Nat) (a : Int) : Msi × LockResp :=
  match getState m id a with
  | .invalid =>
    match rLockSem m a with
    | none => (m, none)
    | some m =>
      let (m, ps) := requestOthers m id a false
      (m, some (true, ps, { id := id, addr := a, setTo := some .shared, write := false }))
  | .modified =>
    match lockSem m a with
    | none => (m, none)
    | some m => (m, some (false, [], { id := id, addr := a, setTo := none, write := true }))
  | .shared =>
    match rLockSem m a with
    | none => (m, none)
    | some m => (m, some (false, [], { id := id, addr := a, setTo := none, write := false }))

/-- `msi.lock(id, addrs)` -/
def lock (m : Msi) (id : Nat) (a : Int) : Msi × LockResp :=
  match lockSem m a with
  | none => (m, none)
  | some m' =>
    match getState m id a with
    | .invalid =>
      let (m', ps) := requestOthers m' id a true
      (m', some (true, ps, { id := id, addr := a, setTo := some .modified, write := true }))
    | .modified => (m', some (false, [], { id := id, addr := a, setTo := none, write := true }))
    | .shared =>
      let (m', ps) := requestOthers m' id a true
      (m', some (false, ps, { id := id, addr := a, setTo := some .modified, write := true }))

/-- `msi.evictExtraCacheLine(id, alignedAddr)` -/
def evictExtra (m : Msi) (id : Nat) (a : Int) : Msi × Option Nat :=
  match getState m id a with
  | .shared => let (m, c) := sendCommand m id a .evict; (m, some c)
  | .modified => let (m, c) := sendCommand m id a .writeBack; (m, some c)
  -- MVP-8.0 `evictL1ExtraCacheLine`: `case shared, invalid: l1Evict`
  | .invalid => if m.v80 then (let (m, c) := sendCommand m id a .evict; (m, some c)) else (m, none)

/-- `info.done()`: `doneFlag = true`; the callback resets the state and deletes the command -/
def cmdDone (m : Msi) (key : CmdKey) (cmd : Nat) : Msi :=
  let m := { m with done := cmd :: m.done }
  let m := setState m key.id key.addr .invalid
  { m with commands := m.commands.filter (fun e => e.1 != key) }

/-- `info.done()` of an L3 command (MVP-8.0): the callback only deletes the command -/
def cmdDoneL3 (m : Msi) (key : CmdKey) (cmd : Nat) : Msi :=
  { m with done := cmd :: m.done, commands := m.commands.filter (fun e => e.1 != key) }

/-- MVP-8.0 `evictL3ExtraCacheLine(id, alignedAddr)` -/
def evictL3Extra (m : Msi) (id : Nat) (a : Int) : Msi × Nat :=
  sendCommand m id a (if m.l3Write.contains a then .l3WriteBack else .l3Evict)

def l3Align (a : Int) : Int := a - a.tmod Gen.Consts.mvp8_0.l3CacheLineSize

/-- `mu.TryLock()` on the mutex of L3 line `a`: `none` = it is locked -/
def l3TryLock (m : Msi) (a : Int) : Option Msi :=
  if m.l3Locked.contains a then none else some { m with l3Locked := a :: m.l3Locked }
def l3Unlock (m : Msi) (a : Int) : Msi := { m with l3Locked := m.l3Locked.filter (· != a) }

def allDone (m : Msi) (ps : List Nat) : Bool := ps.all (fun c => m.done.contains c)

/-! ## cc.go -/

def setCC (s : State) (i : Nat) (cc : CC) : State := { s with ccs := s.ccs.set i cc }

def getCC (s : State) (i : Nat) : M CC :=
  match s.ccs[i]? with
  | some cc => pure cc
  | none => throw (.panic "cache controller index")

/-- `cc.getFromL1(addrs)` -/
def getFromL1 (cc : CC) (addrs : List Word) : M (List Byte × CC) := do
  let (r, c) ← Model.Mmu.getAll cc.l1d addrs
  match r with
  | none => throw (.panic "value presence should have been checked first")
  | some d => pure (d, { cc with l1d := c })

/-- `cc.pushLineToL1(addr, line)`: the line to evict, if the cache overflows -/
def pushLineToL1 (cc : CC) (a : Int) (line : List Byte) : M (Option LineCache.Line × CC) := do
  let (v, c) ← LineCache.get cc.l1d a
  match v with
  | some _ => pure (none, { cc with l1d := c })
  | none =>
    let (ev, c) := LineCache.pushLineWithEvictionWarning c a line
    pure (ev, { cc with l1d := Model.Mmu.fixHead c })

/-- the last closure of `coReadFromL1` -/
def readL1Step (s : State) (i : Nat) (a : Int) (cycles : Int) (data : List Byte) : M (State × Option (List Byte)) := do
  let cc ← getCC s i
  if cycles > 0 then pure (setCC s i { cc with read := .l1Wait (cycles - 1) data }, none)
  else
    match cc.post with
    | none => throw (.panic "nil post")
    | some p => do
      let m ← runPost s.msi p
      let cc := { cc with post := none, read := .start, rlockSems := cc.rlockSems.filter (· != a) }
      pure ({ setCC s i cc with msi := m }, some data)

/-- `cc.post = post; coReadFromL1` -/
def readL1Enter (s : State) (i : Nat) (a : Int) (addrs : List Word) (post : Post) : M (State × Option (List Byte)) := do
  let cc ← getCC s i
  let (data, cc) ← getFromL1 { cc with post := some post } addrs
  readL1Step (setCC s i cc) i a Gen.Latency.L1Access data

/-- the closure that waits for the memory and installs the line -/
def readFetchStep (s : State) (i : Nat) (a : Int) (addrs : List Word) (cycles : Int) (lineAddr : Int) (data : List Byte)
    (post : Post) : M (State × Option (List Byte)) := do
  let cc ← getCC s i
  if cycles > 0 then pure (setCC s i { cc with read := .fetchWait (cycles - 1) lineAddr data post }, none)
  else do
    let (ev, cc) ← pushLineToL1 cc lineAddr data
    match ev with
    | some line =>
      let (m, pending) := evictExtra s.msi i line.lo
      pure ({ setCC s i { cc with read := .evictWait pending post } with msi := m }, none)
    | none => readL1Enter (setCC s i cc) i a addrs post

/-- the closure that waits for the commands sent to the other holders -/
def readPendStep (s : State) (i : Nat) (a : Int) (addrs : List Word) (fetch : Bool) (ps : List Nat) (post : Post) :
    M (State × Option (List Byte)) := do
  let cc ← getCC s i
  if !allDone s.msi ps then pure (setCC s i { cc with read := .pend fetch ps post }, none)
  else if !fetch then readL1Enter s i a addrs post
  else do
    match ← LineCache.getCacheLine cc.l1d a with
    | some _ => throw (.panic "invalid state")
    | none =>
      match addrs with
      | [] => throw (.panic "index out of range")
      | a0 :: _ => do
        let data ← Model.Mmu.fetchCacheLine cfg s.base.ctx.Memory a0
        readFetchStep s i a addrs Gen.Latency.MemoryAccess a data post

/-- `cc.read.Cycle(ccReadReq{cycle, addrs})`: `some data` = done -/
def ccRead (s : State) (i : Nat) (addrs : List Word) : M (State × Option (List Byte)) := do
  let cc ← getCC s i
  let a ← alignOf addrs
  match cc.read with
  | .start =>
    let (m, resp) := rLock s.msi i a
    match resp with
    | none => pure ({ s with msi := m }, none)
    | some (fetch, ps, post) =>
      let s := { setCC s i { cc with rlockSems := a :: cc.rlockSems.filter (· != a) } with msi := m }
      readPendStep s i a addrs fetch ps post
  | .pend fetch ps post => readPendStep s i a addrs fetch ps post
  | .fetchWait cycles lineAddr data post => readFetchStep s i a addrs cycles lineAddr data post
  | .evictWait pending post =>
    match pending with
    | some c => if !s.msi.done.contains c then pure (s, none) else readL1Enter s i a addrs post
    | none => readL1Enter s i a addrs post
  | .l1Wait cycles data => readL1Step s i a cycles data

/-- the last closure of `coWriteToL1` -/
def writeL1Step (s : State) (i : Nat) (a : Int) (addrs : List Word) (data : List Byte) (cycles : Int) : M (State × Bool) := do
  let cc ← getCC s i
  if cycles > 0 then pure (setCC s i { cc with write := .l1Wait (cycles - 1) }, false)
  else
    match addrs with
    | [] => throw (.panic "index out of range")
    | a0 :: _ => do
      let c ← LineCache.write cc.l1d a0.toInt data
      match cc.post with
      | none => throw (.panic "nil post")
      | some p => do
        let m ← runPost s.msi p
        let cc := { cc with l1d := c, post := none, write := .start, lockSems := cc.lockSems.filter (· != a) }
        pure ({ setCC s i cc with msi := m }, true)

/-- `cc.post = post; coWriteToL1` -/
def writeL1Enter (s : State) (i : Nat) (a : Int) (addrs : List Word) (data : List Byte) (post : Post) : M (State × Bool) := do
  let cc ← getCC s i
  writeL1Step (setCC s i { cc with post := some post }) i a addrs data Gen.Latency.L1Access

def writeEvictStep (s : State) (i : Nat) (a : Int) (addrs : List Word) (data : List Byte) (pending : Option Nat)
    (cycles : Int) (post : Post) : M (State × Bool) := do
  let cc ← getCC s i
  let waiting := match pending with | some c => !s.msi.done.contains c | none => false
  if waiting then pure (setCC s i { cc with write := .evictWait pending cycles post }, false)
  else if cycles > 0 then pure (setCC s i { cc with write := .evictWait pending (cycles - 1) post }, false)
  else writeL1Enter s i a addrs data post

def writeFetchStep (s : State) (i : Nat) (a : Int) (addrs : List Word) (data : List Byte) (cycles : Int) (lineAddr : Int)
    (line : List Byte) (post : Post) : M (State × Bool) := do
  let cc ← getCC s i
  if cycles > 0 then pure (setCC s i { cc with write := .fetchWait (cycles - 1) lineAddr line post }, false)
  else do
    let (ev, cc) ← pushLineToL1 cc lineAddr line
    match ev with
    | some l =>
      let (m, pending) := evictExtra s.msi i l.lo
      -- `cc.write.Checkpoint(…); return ccWriteResp{}`: the new closure runs from the next cycle on
      pure ({ setCC s i { cc with write := .evictWait pending Gen.Latency.L1Access post } with msi := m }, false)
    | none => writeL1Enter (setCC s i cc) i a addrs data post

def writePendStep (s : State) (i : Nat) (a : Int) (addrs : List Word) (data : List Byte) (fetch : Bool) (ps : List Nat)
    (post : Post) : M (State × Bool) := do
  let cc ← getCC s i
  if !allDone s.msi ps then pure (setCC s i { cc with write := .pend fetch ps post }, false)
  else if !fetch then writeL1Enter s i a addrs data post
  else
    match addrs with
    | [] => throw (.panic "index out of range")
    | a0 :: _ => do
      let line ← Model.Mmu.fetchCacheLine cfg s.base.ctx.Memory a0
      writeFetchStep s i a addrs data Gen.Latency.MemoryAccess a line post

/-- `cc.write.Cycle(ccWriteReq{cycle, addrs, data})`: `true` = done -/
def ccWrite (s : State) (i : Nat) (addrs : List Word) (data : List Byte) : M (State × Bool) := do
  let cc ← getCC s i
  let a ← alignOf addrs
  match cc.write with
  | .start =>
    let (m, resp) := lock s.msi i a
    match resp with
    | none => pure ({ s with msi := m }, false)
    | some (fetch, ps, post) =>
      let s := { setCC s i { cc with lockSems := a :: cc.lockSems.filter (· != a) } with msi := m }
      writePendStep s i a addrs data fetch ps post
  | .pend fetch ps post => writePendStep s i a addrs data fetch ps post
  | .fetchWait cycles lineAddr line post => writeFetchStep s i a addrs data cycles lineAddr line post
  | .evictWait pending cycles post => writeEvictStep s i a addrs data pending cycles post
  | .l1Wait cycles => writeL1Step s i a addrs data cycles


/-! ## cc.go of MVP-8.0: the shared L3 between the L1s and memory -/

def cfgL3 : Model.Mmu.Config :=
  { l1ILineSize := Gen.Consts.mvp8_0.l1ICacheLineSize, l1ISize := Gen.Consts.mvp8_0.l1ICacheSize,
    l1DLineSize := Gen.Consts.mvp8_0.l3CacheLineSize, l1DSize := Gen.Consts.mvp8_0.l3CacheSize }

/-- `cc.isAddressInL3(addrs)`: `l3.Get(addrs[0])` (a hit refreshes the recency) -/
def inL3 (s : State) (addrs : List Word) : M (Bool × State) :=
  match addrs with
  | [] => throw (.panic "index out of range")
  | a :: _ => do
    let (v, c) ← LineCache.get s.l3 a.toInt
    pure (v.isSome, { s with l3 := c })

/-- MVP-8.0 `pushLineToL1` (with its assertions) -/
def pushLineToL1_80 (cc : CC) (a : Int) (line : List Byte) : M (Option LineCache.Line × CC) :=
  if (line.length : Int) != Gen.Consts.mvp8_0.l1DCacheLineSize || a.tmod Gen.Consts.mvp8_0.l1DCacheLineSize != 0 then
    throw (.panic "invalid state")
  else pushLineToL1 cc a line

/-- MVP-8.0 `pushLineToL3` -/
def pushLineToL3 (s : State) (a : Int) (line : List Byte) : M (Option LineCache.Line × State) :=
  if (line.length : Int) != Gen.Consts.mvp8_0.l3CacheLineSize || a.tmod Gen.Consts.mvp8_0.l3CacheLineSize != 0 then
    throw (.panic "invalid state")
  else do
    let (v, c) ← LineCache.get s.l3 a
    match v with
    | some _ => pure (none, { s with l3 := c })
    | none =>
      let (ev, c) := LineCache.pushLineWithEvictionWarning c a line
      pure (ev, { s with l3 := Model.Mmu.fixHead c })

/-- `cc.writeToL3(l1Addr, data)` -/
def writeToL3 (s : State) (l1Addr : Int) (data : List Byte) : M State := do
  let c ← LineCache.write s.l3 l1Addr data
  let a3 := l3Align l1Addr
  pure { s with l3 := c, msi := { s.msi with l3Write := a3 :: s.msi.l3Write.filter (· != a3) } }

def l3AlignOf (addrs : List Word) : M Int :=
  match addrs with
  | [] => throw (.panic "index out of range")
  | a :: _ => pure (l3Align a.toInt)

/-- the last closure of `coReadFromL1` (`ExecuteWithCheckpointAfter(L1Access, …)`) -/
def r80L1Step (s : State) (i : Nat) (a : Int) (c : Int) (data : List Byte) : M (State × Option (List Byte)) := do
  let cc ← getCC s i
  if c > 0 then pure (setCC s i { cc with read80 := .l1Wait (c - 1) data }, none)
  else
    match cc.post with
    | none => throw (.panic "nil post")
    | some p => do
      let m ← runPost s.msi p
      let cc := { cc with post := none, read80 := .start, rlockSems := cc.rlockSems.filter (· != a) }
      pure ({ setCC s i cc with msi := m }, some data)

/-- `coReadFromL1` -/
def r80FromL1 (s : State) (i : Nat) (a : Int) (addrs : List Word) : M (State × Option (List Byte)) := do
  let cc ← getCC s i
  let (data, cc) ← getFromL1 cc addrs
  r80L1Step (setCC s i cc) i a Gen.Latency.L1Access data

/-- `coSyncReadFromL1` -/
def r80Sync (s : State) (i : Nat) (a : Int) (addrs : List Word) : M (State × Option (List Byte)) := do
  match ← LineCache.getSubCacheLine s.l3 (addrs.map (·.toInt)) Gen.Consts.mvp8_0.l1DCacheLineSize with
  | none => throw (.panic "invalid state")
  | some (l1Addr, l1Data) => do
    let cc ← getCC s i
    let (ev, cc) ← pushLineToL1_80 cc l1Addr l1Data
    match ev with
    | some line =>
      let (m, pending) := evictExtra s.msi i line.lo
      pure ({ setCC s i { cc with read80 := .evictWait pending } with msi := m }, none)
    | none => r80FromL1 (setCC s i cc) i a addrs

/-- the closure that copies the block into L3 (the lock is held) -/
def r80Fill (s : State) (i : Nat) (a : Int) (addrs : List Word) (c : Int) : M (State × Option (List Byte)) := do
  let cc ← getCC s i
  if c > 0 then pure (setCC s i { cc with read80 := .fillWait (c - 1) }, none)
  else
    match addrs with
    | [] => throw (.panic "index out of range")
    | a0 :: _ => do
      let a3 := l3Align a0.toInt
      let data ← Model.Mmu.fetchCacheLine cfgL3 s.base.ctx.Memory a0
      let (ev, s) ← pushLineToL3 s a3 data
      let s := { s with msi := l3Unlock s.msi a3 }
      -- the `Checkpoint` that would wait for the eviction is overwritten at once (no `return` behind it in `coRead`)
      let s := match ev with
        | some line => { s with msi := (evictL3Extra s.msi i line.lo).1 }
        | none => s
      r80Sync s i a addrs

/-- the closure polling the L3 mutex -/
def r80Lock (s : State) (i : Nat) (a : Int) (addrs : List Word) : M (State × Option (List Byte)) := do
  let cc ← getCC s i
  let a3 ← l3AlignOf addrs
  match l3TryLock s.msi a3 with
  | none => pure (setCC s i { cc with read80 := .lockWait }, none)
  | some m => r80Fill { s with msi := m } i a addrs Gen.Latency.L3Access

def r80Mem (s : State) (i : Nat) (a : Int) (addrs : List Word) (c : Int) : M (State × Option (List Byte)) := do
  let cc ← getCC s i
  if c > 0 then pure (setCC s i { cc with read80 := .memWait (c - 1) }, none)
  else r80Lock s i a addrs

def r80L3 (s : State) (i : Nat) (a : Int) (addrs : List Word) (c : Int) : M (State × Option (List Byte)) := do
  let cc ← getCC s i
  if c > 0 then pure (setCC s i { cc with read80 := .l3Wait (c - 1) }, none)
  else do
    let (hit, s) ← inL3 s addrs
    if hit then r80Sync s i a addrs
    else r80Mem s i a addrs Gen.Latency.MemoryAccess

def r80Pend (s : State) (i : Nat) (a : Int) (addrs : List Word) (nf : Bool) (ps : List Nat) : M (State × Option (List Byte)) := do
  let cc ← getCC s i
  if !allDone s.msi ps then pure (setCC s i { cc with read80 := .pend nf ps }, none)
  else if !nf then r80FromL1 s i a addrs
  else
    match ← LineCache.getCacheLine cc.l1d a with
    | some _ => throw (.panic "invalid state")
    | none => r80L3 s i a addrs Gen.Latency.L3Access

/-- MVP-8.0 `cc.read.Cycle(…)` -/
def ccRead80 (s : State) (i : Nat) (addrs : List Word) : M (State × Option (List Byte)) := do
  let cc ← getCC s i
  let a ← alignOf addrs
  match cc.read80 with
  | .start =>
    let (m, resp) := rLock s.msi i a
    match resp with
    | none => pure ({ s with msi := m }, none)
    | some (nf, ps, post) =>
      let s := { setCC s i { cc with post := some post, rlockSems := a :: cc.rlockSems.filter (· != a) } with msi := m }
      r80Pend s i a addrs nf ps
  | .pend nf ps => r80Pend s i a addrs nf ps
  | .l3Wait c => r80L3 s i a addrs c
  | .memWait c => r80Mem s i a addrs c
  | .lockWait => r80Lock s i a addrs
  | .fillWait c => r80Fill s i a addrs c
  | .evictWait pending =>
    match pending with
    | some c => if !s.msi.done.contains c then pure (s, none) else r80FromL1 s i a addrs
    | none => r80FromL1 s i a addrs
  | .l1Wait c data => r80L1Step s i a c data

/-- the last closure of `coWriteToL1` -/
def w80L1Step (s : State) (i : Nat) (a : Int) (addrs : List Word) (data : List Byte) (c : Int) : M (State × Bool) := do
  let cc ← getCC s i
  if c > 0 then pure (setCC s i { cc with write80 := .l1Wait (c - 1) }, false)
  else
    match addrs with
    | [] => throw (.panic "index out of range")
    | a0 :: _ => do
      let l ← LineCache.write cc.l1d a0.toInt data
      match cc.post with
      | none => throw (.panic "nil post")
      | some p => do
        let m ← runPost s.msi p
        let cc := { cc with l1d := l, post := none, write80 := .start, lockSems := cc.lockSems.filter (· != a) }
        pure ({ setCC s i cc with msi := m }, true)

/-- `coWriteToL1` -/
def w80ToL1 (s : State) (i : Nat) (a : Int) (addrs : List Word) (data : List Byte) : M (State × Bool) :=
  w80L1Step s i a addrs data Gen.Latency.L1Access

/-- `ExecuteWithCheckpointAfter(r, L1Access, cc.coWriteToL1)` -/
def w80AfterL1 (s : State) (i : Nat) (a : Int) (addrs : List Word) (data : List Byte) (c : Int) : M (State × Bool) := do
  let cc ← getCC s i
  if c > 0 then pure (setCC s i { cc with write80 := .afterL1 (c - 1) }, false)
  else w80ToL1 s i a addrs data

/-- pushing the line into L1, then `coWriteToL1` (directly, or after the eviction of the overflow line) -/
def w80PushL1 (s : State) (i : Nat) (a : Int) (addrs : List Word) (data : List Byte) (l1Addr : Int) (l1Data : List Byte) :
    M (State × Bool) := do
  let cc ← getCC s i
  let (ev, cc) ← pushLineToL1_80 cc l1Addr l1Data
  match ev with
  | some line =>
    let (m, pending) := evictExtra s.msi i line.lo
    pure ({ setCC s i { cc with write80 := .evictWait pending } with msi := m }, false)
  | none => w80ToL1 (setCC s i cc) i a addrs data

/-- `coSyncWriteToL1` -/
def w80Sync (s : State) (i : Nat) (a : Int) (addrs : List Word) (data : List Byte) : M (State × Bool) := do
  match ← LineCache.getSubCacheLine s.l3 (addrs.map (·.toInt)) Gen.Consts.mvp8_0.l1DCacheLineSize with
  | none => throw (.panic "invalid state")
  | some (l1Addr, l1Data) => w80PushL1 s i a addrs data l1Addr l1Data

/-- the body behind the two waits of the "fetch from memory" branch of `coWrite` -/
def w80Fetch (s : State) (i : Nat) (a : Int) (addrs : List Word) (data : List Byte) : M (State × Bool) := do
  let cc ← getCC s i
  let a3 ← l3AlignOf addrs
  match l3TryLock s.msi a3 with
  | none => pure (setCC s i { cc with write80 := .l3Wait 0 }, false)
  | some _ =>
    -- `mu.Unlock()` at once
    match addrs with
    | [] => throw (.panic "index out of range")
    | a0 :: _ => do
      let line ← Model.Mmu.fetchCacheLine cfgL3 s.base.ctx.Memory a0
      let (ev, s) ← pushLineToL3 s a3 line
      match ev with
      | some l =>
        let (m, pending) := evictL3Extra s.msi i l.lo
        let cc ← getCC s i
        pure ({ setCC s i { cc with write80 := .l3EvictWait (some pending) } with msi := m }, false)
      | none => w80Sync s i a addrs data

def w80L3 (s : State) (i : Nat) (a : Int) (addrs : List Word) (data : List Byte) (c : Int) : M (State × Bool) := do
  let cc ← getCC s i
  if c > 0 then pure (setCC s i { cc with write80 := .l3Wait (c - 1) }, false)
  else w80Fetch s i a addrs data

def w80Mem (s : State) (i : Nat) (a : Int) (addrs : List Word) (data : List Byte) (c : Int) : M (State × Bool) := do
  let cc ← getCC s i
  if c > 0 then pure (setCC s i { cc with write80 := .memWait (c - 1) }, false)
  else w80L3 s i a addrs data Gen.Latency.L3Access

def w80L1Push (s : State) (i : Nat) (a : Int) (addrs : List Word) (data : List Byte) (c : Int) (l1Addr : Int)
    (l1Data : List Byte) : M (State × Bool) := do
  let cc ← getCC s i
  if c > 0 then pure (setCC s i { cc with write80 := .l1PushWait (c - 1) l1Addr l1Data }, false)
  else w80PushL1 s i a addrs data l1Addr l1Data

def w80Pend (s : State) (i : Nat) (a : Int) (addrs : List Word) (data : List Byte) (nf : Bool) (ps : List Nat) :
    M (State × Bool) := do
  let cc ← getCC s i
  if !allDone s.msi ps then pure (setCC s i { cc with write80 := .pend nf ps }, false)
  else if !nf then w80ToL1 s i a addrs data
  else do
    let (hit, s) ← inL3 s addrs
    if hit then
      match ← LineCache.getSubCacheLine s.l3 (addrs.map (·.toInt)) Gen.Consts.mvp8_0.l1DCacheLineSize with
      | none => throw (.panic "invalid state")
      | some (l1Addr, l1Data) => w80L1Push s i a addrs data Gen.Latency.L1Access l1Addr l1Data
    else w80Mem s i a addrs data Gen.Latency.MemoryAccess

/-- MVP-8.0 `cc.write.Cycle(…)` -/
def ccWrite80 (s : State) (i : Nat) (addrs : List Word) (data : List Byte) : M (State × Bool) := do
  let cc ← getCC s i
  let a ← alignOf addrs
  match cc.write80 with
  | .start =>
    let (m, resp) := lock s.msi i a
    match resp with
    | none => pure ({ s with msi := m }, false)
    | some (nf, ps, post) =>
      let s := { setCC s i { cc with post := some post, lockSems := a :: cc.lockSems.filter (· != a) } with msi := m }
      w80Pend s i a addrs data nf ps
  | .pend nf ps => w80Pend s i a addrs data nf ps
  | .l1PushWait c l1Addr l1Data => w80L1Push s i a addrs data c l1Addr l1Data
  | .evictWait pending =>
    match pending with
    | some c => if !s.msi.done.contains c then pure (s, false) else w80AfterL1 s i a addrs data Gen.Latency.L1Access
    | none => w80AfterL1 s i a addrs data Gen.Latency.L1Access
  | .memWait c => w80Mem s i a addrs data c
  | .l3Wait c => w80L3 s i a addrs data c
  | .l3EvictWait pending =>
    match pending with
    | some c => if !s.msi.done.contains c then pure (s, false) else w80Sync s i a addrs data
    | none => w80Sync s i a addrs data
  | .afterL1 c => w80AfterL1 s i a addrs data c
  | .l1Wait c => w80L1Step s i a addrs data c

/-- `cc.read.Cycle` / `cc.write.Cycle` of the configured machine -/
def ccReadD (s : State) (i : Nat) (addrs : List Word) : M (State × Option (List Byte)) :=
  if s.msi.v80 then ccRead80 s i addrs else ccRead s i addrs
def ccWriteD (s : State) (i : Nat) (addrs : List Word) (data : List Byte) : M (State × Bool) :=
  if s.msi.v80 then ccWrite80 s i addrs data else ccWrite s i addrs data

/-- one closure of the snoop list: `true` = finished (removed from the list) -/
def snoopJob (s : State) (i : Nat) (j : SnoopJob) : M (State × Option SnoopJob) := do
  let cc ← getCC s i
  match j with
  | .evict key cmd =>
    let (_, c) ← LineCache.evictCacheLine cc.l1d key.addr
    pure ({ setCC s i { cc with l1d := c } with msi := cmdDone s.msi key cmd }, none)
  | .writeBack cycles key cmd =>
    if cycles > 0 then pure (s, some (.writeBack (cycles - 1) key cmd))
    else
      match ← LineCache.getCacheLine cc.l1d key.addr with
      | none => throw (.panic "memory address should exist")
      | some data => do
        let mem ← Model.Mmu.writeToMemory s.base.ctx.Memory key.addr data
        let (ev, c) ← LineCache.evictCacheLine cc.l1d key.addr
        match ev with
        | none => throw (.panic "invalid state")
        | some _ =>
          let s := { s with base := { s.base with ctx := { s.base.ctx with Memory := mem } } }
          pure ({ setCC s i { cc with l1d := c } with msi := cmdDone s.msi key cmd }, none)
  | .l3Evict key cmd =>
    let a3 := l3Align key.addr
    match l3TryLock s.msi a3 with
    | some m => pure ({ s with msi := m }, some j)      -- `if mu.TryLock() { return false }`
    | none => do
      let (_, c) ← LineCache.evictCacheLine s.l3 key.addr
      let m := { s.msi with l3Write := s.msi.l3Write.filter (· != key.addr) }
      pure ({ s with l3 := c, msi := l3Unlock (cmdDoneL3 m key cmd) a3 }, none)
  | .l1WriteBack80 c1 c2 c3 key cmd =>
    if c1 > 0 then pure (s, some (.l1WriteBack80 (c1 - 1) c2 c3 key cmd))
    else
      match ← LineCache.getCacheLine cc.l1d key.addr with
      | none => throw (.panic "memory address should exist")
      | some data => do
        let (v, l3) ← LineCache.get s.l3 key.addr
        let s := { s with l3 := l3 }
        if v.isNone then
          if c2 > 0 then pure (s, some (.l1WriteBack80 c1 (c2 - 1) c3 key cmd))
          else do
            let mem ← Model.Mmu.writeToMemory s.base.ctx.Memory key.addr data
            let (ev, c) ← LineCache.evictCacheLine cc.l1d key.addr
            match ev with
            | none => throw (.panic "invalid state")
            | some _ =>
              let s := { s with base := { s.base with ctx := { s.base.ctx with Memory := mem } } }
              pure ({ setCC s i { cc with l1d := c } with msi := cmdDone s.msi key cmd }, none)
        else
          if c3 > 0 then pure (s, some (.l1WriteBack80 c1 c2 (c3 - 1) key cmd))
          else do
            let s ← writeToL3 s key.addr data
            let (ev, c) ← LineCache.evictCacheLine cc.l1d key.addr
            match ev with
            | none => throw (.panic "invalid state")
            | some _ => pure ({ setCC s i { cc with l1d := c } with msi := cmdDone s.msi key cmd }, none)
  | .l3WriteBack cycles key cmd =>
    if cycles > 0 then pure (s, some (.l3WriteBack (cycles - 1) key cmd))
    else
      let a3 := l3Align key.addr
      match l3TryLock s.msi a3 with
      | some m => pure ({ s with msi := m }, some j)
      | none =>
        match ← LineCache.getCacheLine s.l3 key.addr with
        | none => throw (.panic "memory address should exist")
        | some data => do
          let mem ← Model.Mmu.writeToMemory s.base.ctx.Memory key.addr data
          let (ev, c) ← LineCache.evictCacheLine s.l3 key.addr
          let m := { s.msi with l3Write := s.msi.l3Write.filter (· != key.addr) }
          match ev with
          | none => throw (.panic "invalid state")
          | some _ =>
            let s := { s with base := { s.base with ctx := { s.base.ctx with Memory := mem } } }
            pure ({ s with l3 := c, msi := l3Unlock (cmdDoneL3 m key cmd) a3 }, none)

def snoopJobs (i : Nat) : List SnoopJob → State → List SnoopJob → M (State × List SnoopJob)
  | [], s, keep => pure (s, keep)
  | j :: js, s, keep => do
    let (s, r) ← snoopJob s i j
    snoopJobs i js s (match r with | some j' => keep ++ [j'] | none => keep)

/-- `cc.snoop.Cycle(struct{}{})` of core `i` -/
def snoopCycle (s : State) (i : Nat) : M State := do
  let cc ← getCC s i
  let length := cc.snoop.length
  let (s, keep) ← snoopJobs i cc.snoop s []
  let cc ← getCC s i
  let s := setCC s i { cc with snoop := keep }
  if length != 0 then pure s
  else
    -- `coSnoop`: one closure per pending request to this core, appended in the iteration order of a map
    let reqs := s.msi.commands.filter (fun e => e.1.id == i)
    if reqs.length > 1 then throw (.panic mapOrderMsg)
    else do
      let cc ← getCC s i
      -- MVP-8.0 `assertAddrInState`: an `l1Evict` request must find the line shared, an `l1WriteBack` request modified
      if s.msi.v80 && reqs.any (fun e => (e.1.req == .evict && getState s.msi i e.1.addr != .shared) ||
                                          (e.1.req == .writeBack && getState s.msi i e.1.addr != .modified)) then
        throw (.panic "invalid state: expected …, got …")
      else
      let jobs := reqs.map fun e => match e.1.req with
        | .evict => SnoopJob.evict e.1 e.2
        | .writeBack => if s.msi.v80 then SnoopJob.l1WriteBack80 Gen.Latency.L3Access Gen.Latency.MemoryAccess Gen.Latency.L3Access e.1 e.2
                        else SnoopJob.writeBack Gen.Latency.MemoryAccess e.1 e.2
        | .l3Evict => SnoopJob.l3Evict e.1 e.2
        | .l3WriteBack => SnoopJob.l3WriteBack Gen.Latency.MemoryAccess e.1 e.2
      -- MVP-7.1: `case evict: cc.msi.staleState = true` (the flag exists from MVP-7.1 on; nobody reads it before);
      -- MVP-8.0: also `case l1WriteBack`
      let m := if reqs.any (fun e => e.1.req == .evict || (s.msi.v80 && e.1.req == .writeBack)) then { s.msi with stale := true }
               else s.msi
      pure { setCC s i { cc with snoop := cc.snoop ++ jobs } with msi := m }

def snoopAll (s : State) : M State :=
  (List.range s.ccs.length).foldlM (fun s i => snoopCycle s i) s

/-- `cc.flush()` -/
def ccFlush (s : State) (i : Nat) : M State := do
  let cc ← getCC s i
  let m ← cc.rlockSems.foldlM (fun m a => rUnlockSem m a) s.msi
  let m ← cc.lockSems.foldlM (fun m a => unlockSem m a) m
  pure { setCC s i { cc with read := .start, write := .start, read80 := .start, write80 := .start, rlockSems := [],
                              lockSems := [] } with msi := m }

def ccIsStart (cc : CC) : Bool :=
  (match cc.read with | .start => true | _ => false) && (match cc.write with | .start => true | _ => false) &&
  (match cc.read80 with | .start => true | _ => false) && (match cc.write80 with | .start => true | _ => false)

/-! ## eu.go -/

def getCo (s : State) (i : Nat) : Co := s.cos[i]?.getD .start
def setCo (s : State) (i : Nat) (c : Co) : State := { s with cos := s.cos.set i c }
def coIsStart (c : Co) : Bool := match c with | .start => true | _ => false

def setEuB (s : State) (i : Nat) (eu : ExecUnit) : State := { s with base := Model.Mvp61.setEu s.base i eu }

/-- `executeUnit.run(r)` -/
def euRun70 (app : App) (s : State) (i : Nat) (eu : ExecUnit) (r : Runner) (cyc : Int) : M (State × EuOut) := do
  let s := setCo s i .start
  match (Model.Mvp61.instrOf s.base r).run s.base.ctx app.labels r.pc eu.memory (if s.base.v71 then r.seq else 0#32) with
  | .ok e =>
    if !e.Return && e.MemoryChange then
      -- a store: `executionToMemoryChanges`, then the closure polling `cc.write`, executed at once
      let chs := Model.Mmu.sortChanges e.MemoryChanges
      let addrs := chs.map (·.1)
      let data := chs.map (·.2)
      let s := { setEuB s i eu with base := { (setEuB s i eu).base with executed := s.base.executed + 1 } }
      let s := setCo s i (.writing addrs data)
      let (s, done) ← ccWriteD s i addrs data
      pure (if done then setCo s i .start else s, .none)
    else do
      let (b, out) ← Model.Mvp61.euRun app s.base i eu r cyc
      pure ({ s with base := b }, out)
  | .error _ => do
    let (b, out) ← Model.Mvp61.euRun app s.base i eu r cyc
    pure ({ s with base := b }, out)

/-- the closure polling `cc.read` -/
def euReadPoll (app : App) (s : State) (i : Nat) (eu : ExecUnit) (r : Runner) (addrs : List Word) (cyc : Int) :
    M (State × EuOut) := do
  let (s, d) ← ccReadD s i addrs
  match d with
  | none => pure (s, .none)
  | some data =>
    let eu := { eu with memory := data }
    euRun70 app (setEuB s i eu) i eu r cyc

/-- `executeUnit.prepareRun(r)` -/
def euPrepare70 (app : App) (s : State) (i : Nat) (eu : ExecUnit) (r : Runner) (cyc : Int) : M (State × EuOut) :=
  if !s.base.writeBus.canAdd then pure (setEuB s i eu, .none)
  else
    match Model.Mvp61.euReceive s.base eu r with
    | none => pure (setEuB s i eu, .none)
    | some (b, eu, r) =>
      let b := Model.Mvp61.buAssert b r
      let s := setEuB { s with base := b } i eu
      let addrs := (Model.Mvp61.instrOf b r).memoryRead b.ctx (if b.v71 then r.seq else 0#32)
      if !addrs.isEmpty then euReadPoll app (setCo s i (.reading addrs)) i eu r addrs cyc
      else euRun70 app s i eu r cyc

/-- MVP-7.1 `eu.isPendingMessages()`: an instruction not younger than `eu.sequenceID` waits in the execute bus -/
def pendingMessages (s : State) (i : Nat) : Bool :=
  s.base.v71 && match s.base.eus[i]? with
    | some eu => s.base.executeBus.exists_ (fun r => r.seq.sle eu.sequenceID)
    | none => false

/-- the unit is to be cycled by the drain loops: `!eu.isEmpty()` (MVP-7.1: `|| eu.isPendingMessages()`) -/
def euBusy (s : State) (i : Nat) : Bool := !coIsStart (getCo s i) || pendingMessages s i

/-- `executeUnit.Cycle(euReq{cyc, app})` of unit `i` -/
def euCycle70 (app : App) (s : State) (i : Nat) (cyc : Int) : M (State × EuOut) :=
  match s.base.eus[i]? with
  | none => throw (.panic "execute unit index")
  | some eu =>
    if Model.Mvp61.euPre eu then do
      -- MVP-7.1: `if eu.isPendingMessages() { panic("invalid state") }`
      if pendingMessages s i then throw (.panic "invalid state")
      -- `eu.flush()`: `Reset`, `sequenceID = 0`, `cc.flush()`
      let s ← ccFlush (setCo (setEuB s i { eu with sequenceID := 0 }) i .start) i
      pure (s, .none)
    else
    match getCo s i with
    | .start =>
      -- MVP-7.1: `u.inBus.Pick(…)`: the first instruction without preferred core, or whose preferred core is this one
      let (x, inBus) := if s.base.v71 then s.base.executeBus.pick (fun r => r.euPref.isNone || r.euPref == some i)
                        else s.base.executeBus.get
      let s := { s with base := { s.base with executeBus := inBus } }
      match x with
      | none => pure (s, .none)
      | some r =>
        let eu := { eu with runner := some r }
        euPrepare70 app (setCo s i .prepare) i eu r cyc
    | .prepare =>
      match eu.runner with
      | none => throw (.panic "nil runner")
      | some r => euPrepare70 app s i eu r cyc
    | .reading addrs =>
      match eu.runner with
      | none => throw (.panic "nil runner")
      | some r => euReadPoll app s i eu r addrs cyc
    | .writing addrs data => do
      let (s, done) ← ccWriteD s i addrs data
      pure (if done then setCo s i .start else s, .none)

/-! ## cpu.go -/

def eusEmpty (s : State) : Bool := (List.range s.base.eus.length).all fun i => coIsStart (getCo s i)

/-- `CPU.flush(pc)` -/
def flushAll70 (s : State) (pc : Word) : M State := do
  let s := { s with cos := s.cos.map fun _ => Co.start }
  let s ← (List.range s.ccs.length).foldlM (fun s i => ccFlush s i) s
  pure { s with base := Model.Mvp61.flushAll s.base pc }

def isEmpty70 (s : State) : Bool := Model.Mvp61.isEmpty s.base && eusEmpty s

/-- the main loop is left: the final loop of `Run` starts with the next tick -/
def toDrain (s : State) : State × Event := ({ s with drain := true }, .running)

/-- `cc.export()` of every core, `RATCommit`, `RATFlush` -/
def finish70 (s : State) (h : Halt) : M (State × Event) := do
  let (mem, extra) ← (List.range s.ccs.length).foldlM (fun (acc : List Byte × Int) i => do
      let cc ← getCC s i
      cc.l1d.lines.foldlM (fun (acc : List Byte × Int) l =>
        if getState s.msi i l.lo != .modified then pure acc
        else do
          let mem ← Model.Mmu.writeToMemory acc.1 l.lo l.data
          pure (mem, acc.2 + Gen.Latency.MemoryAccess)) acc) (s.base.ctx.Memory, 0)
  let ctx := { s.base.ctx.ratCommit.ratFlush with Memory := mem }
  pure ({ s with base := { s.base with ctx := ctx, cycles := s.base.cycles + extra, mode := .normal } }, .done h)

/-- MVP-8.0: `cc.writeBack()` of every core, `l3WriteBack()`, `RATCommit`, `RATFlush` -/
def finish80 (s : State) (h : Halt) : M (State × Event) := do
  let (s, extra) ← (List.range s.ccs.length).foldlM (fun (acc : State × Int) i => do
      let cc ← getCC acc.1 i
      (LineCache.existingLines cc.l1d).foldlM (fun (acc : State × Int) l =>
        if getState acc.1.msi i l.lo != .modified then pure acc
        else do
          let (v, l3) ← LineCache.get acc.1.l3 l.lo
          let s := { acc.1 with l3 := l3 }
          if v.isSome then
            if s.msi.l3Locked.contains (l3Align l.lo) then throw (.panic "invalid state")
            else do
              let s ← writeToL3 s l.lo l.data
              pure (s, acc.2 + Gen.Latency.L3Access)
          else do
            let mem ← Model.Mmu.writeToMemory s.base.ctx.Memory l.lo l.data
            pure ({ s with base := { s.base with ctx := { s.base.ctx with Memory := mem } } }, acc.2 + Gen.Latency.MemoryAccess)) acc)
    (s, 0)
  let (mem, extra) ← s.l3.lines.foldlM (fun (acc : List Byte × Int) l =>
      if s.msi.l3Locked.contains (l3Align l.lo) then throw (.panic "invalid state")
      else do
        let mem ← Model.Mmu.writeToMemory acc.1 l.lo l.data
        pure (mem, acc.2 + Gen.Latency.MemoryAccess)) (s.base.ctx.Memory, extra)
  let ctx := { s.base.ctx.ratCommit.ratFlush with Memory := mem }
  pure ({ s with base := { s.base with ctx := ctx, cycles := s.base.cycles + extra, mode := .normal } }, .done h)

def eusCycle70 (app : App) : Nat → Nat → State → EuAcc → M (State × EuAcc)
  | 0, _, s, acc => pure (s, acc)
  | n + 1, i, s, acc =>
    match s.base.eus[i]? with
    | none => pure (s, acc)
    | some eu => do
      let s := setEuB s i { eu with sequenceID := acc.seq }
      let (s, out) ← euCycle70 app s i s.base.cycles
      match out with
      | .err => pure (s, { acc with err := true })
      | .ret => eusCycle70 app n (i + 1) s { acc with ret := true }
      | .flush sq p =>
        eusCycle70 app n (i + 1) s { acc with flush := true, seq := sq, pc := if acc.pc.slt p then p else acc.pc }
      | .none => eusCycle70 app n (i + 1) s acc

def eusCycleBusy70 (app : App) : Nat → Nat → State → M (State × Bool)
  | 0, _, s => pure (s, false)
  | n + 1, i, s =>
    if i ≥ s.base.eus.length then pure (s, false)
    else if !euBusy s i then eusCycleBusy70 app n (i + 1) s
    else do
      let (s, out) ← euCycle70 app s i s.base.cycles
      match out with
      | .err => pure (s, true)
      | _ => eusCycleBusy70 app n (i + 1) s

def eusCycleFlush70 (app : App) (fromCycle : Int) : Nat → Nat → State → FlAcc → M (State × FlAcc)
  | 0, _, s, acc => pure (s, acc)
  | n + 1, i, s, acc =>
    if i ≥ s.base.eus.length then pure (s, acc)
    else if !euBusy s i then eusCycleFlush70 app fromCycle n (i + 1) s acc
    else do
      let acc := { acc with isEmpty := false }
      let (s, out) ← euCycle70 app s i fromCycle
      match out with
      | .err => pure (s, { acc with err := true })
      | .flush sq p => eusCycleFlush70 app fromCycle n (i + 1) s { acc with seq := sq, pc := p }
      | _ => eusCycleFlush70 app fromCycle n (i + 1) s acc

/-- the units of the final loop: `true` = something was busy -/
def eusCycleDrain (app : App) : Nat → Nat → State → Bool → M (State × Bool)
  | 0, _, s, busy => pure (s, busy)
  | n + 1, i, s, busy =>
    if i ≥ s.base.eus.length then pure (s, busy)
    else
      let ccStart := match s.ccs[i]? with | some cc => ccIsStart cc | none => true
      if coIsStart (getCo s i) && ccStart then eusCycleDrain app n (i + 1) s busy
      else
        -- `eu.Cycle(euReq{cycle, app})`: the response is ignored
        match euCycle70 app s i s.base.cycles with
        | .ok (s, _) => eusCycleDrain app n (i + 1) s true
        | .error e => throw e

def goRetB70 (s : State) : State × Event :=
  if !Model.Mvp61.areWriteUnitsEmpty s.base || !s.base.writeBus.isEmpty then
    ({ s with base := { s.base with mode := .retB } }, .running)
  else toDrain { s with base := { s.base with mode := .normal } }

def goRetA70 (s : State) : State × Event :=
  if (List.range s.base.eus.length).any (euBusy s) then ({ s with base := { s.base with mode := .retA } }, .running)
  else
    let b := { s.base with cycles := s.base.cycles + 1 }
    goRetB70 { s with base := { b with writeBus := b.writeBus.connect b.cycles } }

def wuCycleB (s : State) (j : Nat) (before : Word) : M State := do
  let b ← Model.Mvp61.wuCycle s.base j before
  pure { s with base := b }

/-- the write units' drain loops of one round of the flush path (`Model.Mvp61.goFlushW`) -/
def goFlushW70 (s : State) (seq pc : Word) (fromCycle : Int) (isEmpty : Bool) : Nat → Nat → M (State × Event)
  | 0, _ =>
    if isEmpty then do
      let s ← flushAll70 s pc
      pure ({ s with base := { s.base with cycles := s.base.cycles + Gen.Latency.Flush, mode := .normal } }, .running)
    else pure ({ s with base := { s.base with mode := .flushF seq pc fromCycle } }, .running)
  | n + 1, i =>
    match s.base.wus[i]? with
    | none =>
      if isEmpty then do
        let s ← flushAll70 s pc
        pure ({ s with base := { s.base with cycles := s.base.cycles + Gen.Latency.Flush, mode := .normal } }, .running)
      else pure ({ s with base := { s.base with mode := .flushF seq pc fromCycle } }, .running)
    | some wu =>
      if !wu.isEmpty || !s.base.writeBus.isEmpty then
        pure ({ s with base := { s.base with mode := .flushW i seq pc fromCycle isEmpty } }, .running)
      else goFlushW70 s seq pc fromCycle isEmpty n (i + 1)

/-- `controlUnit.cycle(cycle)` on the base state `b` (fetch and decode done).  MVP-7.1:
`if u.msi.staleState { u.msiStatesCopy = u.msi.copyState(); u.msi.staleState = false; return }` — the rest of the control
cycle is skipped, `pushedRunnersInPreviousCycle` keeps the runners of the cycle before -/
def controlStep (s : State) (b : Model.Mvp61.State) : M State :=
  if b.v71 && s.msi.stale then
    pure { s with base := { b with msiCopy := s.msi.states.map fun e => (e.1, match e.2 with
                              | .invalid => 0 | .shared => 1 | .modified => 2) },
                  msi := { s.msi with stale := false } }
  else do
    let b ← Model.Mvp61.controlCycle b
    pure { s with base := b }

/-- one tick, panics still inside `M` -/
def cycleM (app : App) (s : State) : M (State × Event) :=
  if s.drain then do
    -- the final loop of `Run`
    let s := { s with base := { s.base with cycles := s.base.cycles + 1 } }
    let snoopBusy := s.ccs.any fun cc => !cc.snoop.isEmpty
    let s ← snoopAll s
    let (s, busy) ← eusCycleDrain app s.base.eus.length 0 s false
    if snoopBusy || busy then pure (s, .running) else if s.msi.v80 then finish80 s .offEnd else finish70 s .offEnd
  else
  match s.base.mode with
  | .normal => do
    let b := { s.base with cycles := s.base.cycles + 1 }
    let c := b.cycles
    let b := { b with decodeBus := b.decodeBus.connect c, controlBus := b.controlBus.connect c,
                      executeBus := b.executeBus.connect c, writeBus := b.writeBus.connect c }
    let b ← Model.Mvp61.fetchCycle app b
    let b ← Model.Mvp61.decodeCycle app b
    let s ← controlStep s b
    let b := s.base
    if b.mapOrder.isSome then pure (s, .done (.panic mapOrderMsg))
    else do
    let s ← snoopAll s
    let (s, acc) ← eusCycle70 app s.base.eus.length 0 s {}
    if acc.err then pure (s, .done .err)
    else do
      let b ← Model.Mvp61.wusCycleB s.base (if acc.flush then acc.seq else BitVec.ofInt 32 (-1))
      let s := { s with base := b }
      if acc.ret then pure (goRetA70 s)
      else if acc.flush then
        let b := { s.base with eus := s.base.eus.map fun (eu : ExecUnit) => { eu with sequenceID := acc.seq } }
        pure ({ s with base := { b with mode := .flushF acc.seq acc.pc b.cycles } }, .running)
      else if isEmpty70 s then pure (toDrain s)
      else pure (s, .running)
  | .retA => do
    let b := { s.base with cycles := s.base.cycles + 1 }
    let s := { s with base := { b with writeBus := b.writeBus.connect b.cycles } }
    let s ← snoopAll s
    let (s, err) ← eusCycleBusy70 app s.base.eus.length 0 s
    if err then pure (s, .done .err)
    else do
      let b ← Model.Mvp61.wusCycle s.base
      pure (goRetA70 { s with base := b })
  | .retB => do
    let b ← Model.Mvp61.wusCycle s.base
    let b := { b with cycles := b.cycles + 1 }
    pure (goRetB70 { s with base := { b with writeBus := b.writeBus.connect b.cycles } })
  | .flushF seq pc fromCycle => do
    let s := { s with base := { s.base with cycles := s.base.cycles + 1 } }
    let s ← snoopAll s
    let (s, acc) ← eusCycleFlush70 app fromCycle s.base.eus.length 0 s { seq := seq, pc := pc }
    if acc.err then pure (s, .done .err)
    else
      let s := { s with base := { s.base with writeBus := s.base.writeBus.connect (s.base.cycles + 1) } }
      goFlushW70 s acc.seq acc.pc fromCycle acc.isEmpty s.base.wus.length 0
  | .flushW i seq pc fromCycle isEmpty => do
    let s := { s with base := { s.base with writeBus := s.base.writeBus.connect (s.base.cycles + 1) } }
    let s ← wuCycleB s i seq
    goFlushW70 s seq pc fromCycle isEmpty (s.base.wus.length - i) i

def cycle (app : App) (s : State) : State × Event :=
  match cycleM app s with
  | .ok r => r
  | .error (.panic w) => (s, .done (.panic w))
  | .error (.err w) => (s, .done (.panic w))

def cfg70 : Model.Mmu.Config :=
  { l1ILineSize := Gen.Consts.mvp7_0.l1ICacheLineSize, l1ISize := Gen.Consts.mvp7_0.l1ICacheSize,
    l1DLineSize := Gen.Consts.mvp7_0.l1DCacheLineSize, l1DSize := Gen.Consts.mvp7_0.l1DCacheSize }

/-- the constants of proc/mvp7-0 are those the shared code reads -/
def constsAgree : Bool :=
  decide (cfg70 = cfg) && decide (Gen.Consts.mvp7_0.pendingLength = Gen.Consts.mvp6_1.pendingLength)

/-- `NewCPU(debug, memoryBytes, parallelism)` and the `InitRAT` at the head of `Run` -/
def init (ctx : Model.Context) (par : Nat) : M State :=
  if !constsAgree then throw (.panic "proc/mvp7-0 constants differ from proc/mvp6-1: Model.Mvp70 must be revised")
  else do
    let b ← Model.Mvp63.init ctx par par
    let l1d ← Model.Mmu.newCache Gen.Consts.mvp7_0.l1DCacheLineSize Gen.Consts.mvp7_0.l1DCacheSize
    pure { base := b, cos := List.replicate par .start, ccs := List.replicate par { l1d := l1d } }

structure Result where
  halt : Option Halt
  final : State
  ticks : Nat
  deriving Inhabited

def runFrom (app : App) : Nat → State → Nat → Result
  | 0, s, n => { halt := none, final := s, ticks := n }
  | fuel + 1, s, n =>
    match cycle app s with
    | (s', .running) => runFrom app fuel s' (n + 1)
    | (s', .done h) => { halt := some h, final := s', ticks := n + 1 }

def run (app : App) (ctx : Model.Context) (par : Nat) (fuel : Nat) : Result :=
  match init ctx par with
  | .ok s => runFrom app fuel s 0
  | .error _ => { halt := some (.panic "NewCPU"), final := default, ticks := 0 }

def isMapOrder (r : Result) : Bool :=
  r.final.base.mapOrder.isSome || r.halt == some (.panic mapOrderMsg)

end Model.Mvp70

/-
  Model/LineCache.lean — hand-written executable model of `comp.LRUCache`
  (/repo/proc/comp/cache.go), the line cache of MVP-3 … MVP-8.  Tie T2a: the
  driver `driver_c13` executes these functions in lock-step with the real code.

  Representation = Go's: `lines` is the MRU-first slice of
  `Line{Boundary [2]AlignedAddress, Data []int8}`.

  Choices (DESIGN §6):
  * addresses are `Int`, not `BitVec 32`: the Go code does `int32` arithmetic
    (`addr + lineLength`, `addr + int32(i)`, `addr - addr % align`) that never
    comes near ±2^31 in any variant (memories are a few MB); with `Int` the
    interval reasoning is `omega`.  ASSUMPTION recorded in the evidence:
    |address| + lineLength < 2^31.
  * Go slices are values here (`List (BitVec 8)`): the model has no aliasing.
    The harness exercises aliasing explicitly (`mut` / `held` operations) and
    the driver accounts for it outside this model (Driver/MainC13.lean).
  * a Go `panic` is `Except.error (.panic …)`.  `Write` can panic half-way
    (index out of range after some bytes were stored): `writeState` is the
    state Go is left in either way, `write` is `.ok` of it or the panic.
-/
import MajoranaVerif.Model.GoInt

namespace LineCache
open GoInt

/-- `type Line struct { Boundary [2]AlignedAddress; Data []int8 }` -/
structure Line where
  lo : Int
  hi : Int
  data : List (BitVec 8)
  deriving Repr, DecidableEq, Inhabited

/-- the test of `Line.get`: `addr >= Boundary[0] && addr < Boundary[1]` -/
def Line.covers (l : Line) (a : Int) : Bool := decide (l.lo ≤ a) && decide (a < l.hi)

/-- `l.Data[addr - Boundary[0]]` for a covered address: Go indexes the slice, which panics
when `Data` is shorter than the line. -/
def Line.at (l : Line) (a : Int) : M (BitVec 8) :=
  match l.data[(a - l.lo).toNat]? with
  | some v => pure v
  | none => throw (.panic "index out of range")

/-- `func (l Line) get(addr int32) (int8, bool)` -/
def Line.get (l : Line) (a : Int) : M (Option (BitVec 8)) :=
  if l.covers a then (do let v ← l.at a; pure (some v)) else pure none

/-- `type LRUCache struct { numberOfLines, lineLength, cacheLength int; lines []Line }` -/
structure Cache where
  numberOfLines : Nat
  lineLength : Nat
  cacheLength : Nat
  lines : List Line
  deriving Repr, DecidableEq, Inhabited

/-- the cache `NewLRUCache(lineLength, lineLength * numberOfLines)` returns -/
def Cache.empty (lineLength numberOfLines : Nat) : Cache :=
  { numberOfLines := numberOfLines, lineLength := lineLength, cacheLength := lineLength * numberOfLines, lines := [] }

/-- `NewLRUCache`: `cacheLength % lineLength` panics on a zero line length. -/
def new (lineLength cacheLength : Nat) : M Cache :=
  if lineLength = 0 then throw (.panic "integer divide by zero")
  else if cacheLength % lineLength ≠ 0 then throw (.panic "cache length should be a multiple of the line length")
  else pure { numberOfLines := cacheLength / lineLength, lineLength := lineLength, cacheLength := cacheLength, lines := [] }

/-- `for i, l := range lines { if _, exists := l.get(addr); exists { … } }`: the slice is
cut at the first line whose interval contains `addr` into `lines[:i]`, `l`, `lines[i+1:]`
(`Line.get` has no effect on a line that does not contain the address). -/
def splitAt (a : Int) : List Line → Option (List Line × Line × List Line)
  | [] => none
  | l :: ls =>
    if l.covers a then some ([], l, ls)
    else match splitAt a ls with
      | none => none
      | some (pre, x, post) => some (l :: pre, x, post)

/-- `ExistingLines`: `c.lines[:min(len(c.lines), c.numberOfLines)]` -/
def existingLines (c : Cache) : List Line := c.lines.take (min c.lines.length c.numberOfLines)

/-- `Lines` -/
def lines (c : Cache) : List Line := c.lines

/-- `Get`: a hit moves the line to the front (`append(append([]Line{l}, lines[:i]...), lines[i+1:]...)`). -/
def get (c : Cache) (a : Int) : M (Option (BitVec 8) × Cache) :=
  match splitAt a c.lines with
  | none => pure (none, c)
  | some (pre, l, post) => do
    let v ← l.at a
    pure (some v, { c with lines := l :: (pre ++ post) })

/-- `GetCacheLine`: no recency change. -/
def getCacheLine (c : Cache) (a : Int) : M (Option (List (BitVec 8))) :=
  match splitAt a c.lines with
  | none => pure none
  | some (_, l, _) => do
    let _ ← l.at a
    pure (some l.data)

/-- `getAlignedMemoryAddress`: `addr - addr % align` with Go's truncated `%`. -/
def alignDown (a : Int) (align : Int) : M Int :=
  if align = 0 then throw (.panic "integer divide by zero") else pure (a - a.tmod align)

/-- `l.Data[base + i]` for `i = 0 … n-1` with a Go `int` index `base` (panics when negative or past the end) -/
def sliceFrom (data : List (BitVec 8)) (base : Int) : Nat → Nat → M (List (BitVec 8))
  | _, 0 => pure []
  | i, k + 1 =>
    if base + i < 0 then throw (.panic "index out of range")
    else match data[(base + i).toNat]? with
      | none => throw (.panic "index out of range")
      | some v => do
        let rest ← sliceFrom data base (i + 1) k
        pure (v :: rest)

/-- `GetSubCacheLine(addrs, lineLength)`: scans `ExistingLines()` only. -/
def getSubCacheLine (c : Cache) (addrs : List Int) (subLen : Int) : M (Option (Int × List (BitVec 8))) :=
  match existingLines c with
  | [] => pure none
  | ex =>
    match addrs with
    | [] => throw (.panic "index out of range")       -- `addrs[0]` inside the loop
    | a0 :: _ =>
      match splitAt a0 ex with
      | none => pure none
      | some (_, l, _) => do
        let _ ← l.at a0
        let small ← alignDown a0 subLen
        if subLen < 0 then throw (.panic "makeslice: cap out of range")
        else do
          let d ← sliceFrom l.data (small - l.lo) 0 subLen.toNat
          pure (some (small, d))

/-- `EvictCacheLine`: removes the first line containing `addr` (in place in Go). -/
def evictCacheLine (c : Cache) (a : Int) : M (Option (List (BitVec 8)) × Cache) :=
  match splitAt a c.lines with
  | none => pure (none, c)
  | some (pre, l, post) => do
    let _ ← l.at a
    pure (some l.data, { c with lines := pre ++ post })

/-- `for i, v := range data { l.Data[off+i] = v }`: the stores up to the first index out of
range happen; the flag says whether all of them did. -/
def setFrom (d : List (BitVec 8)) (off : Nat) : List (BitVec 8) → List (BitVec 8) × Bool
  | [] => (d, true)
  | v :: vs => if off < d.length then setFrom (d.set off v) (off + 1) vs else (d, false)

/-- The state and outcome of `Write(addr, data)`: the first line containing `addr` receives
the bytes; no such line → panic; bytes past the end of `Data` → panic after the earlier
bytes were stored. -/
def writeRaw (c : Cache) (a : Int) (data : List (BitVec 8)) : Cache × Option Fault :=
  match splitAt a c.lines with
  | none => (c, some (.panic "cache line doesn't exist"))
  | some (pre, l, post) =>
    match l.data[(a - l.lo).toNat]? with
    | none => (c, some (.panic "index out of range"))          -- `l.get(addr)` itself
    | some _ =>
      let (d', ok) := setFrom l.data (a - l.lo).toNat data
      ({ c with lines := pre ++ { l with data := d' } :: post },
       if ok then none else some (.panic "index out of range"))

def writeState (c : Cache) (a : Int) (data : List (BitVec 8)) : Cache := (writeRaw c a data).1

/-- `Write` -/
def write (c : Cache) (a : Int) (data : List (BitVec 8)) : M Cache :=
  match (writeRaw c a data).2 with
  | none => pure (writeState c a data)
  | some f => throw f

def newLine (c : Cache) (lo : Int) (data : List (BitVec 8)) : Line :=
  { lo := lo, hi := lo + c.lineLength, data := data }

/-- `PushLine` (after the fix of D13): the victim's data is read before the truncation. -/
def pushLine (c : Cache) (lo : Int) (data : List (BitVec 8)) : Option (List (BitVec 8)) × Cache :=
  let ls := newLine c lo data :: c.lines
  if ls.length > c.numberOfLines then
    ((ls.getLast?.map (·.data)), { c with lines := ls.take c.numberOfLines })
  else (none, { c with lines := ls })

/-- `PushLineWithEvictionWarning`: the overflow line stays until the caller evicts it. -/
def pushLineWithEvictionWarning (c : Cache) (lo : Int) (data : List (BitVec 8)) : Option Line × Cache :=
  let ls := newLine c lo data :: c.lines
  if ls.length > c.numberOfLines then (ls.getLast?, { c with lines := ls })
  else (none, { c with lines := ls })

/-! ### histories -/

/-- read-only calls -/
inductive Query where
  | getLine (a : Int)
  | getSub (addrs : List Int) (subLen : Int)
  | existing
  | lines
  deriving Repr, DecidableEq

inductive Op where
  | push (lo : Int) (data : List (BitVec 8))
  | pushWarn (lo : Int) (data : List (BitVec 8))
  | get (a : Int)
  | evict (a : Int)
  | write (a : Int) (data : List (BitVec 8))
  | peek (q : Query)
  deriving Repr, DecidableEq

/-- what a call returns -/
inductive Out where
  | byte (v : Option (BitVec 8))
  | data (d : Option (List (BitVec 8)))
  | sub (r : Option (Int × List (BitVec 8)))
  | line (l : Option Line)
  | lines (ls : List Line)
  | unit
  | fault (f : Fault)
  deriving Repr, DecidableEq

def query (c : Cache) : Query → Out
  | .getLine a => match getCacheLine c a with | .ok r => .data r | .error f => .fault f
  | .getSub addrs n => match getSubCacheLine c addrs n with | .ok r => .sub r | .error f => .fault f
  | .existing => .lines (existingLines c)
  | .lines => .lines (lines c)

/-- one call: the state afterwards (also after a recovered panic) and the result -/
def step (c : Cache) : Op → Cache × Out
  | .push lo d => let (r, c') := pushLine c lo d; (c', .data r)
  | .pushWarn lo d => let (r, c') := pushLineWithEvictionWarning c lo d; (c', .line r)
  | .get a => match get c a with | .ok (v, c') => (c', .byte v) | .error f => (c, .fault f)
  | .evict a => match evictCacheLine c a with | .ok (d, c') => (c', .data d) | .error f => (c, .fault f)
  | .write a d => match (writeRaw c a d).2 with | none => (writeState c a d, .unit) | some f => (writeState c a d, .fault f)
  | .peek q => (c, query c q)

/-- the cache after a history given NEWEST FIRST (head = the most recent call), from the empty cache -/
def after (lineLength numberOfLines : Nat) : List Op → Cache
  | [] => Cache.empty lineLength numberOfLines
  | op :: h => (step (after lineLength numberOfLines h) op).1

/-- the cache after a history in call order -/
def run (lineLength numberOfLines : Nat) (ops : List Op) : Cache :=
  ops.foldl (fun c op => (step c op).1) (Cache.empty lineLength numberOfLines)

/-! ### the contract of the callers (decidable) and the reference ("the history itself")

Histories are given NEWEST FIRST, so that every notion below is a structural recursion
that looks back from the present. -/

/-- Contract of one call in state `c`: a pushed line carries `lineLength` bytes, does not
overlap a resident line (the `AlignedAddress` contract) and is not pushed while the victim
announced by `PushLineWithEvictionWarning` is still there; `Write` hits a resident line
and stays inside it. -/
def okOp (c : Cache) : Op → Bool
  | .push lo d | .pushWarn lo d =>
    d.length == c.lineLength && decide (c.lines.length ≤ c.numberOfLines) &&
      c.lines.all (fun l => decide (lo + c.lineLength ≤ l.lo) || decide (l.hi ≤ lo))
  | .write a d =>
    match splitAt a c.lines with
    | some (_, l, _) => decide (a + d.length ≤ l.hi)
    | none => false
  | _ => true

/-- every call of the history kept the contract in the state it was made in -/
def Valid (L n : Nat) : List Op → Bool
  | [] => true
  | op :: h => Valid L n h && okOp (after L n h) op

namespace Ref

/-- does the call refresh the recency of the line at base `lo`?  (its push, or a `Get` inside it) -/
def touches (L : Nat) (lo : Int) : Op → Bool
  | .push b _ => b == lo
  | .pushWarn b _ => b == lo
  | .get a => decide (lo ≤ a) && decide (a < lo + L)
  | _ => false

/-- recency of the line at base `lo`: position (1-based, in call order) of its last `Get`
hit or of its push; 0 = never. -/
def stamp (L : Nat) (lo : Int) : List Op → Nat
  | [] => 0
  | op :: h => if touches L lo op then h.length + 1 else stamp L lo h

/-- the last value written to byte `x`: by the most recent `Write` over it, else by the
most recent push of a line containing it. -/
def value (L : Nat) (x : Int) : List Op → Option (BitVec 8)
  | [] => none
  | .write a d :: h => if a ≤ x ∧ x < a + d.length then d[(x - a).toNat]? else value L x h
  | .push lo d :: h => if lo ≤ x ∧ x < lo + L then d[(x - lo).toNat]? else value L x h
  | .pushWarn lo d :: h => if lo ≤ x ∧ x < lo + L then d[(x - lo).toNat]? else value L x h
  | _ :: h => value L x h

/-- an element of least `st` -/
def lruOf (st : Int → Nat) : List Int → Option Int
  | [] => none
  | x :: xs =>
    match lruOf st xs with
    | none => some x
    | some y => if st x < st y then some x else some y

/-- bases of the lines that were pushed and not removed since: removed by `EvictCacheLine`
of an address inside, or — `PushLine` into a full cache — as the least recently used one. -/
def resident (L n : Nat) : List Op → List Int
  | [] => []
  | .push lo d :: h =>
    let r := lo :: resident L n h
    if r.length > n then
      match lruOf (fun b => stamp L b (.push lo d :: h)) r with
      | some v => r.erase v
      | none => r
    else r
  | .pushWarn lo _ :: h => lo :: resident L n h
  | .evict a :: h => (resident L n h).filter (fun b => !(decide (b ≤ a) && decide (a < b + L)))
  | _ :: h => resident L n h

end Ref

end LineCache

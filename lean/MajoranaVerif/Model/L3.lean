/-
  Model/L3.lean — the NEXT LEVEL of MVP-8 (proc/mvp8-0): main memory, the shared L3 (an
  LRU cache of 128-byte lines, `comp.LRUCache`) and the dirty flags `msi.l3Write`.
  `Model/Msi.lean` treats this layer as an opaque "next level"; here it is modelled
  operation by operation, in the style of `Model/Mmu.lean`, on `Model/LineCache.lean`.

  Go code paths (proc/mvp8-0):
  * `cc.isAddressInL3` = `l3.Get(addrs[0])` — NOTE: a presence test refreshes the LRU order;
  * L1 fill, `cc.coRead` / `cc.coWrite` (`notFromL1`): L3 hit → `l3.GetSubCacheLine(addrs, 64)`;
    L3 miss → `mmu.fetchCacheLine(addrs[0], 128)` (zero-padded past the end of memory),
    `cc.pushLineToL3` (panics unless 128 bytes at a 128-aligned address; nothing to do when the line
    has appeared meanwhile; else `PushLineWithEvictionWarning`), and for the over-capacity line
    `msi.evictL3ExtraCacheLine`: request `l3WriteBack` when `l3Write[addr]`, else `l3Evict`; then
    `GetSubCacheLine` (`coSyncReadFromL1`);
  * snoop `l3Evict`: `l3.EvictCacheLine(addr)`; `l3ReleaseWriteNotify(addr)`;
    snoop `l3WriteBack`: `l3.GetCacheLine(addr)` (panic "memory address should exist"),
    `mmu.writeToMemory(addr, line)`, `EvictCacheLine`, `l3ReleaseWriteNotify` (panic unless evicted);
  * write-back of a Modified L1 line (snoop `l1WriteBack`, and `cc.writeBack()` at the end of a run):
    `isAddressInL3` ? `cc.writeToL3(l1Addr, data)` = `l3WriteNotify(l1Addr - l1Addr % 128)`;
    `l3.Write(l1Addr, data)` : `mmu.writeToMemory(l1Addr, data)`;
  * end of run, `CPU.l3WriteBack()`: every line of `l3.Lines()` is written to memory
    (nothing is evicted, no flag is released).

  Granularity: the operations below are the ATOMIC building blocks (`fetchLine`, `pushLineToL3`,
  `evictDecision`, `execEvict`, …) and their compositions as one step (`fill`, `evictExtra`,
  `l1WriteBack`).  In Go a fill spends ~360 cycles between `fetchCacheLine` and `pushLineToL3`,
  and an eviction request is decided at push time and executed by a snoop later; what can go
  wrong when other operations fall into these windows is stated in Props/C06.lean
  (`fetch_push_race`, `evict_decision_race`).  Latencies and the `l3Lock` mutexes are not modelled.

  Constants from the REGENERATED `Gen.Consts.mvp8_0`.  `Boundary[1]` in `int32` as in
  `Model/Mmu.lean` (`fixHead`).
-/
import MajoranaVerif.Model.Mmu
open GoInt

namespace Model.L3
open LineCache

structure Config where
  l3LineSize : Int
  l3Size : Int
  l1LineSize : Int
  deriving Repr, DecidableEq, Inhabited

def mvp8Config : Config :=
  { l3LineSize := Gen.Consts.mvp8_0.l3CacheLineSize, l3Size := Gen.Consts.mvp8_0.l3CacheSize,
    l1LineSize := Gen.Consts.mvp8_0.l1DCacheLineSize }

/-- `ctx.Memory`, the shared `l3`, and the keys of `msi.l3Write` whose value is `true` -/
structure State where
  mem : List Byte
  l3 : Cache
  dirty : List Int
  deriving Repr, DecidableEq, Inhabited

/-- `NewCPU`: `comp.NewLRUCache(l3CacheLineSize, l3CacheSize)`, empty `l3Write` -/
def new (cfg : Config) (mem : List Byte) : M State := do
  let c ← Model.Mmu.newCache cfg.l3LineSize cfg.l3Size
  pure { mem := mem, l3 := c, dirty := [] }

/-- `getL3AlignedMemoryAddress` / `getL1AlignedMemoryAddress`: `addr - addr % align` -/
def align (a : Int) (al : Int) : M Int := LineCache.alignDown a al

/-- `m.l3Write[addr]` -/
def isDirty (s : State) (a : Int) : Bool := s.dirty.contains a

/-- `l3WriteNotify(addr)` -/
def writeNotify (s : State) (a : Int) : State :=
  if s.dirty.contains a then s else { s with dirty := a :: s.dirty }

/-- `l3ReleaseWriteNotify(addr)` -/
def releaseNotify (s : State) (a : Int) : State := { s with dirty := s.dirty.filter (fun b => !(b == a)) }

/-- `cc.isAddressInL3(addrs)`: `l3.Get(addrs[0])` — a hit moves the line to the front -/
def isAddressInL3 (s : State) (a : Int) : M (Bool × State) := do
  let (v, c) ← LineCache.get s.l3 a
  pure (v.isSome, { s with l3 := c })

/-- `l3.GetSubCacheLine(addrs, l1DCacheLineSize)` followed by `if !exists { panic("invalid state") }` -/
def getSub (cfg : Config) (s : State) (addrs : List Word) : M (Int × List Byte) := do
  match ← LineCache.getSubCacheLine s.l3 (addrs.map (·.toInt)) cfg.l1LineSize with
  | some r => pure r
  | none => throw (.panic "invalid state")

/-- `mmu.fetchCacheLine(addr, l3CacheLineSize)`: the aligned address and the zero-padded block -/
def fetchLine (cfg : Config) (mem : List Byte) (a : Word) : M (Int × List Byte) := do
  let lo ← align a.toInt cfg.l3LineSize
  if cfg.l3LineSize < 0 then throw (.panic "makeslice: cap out of range")
  else if cfg.l3LineSize = 0 then pure (lo, [])
  else if lo < 0 then throw (.panic "index out of range")
  else pure (lo, Model.Mmu.padTake (mem.drop lo.toNat) cfg.l3LineSize.toNat)

/-- `cc.pushLineToL3(addr, line)`: the over-capacity line, if any -/
def pushLineToL3 (cfg : Config) (s : State) (lo : Int) (line : List Byte) : M (Option Line × State) :=
  if cfg.l3LineSize = 0 then throw (.panic "integer divide by zero")
  else if (line.length : Int) ≠ cfg.l3LineSize ∨ Int.tmod lo cfg.l3LineSize ≠ 0 then throw (.panic "invalid state")
  else do
    let (present, s1) ← isAddressInL3 s lo
    if present then pure (none, s1)
    else
      let (ev, c) := LineCache.pushLineWithEvictionWarning s1.l3 lo line
      pure (ev, { s1 with l3 := Model.Mmu.fixHead c })

/-- the request `msi.evictL3ExtraCacheLine` sends -/
inductive EvictKind where
  | evict       -- `l3Evict`
  | writeBack   -- `l3WriteBack`
  deriving Repr, DecidableEq, Inhabited

/-- `evictL3ExtraCacheLine(id, addr)`: decided by the dirty flag UNDER THAT ADDRESS -/
def evictDecision (s : State) (lo : Int) : EvictKind := if isDirty s lo then .writeBack else .evict

/-- the snoop that executes an L3 request -/
def execEvict (s : State) (k : EvictKind) (lo : Int) : M State :=
  match k with
  | .evict => do
    let (_, c) ← LineCache.evictCacheLine s.l3 lo
    pure (releaseNotify { s with l3 := c } lo)
  | .writeBack => do
    match ← LineCache.getCacheLine s.l3 lo with
    | none => throw (.panic "memory address should exist")
    | some data =>
      let mem' ← Model.Mmu.writeToMemory s.mem lo data
      let (r, c) ← LineCache.evictCacheLine s.l3 lo
      let s' := releaseNotify { s with mem := mem', l3 := c } lo
      if r.isNone then throw (.panic "invalid state") else pure s'

/-- decision and execution as one step -/
def evictExtra (s : State) (lo : Int) : M State := execEvict s (evictDecision s lo) lo

/-- **L1 fill** as one step: the 64-byte sub-line handed to the L1, and the state afterwards -/
def fill (cfg : Config) (s : State) (addrs : List Word) : M ((Int × List Byte) × State) :=
  match addrs with
  | [] => throw (.panic "index out of range")
  | a0 :: _ => do
    let (hit, s1) ← isAddressInL3 s a0.toInt
    if hit then do
      let r ← getSub cfg s1 addrs
      pure (r, s1)
    else do
      let (lo, line) ← fetchLine cfg s1.mem a0
      let (ev, s2) ← pushLineToL3 cfg s1 lo line
      let s3 ← match ev with
        | none => pure s2
        | some v => evictExtra s2 v.lo
      let r ← getSub cfg s3 addrs
      pure (r, s3)

/-- `cc.writeToL3(l1Addr, data)`: flag first, then `l3.Write` -/
def writeToL3 (cfg : Config) (s : State) (l1Addr : Word) (data : List Byte) : M State := do
  let l3Addr ← align l1Addr.toInt cfg.l3LineSize
  let s1 := writeNotify s l3Addr
  let c ← LineCache.write s1.l3 l1Addr.toInt data
  pure { s1 with l3 := c }

/-- **write-back of a Modified L1 line** (snoop `l1WriteBack`; `cc.writeBack()` at the end of a run) -/
def l1WriteBack (cfg : Config) (s : State) (l1Addr : Word) (data : List Byte) : M State := do
  let (present, s1) ← isAddressInL3 s l1Addr.toInt
  if present then writeToL3 cfg s1 l1Addr data
  else do
    let mem' ← Model.Mmu.writeToMemory s1.mem l1Addr.toInt data
    pure { s1 with mem := mem' }

def writeLines : List Line → List Byte → M (List Byte)
  | [], mem => pure mem
  | l :: ls, mem => do
    let mem' ← Model.Mmu.writeToMemory mem l.lo l.data
    writeLines ls mem'

/-- **end of run**, `CPU.l3WriteBack()`: every line to memory, most recently used first -/
def finalWriteBack (s : State) : M State := do
  let mem' ← writeLines (LineCache.lines s.l3) s.mem
  pure { s with mem := mem' }

/-! ### histories -/

inductive Op where
  | fill (addrs : List Word)
  | l1WriteBack (l1Addr : Word) (data : List Byte)
  | evict (lo : Int)            -- an L3 eviction request decided and executed
  | final
  deriving Repr, DecidableEq

def step (cfg : Config) (s : State) : Op → M State
  | .fill addrs => do let (_, s') ← fill cfg s addrs; pure s'
  | .l1WriteBack a d => l1WriteBack cfg s a d
  | .evict lo => evictExtra s lo
  | .final => finalWriteBack s

def run (cfg : Config) (s : State) : List Op → M State
  | [] => pure s
  | op :: ops => do let s' ← step cfg s op; run cfg s' ops

/-- the contract of the callers, decidable: a fill asks for a non-negative address whose block ends below 2^31; a
write-back brings one full, aligned L1 line at a non-negative address; an eviction names an aligned address -/
def okOp (cfg : Config) : Op → Bool
  | .fill addrs =>
    match addrs with
    | [] => false
    | a0 :: _ => decide (0 ≤ a0.toInt) && decide (a0.toInt - Int.tmod a0.toInt cfg.l3LineSize + cfg.l3LineSize < 2 ^ 31)
  | .l1WriteBack a d => decide (0 ≤ a.toInt) && decide (a.toInt % cfg.l1LineSize = 0) && decide ((d.length : Int) = cfg.l1LineSize)
  | .evict lo => decide (0 ≤ lo) && decide (lo % cfg.l3LineSize = 0)
  | .final => true

/-- what an operation does to a FLAT next level (a plain memory): only a write-back changes it -/
def flatStep (flat : List Byte) : Op → List Byte
  | .l1WriteBack a d => match Model.Mmu.writeToMemory flat a.toInt d with | .ok f => f | .error _ => flat
  | _ => flat

/-! ### the monitor's observation, decidable -/

/-- a resident line that is NOT flagged dirty equals memory on its range (inside memory) — the harness's
`l3stale` is the negation of this -/
def lineClean (mem : List Byte) (l : Line) : Bool :=
  (List.range l.data.length).all fun i =>
    match mem[(l.lo + i).toNat]? with
    | some b => l.lo + i < 0 || l.data[i]? == some b
    | none => true

/-- no resident line is stale (the harness's `l3stale`, negated) -/
def cleanLinesB (s : State) : Bool := s.l3.lines.all (fun l => isDirty s l.lo || lineClean s.mem l)

/-- the dirty flags sit on line-size-aligned addresses of resident lines -/
def dirtyKeysB (cfg : Config) (s : State) : Bool :=
  s.dirty.all (fun a => decide (Int.tmod a cfg.l3LineSize = 0) && s.l3.lines.any (fun l => l.lo == a))

/-- `Clean`, decidable -/
def cleanB (cfg : Config) (s : State) : Bool := cleanLinesB s && dirtyKeysB cfg s

/-! ### `cleanB` on an exported snapshot (what the C06 monitor has: per L3 line its flag and the memory bytes of its range) -/

/-- one exported L3 line: the line, its `l3Write` flag, the memory bytes of its range that lie inside memory -/
abbrev LineObs := Line × Bool × List Byte

/-- what the snapshot exporter shows of a state -/
def snapshotOf (s : State) : List LineObs :=
  s.l3.lines.map fun l => (l, isDirty s l.lo, (s.mem.drop l.lo.toNat).take l.data.length)

/-- `cleanB` evaluated on a snapshot: every line is flagged or equals its memory bytes; every flag sits on an aligned
address of an exported line (`Proofs.L3.cleanSnapB_snapshotOf`: equal to `cleanB` of the state) -/
def cleanSnapLinesB (obs : List LineObs) : Bool :=
  obs.all fun o => o.2.1 || lineClean o.2.2 { lo := 0, hi := o.1.data.length, data := o.1.data }

def cleanSnapKeysB (cfg : Config) (obs : List LineObs) (dirty : List Int) : Bool :=
  dirty.all fun a => decide (Int.tmod a cfg.l3LineSize = 0) && obs.any (fun o => o.1.lo == a)

def cleanSnapB (cfg : Config) (obs : List LineObs) (dirty : List Int) : Bool :=
  cleanSnapLinesB obs && cleanSnapKeysB cfg obs dirty

/-! ### the seeded mutation: the flag recorded under the L1 address -/

def writeToL3Bad (s : State) (l1Addr : Word) (data : List Byte) : M State := do
  let s1 := writeNotify s l1Addr.toInt
  let c ← LineCache.write s1.l3 l1Addr.toInt data
  pure { s1 with l3 := c }

def l1WriteBackBad (s : State) (l1Addr : Word) (data : List Byte) : M State := do
  let (present, s1) ← isAddressInL3 s l1Addr.toInt
  if present then writeToL3Bad s1 l1Addr data
  else do
    let mem' ← Model.Mmu.writeToMemory s1.mem l1Addr.toInt data
    pure { s1 with mem := mem' }

end Model.L3

/-
  Proofs/Mvp61Fwd.lean — what operand forwarding MEANS, for all 45 regenerated instruction structs: running an
  instruction with the forward slot `{r ↦ v}` is running it (slot empty) on the register file in which `r` already holds `v`.
  Together with `Proofs.Mvp61.euRun_sends_result` (the producer sends the `RegisterValue` it queues for write-back) and
  `Proofs.Mvp61.euPrepare_receives` (the consumer runs with that value in the slot of the matched register): the consumer of
  a forwarded operand computes what it would compute after the producer's write-back.
-/
import MajoranaVerif.Proofs.Mvp4Instr
import MajoranaVerif.Proofs.Mvp4Basics
import MajoranaVerif.Model.Mvp61
open GoInt Model

set_option linter.unusedSimpArgs false
set_option linter.unusedVariables false

namespace Proofs.Mvp61Fwd
open Proofs.Mvp4

/-- reading any register under the slot `{r ↦ v}` = reading it, slot empty, after `Registers[r] = v`
(map mode, nothing uncommitted, `x0 = 0`, `r ≠ x0`) -/
theorem registerRead_fwd (c : Model.Context) (hr : c.rat = false) (ht : c.Transaction.entries = [])
    (h00 : GoMap.get1 c.Registers 0 = 0#32) (r : Reg) (v : Word) (hr0 : r ≠ 0) (reg : Reg) (seq : Word) :
    Gen.registerRead c { Register := r, Value := v } reg seq =
      Gen.registerRead { c with Registers := c.Registers.set r v } {} reg seq := by
  rw [registerRead_plain { c with Registers := c.Registers.set r v } hr ht]
  unfold Gen.registerRead
  by_cases h : reg = r
  · subst h
    simp [hr0, get1_set]
  · have h' : (reg == r) = false := by simpa using h
    by_cases h0 : reg = 0
    · subst h0
      simp [h', hr, GoMap.get, GoMap.find?, ht]
      have := h00
      simp only [GoMap.get1, GoMap.get, GoMap.find?] at this
      exact this
    · simp [h', hr, GoMap.get, GoMap.find?, ht, h0, get1_set]

/-- **forwarding is an early write-back.**  For every instruction (forward slot empty), in map mode with nothing
uncommitted: `Run` with the slot `{r ↦ v}` equals `Run` on the context whose register file already has `r = v`. -/
theorem run_forward_eq_write (i : Gen.Instr) (hf : fwdOf i = {}) (c : Model.Context) (hr : c.rat = false)
    (ht : c.Transaction.entries = []) (h00 : GoMap.get1 c.Registers 0 = 0#32) (r : Reg) (v : Word) (hr0 : r ≠ 0)
    (labels : GoMap String Word) (pc : Word) (mem : List Byte) (seq : Word) :
    (i.setForward { Register := r, Value := v }).run c labels pc mem seq =
      i.run { c with Registers := c.Registers.set r v } labels pc mem seq := by
  have key : ∀ reg, Gen.registerRead c { Register := r, Value := v } reg seq =
      Gen.registerRead { c with Registers := c.Registers.set r v } {} reg seq :=
    fun reg => registerRead_fwd c hr ht h00 r v hr0 reg seq
  cases i <;> simp only [Gen.Instr.setForward] <;> unfold_instr at hf ⊢ <;>
    (try rw [hf]) <;> (try simp only [key])

/-- the same for `MemoryRead` (the address of a load whose base register is forwarded) -/
theorem memoryRead_forward_eq_write (i : Gen.Instr) (hf : fwdOf i = {}) (c : Model.Context) (hr : c.rat = false)
    (ht : c.Transaction.entries = []) (h00 : GoMap.get1 c.Registers 0 = 0#32) (r : Reg) (v : Word) (hr0 : r ≠ 0)
    (seq : Word) :
    (i.setForward { Register := r, Value := v }).memoryRead c seq =
      i.memoryRead { c with Registers := c.Registers.set r v } seq := by
  have key : ∀ reg, Gen.registerRead c { Register := r, Value := v } reg seq =
      Gen.registerRead { c with Registers := c.Registers.set r v } {} reg seq :=
    fun reg => registerRead_fwd c hr ht h00 r v hr0 reg seq
  cases i <;> simp only [Gen.Instr.setForward] <;> unfold_instr at hf ⊢ <;>
    (try rw [hf]) <;> (try simp only [key])

/-- **the forwarded consumer gets the sequential operand values.**  `c` is the pipeline's context when the consumer
runs (map mode, nothing uncommitted), `a` the architectural context (all older results applied).  If the two agree on
every register the consumer reads except the forwarded one `fr` (no other hazard: the control unit forwards only when the
RAW hazard on `fr` is the ONLY hazard), and the forwarded value is the architectural value of `fr` (its single in-flight
writer's result), then `Run` and `MemoryRead` with the slot `{fr ↦ v}` on `c` are `Run` and `MemoryRead` on `a`. -/
theorem forwarded_operands_sequential (i : Gen.Instr) (hf : fwdOf i = {}) (c a : Model.Context)
    (hr : c.rat = false) (ht : c.Transaction.entries = []) (h00 : GoMap.get1 c.Registers 0 = 0#32)
    (har : a.rat = false) (hat : a.Transaction.entries = [])
    (fr : Reg) (v : Word) (hfr : fr ≠ 0) (hv : GoMap.get1 a.Registers fr = v)
    (hsame : ∀ r ∈ i.readRegisters, r ≠ 0 → r ≠ fr → GoMap.get1 c.Registers r = GoMap.get1 a.Registers r)
    (labels : GoMap String Word) (pc : Word) (mem : List Byte) (seq : Word) :
    (i.setForward { Register := fr, Value := v }).run c labels pc mem seq = i.run a labels pc mem seq ∧
    (i.setForward { Register := fr, Value := v }).memoryRead c seq = i.memoryRead a seq := by
  have hs : SameRegs { c with Registers := c.Registers.set fr v } a i.readRegisters :=
    ⟨hr, har, ht, hat, fun r hrm h0 => by
      show GoMap.get1 (c.Registers.set fr v) r = GoMap.get1 a.Registers r
      rw [get1_set]
      by_cases h : r = fr
      · subst h; simp only [beq_self_eq_true, if_true, hv]
      · have h' : (r == fr) = false := by simpa using h
        simp only [h', Bool.false_eq_true, if_false]
        exact hsame r hrm h0 h⟩
  exact ⟨(run_forward_eq_write i hf c hr ht h00 fr v hfr labels pc mem seq).trans (run_congr i hf hs labels pc mem seq),
         (memoryRead_forward_eq_write i hf c hr ht h00 fr v hfr seq).trans (memoryRead_congr i hf hs seq)⟩

end Proofs.Mvp61Fwd

/-
  Proofs/Mvp80.lean — facts about the cycle-accurate model of MVP-8.0 (`Model.Mvp80` = `Model.Mvp70` with the configuration
  flags `v71`, `Msi.v80` and a shared L3): the lower bound of property C12 (the frame lemmas of `Proofs.Mvp70` cover the
  L3 paths of the cache controller), and a kernel-evaluated witness.
-/
import MajoranaVerif.Model.Mvp80
import MajoranaVerif.Proofs.Mvp71
open GoInt

namespace Proofs.Mvp80
open Model.Mvp80
open Model.Seq (App Halt)

theorem init_shape {ctx : Model.Context} {par : Nat} {s : Model.Mvp70.State} (h : init ctx par = .ok s) :
    s.base.eus.length = par ∧ s.base.executed = 0 ∧ s.base.cycles = 0 ∧ s.msi.v80 = true := by
  unfold init at h
  split at h
  · cases h
  · simp only [bind, Except.bind, pure, Except.pure] at h
    split at h
    · cases h
    · rename_i s0 h0
      split at h
      · cases h
      · cases h
        have := Proofs.Mvp71.init_shape h0
        exact ⟨this.1, this.2.1, this.2.2.1, rfl⟩

/-- **lower bound (C12) for MVP-8.0** -/
theorem run_executed_le (app : App) (ctx : Model.Context) (par fuel : Nat) :
    (run app ctx par fuel).final.base.executed ≤ par * (run app ctx par fuel).ticks ∧
    ((run app ctx par fuel).final.base.executed : Int) ≤ par * (run app ctx par fuel).final.base.cycles := by
  unfold run
  split
  · rename_i s hs
    obtain ⟨h1, h2, h3, _⟩ := init_shape hs
    have h := Proofs.Mvp70.runFrom_bound app fuel s 0
    rw [h1, h2, h3] at h
    simp only [Nat.mul_zero, Nat.add_zero, Nat.zero_add, Int.natCast_zero, Int.mul_zero, Int.le_refl, true_implies] at h
    exact ⟨h.2.2.1, h.2.2.2⟩
  · refine ⟨Nat.zero_le _, ?_⟩
    show (((default : Model.Mvp70.State).base.executed : Nat) : Int) ≤ par * (default : Model.Mvp70.State).base.cycles
    exact Int.le_of_eq (by rfl)

/-! ### the store of KF-ooo-mem's witness, through the L3

`lb t2, 7(zero); sh zero, 4, zero` (`Proofs.Mvp61Witness.memApp`, memory `0x11…`).  With one core: the load brings the
128-byte block into L3 and the 64-byte line into L1; the store finds the line in L1.  With two cores the store runs on core
1: core 0 must write the line back — into the L3 (50 cycles), not to memory (309 cycles, as on MVP-7.0): 1093 cycles instead
of MVP-7.0's 1249.  At the end the modified L1 line goes to L3 and the L3 block to memory: the half word is stored. -/

-- `DecidableEq` of the tuple needs more than the default 128 instance-synthesis steps
set_option synthInstance.maxSize 512

/-- `Proofs.Mvp70Witness.obs` and the number of lines the L3 holds at the end -/
def obs (r : Model.Mvp70.Result) (ra : Reg) : (Option Model.Seq.Halt × Int × Nat × Nat × Nat × Word × List Byte) × Nat :=
  (Proofs.Mvp70Witness.obs r ra, r.final.l3.lines.length)

theorem mem_p1 : obs (run Proofs.Mvp61Witness.memApp (Proofs.Mvp61Witness.ctx0 128) 1 2000) 7 =
    ((some .offEnd, 1089, 730, 2, 0, 0x11#32, Proofs.Mvp61Witness.stored), 1) := by
  decide +kernel

theorem mem_p2 : obs (run Proofs.Mvp61Witness.memApp (Proofs.Mvp61Witness.ctx0 128) 2 2000) 7 =
    ((some .offEnd, 1093, 734, 2, 1, 0x11#32, Proofs.Mvp61Witness.stored), 1) := by
  decide +kernel

end Proofs.Mvp80
